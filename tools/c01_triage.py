#!/usr/bin/env python3
"""Builds tables/c01_bounds.json from a dump of the compiler-unproven sites (VERIF_C01_DUMP=1)
using the reasons below. Every rule here was written after reading the site(s) it covers at the
audited commit; a site no rule covers stays untriaged (and is a violation). Not run by any check:
the checker only reads the frozen JSON."""
import sys, json, re
dumps = sys.argv[1:]
R = []  # (func regex, kind regex, expr regex, reason)
def rule(fn, kind, expr, reason): R.append((re.compile(fn), re.compile(kind), re.compile(expr), reason))

# --- inlined library helpers (the check sits inside the callee's own invariants)
rule(r'.', r'Is', r'^hexutil\.Encode\(', "inlined go-ethereum hexutil.Encode: indexes a buffer it just allocated with len 2+2*len(in)")
rule(r'.', r'Is', r'^common\.Bytes2Hex\(', "inlined hex encoding into a freshly sized buffer")
rule(r'.', r'IsSliceInBounds', r'^\w+\.(Bytes|String)\(\)$', "inlined bytes.Buffer accessor: buf[off:] with the buffer's own invariant off <= len")
rule(r'.', r'Is', r'^target\.IP\(\)\.To4\(\)$', "inlined net.IP.To4: guarded inside by len(ip) == 16")
rule(r'testlog', r'Is', r'.', "test logging helper in a non-test file; only reachable through class-hierarchy resolution of the logger interface")
# --- generated / hand-edited fastssz decoders (layout verified by C14.R1)
rule(r'\)\.UnmarshalSSZ(\$\d+)?$', r'IsInBounds', r'\[(indx|ii)\]$', "element index inside a decoder loop/callback: the slice was made with exactly the element count the loop/UnmarshalDynamic iterates over")
rule(r'\)\.UnmarshalSSZ$', r'IsSliceInBounds', r'\[ii \* \d+:\(ii \+ 1\) \* \d+\]$', "window ii*k:(ii+1)*k with ii below count where count*k is the (constant or DivideInt2-checked) window length")
rule(r'\(\*portalwire\.AcceptV1\)\.UnmarshalSSZ$', r'IsSliceInBounds', r'^ssz\.ExtendUint8\(', "inlined fastssz ExtendUint8: reslices to a length it just ensured capacity for")
# --- ztyp list callbacks
rule(r'\)\.(Deserialize|Serialize)\$1$', r'IsInBounds', r'\[i\]\)?$', "ztyp List callback: invoked with i below the length handed to dr.List / w.List (Deserialize appends before indexing)")
# --- sort / shuffle callbacks
rule(r'findNodesCloseToContent\$1$', r'IsInBounds', r'^allNodes\[[ij]\]$', "sort.Slice less callback: i, j < len(allNodes)")
rule(r'appendBucketNodes\$1$', r'IsInBounds', r'^result\[[ij]\]$', "rand.Shuffle swap callback: i, j < len(result) passed as n")
# --- 32-byte digests converted to arrays
rule(r'findNodesCloseToContent\$1$|portalwire\.inRange$|\)\.ContentLookup$', r'IsSliceInBounds', r'^enode\.ID\(contentId\)$', "contentId is the output of the network's toContentId (a SHA-256 / keccak digest, 32 bytes; nil is rejected by the callers)")
rule(r'GetBeaconBlockProof$|GetExecutionBlockProof$', r'IsSliceInBounds', r'^tree\.Root\(proof\)$', "element of a [][]byte with ssz-size \"N,32\": the decoder makes every element exactly 32 bytes (C14.R1 fixed windows)")
rule(r'validat(e|e\w+)Header$', r'IsSliceInBounds', r'tree\.Root\(proof\.BeaconBlockRoot\)|GetBeaconBlockProof\(\)$|GetExecutionBlockProof\(\)$|ExecutionBlockProof\(headerHash', "BeaconBlockRoot has ssz-size 32 and the proof accessors convert 32-byte vector elements (checks inlined from the accessors)")
rule(r'ExecutionBlockProof$', r'IsSliceInBounds', r'^tree\.Root\(headerHash\)$', "headerHash is types.Header.Hash().Bytes(): 32 bytes")
rule(r'\(\*state\.EncodedTrieNode\)\.NodeHash$|state\.checkNodeHash$', r'IsSliceInBounds', r'Keccak256|NodeHash\(\)', "crypto.Keccak256 returns 32 bytes")
rule(r'ping_ext\.New\w+Payload$', r'IsSliceInBounds', r'^common\.Root\(radius\)$', "radius is uint256.Int.MarshalSSZ() of the store's radius: always 32 bytes")
rule(r'BeaconValidator\)\.ValidateContent$', r'IsSliceInBounds', r'^common\.Root\(latestFinalizedRoot\)$', "value returned by this node's own light client over the in-process RPC (hex of a 32-byte root), not peer data")
# --- length established by a caller / earlier check the compiler cannot see
rule(r'generalSummariesValidation$', r'IsSliceInBounds', r'^contentKey\[1:\]$', "only called from ValidateContent after the empty-key check (len >= 1)")
rule(r'EphemeralStorage\)\.Get$', r'IsSliceInBounds', r'^contentKey\[1:\]$', "only reached through the hybrid history store when the selector byte exists (isEphemeralOfferType checks len > 0)")
rule(r'state\.Storage\)\.put\w+$', r'IsSliceInBounds', r'^contentKey\[1:\]$', "inner key of a key container that just deserialized successfully (non-empty); used for logging only")
rule(r'beacon\.reverseCompare$', r'IsInBounds', r'^b\[i\]$', "both operands are 8 bytes at every call site (key length == 9 and record length >= 8 are checked by Get/Put)")
rule(r'portalwire\.decodeSingleContent$', r'IsSliceInBounds', r'^data\[headerSize:', "guarded by len(data) >= headerSize+int(contentLen) (the same expression; re-checked by C15.R2)")
rule(r'state\.validateTrieProof$', r'IsSliceInBounds', r'\[1:\]$', "after the len(*proof) == 0 rejection")
rule(r'validation\.TurnToPreMergeProof$|validatePreMergeHeader$', r'IsSliceInBounds', r'proof\[start:end\]|^TurnToPreMergeProof\(proof\)$', "i < len(proof)/32 and len(proof) % 32 == 0 was checked")
rule(r'BigEndian|processContent$|processOffer$', r'IsInBounds', r'^binary\.BigEndian\.Uint16\(', "connection id field has ssz-size 2 and the message decoded successfully (exact-size check, C14.R1)")
rule(r'handleFindNodes$', r'IsInBounds', r'^distances\[i\]$', "distances was made with len(request.Distances), the range it is indexed over")
rule(r'filterContentKeysV0$|handleOffer$', r'IsInBounds', r'^bitfield\.NewBitlist\(', "inlined go-bitfield constructor: writes the length bit into a buffer sized n/8+1")
rule(r'filterContentKeysV0$', r'IsInBounds', r'SetBitAt\(uint64\(i\)', "inlined SetBitAt: i < len(request.ContentKeys) = the bit list's length (returns early beyond it)")
rule(r'filterContentKeysV1$', r'IsInBounds', r'^acceptV1\.ContentKeys\[i\]$', "the verdict slice was made with len(request.ContentKeys), the range it is indexed over (C09.R1)")
rule(r'processOffer\$2$', r'IsInBounds', r'\[index\]$', "index comes from the accept's indices, all below its key length, which was checked to equal the number of items offered (C09.R5)")
rule(r'findNodesCloseToContent$', r'IsSliceInBounds', r'^allNodes\[:limit\]$', "under len(allNodes) > limit")
rule(r'getOrStoreHighestVersion$', r'IsInBounds', r'^p\.currentVersions\[0\]$', "the local version list is the advertised default {0,1} or the non-empty list in the local record (configuration, not peer input)")
rule(r'GetUpdates$', r'IsInBounds', r'^res\[i\]$', "res was made with len(lightClientUpdateRange), the range it is indexed over")
rule(r'nodesByDistance\)\.push$', r'Is', r'.', "ix = sort.Search(len) <= len and the copy/insert happens only under ix < end = old len (go-ethereum code; bound re-checked by C10.R4)")
rule(r'Table\)\.bucket(AtDistance)?$', r'IsInBounds', r'.', "d is a log distance in [0,256] and d > 239 on this path: index in [0,16] (C07.R4)")
rule(r'pebble\.xor$|pebble\.ContentStorage\)\.(Get|Put)$', r'IsInBounds', r'nodeId\[i\]|^xor\(', "padding is 32 bytes or has the node id's length (32), i ranges over it")
rule(r'TraverseTrieNode$', r'IsInBounds', r'^v\.Children\[first\]$', "first is a nibble (< 16) by construction of every path (Nibbles.Deserialize / unpackNibblePair), Children has 17 slots")
rule(r'trie\.compactToHex$', r'Is', r'.', "after the empty check keybytesToHex returns 2n+1 >= 3 nibbles; chop is 1 or 2")
rule(r'trie\.keybytesToHex$', r'IsInBounds', r'.', "nibbles has length 2*len(str)+1 and i < len(str)")
# --- sites only the whole-program VTA call graph (thorough tier) reaches: serialisation of this node's own values, debugging helpers
rule(r'\)\.MarshalSSZTo$', r'IsInBounds', r'\[ii\]$', "encoder loop ii < N entered only after the len(field) != N check (the value is this node's own)")
rule(r'GossipAndReturnPeers\$1$', r'IsInBounds', r'^fartherNodes\[[ij]\]$', "rand.Shuffle swap callback: i, j < len(fartherNodes) passed as n")
rule(r'gnetConn\)\.OnTraffic$', r'Is|TypeAssert', r'.', "optional gnet datagram transport (off by default): raw datagrams are the discv5 layer's input, not one of the property's entry points; with a dual-stack listener an IPv6 sender would make To4() nil - recorded as an observation in DESIGN.md")
rule(r'state\.Nibbles\)\.Serialize$', r'IsInBounds', r'Nibbles\[i( \+ 1)?\]$', "serialises this node's own key: even branch needs an even nibble count, odd branch starts at 1 with an odd count (FromUnpackedNibbles/Deserialize build the value)")
rule(r'state\.Nibbles\)\.HashTreeRoot$', r'Panic', r'explicit', "unimplemented hashing stub: nothing hashes state keys (only reachable through the HTR interface in the over-approximate graph)")
rule(r'fullNode\)\.fstring$', r'IsInBounds', r'^indices\[i\]$', "debug printer: i ranges over the 17 children, indices has 17 entries")
rule(r'\)\.(HashTreeRoot|Serialize|Deserialize)\$1$', r'IsInBounds', r'\[i\]\)?$', "ztyp list callback: invoked with i below the length it was given")
# --- R3
rule(r'processOffer(\$2)?$', r'TypeAssert', r'OfferRequest', "request is built by this node; Kind and the concrete request type are set together at construction")
rule(r'ContentLookup\$1$', r'TypeAssert', r'\[\]byte', "results with a non-ENRs flag are produced by contentLookupWorker with []byte content only")
rule(r'Radius$|inRadius$', r'TypeAssert', r'uint256\.Int', "the atomic.Value only ever stores *uint256.Int (C06.R5 enumerates the stores)")
rule(r'ForkedLightClient\w+\)\.Get\w+Slot$', r'TypeAssert', r'LightClient', "asserted type is the one Deserialize allocates for the same fork digest (same switch)")
rule(r'TraverseTrieNode$', r'TypeAssert', r'valueNode', "decodeShort stores a valueNode exactly when the key carries the terminator that selects this branch")
rule(r'Table\)\.(addFoundNode|addInboundNode|trackRequest)$|lookup\)\.(advance|slowdown)$', r'Panic', r'explicit', "go/ssa's 'blocking select matched no case' stub after a select without default (unreachable)")
rule(r'MockStorage\)\.Radius$|GetErrorPayloadBytes$', r'MustCall', r'Must', "Must* on constants defined in the source")

sites = {}
import itertools
for line in itertools.chain(*[open(d) for d in dumps]):
    f = line.rstrip('\n').split('\t')
    if f[0] == 'UNTRIAGED':
        fn, kind, expr, pos, cnt = f[1], f[2], f[3], f[4], int(f[5][1:])
        raw = f[7] if len(f) > 7 else expr
    elif f[0] == 'UNTRIAGED-R3':
        parts = f[1].split(' ')
        # "<func> <Kind> <rest>"
        for k in ('TypeAssert', 'Panic', 'MustCall'):
            if ' ' + k + ' ' in f[1]:
                fn, rest = f[1].split(' ' + k + ' ', 1)
                kind, expr = k, rest
        cnt = int(f[2][1:]); pos = f[3]; raw = expr
    else:
        continue
    sites[(fn, kind, expr)] = max(cnt, sites.get((fn, kind, expr), (0, raw))[0]), raw
out, missing = [], []
for (fn, kind, expr), (cnt, raw) in sorted(sites.items()):
    for rf, rk, re_, reason in R:
        # rules are written against the expression as it appears in the source; the table stores the
        # normalised form (locals replaced by their types) that the checker keys on
        if rf.search(fn) and rk.search(kind) and re_.search(raw):
            out.append({"func": fn, "kind": kind, "expr": expr, "count": cnt, "reason": reason})
            break
    else:
        missing.append((fn, kind, expr))
out.append({"func": "(*portalwire.Table).addInboundNode", "kind": "ChanOp", "expr": "receive", "count": 1,
            "reason": "rendezvous with the table loop after the op was accepted: the loop answers every accepted op and never waits on peers (go-ethereum design)"})
json.dump({"comment": "C01 triage table: compiler-unproven bounds checks, unchecked assertions, explicit panics and Must* calls on peer-reachable code that were read and found safe. Keyed by function + kind + expression (never by line). Generated once from tools/c01_triage.py; the checker reads only this file.",
           "classes": [], "sites": out}, open('/verif/tables/c01_bounds.json', 'w'), indent=1)
print("triaged", len(out), "untriaged", len(missing))
for m in missing: print("  MISSING", m)
