#!/usr/bin/env python3
"""Checker self-test. Builds patches from tools/selftest_cases.py (mode `gen`) or runs the
committed patches under /verif/refactors and /verif/mutants (mode `run`): each patch is applied
to a scratch worktree of /repo HEAD outside /repo and /verif, the variant must still build, the
named checks are run against it (one process per variant), and the worktree is removed.
Refactors must stay silent, mutants must be reported by the property named. /repo is never
touched. Outcome is printed and written to /verif/selftest/result.json."""
import sys, os, subprocess, json, shutil, time, glob
V = os.path.dirname(os.path.dirname(os.path.abspath(__file__)))
sys.path.insert(0, os.path.join(V, 'tools'))
ENV = dict(os.environ)
def sh(cmd, cwd=None):
    return subprocess.run(['bash', '-c', '. %s/env.sh; %s' % (V, cmd)], cwd=cwd, capture_output=True, text=True)
SCR = '/tmp/verif-selftest-%d' % os.getpid()
def worktree(name):
    d = os.path.join(SCR, name)
    sh('git -C /repo worktree remove --force %s' % d)
    os.makedirs(SCR, exist_ok=True)
    r = sh('git -C /repo worktree add -q --detach %s HEAD' % d)
    if r.returncode != 0: raise RuntimeError(r.stderr)
    return d
def rmtree(d):
    sh('git -C /repo worktree remove --force %s' % d)
    shutil.rmtree(d, ignore_errors=True)
def gen():
    import selftest_cases as C
    for kind, cases in (('refactors', C.REFACTORS), ('mutants', C.MUTANTS)):
        for case in cases:
            cid, props, edits = case
            d = worktree('gen-' + cid)
            ok = True
            for f, old, new in edits:
                p = os.path.join(d, f); s = open(p).read()
                if s.count(old) != 1:
                    print('EDIT-MISMATCH', cid, f, s.count(old)); ok = False; break
                open(p, 'w').write(s.replace(old, new))
            if ok:
                sh('gofmt -w ' + ' '.join(sorted(set(e[0] for e in edits))), cwd=d)
                b = sh('go build ./... && go vet ' + ' '.join(sorted(set('./' + os.path.dirname(e[0]) + '/' for e in edits))), cwd=d)
                if b.returncode != 0:
                    print('DOES-NOT-BUILD', cid, b.stderr[-400:]); ok = False
            if ok:
                diff = sh('git diff', cwd=d).stdout
                if kind == 'refactors':
                    out = os.path.join(V, 'refactors', cid + '.patch'); meta = {'run': props}
                else:
                    out = os.path.join(V, 'mutants', props, cid + '.patch'); meta = {'expect': props}
                os.makedirs(os.path.dirname(out), exist_ok=True)
                open(out, 'w').write(diff)
                json.dump(meta, open(out[:-6] + '.json', 'w'))
                print('generated', out)
            rmtree(d)
def run(filter_=None, prop=None):
    res = []
    allprops = ['C%02d' % i for i in range(1, 21)]
    cases = [(p, 'refactor') for p in sorted(glob.glob(V + '/refactors/*.patch'))] + [(p, 'mutant') for p in sorted(glob.glob(V + '/mutants/*/*.patch'))]
    if prop:
        # the property's own share of the independent corpora: refactors written for it (must stay
        # silent) and the confirmed seeded changes that break it (must be reported)
        cases += [(p, 'refactor') for p in sorted(glob.glob(V + '/refactors-independent/%s-r*.patch' % prop))]
        # second wave (heavier rewrites); the ones listed in KNOWN_LIMITS.txt are documented limits
        # of the recognisers (DESIGN.md section 10) and are reported as such, not run
        limits = set()
        lf = V + '/refactors-independent/KNOWN_LIMITS.txt'
        if os.path.exists(lf):
            limits = set(l.split()[0] for l in open(lf) if l.strip() and not l.startswith('#'))
        cases += [(p, 'refactor') for p in sorted(glob.glob(V + '/refactors-independent/%s-s*.patch' % prop)) if os.path.basename(p)[:-6] not in limits]
        # fifth wave (ordinary clean-ups written after all rules existed)
        cases += [(p, 'refactor') for p in sorted(glob.glob(V + '/refactors-independent/%s-v*.patch' % prop)) if os.path.basename(p)[:-6] not in limits]
        cases += [(p, 'refactor') for p in sorted(glob.glob(V + '/refactors-independent/%s-w*.patch' % prop)) if os.path.basename(p)[:-6] not in limits]
        cases += [(p, 'mutant') for p in sorted(glob.glob(V + '/seeded/%s-*/patch.diff' % prop))]
    for patch, kind in cases:
        cid = os.path.basename(patch)[:-6]
        if patch.endswith('/patch.diff'): cid = 'seed-' + os.path.basename(os.path.dirname(patch))
        if filter_ and filter_ not in cid: continue
        if os.path.exists(patch[:-6] + '.json') and not patch.endswith('/patch.diff'):
            meta = json.load(open(patch[:-6] + '.json'))
        elif kind == 'refactor':
            meta = {'run': [prop]}
        else:
            meta = {'expect': prop}
        if prop and not (meta.get('expect') == prop or prop in meta.get('run', [])): continue
        d = worktree('run-' + cid)
        a = sh('git apply %s' % patch, cwd=d)
        entry = {'case': cid, 'kind': kind}
        if a.returncode != 0:
            entry['outcome'] = 'patch-does-not-apply'  # the repository moved on; regenerate with `gen`
        else:
            b = sh('go build ./...', cwd=d)
            if b.returncode != 0:
                entry['outcome'] = 'does-not-build'
            else:
                props = meta.get('run') or [meta['expect']]
                if prop: props = [prop]
                if kind == 'refactor' and os.environ.get('SELFTEST_ALL'): props = allprops
                fired = {}
                ev = os.path.join(SCR, 'ev-' + cid); os.makedirs(ev, exist_ok=True)
                shutil.copy(os.path.join(V, 'known_findings.json'), ev)
                os.makedirs(os.path.join(ev, 'tables'), exist_ok=True)
                for t in glob.glob(V + '/tables/*'): shutil.copy(t, os.path.join(ev, 'tables'))
                for pr in props:
                    r = sh('%s -prop %s -repo %s -verif %s' % (os.environ.get('VCHK', V + '/bin/verifchk'), pr, d, ev))
                    viol = [l for l in r.stdout.split('\n') if l.startswith('violation:')]
                    if r.returncode != 0: fired[pr] = viol[:3] or [r.stdout[-300:] + r.stderr[-300:]]
                shutil.rmtree(ev, ignore_errors=True)
                if kind == 'refactor':
                    entry['outcome'] = 'silent' if not fired else 'FALSE-ALARM'
                else:
                    entry['outcome'] = 'detected' if meta['expect'] in fired else 'MISSED'
                entry['fired'] = fired
        rmtree(d)
        print(entry['case'], entry['kind'], entry['outcome'], flush=True)
        if entry['outcome'] in ('FALSE-ALARM', 'MISSED'):
            for k, v in entry.get('fired', {}).items():
                for l in v: print('    ', k, l[:300])
        res.append(entry)
    os.makedirs(os.path.join(V, 'selftest'), exist_ok=True)
    summ = {}
    for e in res: summ[e['kind'] + ':' + e['outcome']] = summ.get(e['kind'] + ':' + e['outcome'], 0) + 1
    name = 'result.json' if not prop else 'result-%s.json' % prop
    json.dump({'summary': summ, 'cases': res, 'at': time.time()}, open(os.path.join(V, 'selftest', name), 'w'), indent=1)
    print(summ)
if __name__ == '__main__':
    if sys.argv[1] == 'gen': gen()
    elif sys.argv[1] == 'prop': run(None, sys.argv[2])
    else: run(sys.argv[2] if len(sys.argv) > 2 else None)
    shutil.rmtree(SCR, ignore_errors=True)
