#!/usr/bin/env python3
"""Regenerates /verif/MANIFEST.json from the list of implemented properties (checker -list)
and the per-property metadata below. Not part of any check."""
import json, subprocess, os
V = os.path.dirname(os.path.dirname(os.path.abspath(__file__)))
props = [json.loads(l) for l in open(os.path.join(V, 'properties.jsonl'))]
impl = subprocess.run([os.path.join(V, 'bin/verifchk'), '-list'], capture_output=True, text=True).stdout.split()
meta = json.load(open(os.path.join(V, 'tools/manifest_meta.json')))
checks = []
na = []
for p in props:
    pid = p['id']
    m = meta.get(pid)
    if pid in impl and m and not m.get('not_applicable'):
        checks.append({
            "property_id": pid,
            "quick_cmd": f"./run.sh {pid} quick",
            "thorough_cmd": f"./run.sh {pid} thorough",
            "evidence_file": f"/verif/evidence/{pid}.json",
            "replay_cmd_template": f"./run.sh {pid} quick  # violations are listed with file:line in {{path}}",
            "engine": "verifchk",
            "level_claimed": {"category": "other", "text": m['level_text'], "design_ref": m.get('design_ref', f"DESIGN.md §3 {pid}")},
            "level_note": m['level_note'],
            "technique": m['technique'],
        })
    else:
        na.append({"property_id": pid, "reason": (m or {}).get('na_reason', "check not built yet (work in progress); no claim is made")})
man = {
    "version": 1,
    "setup_cmd": "./setup.sh",
    "hooks": {"guard": "verif", "enable": "none: the checks read source (go/packages + go/ssa); nothing is compiled into /repo, the reserved build tag 'verif' is unused",
              "baseline_off_cmd": "cd /repo && . /verif/env.sh && go test -mod=mod -vet=off -count=1 -timeout 25m ./...",
              "source_commits": [], "add_only": True},
    "engines": [{"name": "verifchk", "path": "/verif/checker", "serves_properties": [c['property_id'] for c in checks],
                 "kind_free_text": "repository-specific static analyser over the type-checked program and go/ssa: must-pass-through (cut) checks on CFG edges with fact decomposition, provenance slices, who-may-write inventories, interprocedural lock-held dataflow, typestate, schema/constant agreement"}],
    "checks": checks,
    "notes": "All claims are at level 'other': structural necessary conditions decided statically from /repo's current source; what each does not decide is stated in level_text and in DESIGN.md. Genuine defects found are either repaired by fix: commits in /repo or listed in known_findings.json.",
    "not_applicable": na,
}
json.dump(man, open(os.path.join(V, 'MANIFEST.json'), 'w'), indent=1)
print("checks:", [c['property_id'] for c in checks], "na:", len(na))
