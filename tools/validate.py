#!/usr/bin/env python3
import json, jsonschema, glob, sys
jsonschema.validate(json.load(open('/verif/MANIFEST.json')), json.load(open('/root/.vp/MANIFEST.schema.json')))
es = json.load(open('/root/.vp/EVIDENCE.schema.json'))
for f in sorted(glob.glob('/verif/evidence/C??.json')):
    jsonschema.validate(json.load(open(f)), es)
print('manifest + %d evidence files valid' % len(glob.glob('/verif/evidence/C??.json')))
