"""Self-test corpus of the checker (tests the checker, not /repo): behaviour-preserving refactors
that must stay silent and hand-made mutants that must be reported. Each case is a list of
(file, old, new) edits applied to a scratch worktree of /repo HEAD; tools/selftest.py turns them
into patches under /verif/refactors and /verif/mutants and runs the named checks on them."""

REFACTORS = [
 # id, properties to run, edits
 ("r01-framing-extract-bound", ["C15", "C01"], [("portalwire/common.go",
   """	headerSize := int(bytesRead)
	if len(data) < headerSize+int(contentLen) {
		return nil, data, errors.New("insufficient data for content length")
	}

	content = data[headerSize : headerSize+int(contentLen)]
	remaining = data[headerSize+int(contentLen):]
""",
   """	hdr := int(bytesRead)
	end := hdr + int(contentLen)
	if len(data) < end {
		return nil, data, errors.New("insufficient data for content length")
	}

	content = data[hdr:end]
	remaining = data[end:]
""")]),
 ("r02-get-bytes-clone", ["C04", "C17"], [("storage/pebble/storage.go",
   """	out := make([]byte, len(data))
	copy(out, data)
	closer.Close()
	return out, nil
""",
   """	out := bytes.Clone(data)
	closer.Close()
	return out, nil
""")]),
 ("r03-addnode-nested-if", ["C07", "C18"], [("portalwire/table.go",
   """	if len(b.entries) >= bucketSize {
		// Bucket full, maybe add as replacement.
		tab.log.Debug("the bucket is full and will add in replacement", "id", req.node.ID())
		tab.addReplacement(b, req.node)
		return false
	}
	if !tab.addIP(b, req.node.IPAddr()) {
		// Can't add: IP limit reached.
		tab.log.Debug("IP limit reached", "id", req.node.ID())
		return false
	}
""",
   """	if len(b.entries) < bucketSize {
		if !tab.addIP(b, req.node.IPAddr()) {
			// Can't add: IP limit reached.
			tab.log.Debug("IP limit reached", "id", req.node.ID())
			return false
		}
	} else {
		// Bucket full, maybe add as replacement.
		tab.log.Debug("the bucket is full and will add in replacement", "id", req.node.ID())
		tab.addReplacement(b, req.node)
		return false
	}
""")]),
 ("r04-body-array-compare", ["C02"], [("history/history_network.go",
   """	if hash := types.DeriveSha(types.Transactions(body.Transactions), trie.NewStackTrie(nil)); !bytes.Equal(hash[:], header.TxHash.Bytes()) {
		return ErrTxHashIsNotEqual
	}
""",
   """	if txRoot := types.DeriveSha(types.Transactions(body.Transactions), trie.NewStackTrie(nil)); txRoot != header.TxHash {
		return ErrTxHashIsNotEqual
	}
""")]),
 ("r05-header-validator-commute", ["C03"], [("validation/header_validator.go",
   """	genIndex := 2*epochSize + blockRootIndex
	historicalRootIndex := proof.Slot / epochSize
""",
   """	genIndex := blockRootIndex + epochSize*2
	historicalRootIndex := proof.Slot / epochSize
"""), ("validation/header_validator.go",
   """	epochIndex := history.GetEpochIndexByHeader(*header)
""",
   """	epochIndex := header.Number.Uint64() / history.EpochSize
""")]),
 ("r06-lightclient-period-if", ["C12"], [("beacon/light_client.go",
   """	validPeriod := false
	if c.Store.NextSyncCommittee != nil {
		validPeriod = updateSigPeriod == storePeriod || updateSigPeriod == storePeriod+1
	} else {
		validPeriod = updateSigPeriod == storePeriod
	}
	if !validPeriod {
		return ErrInvalidPeriod
	}
""",
   """	if updateSigPeriod != storePeriod {
		if c.Store.NextSyncCommittee == nil || updateSigPeriod != storePeriod+1 {
			return ErrInvalidPeriod
		}
	}
""")]),
 ("r07-lookup-break-form", ["C10"], [("portalwire/lookup.go",
   """	for i := 0; i < len(it.result.entries) && it.queries < alpha; i++ {
		n := it.result.entries[i]
""",
   """	for i := 0; i < len(it.result.entries); i++ {
		if it.queries >= alpha {
			break
		}
		n := it.result.entries[i]
""")]),
 ("r08-gossip-merged-source-test", ["C20", "C16"], [("portalwire/portal_protocol.go",
   """				if srcNodeId == nil {
					gossipNodes = append(gossipNodes, n)
				} else if n.ID() != *srcNodeId {
					gossipNodes = append(gossipNodes, n)
				}
""",
   """				if srcNodeId == nil || n.ID() != *srcNodeId {
					gossipNodes = append(gossipNodes, n)
				}
""")]),
 ("r09-udp-port-lt", ["C11"], [("portalwire/portal_protocol.go",
   """	if n.UDP() <= 1024 {
		return nil, errLowPort
	}
""",
   """	if n.UDP() < 1025 {
		return nil, errLowPort
	}
""")]),
 ("r10-path-consumed-gt", ["C13"], [("state/validation.go",
   """	if len(p) != 0 {
		return errors.New("path is too long")
	}
""",
   """	if len(p) > 0 {
		return errors.New("path is too long")
	}
""")]),
 ("r11-parse-accept-if-chain", ["C19", "C09"], [("portalwire/portal_protocol_v1.go",
   """	switch version {
	case 0:
		accept := &Accept{}
		err = accept.UnmarshalSSZ(data)
		if err != nil {
			return nil, err
		}
		return accept, nil
	case 1:
		accept := &AcceptV1{}
		err = accept.UnmarshalSSZ(data)
		if err != nil {
			return nil, err
		}
		return accept, nil
	default:
		return nil, ErrUnsupportedVersion
	}
""",
   """	if version == 0 {
		accept := &Accept{}
		if err = accept.UnmarshalSSZ(data); err != nil {
			return nil, err
		}
		return accept, nil
	} else if version == 1 {
		accept := &AcceptV1{}
		if err = accept.UnmarshalSSZ(data); err != nil {
			return nil, err
		}
		return accept, nil
	}
	return nil, ErrUnsupportedVersion
""")]),
 ("r12-prune-sync-option", ["C17", "C05"], [("storage/pebble/storage.go",
   """	err = batch.Commit(&pebble.WriteOptions{Sync: true})
""",
   """	err = batch.Commit(pebble.Sync)
""")]),
 ("r13-inrange-lt", ["C06", "C09", "C20"], [("portalwire/portal_protocol.go",
   """	return nodeRadius.Gt(new(uint256.Int).SetBytes32(distance[:]))
""",
   """	return new(uint256.Int).SetBytes32(distance[:]).Lt(nodeRadius)
""")]),
 ("r14-talk-empty-lt1", ["C01"], [("portalwire/portal_protocol.go",
   """	if len(msg) == 0 {
		return nil
	}
	msgCode := msg[0]
""",
   """	if len(msg) < 1 {
		return nil
	}
	msgCode := msg[0]
""")]),
 ("r15-mutex-rename", ["C05", "C04", "C06", "C17"], [("storage/pebble/storage.go", "	mu sync.Mutex\n", "	putLock sync.Mutex\n"),
   ("storage/pebble/storage.go", "	c.mu.Lock()\n	defer c.mu.Unlock()\n", "	c.putLock.Lock()\n	defer c.putLock.Unlock()\n")]),
 ("r16-offer-release-helper-order", ["C16"], [("portalwire/portal_protocol.go",
   """		default:
			permit.Release()
			p.Log.Warn("offer queue is full, drop offer request", "network", p.protocolName, "nodeId", n.ID(), "addr", n.IPAddr().String())
""",
   """		default:
			p.Log.Warn("offer queue is full, drop offer request", "network", p.protocolName, "nodeId", n.ID(), "addr", n.IPAddr().String())
			permit.Release()
""")]),
 ("r17-truncate-continue-form", ["C08", "C11"], [("portalwire/portal_protocol.go",
   """		if totalSize+len(enrBytes)+enrOverhead > maxSize {
			break
		} else {
			res = append(res, enrBytes)
			totalSize = totalSize + len(enrBytes) + enrOverhead
		}
""",
   """		need := len(enrBytes) + enrOverhead
		if totalSize+need > maxSize {
			break
		}
		res = append(res, enrBytes)
		totalSize += need
""")]),
 ("r18-handle-response-early-return", ["C18", "C07"], [("portalwire/table.go",
   """	if fails >= maxFindnodeFailures && len(b.entries) >= bucketSize/4 {
		tab.deleteInBucket(b, op.node.ID())
	}
""",
   """	if len(b.entries) >= bucketSize/4 {
		if fails >= maxFindnodeFailures {
			tab.deleteInBucket(b, op.node.ID())
		}
	}
""")]),
 ("r19-bump-old-record-local", ["C18", "C07"], [("portalwire/table.go",
   """	// Apply update.
	n.Node = newRecord
	if ipchanged || portchanged {
""",
   """	// Apply update.
	old := n.Node
	n.Node = newRecord
	if ipchanged || newRecord.UDP() != old.UDP() {
"""), ("portalwire/table.go",
   """	portchanged := newRecord.UDP() != n.UDP()
""", "")]),
 ("r20-open-restore-counter-early", ["C17", "C05"], [("storage/pebble/storage.go",
   """		size := binary.BigEndian.Uint64(val)
		if err := closer.Close(); err != nil {
			return nil, err
		}
		// init stage, no need to use lock
		cs.size.Store(size)
""",
   """		size := binary.BigEndian.Uint64(val)
		// init stage, no need to use lock
		cs.size.Store(size)
		if err := closer.Close(); err != nil {
			return nil, err
		}
""")]),
 ("r21-close-to-content-target-local", ["C20", "C08"], [("portalwire/portal_protocol.go",
   """	sort.Slice(allNodes, func(i, j int) bool {
		return enode.LogDist(allNodes[i].ID(), enode.ID(contentId)) < enode.LogDist(allNodes[j].ID(), enode.ID(contentId))
	})
""",
   """	target := enode.ID(contentId)
	sort.Slice(allNodes, func(i, j int) bool {
		return enode.LogDist(allNodes[i].ID(), target) < enode.LogDist(allNodes[j].ID(), target)
	})
""")]),
 ("r22-content-keys-if-chain", ["C01", "C09"], [("portalwire/portal_protocol.go",
   """	case TransientOfferRequestWithResultKind:
		content := request.Request.(*TransientOfferRequestWithResult).Content
		return [][]byte{content.ContentKey}
	default:
		return request.Request.(*PersistOfferRequest).ContentKeys
	}
}
""",
   """	}
	if request.Kind == TransientOfferRequestWithResultKind {
		content := request.Request.(*TransientOfferRequestWithResult).Content
		return [][]byte{content.ContentKey}
	}
	return request.Request.(*PersistOfferRequest).ContentKeys
}
""")]),
 ("r23-get-defer-close-clone", ["C04", "C17", "C01"], [("storage/pebble/storage.go",
   """	out := make([]byte, len(data))
	copy(out, data)
	closer.Close()
	return out, nil
""",
   """	defer closer.Close()
	return bytes.Clone(data), nil
""")]),
 ("r24-relay-check-netip", ["C11", "C08"], [("portalwire/portal_protocol.go",
   "	if err = netutil.CheckRelayIP(sender.IP(), n.IP()); err != nil {",
   "	if err = netutil.CheckRelayAddr(sender.IPAddr(), n.IPAddr()); err != nil {")]),
 ("r25-reply-scan-continue-form", ["C10", "C01"], [("portalwire/lookup.go",
   """				if n != nil && !it.seen[n.ID()] {
					it.seen[n.ID()] = true
					it.result.push(n, bucketSize)
					it.replyBuffer = append(it.replyBuffer, n)
				}
""",
   """				if n == nil || it.seen[n.ID()] {
					continue
				}
				it.seen[n.ID()] = true
				it.result.push(n, bucketSize)
				it.replyBuffer = append(it.replyBuffer, n)
""")]),
 ("r26-permit-getter-direct-test", ["C16"], [("portalwire/utp_transport.go",
   """	if ok := u.inboundLimit.TryAcquire(1); !ok {
		return &NoPermit{}, false
	}
""",
   """	if !u.inboundLimit.TryAcquire(1) {
		return &NoPermit{}, false
	}
""")]),
 ("r27-shutdown-drain-for-range", ["C10", "C01"], [("portalwire/lookup.go",
   """	for it.queries > 0 {
		<-it.replyCh
		it.queries--
	}
""",
   """	for ; it.queries > 0; it.queries-- {
		<-it.replyCh
	}
""")]),
]

MUTANTS = [
 # id, property expected to fire, edits
 ("m-C15-drop-trailing-check", "C15", [("portalwire/portal_protocol_v1.go",
   """		if len(remaining) > 0 {
			return nil, errors.New("content length mismatch")
		}
""", """		_ = remaining
""")]),
 ("m-C15-weaker-guard", "C15", [("portalwire/common.go", "	if len(data) < headerSize+int(contentLen) {", "	if len(data) < headerSize {")]),
 ("m-C16-release-removed", "C16", [("portalwire/portal_protocol.go",
   """		default:
			permit.Release()
""", """		default:
""")]),
 ("m-C16-flag-not-cleared", "C16", [("portalwire/portal_protocol.go", "	notStartedUtp = false\n", "")]),
 ("m-C04-no-copy", "C04", [("storage/pebble/storage.go",
   """	out := make([]byte, len(data))
	copy(out, data)
	closer.Close()
	return out, nil
""", """	closer.Close()
	return data, nil
""")]),
 ("m-C05-no-lock", "C05", [("storage/pebble/storage.go", "	c.mu.Lock()\n	defer c.mu.Unlock()\n", "")]),
 ("m-C05-first-next", "C05", [("storage/pebble/storage.go", "	for iter.Last(); iter.Valid(); iter.Prev() {", "	for iter.First(); iter.Valid(); iter.Next() {")]),
 ("m-C05-fraction", "C05", [("storage/pebble/storage.go", "	contentDeletionFraction = 0.05\n", "	contentDeletionFraction = 0.01\n")]),
 ("m-C06-ge", "C06", [("portalwire/portal_protocol.go", "	return nodeRadius.Gt(new(uint256.Int).SetBytes32(distance[:]))", "	return !nodeRadius.Lt(new(uint256.Int).SetBytes32(distance[:]))")]),
 ("m-C07-no-full-test", "C07", [("portalwire/table.go", "	if len(b.entries) >= bucketSize {\n		// Bucket full", "	if len(b.entries) > bucketSize {\n		// Bucket full")]),
 ("m-C07-no-addip", "C07", [("portalwire/table.go",
   """	if !tab.addIP(b, req.node.IPAddr()) {
		// Can't add: IP limit reached.
		tab.log.Debug("IP limit reached", "id", req.node.ID())
		return false
	}
""", "")]),
 ("m-C08-budget-no-overhead", "C08", [("portalwire/portal_protocol.go", "	maxPayloadSize := maxPacketSize - talkRespOverhead - contentOverhead\n", "	maxPayloadSize := maxPacketSize - contentOverhead\n")]),
 ("m-C08-keep-requester", "C08", [("portalwire/portal_protocol.go",
   """			if closeNode.ID() == n.ID() {
				closestNodes = append(closestNodes[:i], closestNodes[i+1:]...)
				break
			}
""", """			if closeNode.ID() == n.ID() {
				_ = i
				break
			}
""")]),
 ("m-C09-no-stored-check", "C09", [("portalwire/portal_protocol_v1.go",
   """		_, err := p.storage.Get(contentKey, contentId)
		if err == nil {
			acceptV1.ContentKeys[i] = uint8(AlreadyStored)
			continue
		}
""", "")]),
 ("m-C10-alpha-le", "C10", [("portalwire/lookup.go", "it.queries < alpha; i++", "it.queries <= alpha; i++")]),
 ("m-C10-no-asked-mark", "C10", [("portalwire/lookup.go", "			it.asked[n.ID()] = true\n			it.queries++", "			it.queries++")]),
 ("m-C10-no-seen-mark", "C10", [("portalwire/lookup.go", "					it.seen[n.ID()] = true\n					it.result.push(n, bucketSize)", "					it.result.push(n, bucketSize)")]),
 ("m-C10-early-done", "C10", [("portalwire/portal_protocol.go", "		defer wg.Done()\n		for res := range resChan {\n			if res.Flag != ContentEnrsSelector {", "		wg.Done()\n		for res := range resChan {\n			if res.Flag != ContentEnrsSelector {")]),
 ("m-C11-relay-args-swapped", "C11", [("portalwire/portal_protocol.go",
   "	if err = netutil.CheckRelayIP(sender.IP(), n.IP()); err != nil {",
   "	if err = netutil.CheckRelayIP(n.IP(), sender.IP()); err != nil {")]),
 ("m-C10-reply-scan-break", "C10", [("portalwire/lookup.go",
   """				if n != nil && !it.seen[n.ID()] {
					it.seen[n.ID()] = true
""",
   """				if n == nil {
					break
				}
				if !it.seen[n.ID()] {
					it.seen[n.ID()] = true
""")]),
 ("m-C01-shutdown-writes-off-queries", "C01", [("portalwire/lookup.go",
   """	for it.queries > 0 {
		<-it.replyCh
		it.queries--
	}
""",
   """	for it.queries > 0 {
		select {
		case <-it.replyCh:
			it.queries--
		default:
			it.queries = 0
		}
	}
""")]),
 ("m-C16-refusal-by-cached-flag", "C16", [("portalwire/utp_transport.go",
   """func (u *utpController) GetInboundPermit() (Permit, bool) {
	if ok := u.inboundLimit.TryAcquire(1); !ok {
		return &NoPermit{}, false
	}
	return &ReleasePermit{
		action: func() {
			u.inboundLimit.Release(1)
		},
	}, true
}
""",
   """var inboundFull atomic.Bool

func (u *utpController) GetInboundPermit() (Permit, bool) {
	if inboundFull.Load() {
		return &NoPermit{}, false
	}
	if ok := u.inboundLimit.TryAcquire(1); !ok {
		inboundFull.Store(true)
		return &NoPermit{}, false
	}
	return &ReleasePermit{
		action: func() {
			u.inboundLimit.Release(1)
			inboundFull.Store(false)
		},
	}, true
}
""")]),
 ("m-C18-credit-reset-on-endpoint-change", "C18", [("portalwire/table_reval.go",
   "	n.isValidatedLive = false\n	tr.moveToList(&tr.fast, n, tab.cfg.Clock.Now(), &tab.rand)",
   "	n.isValidatedLive = false\n	n.livenessChecks = 1\n	tr.moveToList(&tr.fast, n, tab.cfg.Clock.Now(), &tab.rand)")]),
 ("m-C14-first-offset-lower-bound", "C14", [("portalwire/types_encoding.go", "	if o1 != 5 {", "	if o1 < 5 {")]),
 ("m-C07-rollback-bucket-counter", "C07", [("portalwire/table.go",
   """		tab.log.Debug("IP exceeds bucket limit", "ip", ip)
		tab.ips.RemoveAddr(ip)
""",
   """		tab.log.Debug("IP exceeds bucket limit", "ip", ip)
		tab.ips.RemoveAddr(ip)
		b.ips.RemoveAddr(ip)
""")]),
 ("m-C07-no-rollback", "C07", [("portalwire/table.go",
   """		tab.log.Debug("IP exceeds bucket limit", "ip", ip)
		tab.ips.RemoveAddr(ip)
""",
   """		tab.log.Debug("IP exceeds bucket limit", "ip", ip)
""")]),
 ("m-C13-batch-verdict-overwritten", "C13", [("state/network.go",
   """		err := h.validator.ValidateContent(contentKey, content)
		if err != nil {
			h.log.Error("content validate failed", "contentKey", hexutil.Encode(contentKey), "err", err)
			return err
		}
""",
   """		err := h.validator.ValidateContent(contentKey, content)
		if err != nil {
			h.log.Error("content validate failed", "contentKey", hexutil.Encode(contentKey), "err", err)
		}
""")]),
 ("m-C06-pong-radius-big-endian", "C06", [("portalwire/portal_protocol.go",
   """	radius, err := p.Radius().MarshalSSZ()
	if err != nil {
		return Pong{}, err
	}
	return p.createPong(pingext.BasicRadius, radius), nil""",
   """	radius := p.Radius().Bytes32()
	return p.createPong(pingext.BasicRadius, radius[:]), nil""")]),
 ("m-C20-client-info-first-report-only", "C20", [("portalwire/portal_protocol.go",
   """	// --- Compare and Update Radius ---
	updated := p.updateRadiusCacheIfNeeded(id, nodeIdBytes, payload.DataRadius)

	// --- Compare and Update Capabilities ---""",
   """	// --- Compare and Update Radius ---
	updated := false
	if p.radiusCache.Get(nil, nodeIdBytes) == nil {
		updated = p.updateRadiusCacheIfNeeded(id, nodeIdBytes, payload.DataRadius)
	}

	// --- Compare and Update Capabilities ---""")]),
 ("m-C19-bitset-of-versions", "C19", [("portalwire/portal_protocol_v1.go",
   """	valuesInA := make(map[uint8]bool)
	for _, val := range a {
		valuesInA[val] = true
	}
""",
   """	var valuesInA uint64
	for _, val := range a {
		valuesInA |= 1 << val
	}
"""), ("portalwire/portal_protocol_v1.go", "		if valuesInA[val] {", "		if valuesInA&(1<<val) != 0 {")]),
 ("m-C11-low-port", "C11", [("portalwire/portal_protocol.go", "	if n.UDP() <= 1024 {", "	if n.UDP() < 1024 {")]),
 ("m-C11-no-distance-check", "C11", [("portalwire/portal_protocol.go",
   """		if !slices.Contains(distances, uint(nd)) {
			return nil, errors.New("does not match any requested distance")
		}
""", """		_ = slices.Contains(distances, uint(nd))
""")]),
 ("m-C12-majority", "C12", [("beacon/light_client.go", "	hasMajority := commiteeBits*3 >= 512*2", "	hasMajority := commiteeBits*2 >= 512")]),
 ("m-C12-finality-depth", "C12", [("beacon/light_client.go", "finalityBranch[:], 6, 41, root)", "finalityBranch[:], 6, 40, root)")]),
 ("m-C12-skip-next-proof", "C12", [("beacon/light_client.go",
   """		if !isValid {
			return ErrInvalidNextSyncCommitteeProof
		}
""", """		_ = isValid
""")]),
 ("m-C13-no-root-check", "C13", [("state/validation.go",
   """	err := checkNodeHash(&firstNode, rootHash[:])
	if err != nil {
		return nil, nil, err
	}
""", """	_ = rootHash
""")]),
 ("m-C13-path-not-consumed", "C13", [("state/validation.go",
   """	if len(p) != 0 {
		return errors.New("path is too long")
	}
""", """	_ = p
""")]),
 ("m-C14-limit", "C14", [("portalwire/types_encoding.go", "		num, err := ssz.DecodeDynamicLength(buf, 64)", "		num, err := ssz.DecodeDynamicLength(buf, 128)")]),
 ("m-C14-first-offset", "C14", [("portalwire/types_encoding.go",
   """	if o0 != 4 {
		return ssz.ErrInvalidVariableOffset
	}

	// Field (0) 'ContentKeys'
	{
		buf = tail[o0:]
		num, err := ssz.DecodeDynamicLength(buf, 64)""",
   """	// Field (0) 'ContentKeys'
	{
		buf = tail[o0:]
		num, err := ssz.DecodeDynamicLength(buf, 64)""")]),
 ("m-C17-split-batch", "C17", [("storage/pebble/storage.go", "	err = batch.Set(storage.SizeKey, buf, c.writeOptions)\n	if err != nil {\n		return err\n	}\n	err = batch.Set(distance, content, c.writeOptions)", "	err = c.db.Set(storage.SizeKey, buf, c.writeOptions)\n	if err != nil {\n		return err\n	}\n	err = batch.Set(distance, content, c.writeOptions)")]),
 ("m-C17-unsynced-prune", "C17", [("storage/pebble/storage.go", "	err = batch.Commit(&pebble.WriteOptions{Sync: true})", "	err = batch.Commit(c.writeOptions)")]),
 ("m-C18-seq-rule", "C18", [("portalwire/table.go", "	if newRecord.Seq() <= n.Seq() && !isInbound {", "	if newRecord.Seq() < n.Seq() && !isInbound {")]),
 ("m-C18-quarter-guard", "C18", [("portalwire/table.go", "	if fails >= maxFindnodeFailures && len(b.entries) >= bucketSize/4 {", "	if fails >= maxFindnodeFailures {")]),
 ("m-C19-parse-missing-v1", "C19", [("portalwire/portal_protocol_v1.go",
   """	case 1:
		accept := &AcceptV1{}
		err = accept.UnmarshalSSZ(data)
		if err != nil {
			return nil, err
		}
		return accept, nil
	default:
		return nil, ErrUnsupportedVersion
	}
}
""", """	default:
		return nil, ErrUnsupportedVersion
	}
}
""")]),
 ("m-C20-five-closest", "C20", [("portalwire/portal_protocol.go", "	maxFartherNodes := 4\n", "	maxFartherNodes := 6\n")]),
 ("m-C20-no-source-exclusion", "C20", [("portalwire/portal_protocol.go",
   """				} else if n.ID() != *srcNodeId {
					gossipNodes = append(gossipNodes, n)
				}
""", """				} else {
					gossipNodes = append(gossipNodes, n)
				}
""")]),
 ("m-C02-no-hash-binding", "C02", [("history/validation.go",
   """		if !bytes.Equal(header.Hash().Bytes(), contentKey[1:]) {
			return ErrInvalidBlockHash
		}
""", "")]),
 ("m-C02-put-before-validate", "C02", [("history/history_network.go",
   """		err = h.validator.ValidateContent(contentKey, content)
		if err != nil {
			return fmt.Errorf("content validate failed with content key %x, err is %w", contentKey, err)
		}
		_ = h.portalProtocol.Put(contentKey, contentId, content)
""", """		_ = h.portalProtocol.Put(contentKey, contentId, content)
		err = h.validator.ValidateContent(contentKey, content)
		if err != nil {
			return fmt.Errorf("content validate failed with content key %x, err is %w", contentKey, err)
		}
""")]),
 ("m-C03-gindex", "C03", [("validation/header_validator.go", "	var gIndex uint64 = 6444\n", "	var gIndex uint64 = 6443\n")]),
 ("m-C03-era-boundary", "C03", [("validation/header_validator.go", "	} else if blockNumber < history.ShanghaiBlockNumber {", "	} else if blockNumber <= history.ShanghaiBlockNumber {")]),
 ("m-C03-no-bounds", "C03", [("validation/header_validator.go",
   """	if historicalRootIndex >= uint64(len(h.historicalRootsAcc.HistoricalRoots)) {
		return errors.New("slot is out of range of the historical roots accumulator")
	}
""", "")]),
 ("m-C01-drop-empty-key-check", "C01", [("history/storage.go", "	return len(contentKey) > 0 && history.ContentType(contentKey[0]) == history.OfferEphemeralType", "	return history.ContentType(contentKey[0]) == history.OfferEphemeralType")]),
 ("m-C01-blocking-send", "C01", [("portalwire/utp_transport.go",
   """	select {
	case c.receive <- &packetItem{peer, data}:
	default:
		// the uTP reader is not keeping up: drop the packet (uTP retransmits lost
		// packets) instead of blocking the talk handler
	}
""", """	c.receive <- &packetItem{peer, data}
""")]),
 ("m-C01-offset-check", "C01", [("portalwire/types_encoding.go",
   """	if size < 14 {
		return ssz.ErrSize
	}

	tail := buf
	var o2 uint64

	// Field (0) 'EnrSeq'
	p.EnrSeq = ssz.UnmarshallUint64(buf[0:8])

	// Field (1) 'PayloadType'
	p.PayloadType = ssz.UnmarshallUint16(buf[8:10])

	// Offset (2) 'Payload'
	if o2 = ssz.ReadOffset(buf[10:14]); o2 > size {
		return ssz.ErrOffset
	}

	if o2 != 14 {
		return ssz.ErrInvalidVariableOffset
	}

	// Field (2) 'Payload'
	{
		buf = tail[o2:]
		if len(buf) > 1100 {
			return ssz.ErrBytesLength
		}
		if cap(p.Payload) == 0 {
			p.Payload = make([]byte, 0, len(buf))
		}
		p.Payload = append(p.Payload, buf...)
	}
	return err
}

// SizeSSZ returns the ssz encoded size in bytes for the Ping object""",
   """	if size < 4 {
		return ssz.ErrSize
	}

	tail := buf
	var o2 uint64

	// Field (0) 'EnrSeq'
	p.EnrSeq = ssz.UnmarshallUint64(buf[0:8])

	// Field (1) 'PayloadType'
	p.PayloadType = ssz.UnmarshallUint16(buf[8:10])

	// Offset (2) 'Payload'
	if o2 = ssz.ReadOffset(buf[10:14]); o2 > size {
		return ssz.ErrOffset
	}

	if o2 != 14 {
		return ssz.ErrInvalidVariableOffset
	}

	// Field (2) 'Payload'
	{
		buf = tail[o2:]
		if len(buf) > 1100 {
			return ssz.ErrBytesLength
		}
		if cap(p.Payload) == 0 {
			p.Payload = make([]byte, 0, len(buf))
		}
		p.Payload = append(p.Payload, buf...)
	}
	return err
}

// SizeSSZ returns the ssz encoded size in bytes for the Ping object""")]),
 ("m-C18-port-compared-after-swap", "C18", [("portalwire/table.go",
   """	portchanged := newRecord.UDP() != n.UDP()
""", ""), ("portalwire/table.go",
   """	if ipchanged || portchanged {
""",
   """	if ipchanged || newRecord.UDP() != n.UDP() {
""")]),
 ("m-C17-counter-restored-after-prune", "C17", [("storage/pebble/storage.go",
   """		// init stage, no need to use lock
		cs.size.Store(size)
		if size > cs.storageCapacityInBytes {
			err := cs.prune()
			if err != nil {
				return nil, err
			}
		}
""",
   """		if size > cs.storageCapacityInBytes {
			err := cs.prune()
			if err != nil {
				return nil, err
			}
		}
		// init stage, no need to use lock
		cs.size.Store(size)
""")]),
 ("m-C20-unsorted-small-table", "C20", [("portalwire/portal_protocol.go",
   """	allNodes := p.table.nodeList()
	sort.Slice(allNodes, func(i, j int) bool {
		return enode.LogDist(allNodes[i].ID(), enode.ID(contentId)) < enode.LogDist(allNodes[j].ID(), enode.ID(contentId))
	})
""",
   """	allNodes := p.table.nodeList()
	if len(allNodes) <= limit {
		return allNodes
	}
	sort.Slice(allNodes, func(i, j int) bool {
		return enode.LogDist(allNodes[i].ID(), enode.ID(contentId)) < enode.LogDist(allNodes[j].ID(), enode.ID(contentId))
	})
""")]),
 ("m-C01-kind-payload-mismatch", "C01", [("portalwire/api.go",
   """		Kind:    TransientOfferRequestWithResultKind,
		Request: transientOfferRequestWithResult,
""",
   """		Kind:    TransientOfferRequestKind,
		Request: transientOfferRequestWithResult,
""")]),
 ("m-C04-append-onto-source", "C04", [("storage/pebble/storage.go",
   """	out := make([]byte, len(data))
	copy(out, data)
	closer.Close()
	return out, nil
""",
   """	defer closer.Close()
	return append(data[:0], data...), nil
""")]),
 ("m-C08-empty-content-as-miss", "C08", [("portalwire/portal_protocol.go",
   """	if errors.Is(err, ErrContentNotFound) {
		closestNodes := p.findNodesCloseToContent(contentId, portalFindnodesResultLimit)
""",
   """	if errors.Is(err, ErrContentNotFound) || len(content) == 0 {
		closestNodes := p.findNodesCloseToContent(contentId, portalFindnodesResultLimit)
""")]),
 ("m-C06-admission-outside-lock", "C06", [("storage/pebble/storage.go",
   """	c.mu.Lock()
	defer c.mu.Unlock()
	distance := xor(contentId, c.nodeId[:])
	valid, err := c.inRadius(distance)
	if err != nil {
		return err
	}
	if !valid {
		return storage.ErrInsufficientRadius
	}
""",
   """	distance := xor(contentId, c.nodeId[:])
	valid, err := c.inRadius(distance)
	if err != nil {
		return err
	}
	if !valid {
		return storage.ErrInsufficientRadius
	}
	c.mu.Lock()
	defer c.mu.Unlock()
""")]),
]
