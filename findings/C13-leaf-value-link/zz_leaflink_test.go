package state

import (
	"bytes"
	"encoding/binary"
	"math/big"
	"testing"

	gethcommon "github.com/ethereum/go-ethereum/common"
	"github.com/ethereum/go-ethereum/core/rawdb"
	"github.com/ethereum/go-ethereum/core/types"
	"github.com/ethereum/go-ethereum/crypto"
	"github.com/ethereum/go-ethereum/rlp"
	gethtrie "github.com/ethereum/go-ethereum/trie"
	"github.com/ethereum/go-ethereum/trie/trienode"
	"github.com/ethereum/go-ethereum/triedb"
	"github.com/holiman/uint256"
	"github.com/protolambda/zrnt/eth2/beacon/capella"
	"github.com/protolambda/zrnt/eth2/beacon/common"
	"github.com/protolambda/ztyp/codec"
	"github.com/stretchr/testify/require"
	"github.com/zen-eth/shisui/storage"
)

// A state trie node is accepted only when every proof node is the child that the
// previous node references by hash. This test builds a real account trie and a
// real contract storage trie, then offers a "storage trie node" that is not part
// of the storage trie at all: the proof walks honestly down to a storage leaf and
// then continues with two made-up nodes. The only thing tying the first made-up
// node to the trie is that its hash coincides with the first 32 bytes of the
// (33 byte, RLP encoded) slot value held by that leaf - something the owner of a
// contract can arrange by writing a chosen 32-byte value into a storage slot.

type leafLinkC13Oracle struct{ header *types.Header }

func (o *leafLinkC13Oracle) GetHistoricalSummaries(uint64) (capella.HistoricalSummaries, error) {
	panic("unused")
}
func (o *leafLinkC13Oracle) GetFinalizedStateRoot() ([]byte, error) { panic("unused") }
func (o *leafLinkC13Oracle) GetBlockHeaderByHash(hash []byte) (*types.Header, error) {
	return o.header, nil
}

func leafLinkC13Nibbles(b []byte) []byte {
	out := make([]byte, 0, 2*len(b))
	for _, x := range b {
		out = append(out, x>>4, x&0xf)
	}
	return out
}

// hex-prefix encoding of an extension (non-terminated) key
func leafLinkC13CompactExt(nibbles []byte) []byte {
	var out []byte
	if len(nibbles)%2 == 1 {
		out = append(out, 0x10|nibbles[0])
		nibbles = nibbles[1:]
	} else {
		out = append(out, 0x00)
	}
	for i := 0; i < len(nibbles); i += 2 {
		out = append(out, nibbles[i]<<4|nibbles[i+1])
	}
	return out
}

func leafLinkC13Prove(t *testing.T, tr *gethtrie.Trie, key []byte) TrieProof {
	var list trienode.ProofList
	require.NoError(t, tr.Prove(key, &list))
	proof := make(TrieProof, 0, len(list))
	for _, n := range list {
		proof = append(proof, EncodedTrieNode(bytes.Clone(n)))
	}
	return proof
}

// number of key nibbles held by a leaf node
func leafLinkC13LeafKeyLen(t *testing.T, leaf []byte) int {
	elems, _, err := rlp.SplitList(leaf)
	require.NoError(t, err)
	compact, _, err := rlp.SplitString(elems)
	require.NoError(t, err)
	require.True(t, compact[0]&0x20 != 0, "last proof node must be a leaf")
	n := 2 * (len(compact) - 1)
	if compact[0]&0x10 != 0 {
		n++
	}
	return n
}

func leafLinkC13StorageTrie(t *testing.T, slotHashes [][]byte, attackerValue []byte) *gethtrie.Trie {
	tr := gethtrie.NewEmpty(triedb.NewDatabase(rawdb.NewMemoryDatabase(), nil))
	for i, k := range slotHashes {
		v := big.NewInt(int64(1000 + i)).Bytes()
		if i == 0 {
			v = attackerValue
		}
		enc, err := rlp.EncodeToBytes(v)
		require.NoError(t, err)
		require.NoError(t, tr.Update(k, enc))
	}
	return tr
}

func TestLeafValueIsNotAChildReference(t *testing.T) {
	// ---- the contract's storage: 40 slots, slot 0 is the one the attacker writes
	slotHashes := make([][]byte, 40)
	for i := range slotHashes {
		var slot [32]byte
		binary.BigEndian.PutUint64(slot[24:], uint64(i))
		slotHashes[i] = crypto.Keccak256(slot[:])
	}
	slotPath := leafLinkC13Nibbles(slotHashes[0])

	// The shape of the trie depends on the keys only, so a first build tells how
	// many nibbles of the slot's path are left when the leaf is reached.
	shape := leafLinkC13StorageTrie(t, slotHashes, bytes.Repeat([]byte{0xee}, 31))
	shapeProof := leafLinkC13Prove(t, shape, slotHashes[0])
	leafKeyLen := leafLinkC13LeafKeyLen(t, shapeProof[len(shapeProof)-1])
	require.Greater(t, len(shapeProof), 1)
	tail := slotPath[len(slotPath)-leafKeyLen:]

	// ---- two made-up nodes: an extension covering the rest of the path that
	// points to an arbitrary blob. Vary the blob until the hash of the extension
	// starts with 0xa0, the RLP prefix of a 32-byte string.
	var forged, bridge, bridgeHash []byte
	for i := uint32(0); ; i++ {
		forged = append([]byte("forged storage trie node "), byte(i>>24), byte(i>>16), byte(i>>8), byte(i))
		var err error
		bridge, err = rlp.EncodeToBytes([]interface{}{leafLinkC13CompactExt(tail), crypto.Keccak256(forged)})
		require.NoError(t, err)
		bridgeHash = crypto.Keccak256(bridge)
		if bridgeHash[0] == 0x9f && bridgeHash[1] != 0 {
			break
		}
		require.Less(t, i, uint32(1<<20))
	}
	// slot value chosen by the contract owner: RLP(value) = 0xa0 || value, whose
	// first 32 bytes are exactly bridgeHash.
	attackerValue := bytes.Clone(bridgeHash[1:])

	storageTrie := leafLinkC13StorageTrie(t, slotHashes, attackerValue)
	storageProof := leafLinkC13Prove(t, storageTrie, slotHashes[0])
	leaf := storageProof[len(storageProof)-1]
	require.Equal(t, leafKeyLen, leafLinkC13LeafKeyLen(t, leaf))

	// ---- the account trie
	address := gethcommon.HexToAddress("0xc02aaa39b223fe8d0a0e5c4f27ead9083c756cc2")
	addressHash := crypto.Keccak256(address[:])
	accountTrie := gethtrie.NewEmpty(triedb.NewDatabase(rawdb.NewMemoryDatabase(), nil))
	for i := 0; i < 60; i++ {
		acc := types.StateAccount{
			Nonce:    uint64(i),
			Balance:  uint256.NewInt(uint64(i) * 1e9),
			Root:     types.EmptyRootHash,
			CodeHash: types.EmptyCodeHash[:],
		}
		key := crypto.Keccak256([]byte{byte(i), 0x55})
		if i == 0 {
			key = addressHash
			acc.Root = storageTrie.Hash()
			acc.CodeHash = crypto.Keccak256([]byte{0x60, 0x00})
		}
		enc, err := rlp.EncodeToBytes(&acc)
		require.NoError(t, err)
		require.NoError(t, accountTrie.Update(key, enc))
	}
	accountProof := leafLinkC13Prove(t, accountTrie, addressHash)
	header := &types.Header{Number: big.NewInt(19_000_000), Root: accountTrie.Hash(), Difficulty: big.NewInt(0)}

	validator := NewStateValidator(&leafLinkC13Oracle{header: header})
	store := NewStateStorage(storage.NewMockStorage(), nil)

	offer := func(path []byte, nodeHash []byte, proof TrieProof) ([]byte, []byte) {
		nibbles, err := FromUnpackedNibbles(path)
		require.NoError(t, err)
		key := &ContractStorageTrieNodeKey{
			AddressHash: common.Bytes32(addressHash),
			Path:        *nibbles,
			NodeHash:    common.Bytes32(nodeHash),
		}
		var keyBuf bytes.Buffer
		keyBuf.WriteByte(ContractStorageTrieNodeType)
		require.NoError(t, key.Serialize(codec.NewEncodingWriter(&keyBuf)))
		value := &ContractStorageTrieNodeWithProof{
			StorageProof: proof,
			AccountProof: accountProof,
			BlockHash:    common.Bytes32(header.Hash()),
		}
		var valBuf bytes.Buffer
		require.NoError(t, value.Serialize(codec.NewEncodingWriter(&valBuf)))
		return keyBuf.Bytes(), valBuf.Bytes()
	}

	// sanity: the honest offer of the leaf itself is accepted and stored
	honestKey, honestValue := offer(slotPath[:len(slotPath)-leafKeyLen], crypto.Keccak256(leaf), storageProof)
	require.NoError(t, validator.ValidateContent(honestKey, honestValue))
	require.NoError(t, store.Put(honestKey, defaultContentIdFunc(honestKey), honestValue))

	// the forged offer: honest proof down to the leaf, then the two made-up nodes
	forgedProof := append(append(TrieProof{}, storageProof...), EncodedTrieNode(bridge), EncodedTrieNode(forged))
	forgedKey, forgedValue := offer(slotPath, crypto.Keccak256(forged), forgedProof)

	// the honest part of the proof ends in a leaf: it holds a 33 byte value and
	// no child reference, and nothing in it references the forged node
	leafElems, _, _ := rlp.SplitList(leaf)
	_, leafRest, _ := rlp.SplitString(leafElems)
	leafValue, _, _ := rlp.SplitString(leafRest)
	require.Len(t, leafValue, 32)
	for _, n := range storageProof {
		require.False(t, bytes.Contains(n, crypto.Keccak256(forged)), "forged node must not be hash-linked")
	}

	err := validator.ValidateContent(forgedKey, forgedValue)
	if err == nil {
		id := defaultContentIdFunc(forgedKey)
		putErr := store.Put(forgedKey, id, forgedValue)
		stored, _ := store.Get(forgedKey, id)
		t.Fatalf("a node that is not hash-linked to the storage root was accepted (put err=%v, stored %d bytes: %q)", putErr, len(stored), stored)
	}
	t.Logf("forged offer rejected: %v", err)
}
