module verifchk

go 1.24.2

require golang.org/x/tools v0.29.0
