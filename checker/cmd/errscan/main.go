// errscan lists every error value in the module that is bound to a variable and can be lost
// (overwritten or dropped on a path that can still succeed). Cross-reference tool: the armed
// instances are the R5.error-not-lost rules of the properties; this prints the whole module.
package main

import (
	"flag"
	"fmt"
	"os"

	"verifchk/core"
)

func main() {
	repo := flag.String("repo", "/repo", "")
	flag.Parse()
	p, err := core.Load(*repo, false)
	if err != nil {
		fmt.Fprintln(os.Stderr, err)
		os.Exit(2)
	}
	n := 0
	for _, fn := range p.ModuleFuncs() {
		for _, d := range core.DroppedErrors(fn) {
			n++
			fmt.Printf("%s: %s: %s (%s)\n", p.Pos(d.Def.Pos()), core.FuncName(fn), d.How, p.PathString(d.Path))
		}
	}
	fmt.Println(n, "sites")
}
