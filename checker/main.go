// verifchk decides structural clauses of the properties in /verif/properties.jsonl for the
// current working tree of /repo by static analysis (type-checked syntax + SSA).
package main

import (
	"encoding/json"
	"flag"
	"fmt"
	"os"
	"path/filepath"
	"runtime/debug"
	"sort"
	"strconv"

	"verifchk/core"
	"verifchk/props"
)

func main() {
	prop := flag.String("prop", "", "property id (C01..C20)")
	tier := flag.String("tier", "quick", "quick|thorough")
	repo := flag.String("repo", "/repo", "repository root")
	verif := flag.String("verif", "/verif", "verification root (evidence, tables, known findings)")
	version := flag.Bool("version", false, "print version")
	list := flag.Bool("list", false, "list properties")
	dumpFuncs := flag.Bool("dump-funcs", false, "print the declared functions of the module as JSON (baseline table)")
	dumpFields := flag.Bool("dump-fields", false, "print the struct fields of the module as JSON (baseline table)")
	flag.Parse()
	if *dumpFields {
		abs, _ := filepath.Abs(*repo)
		prog, err := core.Load(abs, false)
		if err != nil {
			fmt.Fprintln(os.Stderr, err)
			os.Exit(2)
		}
		b, _ := json.MarshalIndent(prog.DeclaredFields(), "", " ")
		fmt.Println(string(b))
		return
	}
	if *dumpFuncs {
		abs, _ := filepath.Abs(*repo)
		prog, err := core.Load(abs, false)
		if err != nil {
			fmt.Fprintln(os.Stderr, err)
			os.Exit(2)
		}
		b, _ := json.MarshalIndent(prog.DeclaredFuncSigs(), "", " ")
		fmt.Println(string(b))
		return
	}
	if *version {
		fmt.Println("verifchk 1")
		return
	}
	if *list {
		var ids []string
		for id := range props.Registry {
			ids = append(ids, id)
		}
		sort.Strings(ids)
		for _, id := range ids {
			fmt.Println(id)
		}
		return
	}
	run, ok := props.Registry[*prop]
	if !ok {
		fmt.Fprintf(os.Stderr, "unknown property %q\n", *prop)
		os.Exit(2)
	}
	seed := int64(0)
	if s := os.Getenv("VERIF_SEED"); s != "" {
		if n, err := strconv.ParseInt(s, 10, 64); err == nil {
			seed = n
		}
	}
	if t := os.Getenv("VERIF_TIER"); t == "quick" || t == "thorough" {
		if !isFlagSet("tier") {
			*tier = t
		}
	}
	abs, _ := filepath.Abs(*repo)
	rep := core.NewReport(*prop, *tier, seed)
	known, err := core.LoadKnown(filepath.Join(*verif, "known_findings.json"))
	if err != nil {
		fmt.Fprintf(os.Stderr, "known findings: %v\n", err)
		os.Exit(2)
	}
	whole := *tier == "thorough" && props.NeedsWholeProgram[*prop]
	prog, err := core.Load(abs, whole)
	if err != nil {
		// fails closed: an unanalysable tree is not a passing tree
		rep.Fail("load", "packages", "-", err.Error())
		os.Exit(rep.Finish(*verif, known))
	}
	// functions renamed since the audited tree keep their old name in keys and name-based anchors
	if _, sigs, err := core.LoadBaselineSigs(filepath.Join(*verif, "tables", "baseline_funcs.json")); err == nil {
		if ren := prog.ResolveRenames(sigs); len(ren) > 0 {
			var l []string
			for n, o := range ren {
				l = append(l, o+" -> "+n)
			}
			sort.Strings(l)
			fmt.Printf("note: %d function(s) renamed since the audited tree are analysed under their old name: %v\n", len(ren), l)
		}
	}
	if bf, err := core.LoadBaselineFields(filepath.Join(*verif, "tables", "baseline_fields.json")); err == nil {
		if ren := prog.ResolveFieldRenames(bf); len(ren) > 0 {
			var l []string
			for n, o := range ren {
				l = append(l, n+" (was "+o+")")
			}
			sort.Strings(l)
			fmt.Printf("note: %d struct field(s) renamed since the audited tree are analysed under their old name: %v\n", len(ren), l)
		}
	}
	runOn := func(pg *core.Prog, rp *core.Report) {
		rp.Count("module_packages", len(pg.Pkgs))
		rp.Count("module_functions", len(pg.ModuleFuncs()))
		ctx := &props.Ctx{P: pg, R: rp, Tier: *tier, Verif: *verif}
		defer func() {
			if r := recover(); r != nil {
				rp.Fail("analyser", "panic", "-", fmt.Sprintf("analyser panic (fails closed): %v", r))
				if os.Getenv("VERIF_DEBUG") != "" {
					fmt.Fprintf(os.Stderr, "%s\n", debug.Stack())
					panic(r)
				}
			}
		}()
		run(ctx)
	}
	runOn(prog, rep)
	if n := rep.Unlisted(known); n > 0 && os.Getenv("VERIF_NO_NORMALISE") == "" {
		// An alarm on the source as written. Before reporting it, try the equivalent normal form
		// in which calls of functions that did not exist on the audited tree are inlined: a
		// clause that holds on an equivalent program holds on the source.
		if rep2 := tryNormalised(prog, *prop, *tier, seed, *verif, known, runOn, n); rep2 != nil {
			rep = rep2
		}
	}
	os.Exit(rep.Finish(*verif, known))
}

func tryNormalised(prog *core.Prog, prop, tier string, seed int64, verif string, known *core.KnownFindings, runOn func(*core.Prog, *core.Report), rawViolations int) *core.Report {
	baseline, err := core.LoadBaseline(filepath.Join(verif, "tables", "baseline_funcs.json"))
	if err != nil {
		return nil
	}
	prog2, irep, err := core.NormaliseNewFunctions(prog, baseline, 4)
	if err != nil {
		fmt.Printf("note: normalisation abandoned: %v\n", err)
		return nil
	}
	if prog2 == nil {
		if os.Getenv("VERIF_DEBUG") != "" {
			fmt.Printf("debug: nothing inlined; new=%v left=%v\n", irep.NewFuncs, irep.Left)
		}
		return nil
	}
	if d := os.Getenv("VERIF_DUMP_NORMAL"); d != "" {
		os.MkdirAll(d, 0o755)
		for name, content := range prog2.Overlay {
			os.WriteFile(filepath.Join(d, filepath.Base(name)), content, 0o644)
		}
		fmt.Printf("debug: inlined=%v left=%v removed=%v\n", irep.Inlined, irep.Left, irep.Removed)
	}
	rep2 := core.NewReport(prop, tier, seed)
	runOn(prog2, rep2)
	n2 := rep2.Unlisted(known)
	fmt.Printf("note: %d violation(s) on the source as written; normal form with %d call(s) of %d new function(s) inlined: %d violation(s)\n", rawViolations, len(irep.Inlined), len(irep.NewFuncs), n2)
	if n2 > 0 {
		// what is left after the new helpers are written out is usually the shortest statement of
		// the problem: say it, then report the source as written
		for _, o := range rep2.UnlistedViolations(known) {
			fmt.Printf("note: still violated in the normal form: %s %s: %s\n", o.Rule, o.Construct, o.Detail)
		}
		if os.Getenv("VERIF_DEBUG") != "" {
			rep2.Finish(filepath.Join(os.TempDir(), "verifchk-normal-debug"), known)
		}
		return nil
	}
	rep2.Normalised = map[string]any{
		"reason":                 "the rules raised an alarm on the source as written; they were re-run on an equivalent rewriting of the current source in which every static call of a function absent from tables/baseline_funcs.json is replaced by the callee's body, and hold there",
		"raw_violations":         rawViolations,
		"new_functions":          irep.NewFuncs,
		"inlined_calls":          irep.Inlined,
		"calls_left_alone":       irep.Left,
		"declarations_dropped":   irep.Removed,
		"rounds":                 irep.Rounds,
		"positions_in_this_file": "refer to the normal form, not to the files on disk",
	}
	return rep2
}

func isFlagSet(name string) bool {
	set := false
	flag.Visit(func(f *flag.Flag) {
		if f.Name == name {
			set = true
		}
	})
	return set
}
