// verifchk decides structural clauses of the properties in /verif/properties.jsonl for the
// current working tree of /repo by static analysis (type-checked syntax + SSA).
package main

import (
	"flag"
	"fmt"
	"os"
	"path/filepath"
	"sort"
	"strconv"

	"verifchk/core"
	"verifchk/props"
)

func main() {
	prop := flag.String("prop", "", "property id (C01..C20)")
	tier := flag.String("tier", "quick", "quick|thorough")
	repo := flag.String("repo", "/repo", "repository root")
	verif := flag.String("verif", "/verif", "verification root (evidence, tables, known findings)")
	version := flag.Bool("version", false, "print version")
	list := flag.Bool("list", false, "list properties")
	flag.Parse()
	if *version {
		fmt.Println("verifchk 1")
		return
	}
	if *list {
		var ids []string
		for id := range props.Registry {
			ids = append(ids, id)
		}
		sort.Strings(ids)
		for _, id := range ids {
			fmt.Println(id)
		}
		return
	}
	run, ok := props.Registry[*prop]
	if !ok {
		fmt.Fprintf(os.Stderr, "unknown property %q\n", *prop)
		os.Exit(2)
	}
	seed := int64(0)
	if s := os.Getenv("VERIF_SEED"); s != "" {
		if n, err := strconv.ParseInt(s, 10, 64); err == nil {
			seed = n
		}
	}
	if t := os.Getenv("VERIF_TIER"); t == "quick" || t == "thorough" {
		if !isFlagSet("tier") {
			*tier = t
		}
	}
	abs, _ := filepath.Abs(*repo)
	rep := core.NewReport(*prop, *tier, seed)
	known, err := core.LoadKnown(filepath.Join(*verif, "known_findings.json"))
	if err != nil {
		fmt.Fprintf(os.Stderr, "known findings: %v\n", err)
		os.Exit(2)
	}
	whole := *tier == "thorough" && props.NeedsWholeProgram[*prop]
	prog, err := core.Load(abs, whole)
	if err != nil {
		// fails closed: an unanalysable tree is not a passing tree
		rep.Fail("load", "packages", "-", err.Error())
		os.Exit(rep.Finish(*verif, known))
	}
	rep.Count("module_packages", len(prog.Pkgs))
	rep.Count("module_functions", len(prog.ModuleFuncs()))
	ctx := &props.Ctx{P: prog, R: rep, Tier: *tier, Verif: *verif}
	func() {
		defer func() {
			if r := recover(); r != nil {
				rep.Fail("analyser", "panic", "-", fmt.Sprintf("analyser panic (fails closed): %v", r))
				if os.Getenv("VERIF_DEBUG") != "" {
					panic(r)
				}
			}
		}()
		run(ctx)
	}()
	os.Exit(rep.Finish(*verif, known))
}

func isFlagSet(name string) bool {
	set := false
	flag.Visit(func(f *flag.Flag) {
		if f.Name == name {
			set = true
		}
	})
	return set
}
