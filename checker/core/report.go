package core

import (
	"encoding/json"
	"fmt"
	"os"
	"path/filepath"
	"sort"
	"strings"
	"time"
)

// Verdict of one obligation (a rule applied to one construct).
type Verdict string

const (
	Pass      Verdict = "pass"
	Violation Verdict = "violation"
	Observe   Verdict = "observation" // reported in evidence, never changes the exit status
)

// Obligation is one rule instance: rule id, the construct it was applied to (a line-free key:
// function, call site by callee, field ...), where that construct is today, and the outcome.
type Obligation struct {
	Rule      string  `json:"rule"`
	Construct string  `json:"construct"`
	Pos       string  `json:"pos,omitempty"`
	Verdict   Verdict `json:"verdict"`
	Detail    string  `json:"detail,omitempty"`
	Known     bool    `json:"known_finding,omitempty"`
	Trivial   bool    `json:"-"` // no path/guard had to be examined (e.g. constant lookup)
}

func (o Obligation) Key() string { return o.Rule + " " + o.Construct }

// Report collects the obligations of one property run.
type Report struct {
	Prop        string
	Tier        string
	Seed        int64
	Start       time.Time
	Obs         []Obligation
	Analysed    map[string]int // what was analysed: counters (functions, call sites, packages...)
	Assumptions []string
	Explanation string
	Technique   string
	Floors      map[string]int // rule -> minimum number of obligations confirmed by hand
	Normalised  map[string]any // set when the verdict was reached on the inlined normal form
}

func NewReport(prop, tier string, seed int64) *Report {
	return &Report{Prop: prop, Tier: tier, Seed: seed, Start: time.Now(), Analysed: map[string]int{}, Floors: map[string]int{}}
}

func (r *Report) Count(what string, n int) { r.Analysed[what] += n }

func (r *Report) add(rule, construct, pos string, v Verdict, detail string) {
	r.Obs = append(r.Obs, Obligation{Rule: r.Prop + "." + rule, Construct: construct, Pos: pos, Verdict: v, Detail: detail})
}

func (r *Report) Pass(rule, construct, pos, detail string) { r.add(rule, construct, pos, Pass, detail) }
func (r *Report) Fail(rule, construct, pos, detail string) {
	r.add(rule, construct, pos, Violation, detail)
}
func (r *Report) Note(rule, construct, pos, detail string) {
	r.add(rule, construct, pos, Observe, detail)
}

// Check records pass/fail from a boolean.
func (r *Report) Check(ok bool, rule, construct, pos, okDetail, failDetail string) bool {
	if ok {
		r.Pass(rule, construct, pos, okDetail)
	} else {
		r.Fail(rule, construct, pos, failDetail)
	}
	return ok
}

// Floor declares that rule must produce at least n obligations (vacuity guard).
func (r *Report) Floor(rule string, n int) { r.Floors[r.Prop+"."+rule] = n }

// KnownFindings is /verif/known_findings.json.
type KnownFindings struct {
	Findings []struct {
		Property  string `json:"property"`
		Rule      string `json:"rule"`
		Construct string `json:"construct"`
		What      string `json:"what"`
	} `json:"findings"`
	Fixed []string `json:"fixed"`
}

func LoadKnown(path string) (*KnownFindings, error) {
	k := &KnownFindings{}
	b, err := os.ReadFile(path)
	if err != nil {
		if os.IsNotExist(err) {
			return k, nil
		}
		return nil, err
	}
	if err := json.Unmarshal(b, k); err != nil {
		return nil, fmt.Errorf("%s: %w", path, err)
	}
	return k, nil
}

// Unlisted counts the violations (floor shortfalls included) that the known-findings file does
// not list, without changing the report.
func (r *Report) Unlisted(known *KnownFindings) int {
	perRule := map[string]int{}
	for _, o := range r.Obs {
		perRule[o.Rule]++
	}
	n := 0
	for rule, fl := range r.Floors {
		if perRule[rule] < fl {
			n++
		}
	}
	knownKey := map[string]bool{}
	for _, f := range known.Findings {
		if f.Property == r.Prop {
			knownKey[f.Rule+" "+f.Construct] = true
		}
	}
	for _, o := range r.Obs {
		if o.Verdict == Violation && !knownKey[o.Key()] {
			n++
		}
	}
	return n
}

// UnlistedViolations returns the violations the known-findings file does not list (floor
// shortfalls excluded), sorted by rule and construct.
func (r *Report) UnlistedViolations(known *KnownFindings) []Obligation {
	knownKey := map[string]bool{}
	for _, f := range known.Findings {
		if f.Property == r.Prop {
			knownKey[f.Rule+" "+f.Construct] = true
		}
	}
	var out []Obligation
	for _, o := range r.Obs {
		if o.Verdict == Violation && !knownKey[o.Key()] {
			out = append(out, o)
		}
	}
	sort.SliceStable(out, func(i, j int) bool { return out[i].Key() < out[j].Key() })
	return out
}

// Finish applies floors and known findings, writes evidence, prints the contract lines and
// returns the process exit code.
func (r *Report) Finish(verifDir string, known *KnownFindings) int {
	// floors
	perRule := map[string]int{}
	for _, o := range r.Obs {
		perRule[o.Rule]++
	}
	var floorRules []string
	for rule := range r.Floors {
		floorRules = append(floorRules, rule)
	}
	sort.Strings(floorRules)
	for _, rule := range floorRules {
		if perRule[rule] < r.Floors[rule] {
			r.Obs = append(r.Obs, Obligation{Rule: rule, Construct: "floor", Verdict: Violation,
				Detail: fmt.Sprintf("rule matched %d instance(s), fewer than the %d confirmed by hand on the audited tree: the anchored mechanism is gone or no longer recognisable (fails closed)", perRule[rule], r.Floors[rule])})
		}
	}
	// known findings (exact rule+construct keys only; nothing is added at run time)
	knownKey := map[string]string{}
	for _, f := range known.Findings {
		if f.Property == r.Prop {
			knownKey[f.Rule+" "+f.Construct] = f.What
		}
	}
	sort.SliceStable(r.Obs, func(i, j int) bool {
		if r.Obs[i].Rule != r.Obs[j].Rule {
			return r.Obs[i].Rule < r.Obs[j].Rule
		}
		return r.Obs[i].Construct < r.Obs[j].Construct
	})
	var viol, knownHit, obsv, pass []Obligation
	usedKnown := map[string]bool{}
	for i := range r.Obs {
		o := &r.Obs[i]
		switch o.Verdict {
		case Violation:
			if _, ok := knownKey[o.Key()]; ok {
				o.Known = true
				usedKnown[o.Key()] = true
				knownHit = append(knownHit, *o)
			} else {
				viol = append(viol, *o)
			}
		case Observe:
			obsv = append(obsv, *o)
		default:
			pass = append(pass, *o)
		}
	}
	for _, o := range knownHit {
		fmt.Printf("KNOWN-FINDING: property=%s %s @%s: %s\n", r.Prop, o.Key(), o.Pos, oneLine(o.Detail))
	}
	// a listed finding that no longer fires is reported (informational): it may have been repaired
	for k := range knownKey {
		if !usedKnown[k] {
			fmt.Printf("note: known finding %q did not fire on this tree (repaired or construct gone)\n", k)
		}
	}
	evDir := filepath.Join(verifDir, "evidence")
	os.MkdirAll(evDir, 0o755)
	violPath := filepath.Join(evDir, r.Prop+".violations.json")
	if len(viol) > 0 {
		b, _ := json.MarshalIndent(viol, "", " ")
		os.WriteFile(violPath, b, 0o644)
		for _, o := range viol {
			fmt.Printf("violation: %s @%s: %s\n", o.Key(), o.Pos, oneLine(o.Detail))
		}
		fmt.Printf("VIOLATION property=%s replay=%s\n", r.Prop, violPath)
	} else {
		os.Remove(violPath)
	}
	// evidence
	distinct := map[string]bool{}
	for _, o := range r.Obs {
		if !o.Trivial {
			distinct[o.Key()] = true
		}
	}
	samples := sampleObs(r.Obs, r.Seed, 12)
	rules := map[string]map[string]int{}
	for _, o := range r.Obs {
		if rules[o.Rule] == nil {
			rules[o.Rule] = map[string]int{}
		}
		v := string(o.Verdict)
		if o.Known {
			v = "known_finding"
		}
		rules[o.Rule][v]++
	}
	cov := map[string]any{
		"explanation":         r.Explanation,
		"technique":           r.Technique,
		"obligations":         len(r.Obs) - len(obsv),
		"discharged":          len(pass),
		"known_findings":      len(knownHit),
		"observations":        len(obsv),
		"evaluations":         len(r.Obs),
		"distinct_nontrivial": len(distinct),
		"rule":                "one obligation = one rule applied to one construct (function, call site, field, constant) found in /repo's current source by type-resolved anchors; distinct = distinct rule+construct keys; non-trivial = a path, guard, value flow or constant had to be examined",
		"samples":             samples,
		"analysed":            r.Analysed,
		"per_rule":            rules,
		"floors":              r.Floors,
		"all_obligations":     r.Obs,
	}
	if r.Normalised != nil {
		cov["normalisation"] = r.Normalised
	}
	if r.Tier == "thorough" {
		// embed the checker self-test for this property if run.sh just produced it
		if b, err := os.ReadFile(filepath.Join(verifDir, "selftest", "result-"+r.Prop+".json")); err == nil {
			var st map[string]any
			if json.Unmarshal(b, &st) == nil {
				cov["checker_self_test"] = st
			}
		}
	}
	ev := map[string]any{
		"property_id": r.Prop,
		"tier":        r.Tier,
		"seed":        r.Seed,
		"level":       "other",
		"coverage":    cov,
		"assumptions": r.Assumptions,
		"wall_s":      time.Since(r.Start).Seconds(),
		"violations":  len(viol),
	}
	b, _ := json.MarshalIndent(ev, "", " ")
	if err := os.WriteFile(filepath.Join(evDir, r.Prop+".json"), b, 0o644); err != nil {
		fmt.Fprintf(os.Stderr, "cannot write evidence: %v\n", err)
		return 2
	}
	fmt.Printf("%s %s: %d obligations, %d discharged, %d known findings, %d violations, %d observations (%.1fs)\n",
		r.Prop, r.Tier, len(r.Obs)-len(obsv), len(pass), len(knownHit), len(viol), len(obsv), time.Since(r.Start).Seconds())
	if len(viol) > 0 {
		return 1
	}
	return 0
}

func oneLine(s string) string {
	s = strings.ReplaceAll(s, "\n", " | ")
	if len(s) > 600 {
		s = s[:600] + "…"
	}
	return s
}

func sampleObs(obs []Obligation, seed int64, n int) []Obligation {
	if len(obs) <= n {
		return obs
	}
	// deterministic stride selection permuted by seed; always include non-pass ones first
	var out []Obligation
	for _, o := range obs {
		if o.Verdict != Pass && len(out) < n/2 {
			out = append(out, o)
		}
	}
	step := len(obs) / (n - len(out) + 1)
	if step < 1 {
		step = 1
	}
	off := int(uint64(seed) % uint64(step))
	for i := off; i < len(obs) && len(out) < n; i += step {
		if obs[i].Verdict == Pass {
			out = append(out, obs[i])
		}
	}
	return out
}
