package core

import (
	"go/constant"
	"go/token"
	"go/types"
	"math"

	"golang.org/x/tools/go/ssa"
)

// Range is a static bound of a numeric value. A limit that used to be a constant may become a
// setting ("make it configurable"): a field initialised to the old constant and assigned only
// inside a range test, or a helper that returns the field when it is in range and the constant
// otherwise. Rules that need "at most K" / "at least K" ask for the range instead of a constant.
type Range struct {
	Lo, Hi       float64
	HasLo, HasHi bool
}

func (r Range) String() string {
	lo, hi := "-inf", "+inf"
	if r.HasLo {
		lo = trimFloat(r.Lo)
	}
	if r.HasHi {
		hi = trimFloat(r.Hi)
	}
	return "[" + lo + ", " + hi + "]"
}

func trimFloat(f float64) string {
	if f == math.Trunc(f) && math.Abs(f) < 1e15 {
		return constant.MakeInt64(int64(f)).String()
	}
	return constant.MakeFloat64(f).String()
}

func exact(k float64) Range { return Range{k, k, true, true} }

func (r Range) union(o Range) Range {
	out := Range{}
	if r.HasLo && o.HasLo {
		out.Lo, out.HasLo = math.Min(r.Lo, o.Lo), true
	}
	if r.HasHi && o.HasHi {
		out.Hi, out.HasHi = math.Max(r.Hi, o.Hi), true
	}
	return out
}

func (r Range) meet(o Range) Range {
	out := r
	if o.HasLo && (!out.HasLo || o.Lo > out.Lo) {
		out.Lo, out.HasLo = o.Lo, true
	}
	if o.HasHi && (!out.HasHi || o.Hi < out.Hi) {
		out.Hi, out.HasHi = o.Hi, true
	}
	return out
}

func constNum(v ssa.Value) (float64, bool) {
	c, ok := v.(*ssa.Const)
	if !ok || c.Value == nil {
		return 0, false
	}
	switch c.Value.Kind() {
	case constant.Int, constant.Float:
		f, _ := constant.Float64Val(c.Value)
		return f, true
	}
	return 0, false
}

func isIntType(t types.Type) bool {
	b, ok := t.Underlying().(*types.Basic)
	return ok && b.Info()&types.IsInteger != 0
}

// RangeOf bounds v as seen by the instruction `at` (nil: anywhere).
func (p *Prog) RangeOf(v ssa.Value, at *ssa.BasicBlock) Range {
	return p.rangeOf(v, at, 0, map[ssa.Value]bool{})
}

func (p *Prog) rangeOf(v ssa.Value, at *ssa.BasicBlock, depth int, seen map[ssa.Value]bool) Range {
	if v == nil || depth > 6 || seen[v] {
		return Range{}
	}
	seen[v] = true
	defer delete(seen, v)
	r := p.rangeRaw(v, depth, seen)
	if at != nil {
		r = r.meet(boundsFromFacts(v, DomFacts(at)))
	}
	return r
}

// boundsFromFacts: what the facts say about v (matched by identity or by access path: repeated
// loads of one field / captured variable in a function that does not write it).
func boundsFromFacts(v ssa.Value, fs []Fact) Range {
	out := Range{}
	pv := AccessPath(v)
	same := func(x ssa.Value) bool {
		if x == v {
			return true
		}
		if cv, ok := x.(*ssa.Convert); ok && cv.X == v {
			return true
		}
		return pv != "" && AccessPath(x) == pv
	}
	isInt := isIntType(v.Type())
	for _, f := range fs {
		CmpFact(f, func(op token.Token, x, y ssa.Value) bool {
			k, ok := constNum(y)
			if !ok || !same(x) {
				return false
			}
			switch op {
			case token.GTR:
				if isInt {
					k++
				}
				out = out.meet(Range{Lo: k, HasLo: true})
			case token.GEQ:
				out = out.meet(Range{Lo: k, HasLo: true})
			case token.LSS:
				if isInt {
					k--
				}
				out = out.meet(Range{Hi: k, HasHi: true})
			case token.LEQ:
				out = out.meet(Range{Hi: k, HasHi: true})
			case token.EQL:
				out = out.meet(exact(k))
			}
			return false
		})
	}
	return out
}

func (p *Prog) rangeRaw(v ssa.Value, depth int, seen map[ssa.Value]bool) Range {
	if k, ok := constNum(v); ok {
		return exact(k)
	}
	switch x := v.(type) {
	case *ssa.Convert:
		return p.rangeOf(x.X, nil, depth+1, seen)
	case *ssa.ChangeType:
		return p.rangeOf(x.X, nil, depth+1, seen)
	case *ssa.Phi:
		var out Range
		for i, e := range x.Edges {
			pred := x.Block().Preds[i]
			re := p.rangeOf(e, nil, depth+1, seen).meet(boundsFromFacts(e, append(DomFacts(pred), edgeFacts(pred, x.Block(), 0)...)))
			if i == 0 {
				out = re
			} else {
				out = out.union(re)
			}
		}
		return out
	case *ssa.Call:
		if b, ok := x.Call.Value.(*ssa.Builtin); ok && (b.Name() == "min" || b.Name() == "max") && len(x.Call.Args) >= 1 {
			out := p.rangeOf(x.Call.Args[0], nil, depth+1, seen)
			for _, a := range x.Call.Args[1:] {
				ra := p.rangeOf(a, nil, depth+1, seen)
				n := Range{}
				if b.Name() == "min" {
					// min(a,b) <= each bound that is known; >= the smaller lower bound if both known
					switch {
					case out.HasHi && ra.HasHi:
						n.Hi, n.HasHi = math.Min(out.Hi, ra.Hi), true
					case out.HasHi:
						n.Hi, n.HasHi = out.Hi, true
					case ra.HasHi:
						n.Hi, n.HasHi = ra.Hi, true
					}
					if out.HasLo && ra.HasLo {
						n.Lo, n.HasLo = math.Min(out.Lo, ra.Lo), true
					}
				} else {
					switch {
					case out.HasLo && ra.HasLo:
						n.Lo, n.HasLo = math.Max(out.Lo, ra.Lo), true
					case out.HasLo:
						n.Lo, n.HasLo = out.Lo, true
					case ra.HasLo:
						n.Lo, n.HasLo = ra.Lo, true
					}
					if out.HasHi && ra.HasHi {
						n.Hi, n.HasHi = math.Max(out.Hi, ra.Hi), true
					}
				}
				out = n
			}
			return out
		}
		if b, ok := x.Call.Value.(*ssa.Builtin); ok && b.Name() == "len" {
			return Range{Lo: 0, HasLo: true}
		}
		// a module helper with one result: the union over its returns, each refined by what the
		// path to that return established
		if f := StaticCalleeFn(x); f != nil && InModule(f) && f.Signature.Results().Len() == 1 && len(f.Blocks) > 0 && len(f.Blocks) <= 12 {
			var out Range
			first := true
			for _, ret := range Returns(f) {
				rv := ResolveSpill(ret.Results[0])
				rr := p.rangeOf(rv, ret.Block(), depth+1, seen)
				if first {
					out, first = rr, false
				} else {
					out = out.union(rr)
				}
			}
			if !first {
				return out
			}
		}
	case *ssa.UnOp:
		if x.Op != token.MUL {
			return Range{}
		}
		// a captured variable of an enclosing function: its one binding
		if fv, ok := x.X.(*ssa.FreeVar); ok {
			if b := freeVarBinding(fv); b != nil {
				if a, isA := b.(*ssa.Alloc); isA {
					if st := singleStore(a); st != nil {
						return p.rangeOf(st.Val, nil, depth+1, seen)
					}
				}
			}
			return Range{}
		}
		// an unexported struct field: every store in the module, each refined by the facts that
		// dominate it; plus the zero value unless every allocation of the struct sets the field
		if t, f, _, ok := FieldRef(x.X); ok {
			return p.fieldRange(t, f, x.X, depth, seen)
		}
	}
	return Range{}
}

func (p *Prog) fieldRange(typeName, field string, addr ssa.Value, depth int, seen map[ssa.Value]bool) Range {
	fa, ok := addr.(*ssa.FieldAddr)
	if !ok {
		return Range{}
	}
	st, ok := deref(fa.X.Type()).Underlying().(*types.Struct)
	if !ok || fa.Field >= st.NumFields() || st.Field(fa.Field).Exported() {
		return Range{} // an exported field can be set by anybody
	}
	ws := p.FieldWrites(typeName, field)
	if len(ws) == 0 {
		return Range{}
	}
	var out Range
	first := true
	for _, w := range ws {
		if bfa, isFa := w.Store.Addr.(*ssa.FieldAddr); isFa && !types.Identical(deref(bfa.X.Type()), deref(fa.X.Type())) {
			continue // a field of the same name in another type of that name
		}
		if w.Element {
			return Range{}
		}
		rw := p.rangeOf(w.Val, w.Store.Block(), depth+1, seen)
		if first {
			out, first = rw, false
		} else {
			out = out.union(rw)
		}
	}
	// allocations that leave the field at its zero value
	for _, fn := range p.ModuleFuncs() {
		for _, b := range fn.Blocks {
			for _, in := range b.Instrs {
				al, isAl := in.(*ssa.Alloc)
				if !isAl || !types.Identical(deref(al.Type()), deref(fa.X.Type())) {
					continue
				}
				set := false
				for _, w := range ws {
					if w.Fn == fn && w.Init {
						set = true
					}
				}
				if !set {
					out = out.union(exact(0))
				}
			}
		}
	}
	return out
}

func deref(t types.Type) types.Type {
	if pt, ok := t.Underlying().(*types.Pointer); ok {
		return pt.Elem()
	}
	return t
}
