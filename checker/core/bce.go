package core

import (
	"bufio"
	"bytes"
	"encoding/json"
	"fmt"
	"go/ast"
	"go/token"
	"go/types"
	"os"
	"os/exec"
	"path/filepath"
	"regexp"
	"sort"
	"strconv"
	"strings"

	"golang.org/x/tools/go/ssa"
)

// BoundsSite is one bounds check the Go compiler's prove pass could NOT eliminate
// (reported by -d=ssa/check_bce): an index, slice or slice-to-array conversion that can panic
// unless an invariant the compiler does not see protects it.
type BoundsSite struct {
	File   string // repo-relative
	Line   int
	Col    int
	Kind   string // IsInBounds | IsSliceInBounds
	Fn     *ssa.Function
	FnName string
	Expr   string // normalised source expression (locals replaced by their types), line-free
	Raw    string // the expression as written (for reading; not part of the key)
	Alt    string // Expr with single-definition pure locals replaced by their definition (hoisting-insensitive)
	Node   ast.Node
	Pos    token.Pos
}

// Key is the line-free identity of a site: function + kind + expression.
func (s BoundsSite) Key() string { return s.FnName + " " + s.Kind + " " + s.Expr }

// AltKey is the identity with hoisted sub-expressions written back in place.
func (s BoundsSite) AltKey() string { return s.FnName + " " + s.Kind + " " + s.Alt }

var bceRe = regexp.MustCompile(`^(.+\.go):(\d+):(\d+): Found (IsInBounds|IsSliceInBounds)`)

// RunBCE compiles the module with the prove pass reporting unproven bounds checks and maps
// every report inside the module to its syntax node and enclosing function.
func (p *Prog) RunBCE(extraEnv ...string) ([]BoundsSite, error) {
	srcCache = map[string][]byte{}
	for name, content := range p.Overlay {
		srcCache[name] = content
	}
	args := []string{"build", "-gcflags=" + ModPath + "/...=-d=ssa/check_bce/debug=1"}
	if len(p.Overlay) > 0 {
		// the normal form: compile the rewritten files in place of the ones on disk
		dir, err := os.MkdirTemp("", "verifchk-overlay-")
		if err != nil {
			return nil, err
		}
		defer os.RemoveAll(dir)
		repl := map[string]string{}
		i := 0
		for name, content := range p.Overlay {
			i++
			f := filepath.Join(dir, fmt.Sprintf("f%d.go", i))
			if err := os.WriteFile(f, content, 0o644); err != nil {
				return nil, err
			}
			repl[name] = f
		}
		jb, _ := json.Marshal(map[string]any{"Replace": repl})
		oj := filepath.Join(dir, "overlay.json")
		if err := os.WriteFile(oj, jb, 0o644); err != nil {
			return nil, err
		}
		args = append(args, "-overlay="+oj)
	}
	args = append(args, "./...")
	var out bytes.Buffer
	build := func(a []string) error {
		out.Reset()
		cmd := exec.Command("go", a...)
		cmd.Dir = p.Repo
		cmd.Env = append(os.Environ(), extraEnv...)
		cmd.Stdout = &out
		cmd.Stderr = &out
		return cmd.Run()
	}
	runErr := build(args)
	// the build itself must succeed (diagnostics go to stderr with exit status 0)
	if runErr != nil {
		// with -d flags the go command still exits 0; a non-zero status is a real build failure
		return nil, fmt.Errorf("go build (bounds-check report) failed: %v: %s", runErr, firstLines(out.String(), 5))
	}
	// The report of an unchanged package is replayed from the go build cache. A cache that kept a
	// package's object but lost its recorded output (trimmed by age, copied incompletely) replays
	// nothing, and the package would look free of unproven checks. A module package that is full
	// of index and slice expressions and reports none at all is therefore compiled again under an
	// equivalent flag spelling, which has another cache key (module packages only: seconds).
	if quiet := p.quietIndexingPackages(out.String()); len(quiet) > 0 {
		args2 := append([]string{}, args...)
		args2[1] = "-gcflags=" + ModPath + "/...=-d=ssa/check_bce/debug=1 -e"
		var keep bytes.Buffer
		keep.Write(out.Bytes())
		if err := build(args2); err != nil {
			out.Reset()
			out.Write(keep.Bytes())
		}
		if os.Getenv("VERIF_DEBUG") != "" {
			fmt.Fprintf(os.Stderr, "debug: bounds-check report re-built for %v (nothing was replayed for them)\n", quiet)
		}
	}
	// index functions by file
	type frange struct {
		fn       *ssa.Function
		pos, end token.Pos
	}
	byFile := map[string][]frange{}
	for _, fn := range p.ModuleFuncs() {
		syn := fn.Syntax()
		if syn == nil {
			continue
		}
		f := p.Fset.Position(syn.Pos()).Filename
		byFile[f] = append(byFile[f], frange{fn, syn.Pos(), syn.End()})
	}
	fileAST := map[string]*ast.File{}
	fileInfo := map[string]*types.Info{}
	for _, pk := range p.Pkgs {
		for _, f := range pk.Syntax {
			fileAST[p.Fset.Position(f.Pos()).Filename] = f
			fileInfo[p.Fset.Position(f.Pos()).Filename] = pk.TypesInfo
		}
	}
	var sites []BoundsSite
	sc := bufio.NewScanner(&out)
	sc.Buffer(make([]byte, 1<<20), 1<<24)
	seen := map[string]bool{}
	for sc.Scan() {
		m := bceRe.FindStringSubmatch(sc.Text())
		if m == nil {
			continue
		}
		file := m[1]
		if strings.HasPrefix(file, "/") || strings.HasPrefix(file, "..") {
			if !strings.HasPrefix(file, p.Repo+"/") {
				continue // dependency
			}
		} else {
			file = filepath.Join(p.Repo, strings.TrimPrefix(file, "./"))
		}
		if seen[sc.Text()] {
			continue
		}
		seen[sc.Text()] = true
		line, _ := strconv.Atoi(m[2])
		col, _ := strconv.Atoi(m[3])
		af := fileAST[file]
		if af == nil {
			continue // test file or file outside the loaded build
		}
		tf := p.Fset.File(af.Pos())
		if line > tf.LineCount() {
			continue
		}
		pos := tf.LineStart(line) + token.Pos(col-1)
		s := BoundsSite{File: strings.TrimPrefix(file, p.Repo+"/"), Line: line, Col: col, Kind: m[4], Pos: pos}
		// innermost function
		var best *frange
		for i := range byFile[file] {
			fr := &byFile[file][i]
			if fr.pos <= pos && pos < fr.end {
				if best == nil || (fr.end-fr.pos) < (best.end-best.pos) {
					best = fr
				}
			}
		}
		if best != nil {
			s.Fn = best.fn
			s.FnName = FuncName(best.fn)
		} else {
			s.FnName = "<package-level> " + s.File
		}
		// syntax node
		s.Node = nodeAt(af, pos)
		if s.Node != nil {
			if e, ok := s.Node.(ast.Expr); ok {
				s.Expr = normExpr(p.Fset, file, e, fileInfo[file])
				s.Alt = normExprX(p.Fset, file, e, fileInfo[file], af, 0)
				s.Raw = types.ExprString(e)
			} else {
				s.Expr = fmt.Sprintf("%T", s.Node)
			}
		} else {
			s.Expr = "?"
		}
		sites = append(sites, s)
	}
	sort.Slice(sites, func(i, j int) bool {
		if sites[i].File != sites[j].File {
			return sites[i].File < sites[j].File
		}
		if sites[i].Line != sites[j].Line {
			return sites[i].Line < sites[j].Line
		}
		return sites[i].Col < sites[j].Col
	})
	return sites, nil
}

func firstLines(s string, n int) string {
	ls := strings.Split(s, "\n")
	if len(ls) > n {
		ls = ls[:n]
	}
	return strings.Join(ls, " | ")
}

// nodeAt finds the index/slice/call expression the compiler attributes the check to: the one
// whose bracket (or paren) is at pos; otherwise the innermost such expression containing pos.
func nodeAt(f *ast.File, pos token.Pos) ast.Node {
	var exact, inner ast.Node
	ast.Inspect(f, func(n ast.Node) bool {
		if n == nil {
			return false
		}
		if pos < n.Pos() || pos >= n.End() {
			return n.Pos() <= pos // keep descending only if it may contain
		}
		switch x := n.(type) {
		case *ast.IndexExpr:
			if x.Lbrack == pos {
				exact = n
			}
			inner = n
		case *ast.SliceExpr:
			if x.Lbrack == pos {
				exact = n
			}
			inner = n
		case *ast.CallExpr:
			if x.Lparen == pos || x.Pos() == pos {
				if exact == nil {
					exact = n
				}
			}
			inner = n
		case *ast.RangeStmt:
			if inner == nil {
				inner = n
			}
		}
		return true
	})
	if exact != nil {
		return exact
	}
	return inner
}

// ---------- reachability over the module call graph ----------

// ModuleCallGraph: static callees, closures created in a function, and interface calls
// resolved by class-hierarchy analysis restricted to module types (over-approximate inside
// the module, which is the safe direction for an audit).
func (p *Prog) ModuleCallees(fn *ssa.Function, impls func(m *types.Func) []*ssa.Function) []*ssa.Function {
	var out []*ssa.Function
	add := func(f *ssa.Function) {
		if f != nil && InModule(f) && f.Blocks != nil {
			out = append(out, f)
		}
	}
	for _, a := range fn.AnonFuncs {
		add(a)
	}
	for _, b := range fn.Blocks {
		for _, in := range b.Instrs {
			switch x := in.(type) {
			case ssa.CallInstruction:
				cc := x.Common()
				if cc.IsInvoke() {
					for _, f := range impls(cc.Method) {
						add(f)
					}
				} else {
					add(StaticCalleeFn(x))
				}
				for _, a := range cc.Args {
					switch v := a.(type) {
					case *ssa.Function:
						add(v)
					case *ssa.MakeClosure:
						add(v.Fn.(*ssa.Function))
					}
				}
			case *ssa.Store:
				// function values stored into fields (callbacks) are assumed callable
				switch v := x.Val.(type) {
				case *ssa.Function:
					add(v)
				case *ssa.MakeClosure:
					add(v.Fn.(*ssa.Function))
				}
			}
		}
	}
	return out
}

// Implementations builds the CHA resolver: interface method -> module methods implementing it.
func (p *Prog) Implementations() func(m *types.Func) []*ssa.Function {
	type key struct {
		name string
		sig  string
	}
	byName := map[string][]*ssa.Function{}
	for _, fn := range p.ModuleFuncs() {
		if fn.Signature.Recv() != nil {
			byName[fn.Name()] = append(byName[fn.Name()], fn)
		}
	}
	cache := map[*types.Func][]*ssa.Function{}
	return func(m *types.Func) []*ssa.Function {
		if m == nil {
			return nil
		}
		if r, ok := cache[m]; ok {
			return r
		}
		var out []*ssa.Function
		recv := m.Type().(*types.Signature).Recv()
		var iface *types.Interface
		if recv != nil {
			iface, _ = recv.Type().Underlying().(*types.Interface)
		}
		for _, fn := range byName[m.Name()] {
			rt := fn.Signature.Recv().Type()
			if iface != nil {
				if types.Implements(rt, iface) || types.Implements(types.NewPointer(rt), iface) {
					out = append(out, fn)
				}
			}
		}
		cache[m] = out
		return out
	}
}

// Reachable computes the set of module functions reachable from roots.
func (p *Prog) Reachable(roots []*ssa.Function) map[*ssa.Function]bool {
	impls := p.Implementations()
	seen := map[*ssa.Function]bool{}
	work := append([]*ssa.Function{}, roots...)
	for len(work) > 0 {
		f := work[len(work)-1]
		work = work[:len(work)-1]
		if f == nil || seen[f] {
			continue
		}
		seen[f] = true
		work = append(work, p.ModuleCallees(f, impls)...)
	}
	return seen
}

var srcCache = map[string][]byte{}

// normExpr renders an expression with every local variable (parameters included) replaced by
// its type, so that the key of a site survives the renaming of locals: `data[hdr:end]` and
// `data[headerSize:limit]` both become `‹[]byte›[‹int›:‹int›]`. Fields, functions, constants
// and package-level names are kept.
func normExpr(fset *token.FileSet, file string, e ast.Expr, info *types.Info) string {
	src, ok := srcCache[file]
	if !ok {
		src, _ = os.ReadFile(file)
		srcCache[file] = src
	}
	tf := fset.File(e.Pos())
	if tf == nil || src == nil || info == nil {
		return types.ExprString(e)
	}
	start, end := tf.Offset(e.Pos()), tf.Offset(e.End())
	if start < 0 || end > len(src) || start >= end {
		return types.ExprString(e)
	}
	type rep struct {
		a, b int
		s    string
	}
	var reps []rep
	qual := func(pk *types.Package) string { return pk.Name() }
	ast.Inspect(e, func(n ast.Node) bool {
		if fl, ok := n.(*ast.FuncLit); ok {
			// a literal's body is not part of the site's identity
			reps = append(reps, rep{tf.Offset(fl.Pos()) - start, tf.Offset(fl.End()) - start, "func‹literal›"})
			return false
		}
		id, ok := n.(*ast.Ident)
		if !ok {
			return true
		}
		obj, _ := info.Uses[id].(*types.Var)
		if obj != nil && obj.IsField() {
			if old, ok := fieldObjAlias[obj]; ok {
				reps = append(reps, rep{tf.Offset(id.Pos()) - start, tf.Offset(id.End()) - start, old})
			}
			return true
		}
		if obj == nil || obj.IsField() || obj.Pkg() == nil || obj.Parent() == obj.Pkg().Scope() {
			return true
		}
		reps = append(reps, rep{tf.Offset(id.Pos()) - start, tf.Offset(id.End()) - start, "‹" + types.TypeString(obj.Type(), qual) + "›"})
		return true
	})
	txt := string(src[start:end])
	sort.Slice(reps, func(i, j int) bool { return reps[i].a > reps[j].a })
	for _, r := range reps {
		if r.a >= 0 && r.b <= len(txt) && r.a <= r.b {
			txt = txt[:r.a] + r.s + txt[r.b:]
		}
	}
	return strings.Join(strings.Fields(txt), " ")
}

// normExprX is normExpr with every local that has exactly one, side-effect-free definition in
// its function replaced by (the normal form of) that definition: `end := len(h.entries);
// sort.Search(end, f)` and `sort.Search(len(h.entries), f)` get the same text.
func normExprX(fset *token.FileSet, file string, e ast.Expr, info *types.Info, af *ast.File, depth int) string {
	src := srcCache[file]
	tf := fset.File(e.Pos())
	if tf == nil || src == nil || info == nil || af == nil || depth > 3 {
		return normExpr(fset, file, e, info)
	}
	start, end := tf.Offset(e.Pos()), tf.Offset(e.End())
	if start < 0 || end > len(src) || start >= end {
		return types.ExprString(e)
	}
	type rep struct {
		a, b int
		s    string
	}
	var reps []rep
	qual := func(pk *types.Package) string { return pk.Name() }
	ast.Inspect(e, func(n ast.Node) bool {
		if fl, ok := n.(*ast.FuncLit); ok {
			reps = append(reps, rep{tf.Offset(fl.Pos()) - start, tf.Offset(fl.End()) - start, "func‹literal›"})
			return false
		}
		id, ok := n.(*ast.Ident)
		if !ok {
			return true
		}
		obj, _ := info.Uses[id].(*types.Var)
		if obj != nil && obj.IsField() {
			if old, ok := fieldObjAlias[obj]; ok {
				reps = append(reps, rep{tf.Offset(id.Pos()) - start, tf.Offset(id.End()) - start, old})
			}
			return true
		}
		if obj == nil || obj.IsField() || obj.Pkg() == nil || obj.Parent() == obj.Pkg().Scope() {
			return true
		}
		txt := "‹" + types.TypeString(obj.Type(), qual) + "›"
		if def := singlePureDef(info, af, obj); def != nil {
			txt = normExprX(fset, file, def, info, af, depth+1)
		}
		reps = append(reps, rep{tf.Offset(id.Pos()) - start, tf.Offset(id.End()) - start, txt})
		return true
	})
	txt := string(src[start:end])
	sort.Slice(reps, func(i, j int) bool { return reps[i].a > reps[j].a })
	for _, r := range reps {
		if r.a >= 0 && r.b <= len(txt) && r.a <= r.b {
			txt = txt[:r.a] + r.s + txt[r.b:]
		}
	}
	return strings.Join(strings.Fields(txt), " ")
}

// singlePureDef returns the defining expression of local v if v is defined exactly once, never
// assigned again or address-taken, and the definition has no call (len/cap and conversions
// excepted), receive or function literal.
func singlePureDef(info *types.Info, af *ast.File, v *types.Var) ast.Expr {
	// enclosing top-level function
	var encl ast.Node
	for _, d := range af.Decls {
		if fd, ok := d.(*ast.FuncDecl); ok && fd.Pos() <= v.Pos() && v.Pos() < fd.End() {
			encl = fd
		}
	}
	if encl == nil {
		return nil
	}
	var def ast.Expr
	ndef, bad := 0, false
	ast.Inspect(encl, func(n ast.Node) bool {
		switch x := n.(type) {
		case *ast.AssignStmt:
			for i, l := range x.Lhs {
				id, ok := ast.Unparen(l).(*ast.Ident)
				if !ok {
					continue
				}
				if x.Tok == token.DEFINE && info.Defs[id] == types.Object(v) {
					ndef++
					if len(x.Lhs) == len(x.Rhs) {
						def = x.Rhs[i]
					} else {
						bad = true
					}
				} else if info.Uses[id] == types.Object(v) {
					bad = true // assigned again
				}
			}
		case *ast.ValueSpec:
			for i, id := range x.Names {
				if info.Defs[id] == types.Object(v) {
					ndef++
					if len(x.Values) == len(x.Names) {
						def = x.Values[i]
					} else {
						bad = true
					}
				}
			}
		case *ast.IncDecStmt:
			if id, ok := ast.Unparen(x.X).(*ast.Ident); ok && info.Uses[id] == types.Object(v) {
				bad = true
			}
		case *ast.UnaryExpr:
			if x.Op == token.AND {
				if id, ok := ast.Unparen(x.X).(*ast.Ident); ok && info.Uses[id] == types.Object(v) {
					bad = true
				}
			}
		case *ast.RangeStmt:
			for _, kv := range []ast.Expr{x.Key, x.Value} {
				if id, ok := kv.(*ast.Ident); ok && (info.Defs[id] == types.Object(v) || info.Uses[id] == types.Object(v)) {
					bad = true
				}
			}
		}
		return true
	})
	if bad || ndef != 1 || def == nil {
		return nil
	}
	pure := true
	ast.Inspect(def, func(n ast.Node) bool {
		switch x := n.(type) {
		case *ast.FuncLit:
			pure = false
		case *ast.UnaryExpr:
			if x.Op == token.ARROW {
				pure = false
			}
		case *ast.CallExpr:
			ok := false
			if tv, has := info.Types[x.Fun]; has && tv.IsType() {
				ok = true
			}
			if id, isId := ast.Unparen(x.Fun).(*ast.Ident); isId {
				if _, isB := info.Uses[id].(*types.Builtin); isB && (id.Name == "len" || id.Name == "cap") {
					ok = true
				}
			}
			if !ok {
				pure = false
			}
		}
		return pure
	})
	if !pure {
		return nil
	}
	return def
}

// quietIndexingPackages: module packages with at least 40 index / slice expressions in their
// source for which the report contains no line.
func (p *Prog) quietIndexingPackages(report string) []string {
	seen := map[string]bool{}
	for _, l := range strings.Split(report, "\n") {
		m := bceRe.FindStringSubmatch(l)
		if m == nil {
			continue
		}
		f := m[1]
		if strings.HasPrefix(f, "/") {
			if !strings.HasPrefix(f, p.Repo+"/") {
				continue
			}
			f = strings.TrimPrefix(f, p.Repo+"/")
		}
		seen[filepath.Dir(strings.TrimPrefix(f, "./"))] = true
	}
	var quiet []string
	for _, pk := range p.Pkgs {
		n := 0
		dir := ""
		for _, f := range pk.Syntax {
			name := p.Fset.Position(f.Pos()).Filename
			if strings.HasSuffix(name, "_test.go") {
				continue
			}
			if rel, err := filepath.Rel(p.Repo, filepath.Dir(name)); err == nil {
				dir = rel
			}
			ast.Inspect(f, func(x ast.Node) bool {
				switch x.(type) {
				case *ast.IndexExpr, *ast.SliceExpr:
					n++
				}
				return true
			})
		}
		if dir != "" && n >= 40 && !seen[dir] {
			quiet = append(quiet, dir)
		}
	}
	sort.Strings(quiet)
	return quiet
}
