package core

import (
	"go/token"

	"golang.org/x/tools/go/ssa"
)

// Join: instruction At of the spawning function returns only after the goroutine started by Go
// has finished. Two spellings are recognised: sync.WaitGroup (deferred Done in the goroutine,
// Wait in the spawner) and a completion channel (deferred close in the goroutine, receive in
// the spawner). Both ends must name the same captured variable.
type Join struct {
	Go      *ssa.Go
	Closure *ssa.Function
	At      ssa.Instruction
}

func GoroutineJoins(fn *ssa.Function) []Join {
	var out []Join
	for _, b := range fn.Blocks {
		for _, in := range b.Instrs {
			g, ok := in.(*ssa.Go)
			if !ok {
				continue
			}
			mc, ok := g.Call.Value.(*ssa.MakeClosure)
			if !ok {
				continue
			}
			cf := mc.Fn.(*ssa.Function)
			fvIndex := func(v ssa.Value) int {
				v = Unwrap(v)
				if u, isLd := v.(*ssa.UnOp); isLd && u.Op == token.MUL {
					v = u.X
				}
				for i, fv := range cf.FreeVars {
					if v == ssa.Value(fv) {
						return i
					}
				}
				return -1
			}
			// completion signals the goroutine gives on every exit (deferred at its top level)
			for _, cb := range cf.Blocks {
				for _, cin := range cb.Instrs {
					d, isD := cin.(*ssa.Defer)
					if !isD || !Dominates(cb, cf) {
						continue
					}
					var bi = -1
					kind := ""
					switch CalleeID(d) {
					case "sync.(*WaitGroup).Done":
						bi, kind = fvIndex(d.Call.Args[0]), "wg"
					case "builtin.close":
						bi, kind = fvIndex(d.Call.Args[0]), "chan"
					}
					if bi < 0 {
						continue
					}
					bind := mc.Bindings[bi]
					for _, jb := range fn.Blocks {
						for _, jin := range jb.Instrs {
							switch kind {
							case "wg":
								if c, isC := jin.(*ssa.Call); isC && CalleeID(c) == "sync.(*WaitGroup).Wait" && c.Call.Args[0] == bind {
									out = append(out, Join{Go: g, Closure: cf, At: jin})
								}
							case "chan":
								if u, isU := jin.(*ssa.UnOp); isU && u.Op == token.ARROW {
									x := Unwrap(u.X)
									if ld, isLd := x.(*ssa.UnOp); isLd && ld.Op == token.MUL {
										x = ld.X
									}
									if x == bind {
										out = append(out, Join{Go: g, Closure: cf, At: jin})
									}
								}
							}
						}
					}
				}
			}
		}
	}
	return out
}

// Dominates: every path from the entry of fn to a return passes through b.
func Dominates(b *ssa.BasicBlock, fn *ssa.Function) bool {
	if len(fn.Blocks) == 0 {
		return false
	}
	if b == fn.Blocks[0] {
		return true
	}
	seen := map[*ssa.BasicBlock]bool{b: true}
	work := []*ssa.BasicBlock{fn.Blocks[0]}
	for len(work) > 0 {
		x := work[len(work)-1]
		work = work[:len(work)-1]
		if seen[x] {
			continue
		}
		seen[x] = true
		if len(x.Instrs) > 0 {
			if _, isRet := x.Instrs[len(x.Instrs)-1].(*ssa.Return); isRet {
				return false
			}
		}
		work = append(work, x.Succs...)
	}
	return true
}

// SameCaptured: value inner (inside the closure started by g) and value outer (in the spawning
// function) read the same captured variable.
func SameCaptured(inner ssa.Value, cf *ssa.Function, g *ssa.Go, outer ssa.Value) bool {
	mc, ok := g.Call.Value.(*ssa.MakeClosure)
	if !ok {
		return false
	}
	strip := func(v ssa.Value) ssa.Value {
		v = Unwrap(v)
		if u, isLd := v.(*ssa.UnOp); isLd && u.Op == token.MUL {
			v = u.X
		}
		return v
	}
	iv := strip(inner)
	for i, fv := range cf.FreeVars {
		if iv == ssa.Value(fv) {
			return mc.Bindings[i] == strip(outer) || mc.Bindings[i] == Unwrap(outer)
		}
	}
	return false
}

// LoopOf returns the blocks of the innermost natural loop around b (the strongly connected
// blocks that reach b and are reached from it, cut at the dominating header) and its header: the
// loop block that dominates all the others. nil when b is not in a loop.
func LoopOf(b *ssa.BasicBlock) (map[*ssa.BasicBlock]bool, *ssa.BasicBlock) {
	if !InLoop(b) {
		return nil, nil
	}
	fwd := map[*ssa.BasicBlock]bool{}
	var walk func(x *ssa.BasicBlock, m map[*ssa.BasicBlock]bool, next func(*ssa.BasicBlock) []*ssa.BasicBlock)
	walk = func(x *ssa.BasicBlock, m map[*ssa.BasicBlock]bool, next func(*ssa.BasicBlock) []*ssa.BasicBlock) {
		if m[x] {
			return
		}
		m[x] = true
		for _, y := range next(x) {
			walk(y, m, next)
		}
	}
	walk(b, fwd, func(x *ssa.BasicBlock) []*ssa.BasicBlock { return x.Succs })
	bwd := map[*ssa.BasicBlock]bool{}
	walk(b, bwd, func(x *ssa.BasicBlock) []*ssa.BasicBlock { return x.Preds })
	scc := map[*ssa.BasicBlock]bool{}
	for x := range fwd {
		if bwd[x] {
			scc[x] = true
		}
	}
	// innermost: the header is the nearest dominator of b (in the SCC) that has a back edge from
	// a block it dominates; keep only what that header dominates
	for h := b; h != nil; h = h.Idom() {
		if !scc[h] {
			break
		}
		back := false
		for _, p := range h.Preds {
			if scc[p] && h.Dominates(p) {
				back = true
			}
		}
		if !back {
			continue
		}
		loop := map[*ssa.BasicBlock]bool{}
		for x := range scc {
			if h.Dominates(x) {
				// x belongs to h's loop if it reaches h without leaving what h dominates
				loop[x] = true
			}
		}
		// restrict to blocks that reach a back edge of h inside the dominated region
		inner := map[*ssa.BasicBlock]bool{h: true}
		var up func(x *ssa.BasicBlock)
		up = func(x *ssa.BasicBlock) {
			if inner[x] || !loop[x] {
				return
			}
			inner[x] = true
			for _, p := range x.Preds {
				up(p)
			}
		}
		for _, p := range h.Preds {
			if loop[p] {
				up(p)
			}
		}
		if inner[b] {
			return inner, h
		}
	}
	return nil, nil
}

// LoopEarlyExit: a path that leaves the loop from inside its body (not through the header's own
// exit edge) and reaches target without re-entering the loop. nil if there is none.
func LoopEarlyExit(fn *ssa.Function, loop map[*ssa.BasicBlock]bool, header *ssa.BasicBlock, target func(prev, b *ssa.BasicBlock) bool) []*ssa.BasicBlock {
	var blocks []*ssa.BasicBlock
	for _, b := range fn.Blocks {
		if loop[b] && b != header {
			blocks = append(blocks, b)
		}
	}
	for _, b := range blocks {
		for _, s := range b.Succs {
			if loop[s] {
				continue
			}
			// start one block earlier, so that what the edge into b established (`err != nil` in
			// front of a `break`) is part of the path and can rule the continuation out
			starts := []*ssa.BasicBlock{}
			for _, pp := range b.Preds {
				if loop[pp] && pp != b {
					starts = append(starts, pp)
				}
			}
			if len(starts) == 0 {
				starts = append(starts, b)
			}
			for _, pp := range starts {
				pp, b, s := pp, b, s
				w := CutReach(CutSpec{Fn: fn, From: pp,
					Cut: func(x *ssa.BasicBlock, i int) bool {
						nx := x.Succs[i]
						switch {
						case x == pp && pp != b:
							return nx != b
						case x == b:
							return nx != s
						}
						return loop[nx]
					},
					Target: func(prev, x *ssa.BasicBlock) bool {
						if prev == nil || loop[x] {
							return false
						}
						return target(prev, x)
					}})
				if w != nil {
					return w
				}
			}
		}
	}
	return nil
}

// ParamOf: v is a parameter, or a read of the cell a parameter was spilled into because a
// closure (a deferred log/metrics function, typically) captures it. nil otherwise.
func ParamOf(v ssa.Value) *ssa.Parameter {
	v = Unwrap(v)
	if pa, ok := v.(*ssa.Parameter); ok {
		return pa
	}
	if u, ok := v.(*ssa.UnOp); ok && u.Op == token.MUL {
		if a, ok := u.X.(*ssa.Alloc); ok {
			if st := singleStore(a); st != nil {
				if pa, ok := st.Val.(*ssa.Parameter); ok {
					return pa
				}
			}
		}
	}
	return nil
}

// LoadedFieldBase: v is `*(&x.f)`; returns type and field names and x.
func LoadedFieldBase(v ssa.Value) (typ, field string, base ssa.Value, ok bool) {
	if u, ok2 := v.(*ssa.UnOp); ok2 && u.Op == token.MUL {
		return FieldRef(u.X)
	}
	return "", "", nil, false
}
