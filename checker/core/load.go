// Package core holds the shared machinery of verifchk: loading /repo's current working tree
// into type-checked syntax + SSA, anchor resolution, the analysis engines and the
// evidence/known-findings plumbing.
package core

import (
	"fmt"
	"go/ast"
	"go/token"
	"go/types"
	"os"
	"sort"
	"strings"

	"golang.org/x/tools/go/packages"
	"golang.org/x/tools/go/ssa"
	"golang.org/x/tools/go/ssa/ssautil"
)

const ModPath = "github.com/zen-eth/shisui"

// Prog is the resolved program: every package of the module under analysis, type-checked from
// the current working tree, with SSA bodies for the module's own functions.
type Prog struct {
	Repo    string
	Fset    *token.FileSet
	Pkgs    []*packages.Package          // module packages only (sorted by path)
	ByPath  map[string]*packages.Package // module + (declared) deps reachable by import
	SSA     *ssa.Program
	SSAPkgs map[string]*ssa.Package
	Whole   bool // whole-program SSA (thorough tier)
	// Overlay is set on a program produced by NormaliseNewFunctions: file name -> content that
	// replaces the file on disk (an equivalent rewriting of the current source).
	Overlay                     map[string][]byte
	loadedOverlay               map[string][]byte
	recoverChecked, recoverUsed bool
	// Renamed: key of a function declared now -> key it had on the audited tree (ResolveRenames)
	Renamed map[string]string

	allFuncs []*ssa.Function // module functions incl. anonymous, sorted by position
}

// Load type-checks ./... in repo. whole=true additionally builds SSA bodies for dependencies.
func Load(repo string, whole bool, extraEnv ...string) (*Prog, error) {
	return LoadPatterns(repo, []string{"./..."}, 20, whole, extraEnv...)
}

// LoadPatterns loads the given package patterns (used by thorough tiers for a second
// configuration such as GOARCH=386 on a sub-tree).
func LoadPatterns(repo string, patterns []string, minPkgs int, whole bool, extraEnv ...string) (*Prog, error) {
	return loadWith(repo, patterns, minPkgs, whole, nil, extraEnv...)
}

func loadWith(repo string, patterns []string, minPkgs int, whole bool, overlay map[string][]byte, extraEnv ...string) (*Prog, error) {
	mode := packages.NeedName | packages.NeedFiles | packages.NeedCompiledGoFiles | packages.NeedImports |
		packages.NeedDeps | packages.NeedTypes | packages.NeedTypesSizes | packages.NeedSyntax |
		packages.NeedTypesInfo | packages.NeedModule
	cfg := &packages.Config{
		Mode:  mode,
		Dir:   repo,
		Tests: false,
		Env:   append(os.Environ(), extraEnv...),
		Fset:  token.NewFileSet(),
	}
	if len(overlay) > 0 {
		cfg.Overlay = overlay
	}
	if !whole {
		// LoadSyntax semantics: syntax+types-info only for the root packages; deps from export data.
		cfg.Mode = packages.NeedName | packages.NeedFiles | packages.NeedCompiledGoFiles | packages.NeedImports |
			packages.NeedTypes | packages.NeedTypesSizes | packages.NeedSyntax | packages.NeedTypesInfo |
			packages.NeedModule | packages.NeedDeps
	}
	pkgs, err := packages.Load(cfg, patterns...)
	if err != nil {
		return nil, fmt.Errorf("packages.Load: %w", err)
	}
	if len(pkgs) == 0 {
		return nil, fmt.Errorf("no packages loaded from %s", repo)
	}
	p := &Prog{Repo: repo, Fset: cfg.Fset, ByPath: map[string]*packages.Package{}, SSAPkgs: map[string]*ssa.Package{}, Whole: whole}
	var errs []string
	packages.Visit(pkgs, nil, func(pk *packages.Package) {
		p.ByPath[pk.PkgPath] = pk
		if strings.HasPrefix(pk.PkgPath, ModPath) {
			for _, e := range pk.Errors {
				errs = append(errs, e.Error())
			}
		}
	})
	if len(errs) > 0 {
		return nil, fmt.Errorf("type/parse errors in module packages (analysis refuses to guess): %s", strings.Join(errs, "; "))
	}
	for _, pk := range pkgs {
		if !strings.HasPrefix(pk.PkgPath, ModPath) {
			return nil, fmt.Errorf("package %s outside module %s", pk.PkgPath, ModPath)
		}
		if pk.Types == nil || pk.TypesInfo == nil || len(pk.Syntax) == 0 && len(pk.GoFiles) > 0 {
			return nil, fmt.Errorf("package %s not fully loaded", pk.PkgPath)
		}
		p.Pkgs = append(p.Pkgs, pk)
	}
	sort.Slice(p.Pkgs, func(i, j int) bool { return p.Pkgs[i].PkgPath < p.Pkgs[j].PkgPath })
	if len(p.Pkgs) < minPkgs {
		return nil, fmt.Errorf("only %d module packages loaded (expected >= %d): the build is not what was audited", len(p.Pkgs), minPkgs)
	}
	bmode := ssa.InstantiateGenerics
	var prog *ssa.Program
	var spkgs []*ssa.Package
	if whole {
		prog, spkgs = ssautil.AllPackages(pkgs, bmode)
	} else {
		prog, spkgs = ssautil.Packages(pkgs, bmode)
	}
	prog.Build()
	p.SSA = prog
	for i, sp := range spkgs {
		if sp == nil {
			return nil, fmt.Errorf("no SSA for %s", pkgs[i].PkgPath)
		}
	}
	for _, sp := range prog.AllPackages() {
		p.SSAPkgs[sp.Pkg.Path()] = sp
	}
	return p, nil
}

// Pkg returns the module package with import path ModPath+"/"+rel ("" for the root).
func (p *Prog) Pkg(rel string) *packages.Package {
	path := ModPath
	if rel != "" {
		path += "/" + rel
	}
	return p.ByPath[path]
}

func (p *Prog) SSAPkg(rel string) *ssa.Package {
	path := ModPath
	if rel != "" {
		path += "/" + rel
	}
	return p.SSAPkgs[path]
}

// InModule reports whether fn is defined in the module under analysis.
func InModule(fn *ssa.Function) bool {
	if fn == nil {
		return false
	}
	if fn.Pkg != nil {
		return strings.HasPrefix(fn.Pkg.Pkg.Path(), ModPath)
	}
	if fn.Parent() != nil {
		return InModule(fn.Parent())
	}
	if o := fn.Origin(); o != nil && o != fn {
		return InModule(o)
	}
	if obj := fn.Object(); obj != nil && obj.Pkg() != nil {
		return strings.HasPrefix(obj.Pkg().Path(), ModPath)
	}
	return false
}

// ModuleFuncs returns every function with a body defined in the module (methods, closures
// included), sorted by position.
func (p *Prog) ModuleFuncs() []*ssa.Function {
	if p.allFuncs != nil {
		return p.allFuncs
	}
	seen := map[*ssa.Function]bool{}
	var add func(f *ssa.Function)
	add = func(f *ssa.Function) {
		if f == nil || seen[f] || f.Blocks == nil {
			return
		}
		seen[f] = true
		p.allFuncs = append(p.allFuncs, f)
		for _, a := range f.AnonFuncs {
			add(a)
		}
	}
	for _, pk := range p.Pkgs {
		sp := p.SSAPkgs[pk.PkgPath]
		if sp == nil {
			continue
		}
		for _, m := range sp.Members {
			switch m := m.(type) {
			case *ssa.Function:
				add(m)
			case *ssa.Type:
				for _, t := range []types.Type{m.Type(), types.NewPointer(m.Type())} {
					ms := p.SSA.MethodSets.MethodSet(t)
					for i := 0; i < ms.Len(); i++ {
						f := p.SSA.MethodValue(ms.At(i))
						if f != nil && f.Synthetic == "" {
							add(f)
						}
					}
				}
			}
		}
	}
	sort.Slice(p.allFuncs, func(i, j int) bool {
		a, b := p.Fset.Position(p.allFuncs[i].Pos()), p.Fset.Position(p.allFuncs[j].Pos())
		if a.Filename != b.Filename {
			return a.Filename < b.Filename
		}
		if a.Offset != b.Offset {
			return a.Offset < b.Offset
		}
		return p.allFuncs[i].String() < p.allFuncs[j].String()
	})
	return p.allFuncs
}

// Func finds a package-level function "pkgrel.Name" or a method "pkgrel.(T).Name" /
// "pkgrel.(*T).Name" by its qualified name. Returns nil if absent.
func (p *Prog) Func(pkgrel, recv, name string) *ssa.Function {
	sp := p.SSAPkg(pkgrel)
	if sp == nil {
		return nil
	}
	// a function renamed since the audited tree is found under its old name
	want := pkgrel + "." + name
	if recv != "" {
		want = "(" + pkgrel + "." + recv + ")." + name
	}
	for n, o := range p.Renamed {
		if o == want || o == "(*"+pkgrel+"."+recv+")."+name {
			if i := strings.LastIndex(n, "."); i >= 0 {
				name = n[i+1:]
			}
		}
	}
	if recv == "" {
		return sp.Func(name)
	}
	tn, _ := sp.Pkg.Scope().Lookup(recv).(*types.TypeName)
	if tn == nil {
		return nil
	}
	for _, t := range []types.Type{types.NewPointer(tn.Type()), tn.Type()} {
		sel := p.SSA.MethodSets.MethodSet(t).Lookup(sp.Pkg, name)
		if sel != nil {
			return p.SSA.MethodValue(sel)
		}
	}
	return nil
}

// Pos renders a position relative to the repo root.
func (p *Prog) Pos(pos token.Pos) string {
	if !pos.IsValid() {
		return "-"
	}
	ps := p.Fset.Position(pos)
	f := strings.TrimPrefix(ps.Filename, p.Repo+"/")
	return fmt.Sprintf("%s:%d", f, ps.Line)
}

// FuncName gives a stable, line-free name for a function: pkgrel.(Recv).Name[$n].
func FuncName(fn *ssa.Function) string {
	if fn == nil {
		return "<nil>"
	}
	s := fn.String()
	s = strings.ReplaceAll(s, ModPath+"/", "")
	s = strings.ReplaceAll(s, ModPath, "")
	if len(funcAlias) > 0 {
		base, rest := s, ""
		if i := strings.Index(s, "$"); i >= 0 {
			base, rest = s[:i], s[i:]
		}
		if old, ok := funcAlias[base]; ok {
			return old + rest
		}
	}
	return s
}

// FileOf returns the *ast.File containing pos in a module package.
func (p *Prog) FileOf(pos token.Pos) (*packages.Package, *ast.File) {
	for _, pk := range p.Pkgs {
		for _, f := range pk.Syntax {
			if f.FileStart <= pos && pos <= f.FileEnd {
				return pk, f
			}
		}
	}
	return nil, nil
}

// InstrPos finds the best source position for an instruction (go/ssa leaves NoPos on many).
func InstrPos(in ssa.Instruction) token.Pos {
	if in.Pos().IsValid() {
		return in.Pos()
	}
	if v, ok := in.(ssa.Value); ok {
		if refs := v.Referrers(); refs != nil {
			for _, r := range *refs {
				if r.Pos().IsValid() {
					return r.Pos()
				}
			}
		}
	}
	// fall back to any positioned instruction in the block, then the function
	for _, i2 := range in.Block().Instrs {
		if i2.Pos().IsValid() {
			return i2.Pos()
		}
	}
	return in.Parent().Pos()
}
