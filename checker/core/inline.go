package core

// Normalisation by inlining functions that did not exist on the audited tree.
//
// The rules of the checker anchor on the functions that implement a mechanism. The most common
// behaviour-preserving edit - extracting part of such a function into a new helper - moves the
// guards, releases or writes a rule looks for into a function it does not know. Instead of
// teaching every rule about every possible helper, the checker can rewrite the program: every
// static call of a NEW function (one whose qualified name is not in tables/baseline_funcs.json)
// is replaced, at source level, by the callee's body. The rewritten program is semantically
// equivalent to the current source (see the conditions below; anything outside them is left
// alone), is type-checked again, and the rules run on it. It is only ever used to DISCHARGE an
// alarm raised on the unmodified source: a property clause that holds on an equivalent program
// holds on the source.
//
// Shape of an inlined call   x, err := helper(a, b)   with   func helper(p P, q Q) (T, error):
//
//	var __v1_a0 P = a
//	var __v1_a1 Q = b
//	var __v1_r0 T
//	var __v1_r1 error
//	__v1:
//	for {
//		p, q := __v1_a0, __v1_a1
//		_, _ = p, q
//		...body, every `return e0, e1` replaced by { __v1_r0, __v1_r1 = e0, e1; break __v1 } ...
//		break __v1
//	}
//	x, err := __v1_r0, __v1_r1
//
// Conditions (otherwise the call is left as it is): the callee is declared in the same package,
// has a body, is not generic, variadic or recursive, contains no defer, go, recover, goto or
// label; every package-level or imported name its body uses resolves to the same object at the
// call site; the call is the whole right-hand side of an assignment/definition, the whole
// operand of a return, a statement of its own, the leftmost-evaluated operand of an if/switch
// condition, the right-hand side of an if/switch init statement, or the operand of a range; the
// enclosing statement sits directly in a statement list (or is an else-if).

import (
	"bytes"
	"encoding/json"
	"fmt"
	"go/ast"
	"go/token"
	"go/types"
	"os"
	"sort"
	"strings"

	"golang.org/x/tools/go/packages"
)

// FuncKey is the line-free identity of a declared function used by the baseline table.
func FuncKey(obj *types.Func) string {
	s := obj.FullName()
	s = strings.ReplaceAll(s, ModPath+"/", "")
	s = strings.ReplaceAll(s, ModPath, "")
	return s
}

// DeclaredFuncs lists the keys of every function declared in the module (non-test files).
func (p *Prog) DeclaredFuncs() []string {
	var out []string
	for _, pk := range p.Pkgs {
		for _, f := range pk.Syntax {
			for _, d := range f.Decls {
				if fd, ok := d.(*ast.FuncDecl); ok {
					if obj, ok := pk.TypesInfo.Defs[fd.Name].(*types.Func); ok {
						out = append(out, FuncKey(obj))
					}
				}
			}
		}
	}
	sort.Strings(out)
	return out
}

// DeclaredFuncSigs maps the key of every declared function to its signature (receiver excluded).
func (p *Prog) DeclaredFuncSigs() map[string]string {
	out := map[string]string{}
	for _, pk := range p.Pkgs {
		for _, f := range pk.Syntax {
			for _, d := range f.Decls {
				if fd, ok := d.(*ast.FuncDecl); ok {
					if obj, ok := pk.TypesInfo.Defs[fd.Name].(*types.Func); ok {
						out[FuncKey(obj)] = types.TypeString(obj.Type(), nil)
					}
				}
			}
		}
	}
	return out
}

// LoadBaseline reads tables/baseline_funcs.json: {function key: signature} of the audited tree
// (an older form, a plain list of keys, is accepted).
func LoadBaseline(path string) (map[string]bool, error) {
	m, _, err := LoadBaselineSigs(path)
	return m, err
}

func LoadBaselineSigs(path string) (map[string]bool, map[string]string, error) {
	b, err := os.ReadFile(path)
	if err != nil {
		return nil, nil, err
	}
	sigs := map[string]string{}
	if err := json.Unmarshal(b, &sigs); err != nil {
		var l []string
		if err2 := json.Unmarshal(b, &l); err2 != nil {
			return nil, nil, err
		}
		for _, s := range l {
			sigs[s] = ""
		}
	}
	m := map[string]bool{}
	for s := range sigs {
		m[s] = true
	}
	return m, sigs, nil
}

// funcAlias maps the display name of a function that was RENAMED since the audited tree to the
// name it had there, so that construct keys (triage table, known findings, evidence) and
// name-based anchors survive a rename. Filled by ResolveRenames.
var funcAlias = map[string]string{}

// ResolveRenames pairs functions that are declared now but absent from the baseline with
// baseline functions that no longer exist: same package and receiver, identical signature, and
// the pairing is unambiguous in both directions. Returns new key -> old key.
func (p *Prog) ResolveRenames(sigs map[string]string) map[string]string {
	now := p.DeclaredFuncSigs()
	prefix := func(k string) string {
		if i := strings.LastIndex(k, "."); i >= 0 {
			return k[:i+1]
		}
		return ""
	}
	var missing, fresh []string
	for k := range sigs {
		if _, ok := now[k]; !ok && sigs[k] != "" {
			missing = append(missing, k)
		}
	}
	for k := range now {
		if _, ok := sigs[k]; !ok {
			fresh = append(fresh, k)
		}
	}
	sort.Strings(missing)
	sort.Strings(fresh)
	claim := map[string][]string{} // old -> new candidates
	cand := map[string][]string{}  // new -> old candidates
	for _, f := range fresh {
		for _, m := range missing {
			if prefix(m) == prefix(f) && sigs[m] == now[f] {
				cand[f] = append(cand[f], m)
				claim[m] = append(claim[m], f)
			}
		}
	}
	out := map[string]string{}
	for f, ms := range cand {
		if len(ms) == 1 && len(claim[ms[0]]) == 1 {
			out[f] = ms[0]
		}
	}
	p.Renamed = out
	for n, o := range out {
		funcAlias[n] = o
	}
	return out
}

// InlineReport says what the normalisation did.
type InlineReport struct {
	NewFuncs []string
	Inlined  []string // "caller <- callee @file:line"
	Left     []string // call sites of new functions that were left alone, with the reason
	Removed  []string // new functions whose declaration was dropped (no call left)
	Rounds   int
}

type edit struct {
	a, b int // byte offsets in the file
	s    string
}

type fileEdits struct {
	name  string
	src   []byte
	edits []edit
}

func (fe *fileEdits) overlaps(a, b int) bool {
	for _, e := range fe.edits {
		if a < e.b && e.a < b {
			return true
		}
		if a == e.a && b == e.b {
			return true
		}
	}
	return false
}

func (fe *fileEdits) apply() []byte {
	sort.SliceStable(fe.edits, func(i, j int) bool {
		if fe.edits[i].a != fe.edits[j].a {
			return fe.edits[i].a > fe.edits[j].a
		}
		return fe.edits[i].b > fe.edits[j].b
	})
	out := append([]byte{}, fe.src...)
	for _, e := range fe.edits {
		out = append(out[:e.a], append([]byte(e.s), out[e.b:]...)...)
	}
	return out
}

// NormaliseNewFunctions returns an overlay (file name -> content) in which calls of functions
// absent from the baseline are inlined, iterating up to maxRounds times (helpers calling
// helpers). The returned program is loaded from that overlay. nil, nil, nil when there is
// nothing to do.
func NormaliseNewFunctions(p *Prog, baseline map[string]bool, maxRounds int) (*Prog, *InlineReport, error) {
	rep := &InlineReport{}
	overlay := map[string][]byte{}
	cur := p
	counter := 0
	for round := 0; round < maxRounds; round++ {
		n, err := inlineRound(cur, baseline, overlay, rep, &counter)
		if err != nil {
			return nil, rep, err
		}
		if n == 0 {
			break
		}
		rep.Rounds++
		next, err := LoadOverlay(p.Repo, overlay, p.Whole)
		if err != nil {
			return nil, rep, fmt.Errorf("the normalised program does not type-check (normalisation abandoned): %w", err)
		}
		cur = next.inherit(p)
	}
	if rep.Rounds == 0 {
		return nil, rep, nil
	}
	// drop declarations of new functions that are no longer referenced (so that rules which
	// enumerate "every function containing X" do not see the dead copy)
	if removed := removeDeadNew(cur, baseline, overlay); len(removed) > 0 {
		if next, err := LoadOverlay(p.Repo, overlay, p.Whole); err == nil {
			cur = next.inherit(p)
			rep.Removed = removed
		} else {
			// keep the declarations: restore the files from the previous program
			for _, pk := range cur.Pkgs {
				for _, f := range pk.Syntax {
					name := cur.Fset.Position(f.Pos()).Filename
					if _, ok := overlay[name]; ok {
						if src, err := cur.fileSource(name); err == nil {
							overlay[name] = src
						}
					}
				}
			}
		}
	}
	cur.Overlay = overlay
	return cur, rep, nil
}

func (p *Prog) fileSource(name string) ([]byte, error) {
	if p.Overlay != nil {
		if b, ok := p.Overlay[name]; ok {
			return b, nil
		}
	}
	if p.loadedOverlay != nil {
		if b, ok := p.loadedOverlay[name]; ok {
			return b, nil
		}
	}
	return os.ReadFile(name)
}

// LoadOverlay loads ./... of repo with the given file contents replacing the files on disk.
func LoadOverlay(repo string, overlay map[string][]byte, whole bool) (*Prog, error) {
	p, err := loadWith(repo, []string{"./..."}, 20, whole, overlay)
	if err != nil {
		return nil, err
	}
	cp := map[string][]byte{}
	for k, v := range overlay {
		cp[k] = v
	}
	p.loadedOverlay = cp
	return p, nil
}

func (p *Prog) inherit(from *Prog) *Prog {
	p.Renamed = from.Renamed
	p.IndexFieldAliases()
	return p
}

func inlineRound(p *Prog, baseline map[string]bool, overlay map[string][]byte, rep *InlineReport, counter *int) (int, error) {
	// new functions, by object
	type newFn struct {
		obj  *types.Func
		decl *ast.FuncDecl
		pk   *packages.Package
		file *ast.File
	}
	news := map[*types.Func]*newFn{}
	for _, pk := range p.Pkgs {
		for _, f := range pk.Syntax {
			for _, d := range f.Decls {
				fd, ok := d.(*ast.FuncDecl)
				if !ok || fd.Body == nil {
					continue
				}
				obj, ok := pk.TypesInfo.Defs[fd.Name].(*types.Func)
				if !ok || baseline[FuncKey(obj)] || p.Renamed[FuncKey(obj)] != "" {
					continue
				}
				news[obj] = &newFn{obj, fd, pk, f}
			}
		}
	}
	if len(news) == 0 {
		return 0, nil
	}
	if len(rep.NewFuncs) == 0 {
		for o := range news {
			rep.NewFuncs = append(rep.NewFuncs, FuncKey(o))
		}
		sort.Strings(rep.NewFuncs)
	}
	files := map[string]*fileEdits{}
	total := 0
	for _, pk := range p.Pkgs {
		for _, f := range pk.Syntax {
			fname := p.Fset.Position(f.Pos()).Filename
			src, err := p.fileSource(fname)
			if err != nil {
				return 0, err
			}
			tf := p.Fset.File(f.Pos())
			fe := &fileEdits{name: fname, src: src}
			// walk with a parent stack
			var stack []ast.Node
			ast.Inspect(f, func(n ast.Node) bool {
				if n == nil {
					stack = stack[:len(stack)-1]
					return true
				}
				stack = append(stack, n)
				call, ok := n.(*ast.CallExpr)
				if !ok {
					return true
				}
				callee := calleeFunc(pk.TypesInfo, call)
				nf := news[callee]
				if nf == nil {
					return true
				}
				where := fmt.Sprintf("%s @%s", FuncKey(callee), p.Pos(call.Pos()))
				if nf.pk != pk {
					rep.Left = append(rep.Left, where+": callee in another package")
					return true
				}
				// do not inline inside the callee's own declaration (recursion) or inside another new function's
				// body that will itself be inlined later: simply inline everywhere except self
				if enclosingDecl(stack) == nf.decl {
					rep.Left = append(rep.Left, where+": recursive")
					return true
				}
				*counter++
				eds, why := planInline(p, pk, f, tf, src, stack, call, nf.decl, nf.file, *counter)
				if why != "" {
					rep.Left = append(rep.Left, where+": "+why)
					return true
				}
				for _, e := range eds {
					if fe.overlaps(e.a, e.b) {
						// another edit of this round touches the same text: next round
						return true
					}
				}
				fe.edits = append(fe.edits, eds...)
				total++
				rep.Inlined = append(rep.Inlined, fmt.Sprintf("%s <- %s", funcNameOf(pk.TypesInfo, enclosingDecl(stack)), where))
				return true
			})
			if len(fe.edits) > 0 {
				files[fname] = fe
			}
		}
	}
	for name, fe := range files {
		overlay[name] = fe.apply()
	}
	return total, nil
}

func funcNameOf(info *types.Info, fd *ast.FuncDecl) string {
	if fd == nil {
		return "<package>"
	}
	if obj, ok := info.Defs[fd.Name].(*types.Func); ok {
		return FuncKey(obj)
	}
	return fd.Name.Name
}

func enclosingDecl(stack []ast.Node) *ast.FuncDecl {
	for i := len(stack) - 1; i >= 0; i-- {
		if fd, ok := stack[i].(*ast.FuncDecl); ok {
			return fd
		}
	}
	return nil
}

func calleeFunc(info *types.Info, call *ast.CallExpr) *types.Func {
	switch fun := ast.Unparen(call.Fun).(type) {
	case *ast.Ident:
		if f, ok := info.Uses[fun].(*types.Func); ok {
			return f
		}
	case *ast.SelectorExpr:
		if sel, ok := info.Selections[fun]; ok {
			if sel.Kind() == types.MethodVal {
				if f, ok := sel.Obj().(*types.Func); ok {
					if _, isIface := sel.Recv().Underlying().(*types.Interface); !isIface {
						return f
					}
				}
			}
			return nil
		}
		if f, ok := info.Uses[fun.Sel].(*types.Func); ok {
			return f // qualified identifier pkg.F
		}
	}
	return nil
}

// planInline computes the text edits replacing one call by the callee's body.
func planInline(p *Prog, pk *packages.Package, file *ast.File, tf *token.File, src []byte, stack []ast.Node, call *ast.CallExpr, decl *ast.FuncDecl, declFile *ast.File, id int) ([]edit, string) {
	info := pk.TypesInfo
	obj := info.Defs[decl.Name].(*types.Func)
	sig := obj.Type().(*types.Signature)
	if sig.RecvTypeParams().Len() > 0 {
		return nil, "generic"
	}
	// a generic function is written out with the type arguments of this call: parameter and
	// result types come from the instantiated signature, and every mention of a type parameter
	// in the body is replaced by the type argument's name
	var typeArgs *types.TypeList
	if sig.TypeParams().Len() > 0 {
		var fid *ast.Ident
		switch fun := ast.Unparen(call.Fun).(type) {
		case *ast.Ident:
			fid = fun
		case *ast.SelectorExpr:
			fid = fun.Sel
		case *ast.IndexExpr:
			switch x := fun.X.(type) {
			case *ast.Ident:
				fid = x
			case *ast.SelectorExpr:
				fid = x.Sel
			}
		case *ast.IndexListExpr:
			switch x := fun.X.(type) {
			case *ast.Ident:
				fid = x
			case *ast.SelectorExpr:
				fid = x.Sel
			}
		}
		inst, ok := info.Instances[fid]
		isig, ok2 := inst.Type.(*types.Signature)
		if fid == nil || !ok || !ok2 || inst.TypeArgs == nil || inst.TypeArgs.Len() != sig.TypeParams().Len() {
			return nil, "generic (instance not resolved)"
		}
		typeArgs = inst.TypeArgs
		sig = isig
	}
	if sig.Variadic() {
		return nil, "variadic"
	}
	if call.Ellipsis.IsValid() {
		return nil, "variadic call"
	}
	// callee body restrictions
	bad := ""
	deferBad := ""              // only matters when the call is not in tail position
	var defers []*ast.DeferStmt // top-level `defer f()` of the callee, run before each later exit
	var returns []*ast.ReturnStmt
	var walk func(n ast.Node, inLit bool)
	walk = func(n ast.Node, inLit bool) {
		ast.Inspect(n, func(x ast.Node) bool {
			switch y := x.(type) {
			case *ast.FuncLit:
				if y != n {
					walk(y.Body, true)
					return false
				}
			case *ast.DeferStmt:
				if !inLit {
					top := false
					for _, st := range decl.Body.List {
						if st == ast.Stmt(y) {
							top = true
						}
					}
					switch {
					case !top:
						deferBad = "callee defers inside a nested statement"
					case len(y.Call.Args) > 0 || !plainCallee(y.Call.Fun):
						deferBad = "callee defers a call with arguments"
					case p.usesRecover():
						deferBad = "callee defers and the module uses recover"
					default:
						defers = append(defers, y)
					}
				}
			case *ast.GoStmt:
				// a goroutine started by the callee is the same goroutine started by the caller
			case *ast.LabeledStmt:
				if !inLit {
					bad = "callee has labels"
				}
			case *ast.BranchStmt:
				if y.Tok == token.GOTO {
					bad = "callee uses goto"
				}
			case *ast.ReturnStmt:
				if !inLit {
					returns = append(returns, y)
				}
			case *ast.CallExpr:
				if id, ok := ast.Unparen(y.Fun).(*ast.Ident); ok && id.Name == "recover" {
					if _, isB := info.Uses[id].(*types.Builtin); isB {
						bad = "callee recovers"
					}
				}
				if calleeFunc(info, y) == obj {
					bad = "recursive"
				}
			}
			return true
		})
	}
	walk(decl.Body, false)
	if bad != "" {
		return nil, bad
	}
	// the statement context
	if len(stack) < 2 {
		return nil, "no statement context"
	}
	// find the innermost statement containing the call
	si := -1
	for i := len(stack) - 2; i >= 0; i-- {
		if _, ok := stack[i].(ast.Stmt); ok {
			si = i
			break
		}
		if _, ok := stack[i].(*ast.FuncLit); ok {
			break
		}
	}
	if si < 1 {
		return nil, "call is not inside a statement"
	}
	stmt := stack[si].(ast.Stmt)
	parent := stack[si-1]
	// an init statement of if/switch: the statement we rewrite is the if/switch itself
	outer := stmt
	switch pp := parent.(type) {
	case *ast.IfStmt:
		if pp.Init == stmt {
			outer = pp
		} else {
			return nil, "statement is not in a statement list"
		}
	case *ast.SwitchStmt:
		if pp.Init == stmt {
			outer = pp
		} else {
			return nil, "statement is not in a statement list"
		}
	case *ast.TypeSwitchStmt:
		if pp.Init == stmt {
			outer = pp
		} else {
			return nil, "statement is not in a statement list"
		}
	}
	if outer != stmt {
		// the parent of outer
		si--
		if si < 1 {
			return nil, "no statement context"
		}
		parent = stack[si-1]
	}
	wrap := false
	switch outer.(type) {
	case *ast.IfStmt, *ast.SwitchStmt, *ast.TypeSwitchStmt, *ast.RangeStmt:
		wrap = true
	}
	switch pp := parent.(type) {
	case *ast.BlockStmt, *ast.CaseClause, *ast.CommClause:
	case *ast.IfStmt:
		if pp.Else != outer || !wrap {
			return nil, "statement is not in a statement list"
		}
	default:
		return nil, "statement is not in a statement list"
	}
	nres := sig.Results().Len()
	// how the call sits in the statement: it must be the first call evaluated by the statement's
	// own expressions (then evaluating it in front of the statement keeps the order of effects)
	useResults := true
	replaceWhole := false // the statement is just the call
	var exprs []ast.Expr
	switch s := stmt.(type) {
	case *ast.ExprStmt:
		if ast.Unparen(s.X) == ast.Expr(call) {
			if outer != stmt {
				return nil, "expression statement as init"
			}
			useResults = false
			replaceWhole = true
		}
		exprs = []ast.Expr{s.X}
	case *ast.AssignStmt:
		exprs = append(append(exprs, s.Lhs...), s.Rhs...)
	case *ast.ReturnStmt:
		exprs = s.Results
	case *ast.IfStmt:
		exprs = []ast.Expr{s.Cond}
	case *ast.SwitchStmt:
		if s.Tag == nil {
			return nil, "call inside a tagless switch header"
		}
		exprs = []ast.Expr{s.Tag}
	case *ast.RangeStmt:
		exprs = []ast.Expr{s.X}
	case *ast.SendStmt:
		exprs = []ast.Expr{s.Chan, s.Value}
	case *ast.GoStmt:
		exprs = append([]ast.Expr{s.Call.Fun}, s.Call.Args...)
	case *ast.DeferStmt:
		exprs = append([]ast.Expr{s.Call.Fun}, s.Call.Args...)
	case *ast.DeclStmt:
		gd, ok := s.Decl.(*ast.GenDecl)
		if !ok || gd.Tok != token.VAR || len(gd.Specs) != 1 {
			return nil, "unsupported declaration"
		}
		exprs = gd.Specs[0].(*ast.ValueSpec).Values
	default:
		return nil, fmt.Sprintf("unsupported statement %T", stmt)
	}
	// tail position: `return helper(...)` in a function with the same result types. The body is
	// spliced in with its own returns (and defers) untouched: they now leave the caller, which is
	// what happened before, one frame later.
	tail := false
	if rs, ok := stmt.(*ast.ReturnStmt); ok && outer == stmt && len(rs.Results) == 1 && ast.Unparen(rs.Results[0]) == ast.Expr(call) && nres > 0 {
		var encl *types.Signature
		for i := len(stack) - 1; i >= 0 && encl == nil; i-- {
			switch f := stack[i].(type) {
			case *ast.FuncLit:
				encl, _ = info.TypeOf(f).(*types.Signature)
			case *ast.FuncDecl:
				if o, ok := info.Defs[f.Name].(*types.Func); ok {
					encl = o.Type().(*types.Signature)
				}
			}
		}
		if encl != nil && encl.Results().Len() == nres {
			tail = true
			for i := 0; i < nres; i++ {
				if !types.Identical(encl.Results().At(i).Type(), sig.Results().At(i).Type()) {
					tail = false
				}
			}
		}
	}
	if !tail && deferBad != "" {
		return nil, deferBad
	}
	if tail {
		defers = nil
	}
	if !replaceWhole && !tail {
		if nres == 0 {
			return nil, "value-less call inside an expression"
		}
		if why := firstEvaluated(info, exprs, call); why != "" {
			return nil, why
		}
	}
	// names
	pre := fmt.Sprintf("__v%d", id)
	qual, qerr := fileQualifier(pk, file)
	// imports and package-level names used by the body must mean the same at the call site
	if why := checkFreeNames(p, pk, file, declFile, decl, call, stack); why != "" {
		return nil, why
	}
	var b bytes.Buffer
	// arguments
	var pnames []string
	var anames []string
	argText := func(e ast.Expr) string { return string(src[tf.Offset(e.Pos()):tf.Offset(e.End())]) }
	typeStr := func(t types.Type) (string, bool) {
		*qerr = ""
		s := types.TypeString(t, qual)
		return s, *qerr == ""
	}
	if sig.Recv() != nil {
		sel, ok := ast.Unparen(call.Fun).(*ast.SelectorExpr)
		if !ok {
			return nil, "method value call"
		}
		selection := info.Selections[sel]
		if selection == nil || len(selection.Index()) != 1 {
			return nil, "promoted method"
		}
		rt := sig.Recv().Type()
		ts, ok2 := typeStr(rt)
		if !ok2 {
			return nil, "type not nameable in the caller's file"
		}
		x := argText(sel.X)
		xt := info.TypeOf(sel.X)
		_, recvPtr := rt.(*types.Pointer)
		_, argPtr := xt.Underlying().(*types.Pointer)
		switch {
		case recvPtr && !argPtr:
			x = "&(" + x + ")"
		case !recvPtr && argPtr:
			x = "*(" + x + ")"
		}
		an := pre + "_recv"
		fmt.Fprintf(&b, "var %s %s = %s\n", an, ts, x)
		if decl.Recv != nil && len(decl.Recv.List) == 1 && len(decl.Recv.List[0].Names) == 1 && decl.Recv.List[0].Names[0].Name != "_" {
			pnames = append(pnames, decl.Recv.List[0].Names[0].Name)
			anames = append(anames, an)
		} else {
			fmt.Fprintf(&b, "_ = %s\n", an)
		}
	}
	if len(call.Args) != sig.Params().Len() {
		return nil, "argument count differs (multi-value argument)"
	}
	pi := 0
	for _, fld := range decl.Type.Params.List {
		names := fld.Names
		if len(names) == 0 {
			names = []*ast.Ident{nil}
		}
		for _, nm := range names {
			pt := sig.Params().At(pi).Type()
			ts, ok := typeStr(pt)
			if !ok {
				return nil, "type not nameable in the caller's file"
			}
			an := fmt.Sprintf("%s_a%d", pre, pi)
			fmt.Fprintf(&b, "var %s %s = %s\n", an, ts, argText(call.Args[pi]))
			if nm != nil && nm.Name != "_" {
				pnames = append(pnames, nm.Name)
				anames = append(anames, an)
			} else {
				fmt.Fprintf(&b, "_ = %s\n", an)
			}
			pi++
		}
	}
	// results
	var rnames []string
	named := map[int]string{}
	if decl.Type.Results != nil {
		ri := 0
		for _, fld := range decl.Type.Results.List {
			if len(fld.Names) == 0 {
				ri++
				continue
			}
			for _, nm := range fld.Names {
				if nm.Name != "_" {
					named[ri] = nm.Name
				}
				ri++
			}
		}
	}
	if useResults && !tail {
		for i := 0; i < nres; i++ {
			ts, ok := typeStr(sig.Results().At(i).Type())
			if !ok {
				return nil, "type not nameable in the caller's file"
			}
			rn := fmt.Sprintf("%s_r%d", pre, i)
			rnames = append(rnames, rn)
			fmt.Fprintf(&b, "var %s %s\n", rn, ts)
		}
	}
	if tail {
		fmt.Fprintf(&b, "{\n")
	} else {
		fmt.Fprintf(&b, "%s:\nfor {\n", pre)
	}
	if len(pnames) > 0 {
		fmt.Fprintf(&b, "%s := %s\n", strings.Join(pnames, ", "), strings.Join(anames, ", "))
		fmt.Fprintf(&b, "%s = %s\n", strings.Repeat("_, ", len(pnames)-1)+"_", strings.Join(pnames, ", "))
	}
	// named results are locals of the body
	for i := 0; i < nres; i++ {
		if nm, ok := named[i]; ok {
			ts, ok2 := typeStr(sig.Results().At(i).Type())
			if !ok2 {
				return nil, "type not nameable in the caller's file"
			}
			fmt.Fprintf(&b, "var %s %s\n_ = %s\n", nm, ts, nm)
		}
	}
	// body with returns rewritten
	dtf := p.Fset.File(decl.Pos())
	dsrc, err := p.fileSource(p.Fset.Position(declFile.Pos()).Filename)
	if err != nil {
		return nil, "callee source unreadable"
	}
	bodyStart, bodyEnd := dtf.Offset(decl.Body.Lbrace)+1, dtf.Offset(decl.Body.Rbrace)
	var reds []edit
	deferredBefore := func(pos token.Pos) string {
		out := ""
		for i := len(defers) - 1; i >= 0; i-- {
			if defers[i].End() <= pos {
				c := defers[i].Call
				out += string(dsrc[dtf.Offset(c.Pos()):dtf.Offset(c.End())]) + "; "
			}
		}
		return out
	}
	for _, d := range defers {
		reds = append(reds, edit{dtf.Offset(d.Pos()) - bodyStart, dtf.Offset(d.End()) - bodyStart, ""})
	}
	if typeArgs != nil {
		dinfo := info
		if dpk, _ := p.FileOf(declFile.Pos()); dpk != nil {
			dinfo = dpk.TypesInfo
		}
		badTP := ""
		ast.Inspect(decl.Body, func(n ast.Node) bool {
			id, ok := n.(*ast.Ident)
			if !ok {
				return true
			}
			tn, ok := dinfo.Uses[id].(*types.TypeName)
			if !ok {
				return true
			}
			tp, ok := tn.Type().(*types.TypeParam)
			if !ok {
				return true
			}
			if tp.Index() >= typeArgs.Len() {
				badTP = "type parameter index"
				return false
			}
			for _, ret := range returns {
				if id.Pos() >= ret.Pos() && id.End() <= ret.End() {
					badTP = "type parameter inside a return expression"
				}
			}
			ts, ok2 := typeStr(typeArgs.At(tp.Index()))
			if !ok2 {
				badTP = "type argument not nameable in the caller's file"
				return false
			}
			reds = append(reds, edit{dtf.Offset(id.Pos()) - bodyStart, dtf.Offset(id.End()) - bodyStart, ts})
			return true
		})
		if badTP != "" {
			return nil, "generic: " + badTP
		}
	}
	for _, ret := range returns {
		a, e := dtf.Offset(ret.Pos()), dtf.Offset(ret.End())
		if tail {
			if len(ret.Results) == 0 && nres > 0 {
				var vals []string
				for i := 0; i < nres; i++ {
					nm, ok := named[i]
					if !ok {
						return nil, "bare return with unnamed result"
					}
					vals = append(vals, nm)
				}
				reds = append(reds, edit{a - bodyStart, e - bodyStart, "return " + strings.Join(vals, ", ")})
			}
			continue
		}
		var txt string
		switch {
		case len(ret.Results) == 0 && nres == 0:
			txt = "break " + pre
		case len(ret.Results) == 0:
			// bare return with named results
			if !useResults {
				txt = "break " + pre
			} else {
				var vals []string
				for i := 0; i < nres; i++ {
					nm, ok := named[i]
					if !ok {
						return nil, "bare return with unnamed result"
					}
					vals = append(vals, nm)
				}
				txt = fmt.Sprintf("{ %s = %s; break %s }", strings.Join(rnames, ", "), strings.Join(vals, ", "), pre)
			}
		default:
			var vals []string
			for _, r := range ret.Results {
				vals = append(vals, string(dsrc[dtf.Offset(r.Pos()):dtf.Offset(r.End())]))
			}
			if useResults {
				txt = fmt.Sprintf("{ %s = %s; break %s }", strings.Join(rnames, ", "), strings.Join(vals, ", "), pre)
			} else {
				lhs := strings.Repeat("_, ", nres-1) + "_"
				txt = fmt.Sprintf("{ %s = %s; break %s }", lhs, strings.Join(vals, ", "), pre)
			}
		}
		if dc := deferredBefore(ret.Pos()); dc != "" {
			// results are set first, then the deferred calls run (as at a return)
			if strings.HasPrefix(txt, "{ ") {
				txt = strings.TrimSuffix(txt, "break "+pre+" }") + dc + "break " + pre + " }"
			} else {
				txt = "{ " + dc + txt + " }"
			}
		}
		reds = append(reds, edit{a - bodyStart, e - bodyStart, txt})
	}
	body := append([]byte{}, dsrc[bodyStart:bodyEnd]...)
	sort.Slice(reds, func(i, j int) bool { return reds[i].a > reds[j].a })
	for _, e := range reds {
		body = append(body[:e.a], append([]byte(e.s), body[e.b:]...)...)
	}
	b.Write(body)
	if tail {
		fmt.Fprintf(&b, "\n}\n")
	} else {
		fmt.Fprintf(&b, "\n%sbreak %s\n}\n", deferredBefore(decl.Body.Rbrace), pre)
	}
	inl := b.String()
	resultExpr := strings.Join(rnames, ", ")
	// edits in the caller's file
	var eds []edit
	oa, oe := tf.Offset(outer.Pos()), tf.Offset(outer.End())
	ca, ce := tf.Offset(call.Pos()), tf.Offset(call.End())
	switch {
	case tail:
		eds = append(eds, edit{oa, oe, "{\n" + inl + "}"})
	case replaceWhole:
		eds = append(eds, edit{oa, oe, "{\n" + inl + "}"})
	case !wrap:
		eds = append(eds, edit{oa, oa, inl}, edit{ca, ce, resultExpr})
	default:
		// if / switch / range: wrap in a block; an init statement that is not the one holding the
		// call runs before the inlined body
		initText := ""
		var initNode ast.Stmt
		switch s := outer.(type) {
		case *ast.IfStmt:
			initNode = s.Init
		case *ast.SwitchStmt:
			initNode = s.Init
		case *ast.TypeSwitchStmt:
			initNode = s.Init
		}
		if initNode != nil && initNode != stmt {
			// move the init in front of the inlined body (its variables stay visible: same block)
			ia, ie := tf.Offset(initNode.Pos()), tf.Offset(initNode.End())
			initText = string(src[ia:ie]) + "\n"
			// delete "init;" from the header
			semi := ie
			for semi < len(src) && src[semi] != ';' {
				semi++
			}
			if semi >= len(src) {
				return nil, "init statement without separator"
			}
			eds = append(eds, edit{ia, semi + 1, ""})
		}
		eds = append(eds, edit{oa, oa, "{\n" + initText + inl}, edit{ca, ce, resultExpr}, edit{oe, oe, "\n}"})
	}
	return eds, ""
}

// firstEvaluated: call is the first function call / receive evaluated among exprs and is not
// evaluated conditionally (right operand of && or ||). Conversions and builtins do not count.
func firstEvaluated(info *types.Info, exprs []ast.Expr, call *ast.CallExpr) string {
	first := ast.Node(nil)
	cond := false
	found := false
	var visit func(n ast.Node, conditional bool)
	visit = func(n ast.Node, conditional bool) {
		if n == nil || found && first != nil {
			return
		}
		switch x := n.(type) {
		case *ast.FuncLit:
			return
		case *ast.BinaryExpr:
			visit(x.X, conditional)
			if x.Op == token.LAND || x.Op == token.LOR {
				visit(x.Y, true)
			} else {
				visit(x.Y, conditional)
			}
			return
		case *ast.CallExpr:
			if x == call {
				// its receiver and arguments move with it
				found = true
				cond = conditional
				if first == nil {
					first = x
				}
				return
			}
			visit(x.Fun, conditional)
			for _, a := range x.Args {
				visit(a, conditional)
			}
			isReal := true
			if tv, ok := info.Types[x.Fun]; ok && tv.IsType() {
				isReal = false // conversion
			}
			if id, ok := ast.Unparen(x.Fun).(*ast.Ident); ok {
				if _, isB := info.Uses[id].(*types.Builtin); isB {
					isReal = false
				}
			}
			if x == call {
				found = true
				cond = conditional
				if first == nil {
					first = x
				}
				return
			}
			if isReal && first == nil {
				first = x
			}
			return
		case *ast.UnaryExpr:
			visit(x.X, conditional)
			if x.Op == token.ARROW && first == nil {
				first = x
			}
			return
		}
		// generic children in lexical order
		var kids []ast.Node
		ast.Inspect(n, func(c ast.Node) bool {
			if c == nil || c == n {
				return c == n
			}
			kids = append(kids, c)
			return false
		})
		for _, k := range kids {
			visit(k, conditional)
		}
	}
	for _, e := range exprs {
		visit(e, false)
	}
	switch {
	case !found:
		return "call not found in the statement's expressions"
	case first != ast.Node(call):
		return "another call is evaluated before it in the same statement"
	case cond:
		return "call is evaluated conditionally (right operand of && or ||)"
	}
	return ""
}

func simpleLHS(e ast.Expr) bool {
	switch x := ast.Unparen(e).(type) {
	case *ast.Ident:
		return true
	case *ast.SelectorExpr:
		return simpleLHS(x.X)
	case *ast.StarExpr:
		return simpleLHS(x.X)
	}
	return false
}

// leftmost: call is the first thing evaluated in e.
func leftmost(e ast.Expr, call *ast.CallExpr) bool {
	switch x := ast.Unparen(e).(type) {
	case *ast.CallExpr:
		return x == call
	case *ast.UnaryExpr:
		return leftmost(x.X, call)
	case *ast.BinaryExpr:
		return leftmost(x.X, call)
	}
	return false
}

// fileQualifier renders package names as the caller's file imports them; *err is set when a
// package is not imported there.
func fileQualifier(pk *packages.Package, file *ast.File) (types.Qualifier, *string) {
	names := map[string]string{}
	for _, imp := range file.Imports {
		path := strings.Trim(imp.Path.Value, `"`)
		if imp.Name != nil {
			names[path] = imp.Name.Name
			continue
		}
		if ip := pk.Imports[path]; ip != nil {
			names[path] = ip.Name
		}
	}
	errs := new(string)
	return func(other *types.Package) string {
		if other == pk.Types {
			return ""
		}
		if n, ok := names[other.Path()]; ok && n != "_" && n != "." {
			return n
		}
		*errs = other.Path()
		return other.Name()
	}, errs
}

// checkFreeNames: every identifier of the callee's body that refers to something declared
// outside the callee (package level, imports, universe) must resolve to the same object at the
// call site.
func checkFreeNames(p *Prog, pk *packages.Package, callerFile, declFile *ast.File, decl *ast.FuncDecl, call *ast.CallExpr, stack []ast.Node) string {
	info := pk.TypesInfo
	// innermost scope at the call
	var scope *types.Scope
	for i := len(stack) - 1; i >= 0 && scope == nil; i-- {
		if s := info.Scopes[stack[i]]; s != nil {
			scope = s
		}
		if ft, ok := stack[i].(*ast.FuncDecl); ok && scope == nil {
			scope = info.Scopes[ft.Type]
		}
	}
	if scope == nil {
		return "no scope at the call site"
	}
	inner := scope.Innermost(call.Pos())
	if inner != nil {
		scope = inner
	}
	why := ""
	ast.Inspect(decl.Body, func(n ast.Node) bool {
		id, ok := n.(*ast.Ident)
		if !ok || why != "" {
			return true
		}
		obj := info.Uses[id]
		if obj == nil {
			return true
		}
		// declared inside the callee (params, locals): fine
		if obj.Pos() >= decl.Pos() && obj.Pos() < decl.End() && obj.Pkg() == pk.Types {
			if _, isPkgName := obj.(*types.PkgName); !isPkgName {
				return true
			}
		}
		if _, isField := obj.(*types.Var); isField && obj.(*types.Var).IsField() {
			return true
		}
		if _, isFn := obj.(*types.Func); isFn && obj.(*types.Func).Type().(*types.Signature).Recv() != nil {
			return true // method name in a selector
		}
		switch o := obj.(type) {
		case *types.PkgName:
			// the caller's file must import the same package under the same name
			found := false
			for _, imp := range callerFile.Imports {
				if strings.Trim(imp.Path.Value, `"`) == o.Imported().Path() {
					name := o.Imported().Name()
					if imp.Name != nil {
						name = imp.Name.Name
					}
					if name == id.Name {
						found = true
					}
				}
			}
			if !found {
				why = "the callee's body uses package " + o.Imported().Path() + " which the caller's file does not import under that name"
				return true
			}
			// and the name must not be shadowed at the call site
			if _, o2 := scope.LookupParent(id.Name, call.Pos()); o2 != nil {
				if pn, ok := o2.(*types.PkgName); !ok || pn.Imported() != o.Imported() {
					why = "name " + id.Name + " is shadowed at the call site"
				}
			}
		default:
			if obj.Parent() == pk.Types.Scope() || obj.Parent() == types.Universe {
				if _, o2 := scope.LookupParent(id.Name, call.Pos()); o2 != obj {
					why = "name " + id.Name + " means something else at the call site"
				}
			}
		}
		return true
	})
	return why
}

// removeDeadNew deletes declarations of new functions that nothing references any more.
func removeDeadNew(p *Prog, baseline map[string]bool, overlay map[string][]byte) []string {
	used := map[types.Object]bool{}
	for _, pk := range p.Pkgs {
		for _, o := range pk.TypesInfo.Uses {
			used[o] = true
		}
		for _, s := range pk.TypesInfo.Selections {
			used[s.Obj()] = true
		}
	}
	var removed []string
	for _, pk := range p.Pkgs {
		for _, f := range pk.Syntax {
			fname := p.Fset.Position(f.Pos()).Filename
			tf := p.Fset.File(f.Pos())
			var eds []edit
			for _, d := range f.Decls {
				fd, ok := d.(*ast.FuncDecl)
				if !ok {
					continue
				}
				obj, ok := pk.TypesInfo.Defs[fd.Name].(*types.Func)
				if !ok || baseline[FuncKey(obj)] || p.Renamed[FuncKey(obj)] != "" || used[obj] || obj.Exported() {
					continue
				}
				if obj.Name() == "init" || obj.Name() == "main" {
					continue
				}
				a := tf.Offset(fd.Pos())
				if fd.Doc != nil {
					a = tf.Offset(fd.Doc.Pos())
				}
				eds = append(eds, edit{a, tf.Offset(fd.End()), ""})
				removed = append(removed, FuncKey(obj))
			}
			if len(eds) > 0 {
				src, err := p.fileSource(fname)
				if err != nil {
					continue
				}
				fe := &fileEdits{name: fname, src: src, edits: eds}
				overlay[fname] = fe.apply()
			}
		}
	}
	sort.Strings(removed)
	return removed
}

// plainCallee: f, x.f, x.y.f ... (no call or index inside).
func plainCallee(e ast.Expr) bool {
	switch x := ast.Unparen(e).(type) {
	case *ast.Ident:
		return true
	case *ast.SelectorExpr:
		return plainCallee(x.X)
	}
	return false
}

// usesRecover: some function of the module calls the builtin recover (then a panic inside an
// inlined body with deferred calls would not be equivalent).
func (p *Prog) usesRecover() bool {
	if p.recoverChecked {
		return p.recoverUsed
	}
	p.recoverChecked = true
	for _, pk := range p.Pkgs {
		for id, obj := range pk.TypesInfo.Uses {
			if _, ok := obj.(*types.Builtin); ok && id.Name == "recover" {
				p.recoverUsed = true
			}
		}
	}
	return p.recoverUsed
}

// ---- renamed struct fields ----

// fieldAlias maps "pkgpath.Type.newField" to the field's name on the audited tree.
var fieldAlias = map[string]string{}

// DeclaredFields lists, for every named struct type of the module, its fields as [name, type].
func (p *Prog) DeclaredFields() map[string][][2]string {
	out := map[string][][2]string{}
	for _, pk := range p.Pkgs {
		sc := pk.Types.Scope()
		for _, n := range sc.Names() {
			tn, ok := sc.Lookup(n).(*types.TypeName)
			if !ok {
				continue
			}
			st, ok := tn.Type().Underlying().(*types.Struct)
			if !ok {
				continue
			}
			var fs [][2]string
			for i := 0; i < st.NumFields(); i++ {
				fs = append(fs, [2]string{st.Field(i).Name(), types.TypeString(st.Field(i).Type(), nil)})
			}
			out[pk.PkgPath+"."+n] = fs
		}
	}
	return out
}

// ResolveFieldRenames pairs, per struct type, fields present now but not on the audited tree
// with fields of the audited tree that no longer exist, when the types are equal and the
// pairing is unambiguous both ways.
func (p *Prog) ResolveFieldRenames(base map[string][][2]string) map[string]string {
	out := map[string]string{}
	now := p.DeclaredFields()
	for tn, bfs := range base {
		cfs, ok := now[tn]
		if !ok {
			continue
		}
		has := func(fs [][2]string, n string) bool {
			for _, f := range fs {
				if f[0] == n {
					return true
				}
			}
			return false
		}
		var missing, fresh [][2]string
		for _, f := range bfs {
			if !has(cfs, f[0]) {
				missing = append(missing, f)
			}
		}
		for _, f := range cfs {
			if !has(bfs, f[0]) {
				fresh = append(fresh, f)
			}
		}
		for _, f := range fresh {
			var c [][2]string
			for _, m := range missing {
				if m[1] == f[1] {
					c = append(c, m)
				}
			}
			if len(c) != 1 {
				continue
			}
			n := 0
			for _, f2 := range fresh {
				if f2[1] == c[0][1] {
					n++
				}
			}
			if n == 1 {
				out[tn+"."+f[0]] = c[0][0]
			}
		}
	}
	// fields moved into a sub-struct: a fresh field of the owner whose type is a struct type that
	// did not exist on the audited tree (held by value) may carry fields that are missing from
	// the owner; they are paired the same way (equal types, unambiguous both ways) and the nested
	// access owner.sub.field is then analysed as owner.oldField
	for tn, bfs := range base {
		cfs, ok := now[tn]
		if !ok {
			continue
		}
		has := func(fs [][2]string, n string) bool {
			for _, f := range fs {
				if f[0] == n {
					return true
				}
			}
			return false
		}
		var missing [][2]string
		for _, f := range bfs {
			if !has(cfs, f[0]) {
				if _, taken := out[tn+"."+f[0]]; !taken {
					missing = append(missing, f)
				}
			}
		}
		// missing fields already paired by a plain rename are not candidates
		paired := map[string]bool{}
		for k, v := range out {
			if strings.HasPrefix(k, tn+".") {
				paired[v] = true
			}
		}
		pkgPath := tn[:strings.LastIndex(tn, ".")]
		for _, f := range cfs {
			if has(bfs, f[0]) {
				continue
			}
			// f[1] is the sub-struct's type string: pkgpath.Name of a type absent from the baseline
			sub := f[1]
			if _, existed := base[sub]; existed || !strings.HasPrefix(sub, pkgPath+".") {
				continue
			}
			sfs, ok := now[sub]
			if !ok {
				continue
			}
			for _, g := range sfs {
				var c [][2]string
				for _, m := range missing {
					if m[1] == g[1] && !paired[m[0]] {
						c = append(c, m)
					}
				}
				if len(c) != 1 {
					continue
				}
				n := 0
				for _, g2 := range sfs {
					if g2[1] == g[1] {
						n++
					}
				}
				if n == 1 {
					key := tn + "." + f[0] + "." + g[0]
					out[key] = c[0][0]
					nestedFieldAlias[key] = c[0][0]
				}
			}
		}
	}
	for k, v := range out {
		if _, nested := nestedFieldAlias[k]; !nested {
			fieldAlias[k] = v
		}
	}
	p.IndexFieldAliases()
	return out
}

// nestedFieldAlias maps "pkgpath.Owner.sub.field" to the name the field had on the audited tree
// when it was a direct field of Owner.
var nestedFieldAlias = map[string]string{}

// NestedFieldAlias: old name of owner.sub.field, if the field was moved into a sub-struct.
func NestedFieldAlias(owner types.Type, sub, field string) (string, bool) {
	if len(nestedFieldAlias) == 0 {
		return "", false
	}
	if pt, ok := owner.Underlying().(*types.Pointer); ok {
		owner = pt.Elem()
	}
	nt, ok := owner.(*types.Named)
	if !ok || nt.Obj().Pkg() == nil {
		return "", false
	}
	old, ok := nestedFieldAlias[nt.Obj().Pkg().Path()+"."+nt.Obj().Name()+"."+sub+"."+field]
	return old, ok
}

// LoadBaselineFields reads tables/baseline_fields.json.
func LoadBaselineFields(path string) (map[string][][2]string, error) {
	b, err := os.ReadFile(path)
	if err != nil {
		return nil, err
	}
	m := map[string][][2]string{}
	if err := json.Unmarshal(b, &m); err != nil {
		return nil, err
	}
	return m, nil
}

// FieldDisplayName is the name under which the analysis knows field f of owner: its name on the
// audited tree when the field was renamed since.
func FieldDisplayName(owner *types.Named, f *types.Var) string {
	if owner != nil && owner.Obj().Pkg() != nil {
		if old, ok := fieldAlias[owner.Obj().Pkg().Path()+"."+owner.Obj().Name()+"."+f.Name()]; ok {
			return old
		}
	}
	return f.Name()
}

// fieldObjAlias: field object (of any loaded program) -> old name, for text-based keys.
var fieldObjAlias = map[*types.Var]string{}

// IndexFieldAliases records the field objects of p that carry an alias (call after
// ResolveFieldRenames, and again for every program loaded from an overlay).
func (p *Prog) IndexFieldAliases() {
	if len(fieldAlias) == 0 {
		return
	}
	for _, pk := range p.Pkgs {
		sc := pk.Types.Scope()
		for _, n := range sc.Names() {
			tn, ok := sc.Lookup(n).(*types.TypeName)
			if !ok {
				continue
			}
			st, ok := tn.Type().Underlying().(*types.Struct)
			if !ok {
				continue
			}
			for i := 0; i < st.NumFields(); i++ {
				if old, ok := fieldAlias[pk.PkgPath+"."+n+"."+st.Field(i).Name()]; ok {
					fieldObjAlias[st.Field(i)] = old
				}
			}
		}
	}
}
