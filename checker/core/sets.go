package core

import (
	"go/token"
	"go/types"
	"strings"

	"golang.org/x/tools/go/ssa"
)

// A "seen set" is written three ways in this code base and its refactors: map[K]bool read as
// m[k], map[K]T read with comma-ok, and a slice scanned with slices.Contains. The two helpers
// below give rules one view of all three.

// SetAbsent: the fact says `key` is not (yet) a member of the set `set`.
func SetAbsent(f Fact) (set, key ssa.Value, ok bool) {
	if f.Op != token.ILLEGAL || f.Truth || f.V == nil {
		return nil, nil, false
	}
	switch v := f.V.(type) {
	case *ssa.Lookup:
		if _, isMap := v.X.Type().Underlying().(*types.Map); isMap && !v.CommaOk {
			if b, isB := v.Type().Underlying().(*types.Basic); isB && b.Kind() == types.Bool {
				return v.X, v.Index, true
			}
		}
	case *ssa.Extract:
		if lk, isLk := v.Tuple.(*ssa.Lookup); isLk && lk.CommaOk && v.Index == 1 {
			if _, isMap := lk.X.Type().Underlying().(*types.Map); isMap {
				return lk.X, lk.Index, true
			}
		}
	case *ssa.Call:
		if strings.HasPrefix(CalleeID(v), "slices.Contains") && !strings.HasPrefix(CalleeID(v), "slices.ContainsFunc") && len(v.Call.Args) == 2 {
			return v.Call.Args[0], v.Call.Args[1], true
		}
	}
	return nil, nil, false
}

// SetAdd: the instruction makes `key` a member of `set` (m[k] = true, m[k] = struct{}{} or any
// value of a non-bool map, s = append(s, k) written back to where s came from).
func SetAdd(in ssa.Instruction) (set, key ssa.Value, ok bool) {
	switch x := in.(type) {
	case *ssa.MapUpdate:
		mt, isMap := x.Map.Type().Underlying().(*types.Map)
		if !isMap {
			return nil, nil, false
		}
		if b, isB := mt.Elem().Underlying().(*types.Basic); isB && b.Kind() == types.Bool {
			if bv, isC := ConstBool(x.Value); !isC || !bv {
				return nil, nil, false
			}
		}
		return x.Map, x.Key, true
	case *ssa.Call:
		if CalleeID(x) != "builtin.append" || len(x.Call.Args) != 2 {
			return nil, nil, false
		}
		el := VariadicElems(x.Call.Args[1])
		if len(el) != 1 {
			return nil, nil, false
		}
		base := x.Call.Args[0]
		// written back: an operand of the phi it was read from, or stored to the place it was loaded from
		if ph, isPhi := base.(*ssa.Phi); isPhi && phiCarries(ph, x, map[*ssa.Phi]bool{}) {
			return base, el[0], true
		}
		if ld, isLd := base.(*ssa.UnOp); isLd && ld.Op == token.MUL {
			for _, ref := range *x.Referrers() {
				if st, isSt := ref.(*ssa.Store); isSt && st.Val == ssa.Value(x) {
					if st.Addr == ld.X || (AccessPath(st.Addr) != "" && AccessPath(st.Addr) == AccessPath(ld.X)) {
						return base, el[0], true
					}
				}
			}
		}
	}
	return nil, nil, false
}

// phiCarries: v is an incoming value of ph, directly or through the phis that merge the
// `continue` paths of the loop.
func phiCarries(ph *ssa.Phi, v ssa.Value, seen map[*ssa.Phi]bool) bool {
	if seen[ph] {
		return false
	}
	seen[ph] = true
	for _, e := range ph.Edges {
		if e == v {
			return true
		}
		if ep, ok := e.(*ssa.Phi); ok && phiCarries(ep, v, seen) {
			return true
		}
	}
	return false
}

// IsEmptySlice: v is a slice with no elements: nil, make(T, 0[, n]) in either of go/ssa's
// lowerings (MakeSlice, or a [:0] slice of a fresh constant-size array), or x[:0].
func IsEmptySlice(v ssa.Value) bool {
	switch x := Unwrap(v).(type) {
	case *ssa.Const:
		return x.Value == nil
	case *ssa.MakeSlice:
		k, isC := ConstInt(x.Len)
		return isC && k == 0
	case *ssa.Slice:
		if x.High != nil {
			if k, isC := ConstInt(x.High); isC && k == 0 {
				return true
			}
		}
		if pt, ok := x.X.Type().Underlying().(*types.Pointer); ok {
			if at, ok := pt.Elem().Underlying().(*types.Array); ok && at.Len() == 0 {
				return true
			}
		}
	}
	return false
}
