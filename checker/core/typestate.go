package core

import (
	"fmt"
	"go/token"
	"go/types"
	"sort"
	"strings"

	"golang.org/x/tools/go/ssa"
)

// Typestate engine for "a resource obtained must be released or handed off on every exit".
// The resource is an SSA value V (and its aliases: the cell a captured parameter lives in,
// interface re-boxings). Discharge events:
//   - V.Release()                      (call)              -> released
//   - defer V.Release()                                    -> released at every later exit
//   - defer func(){ if flag { V.Release() } }()            -> released at exits where the captured
//                                                             boolean cell has that value (constant
//                                                             propagated along the path)
//   - f(.., V, ..) / go f(.., V, ..) / closure capturing V  -> handed off, if f itself discharges
//                                                             its parameter (f's own leaking exits
//                                                             are reported against f)
//   - carrier.field = V; ch <- carrier                     -> handed off to the receivers of ch
//                                                             (non-blocking select: only on the
//                                                             "sent" edge)
//   - the acquisition's ok result being false              -> nothing was obtained

type ResourceSpec struct {
	// IsRelease reports whether call c releases its receiver/argument and returns that value.
	IsRelease func(c ssa.CallInstruction) (ssa.Value, bool)
	// IsResourceType reports whether a value of this static type can hold the resource.
	IsResourceValue func(v ssa.Value) bool
}

type Leak struct {
	Fn    *ssa.Function
	Exit  *ssa.BasicBlock
	Path  []*ssa.BasicBlock
	Last  string // last call on the path before the exit (for a line-free key)
	Start string
}

type tsState struct {
	handed    bool // ownership was passed on (goroutine / callee / channel)
	held      bool
	deferAll  bool
	deferFlag bool  // a flag-guarded deferred release is registered
	flag      int64 // -1 unknown; false/true are 0/1; an enum-typed flag holds its constant
	flagRel   int64 // the deferred release fires when flag == flagRel
}

// EarlyRelease: the function that handed a resource to a goroutine releases it itself afterwards.
type EarlyRelease struct {
	Fn *ssa.Function
	At ssa.Instruction
}

type TypeState struct {
	P     *Prog
	Spec  ResourceSpec
	Leaks []Leak
	Early []EarlyRelease
	early map[*ssa.Function]bool
	// memo of function/parameter summaries: true = takes ownership (has some discharge event)
	owns    map[string]bool
	checked map[string]bool
	Visited map[*ssa.Function]bool
	// channels (by element carrier type+field) that received a handoff
	Handoffs map[string]ssa.Instruction
}

func NewTypeState(p *Prog, spec ResourceSpec) *TypeState {
	return &TypeState{P: p, Spec: spec, early: map[*ssa.Function]bool{}, owns: map[string]bool{}, checked: map[string]bool{}, Visited: map[*ssa.Function]bool{}, Handoffs: map[string]ssa.Instruction{}}
}

// aliases computes the set of SSA values in fn denoting resource v: v itself, boxings, the
// cell(s) it is stored into (single-store cells), loads of those cells.
func (ts *TypeState) isAlias(v, cand ssa.Value) bool {
	if v == cand {
		return true
	}
	c := Unwrap(cand)
	if c == v {
		return true
	}
	return SameValue(c, v)
}

// cellOf returns the Alloc cell v was spilled into (captured parameter), if any.
func cellOf(v ssa.Value) *ssa.Alloc {
	refs := v.Referrers()
	if refs == nil {
		return nil
	}
	for _, r := range *refs {
		if st, ok := r.(*ssa.Store); ok && st.Val == v {
			if a, ok := st.Addr.(*ssa.Alloc); ok && singleStore(a) == st {
				return a
			}
		}
	}
	return nil
}

type event struct {
	kind     string // release, deferAll, deferFlag, handoff, setFlag, carry
	flagCell ssa.Value
	flagVal  int64
	pol      int64
}

// CheckFrom verifies the obligation for resource v in fn starting at instruction start (nil =
// function entry). okFalse, if non-nil, is the acquisition's boolean result: on edges where it
// is false nothing is held. Returns whether fn has any discharge event for v (ownership).
func (ts *TypeState) CheckFrom(fn *ssa.Function, v ssa.Value, start ssa.Instruction, okFalse ssa.Value, what string) bool {
	ts.Visited[fn] = true
	cell := cellOf(v)
	// carriers: fresh objects whose field holds v (object -> field name)
	carriers := map[ssa.Value]string{}
	isV := func(x ssa.Value) bool {
		if x == nil {
			return false
		}
		if ts.isAlias(v, x) {
			return true
		}
		// read back out of the object it was put in
		if u, ok := x.(*ssa.UnOp); ok && u.Op == token.MUL {
			if _, f, base, ok := FieldRef(u.X); ok {
				if cf, isC := carriers[Unwrap(base)]; isC && cf == f {
					return true
				}
			}
		}
		if cell != nil {
			if u, ok := x.(*ssa.UnOp); ok && u.Op == token.MUL && u.X == ssa.Value(cell) {
				return true
			}
		}
		return false
	}
	bindsV := func(mc *ssa.MakeClosure) (int, bool) {
		for i, b := range mc.Bindings {
			if isV(b) || (cell != nil && b == ssa.Value(cell)) {
				return i, true
			}
		}
		return -1, false
	}
	for _, b := range fn.Blocks {
		for _, in := range b.Instrs {
			if st, ok := in.(*ssa.Store); ok && isV(st.Val) {
				if _, f, base, ok := FieldRef(st.Addr); ok {
					carriers[Unwrap(base)] = f
				}
			}
		}
	}
	isCarrier := func(x ssa.Value) bool {
		_, ok := carriers[Unwrap(x)]
		return ok
	}
	anyEvent := false
	handedAsync := map[*ssa.Function]bool{}
	// per-instruction events
	evOf := func(in ssa.Instruction) []event {
		var evs []event
		switch x := in.(type) {
		case *ssa.Store:
			if a, ok := x.Addr.(*ssa.Alloc); ok {
				if bv, isC := ConstBool(x.Val); isC {
					fv := int64(0)
					if bv {
						fv = 1
					}
					evs = append(evs, event{kind: "setFlag", flagCell: a, flagVal: fv})
				} else if k, isK := ConstInt(x.Val); isK && k >= 0 {
					evs = append(evs, event{kind: "setFlag", flagCell: a, flagVal: k})
				} else if bt, isB := x.Val.Type().Underlying().(*types.Basic); isB && (bt.Kind() == types.Bool || bt.Info()&types.IsInteger != 0) {
					evs = append(evs, event{kind: "setFlagUnknown", flagCell: a})
				}
			}
		case *ssa.Send:
			if isCarrier(x.X) || isV(x.X) {
				evs = append(evs, event{kind: "handoff"})
				ts.noteHandoff(x.Chan, in)
			}
		case ssa.CallInstruction:
			_, isDefer := in.(*ssa.Defer)
			if rv, ok := ts.Spec.IsRelease(x); ok && isV(rv) {
				if isDefer {
					evs = append(evs, event{kind: "deferAll"})
				} else {
					evs = append(evs, event{kind: "release"})
				}
				return evs
			}
			// closure (deferred, go, or plain call) capturing v
			if mc, ok := x.Common().Value.(*ssa.MakeClosure); ok {
				if bi, ok := bindsV(mc); ok {
					cf := mc.Fn.(*ssa.Function)
					if isDefer {
						if fc, pol, all, ok := ts.deferredClosureRelease(cf, bi, mc); ok {
							if all {
								evs = append(evs, event{kind: "deferAll"})
							} else {
								evs = append(evs, event{kind: "deferFlag", flagCell: fc, pol: pol})
							}
						}
					} else if ts.summaryFreeVar(cf, bi, what) {
						evs = append(evs, event{kind: "handoff"})
						if _, isGo := in.(*ssa.Go); isGo {
							handedAsync[fn] = true
						}
					}
				}
			}
			// passing v as an argument
			for ai, a := range x.Common().Args {
				if !isV(a) {
					continue
				}
				callee := StaticCalleeFn(x)
				if callee == nil || !InModule(callee) || callee.Blocks == nil {
					continue
				}
				pi := ai
				if pi < len(callee.Params) && ts.summaryParam(callee, pi, what) {
					if isDefer {
						evs = append(evs, event{kind: "deferAll"})
					} else {
						evs = append(evs, event{kind: "handoff"})
					}
				}
			}
		}
		return evs
	}
	// the cell of the flag guarding a deferred release (at most one per function)
	var theFlag ssa.Value
	for _, b := range fn.Blocks {
		for _, in := range b.Instrs {
			if _, isDefer := in.(*ssa.Defer); isDefer {
				for _, e := range evOf(in) {
					if e.kind == "deferFlag" {
						theFlag = e.flagCell
					}
				}
			}
		}
	}
	apply := func(st tsState, in ssa.Instruction) tsState {
		for _, e := range evOf(in) {
			switch e.kind {
			case "setFlagUnknown":
				if theFlag == nil || e.flagCell == theFlag {
					st.flag = -1
				}
				continue
			case "setFlag":
				if theFlag != nil && e.flagCell != theFlag {
					continue
				}
			}
			switch e.kind {
			case "release":
				if st.handed && !ts.early[fn] {
					ts.early[fn] = true
					ts.Early = append(ts.Early, EarlyRelease{Fn: fn, At: in})
				}
				st.held = false
				anyEvent = true
			case "handoff":
				st.held = false
				st.handed = true
				anyEvent = true
			case "deferAll":
				st.deferAll = true
				anyEvent = true
			case "deferFlag":
				st.deferFlag = true
				st.flagRel = e.pol
				anyEvent = true
				// remember the cell by resetting flag knowledge from its current stores: handled by setFlag events
				_ = e.flagCell
			case "setFlag":
				st.flag = e.flagVal
			}
		}
		return st
	}
	// select-with-carrier: map select instruction -> state index that sends the carrier
	selSend := map[*ssa.Select]int{}
	for _, b := range fn.Blocks {
		for _, in := range b.Instrs {
			if s, ok := in.(*ssa.Select); ok {
				for i, sst := range s.States {
					if sst.Dir == types.SendOnly && (isCarrier(sst.Send) || isV(sst.Send)) {
						selSend[s] = i
						ts.noteHandoff(sst.Chan, in)
					}
				}
			}
		}
	}
	edgeApply := func(st tsState, b *ssa.BasicBlock, idx int) tsState {
		for _, f := range EdgeFacts(b, idx) {
			// acquisition failed
			if okFalse != nil && f.Op == token.ILLEGAL && f.V == okFalse && !f.Truth {
				st.held = false
			}
			// a branch on the value of the release flag
			if theFlag != nil && f.Op == token.ILLEGAL {
				if u, ok := f.V.(*ssa.UnOp); ok && u.Op == token.MUL && u.X == theFlag {
					if f.Truth {
						st.flag = 1
					} else {
						st.flag = 0
					}
				}
			}
			if theFlag != nil && f.Op == token.EQL {
				for _, pair := range [][2]ssa.Value{{f.X, f.Y}, {f.Y, f.X}} {
					if u, ok := pair[0].(*ssa.UnOp); ok && u.Op == token.MUL && u.X == theFlag {
						if k, isC := ConstInt(pair[1]); isC && k >= 0 {
							st.flag = k
						}
					}
				}
			}
			// select index == i  (sent)
			if f.Op == token.EQL {
				for _, pair := range [][2]ssa.Value{{f.X, f.Y}, {f.Y, f.X}} {
					if ex, ok := pair[0].(*ssa.Extract); ok && ex.Index == 0 {
						if s, ok := ex.Tuple.(*ssa.Select); ok {
							if want, has := selSend[s]; has {
								if k, isC := ConstInt(pair[1]); isC && int(k) == want {
									st.held = false
									anyEvent = true
								}
							}
						}
					}
				}
			}
		}
		return st
	}
	// search
	type key struct {
		b  int
		st tsState
	}
	type node struct {
		b    *ssa.BasicBlock
		st   tsState
		prev *node
	}
	var startBlock *ssa.BasicBlock
	if start != nil {
		startBlock = start.Block()
	} else {
		startBlock = fn.Blocks[0]
	}
	init := tsState{held: true, flag: -1}
	seen := map[key]bool{}
	var stack []*node
	// process the start block from the start instruction
	processBlock := func(n *node, from ssa.Instruction) (tsState, bool) {
		st := n.st
		active := from == nil
		for _, in := range n.b.Instrs {
			if !active {
				if in == from {
					active = true
				}
				continue
			}
			st = apply(st, in)
			if _, isRet := in.(*ssa.Return); isRet {
				return st, true
			}
		}
		return st, false
	}
	leakAt := map[*ssa.BasicBlock]bool{}
	root := &node{b: startBlock, st: init}
	stack = append(stack, root)
	first := true
	for len(stack) > 0 {
		n := stack[len(stack)-1]
		stack = stack[:len(stack)-1]
		var st tsState
		var isExit bool
		if first {
			st, isExit = processBlock(n, start)
			first = false
		} else {
			st, isExit = processBlock(n, nil)
		}
		if isExit {
			// a deferred release that fires although ownership was handed to a goroutine/callee that
			// is still using the slot gives the slot back while the transfer is running
			if st.handed && handedAsync[n.b.Parent()] && (st.deferAll || (st.deferFlag && (st.flag < 0 || st.flag == st.flagRel))) && !ts.early[fn] {
				ts.early[fn] = true
				ts.Early = append(ts.Early, EarlyRelease{Fn: fn, At: n.b.Instrs[len(n.b.Instrs)-1]})
			}
			released := !st.held || st.deferAll || (st.deferFlag && st.flag >= 0 && st.flag == st.flagRel)
			if !released && !leakAt[n.b] {
				leakAt[n.b] = true
				var path []*ssa.BasicBlock
				for x := n; x != nil; x = x.prev {
					path = append([]*ssa.BasicBlock{x.b}, path...)
				}
				ts.Leaks = append(ts.Leaks, Leak{Fn: fn, Exit: n.b, Path: path, Last: lastCallOnPath(path, start), Start: what})
			}
			continue
		}
		for i, s := range n.b.Succs {
			st2 := edgeApply(st, n.b, i)
			k := key{s.Index, st2}
			if seen[k] {
				continue
			}
			seen[k] = true
			stack = append(stack, &node{b: s, st: st2, prev: n})
		}
	}
	return anyEvent
}

func (ts *TypeState) noteHandoff(ch ssa.Value, in ssa.Instruction) {
	if t, f, ok := LoadedField(ch); ok {
		ts.Handoffs[t+"."+f] = in
	}
}

func lastCallOnPath(path []*ssa.BasicBlock, start ssa.Instruction) string {
	last := ""
	for bi, b := range path {
		active := !(bi == 0 && start != nil)
		for _, in := range b.Instrs {
			if !active {
				if in == start {
					active = true
				}
				continue
			}
			if c, ok := in.(*ssa.Call); ok {
				id := CalleeID(c)
				if id == "" || strings.HasPrefix(id, "builtin.") {
					continue
				}
				// skip logging/metrics noise
				if strings.Contains(id, "/log.") || strings.Contains(id, "/metrics.") {
					continue
				}
				last = shortCallee(id)
			}
		}
	}
	return last
}

func shortCallee(id string) string {
	if i := strings.LastIndex(id, "/"); i >= 0 {
		return id[i+1:]
	}
	return id
}

// summaryParam: does callee take ownership of parameter pi (has a discharge event)? Its own
// leaking exits are recorded as leaks of callee.
func (ts *TypeState) summaryParam(callee *ssa.Function, pi int, what string) bool {
	k := fmt.Sprintf("%p/p%d", callee, pi)
	if v, ok := ts.owns[k]; ok {
		return v
	}
	ts.owns[k] = false // recursion guard
	before := len(ts.Leaks)
	own := ts.CheckFrom(callee, callee.Params[pi], nil, nil, what+" (parameter "+callee.Params[pi].Name()+" of "+FuncName(callee)+")")
	if !own {
		// not an owner: its "leaks" are not leaks
		ts.Leaks = ts.Leaks[:before]
	}
	ts.owns[k] = own
	return own
}

func (ts *TypeState) summaryFreeVar(cf *ssa.Function, bi int, what string) bool {
	k := fmt.Sprintf("%p/f%d", cf, bi)
	if v, ok := ts.owns[k]; ok {
		return v
	}
	ts.owns[k] = false
	fv := cf.FreeVars[bi]
	// the free variable is usually the cell; the resource is its load
	before := len(ts.Leaks)
	own := ts.checkFreeVar(cf, fv, what)
	if !own {
		ts.Leaks = ts.Leaks[:before]
	}
	ts.owns[k] = own
	return own
}

// checkFreeVar analyses a closure for the resource held in free variable fv (a cell pointer
// or the value itself).
func (ts *TypeState) checkFreeVar(cf *ssa.Function, fv *ssa.FreeVar, what string) bool {
	return ts.CheckFrom(cf, freeVarResource{fv}.value(), nil, nil, what+" (captured by "+FuncName(cf)+")")
}

type freeVarResource struct{ fv *ssa.FreeVar }

func (f freeVarResource) value() ssa.Value { return f.fv }

// deferredClosureRelease analyses `defer func(){ ... }()`: does the closure release the
// resource bound at index bi unconditionally (all=true) or under a captured boolean cell
// (flagCell in the parent, pol = value of the flag under which it releases)?
func (ts *TypeState) deferredClosureRelease(cf *ssa.Function, bi int, mc *ssa.MakeClosure) (flagCell ssa.Value, pol int64, all bool, ok bool) {
	fv := cf.FreeVars[bi]
	isV := func(x ssa.Value) bool {
		x = Unwrap(x)
		if x == ssa.Value(fv) {
			return true
		}
		if u, ok := x.(*ssa.UnOp); ok && u.Op == token.MUL && u.X == ssa.Value(fv) {
			return true
		}
		return false
	}
	var rel ssa.Instruction
	for _, b := range cf.Blocks {
		for _, in := range b.Instrs {
			if c, ok := in.(ssa.CallInstruction); ok {
				if rv, ok := ts.Spec.IsRelease(c); ok && isV(rv) {
					rel = in
				}
			}
		}
	}
	if rel == nil {
		return nil, 0, false, false
	}
	// unconditional?
	target := rel.Block()
	if w := CutReach(CutSpec{Fn: cf, Cut: func(b *ssa.BasicBlock, i int) bool { return b.Succs[i] == target },
		Target: func(prev, b *ssa.BasicBlock) bool {
			_, isRet := b.Instrs[len(b.Instrs)-1].(*ssa.Return)
			return isRet && b != target
		}}); w == nil {
		return nil, 0, true, true
	}
	// guarded by exactly one captured cell: a bool tested for its truth, or an integer-typed
	// (enum) cell compared with a constant
	for fi, f2 := range cf.FreeVars {
		f2 := f2
		isLoad := func(v ssa.Value) bool {
			u, ok := v.(*ssa.UnOp)
			return ok && u.Op == token.MUL && u.X == ssa.Value(f2)
		}
		// what a fact says about the cell: (value, says-equal, about-the-cell)
		about := func(f Fact) (int64, bool, bool) {
			if f.Op == token.ILLEGAL {
				if f.V != nil && isLoad(f.V) {
					if f.Truth {
						return 1, true, true
					}
					return 0, true, true
				}
				return 0, false, false
			}
			if f.Op != token.EQL && f.Op != token.NEQ {
				return 0, false, false
			}
			for _, pr := range [][2]ssa.Value{{f.X, f.Y}, {f.Y, f.X}} {
				if k, isC := ConstInt(pr[1]); isC && k >= 0 && isLoad(pr[0]) {
					return k, f.Op == token.EQL, true
				}
			}
			return 0, false, false
		}
		cands := map[int64]bool{}
		for _, b := range cf.Blocks {
			for i := range b.Succs {
				for _, f := range EdgeFacts(b, i) {
					if k, eq, ok := about(f); ok && eq {
						cands[k] = true
					}
				}
			}
		}
		var ks []int64
		for k := range cands {
			ks = append(ks, k)
		}
		sort.Slice(ks, func(i, j int) bool { return ks[i] > ks[j] })
		for _, polarity := range ks {
			polarity := polarity
			g := AnyFact(func(f Fact) bool {
				k, eq, ok := about(f)
				return ok && eq && k == polarity
			})
			// every path where the flag has that value reaches the release:
			// cut = edges establishing another value, or entering the release block
			opp := AnyFact(func(f Fact) bool {
				k, eq, ok := about(f)
				return ok && ((eq && k != polarity) || (!eq && k == polarity))
			})
			hasGuard := InstrGuarded(rel, g, nil) == nil
			if !hasGuard {
				continue
			}
			w := CutReach(CutSpec{Fn: cf, Cut: func(b *ssa.BasicBlock, i int) bool { return opp(EdgeFacts(b, i)) || b.Succs[i] == target },
				Target: func(prev, b *ssa.BasicBlock) bool {
					_, isRet := b.Instrs[len(b.Instrs)-1].(*ssa.Return)
					return isRet && b != target
				}})
			if w == nil {
				return mc.Bindings[fi], polarity, false, true
			}
		}
	}
	return nil, 0, false, false
}

// SortLeaks orders leaks deterministically.
func (ts *TypeState) SortLeaks() {
	sort.SliceStable(ts.Leaks, func(i, j int) bool {
		a, b := ts.Leaks[i], ts.Leaks[j]
		if a.Fn.String() != b.Fn.String() {
			return a.Fn.String() < b.Fn.String()
		}
		return a.Exit.Index < b.Exit.Index
	})
}
