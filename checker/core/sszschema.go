package core

import (
	"fmt"
	"go/token"
	"go/types"
	"reflect"
	"sort"
	"strconv"
	"strings"

	"golang.org/x/tools/go/ssa"
)

// ---------- schema computed from the struct definition ----------

type SSZField struct {
	Name     string
	Kind     string // fixed | bytes | bitlist | listbytes | listfixed
	Fixed    int64  // byte size when Kind == fixed
	Max      int64  // outer limit (bytes: max length, bitlist: max bits, lists: max elements)
	ElemMax  int64  // listbytes: max length of each element
	ElemSize int64  // listfixed: size of each element
}

type SSZLayout struct {
	Fields    []SSZField
	FixedPart int64 // container fixed part incl. 4-byte offsets
	NVar      int
	OK        bool
	Why       string
}

func parseTagNums(s string) []int64 {
	var out []int64
	for _, p := range strings.Split(s, ",") {
		p = strings.TrimSpace(p)
		if p == "?" || p == "" {
			out = append(out, -1)
			continue
		}
		n, err := strconv.ParseInt(p, 10, 64)
		if err != nil {
			out = append(out, -2)
		} else {
			out = append(out, n)
		}
	}
	return out
}

func basicSize(t types.Type) int64 {
	if b, ok := t.Underlying().(*types.Basic); ok {
		switch b.Kind() {
		case types.Uint8, types.Bool, types.Int8:
			return 1
		case types.Uint16:
			return 2
		case types.Uint32:
			return 4
		case types.Uint64:
			return 8
		}
	}
	return -1
}

// ComputeLayout derives the SSZ layout of a fastssz-style struct from field types and tags.
func ComputeLayout(st *types.Struct) SSZLayout {
	l := SSZLayout{OK: true}
	for i := 0; i < st.NumFields(); i++ {
		f := st.Field(i)
		tag := reflect.StructTag(st.Tag(i))
		if tag.Get("ssz") == "-" {
			continue
		}
		size := parseTagNums(tag.Get("ssz-size"))
		max := parseTagNums(tag.Get("ssz-max"))
		hasSize, hasMax := tag.Get("ssz-size") != "", tag.Get("ssz-max") != ""
		fld := SSZField{Name: f.Name()}
		t := f.Type()
		switch {
		case basicSize(t) > 0:
			fld.Kind, fld.Fixed = "fixed", basicSize(t)
		default:
			switch tt := t.Underlying().(type) {
			case *types.Array:
				if es := basicSize(tt.Elem()); es > 0 {
					fld.Kind, fld.Fixed = "fixed", es*tt.Len()
				} else {
					l.OK, l.Why = false, "field "+f.Name()+": unsupported array element"
				}
			case *types.Slice:
				es := basicSize(tt.Elem())
				switch {
				case es == 1 && tag.Get("ssz") == "bitlist" && hasMax:
					fld.Kind, fld.Max = "bitlist", max[0]
				case es == 1 && hasSize && size[0] > 0:
					fld.Kind, fld.Fixed = "fixed", size[0]
				case es == 1 && hasMax:
					fld.Kind, fld.Max = "bytes", max[0]
				default:
					// slice of byte slices / byte arrays
					inner := int64(-1) // fixed element size from the type
					innerIsBytes := false
					switch et := tt.Elem().Underlying().(type) {
					case *types.Slice:
						if basicSize(et.Elem()) == 1 {
							innerIsBytes = true
						}
					case *types.Array:
						if basicSize(et.Elem()) == 1 {
							inner = et.Len()
						}
					}
					switch {
					case innerIsBytes && hasSize && len(size) == 2 && size[0] > 0 && size[1] > 0 && !hasMax:
						fld.Kind, fld.Fixed = "fixed", size[0]*size[1]
					case (innerIsBytes || inner > 0) && hasSize && len(size) == 2 && size[0] == -1 && size[1] > 0 && hasMax && len(max) >= 1:
						fld.Kind, fld.Max, fld.ElemSize = "listfixed", max[0], size[1]
						if inner > 0 && inner != size[1] {
							l.OK, l.Why = false, "field "+f.Name()+": element size tag disagrees with the array type"
						}
					case innerIsBytes && hasMax && len(max) == 2 && !hasSize:
						fld.Kind, fld.Max, fld.ElemMax = "listbytes", max[0], max[1]
					default:
						l.OK, l.Why = false, "field "+f.Name()+": unsupported slice shape/tags"
					}
				}
			default:
				l.OK, l.Why = false, "field "+f.Name()+": unsupported type "+t.String()
			}
		}
		if !l.OK {
			return l
		}
		if fld.Kind == "fixed" {
			l.FixedPart += fld.Fixed
		} else {
			l.FixedPart += 4
			l.NVar++
		}
		l.Fields = append(l.Fields, fld)
	}
	return l
}

// ExpectedLimits returns the multisets of limit constants a codec of this layout must enforce.
func (l SSZLayout) ExpectedLimits() (byteMax, dynLen []int64, divide [][2]int64, bitlist []int64, fixedSizes []int64) {
	for _, f := range l.Fields {
		switch f.Kind {
		case "bytes":
			byteMax = append(byteMax, f.Max)
		case "bitlist":
			bitlist = append(bitlist, f.Max)
		case "listbytes":
			dynLen = append(dynLen, f.Max)
			byteMax = append(byteMax, f.ElemMax)
		case "listfixed":
			divide = append(divide, [2]int64{f.ElemSize, f.Max})
		case "fixed":
			fixedSizes = append(fixedSizes, f.Fixed)
		}
	}
	return
}

// ---------- census of what the code enforces ----------

type OffsetRead struct {
	Lo, Hi     int64 // window of the fixed part the offset is read from
	GtSize     bool  // compared `> size`
	FirstConst int64 // compared `!= K` (first-offset check); -1 if none
	FirstLoose bool  // the first offset is only bounded from below (`< K`): offsets past the fixed part pass
	Monotone   bool  // compared `prev > this`
}

type DecoderCensus struct {
	SizeLss   []int64 // `size < K`
	SizeNeq   []int64 // `size != K`
	Offsets   []OffsetRead
	ByteMax   []int64 // `len(x) > K`
	DynLen    []int64
	Divide    [][2]int64
	Bitlist   []int64
	Windows   [][2]int64 // constant slices of the input other than offset windows
	HasOffset bool
}

func withClosures(fn *ssa.Function) []*ssa.Function { return WithAnon(fn) }

// CensusDecoder extracts the constants UnmarshalSSZ enforces.
func CensusDecoder(fn *ssa.Function) DecoderCensus {
	var c DecoderCensus
	if len(fn.Params) < 2 {
		return c
	}
	buf := fn.Params[1]
	isSize := func(v ssa.Value) bool {
		return IsLenOf(v, func(x ssa.Value) bool { return x == ssa.Value(buf) })
	}
	offsetVals := map[ssa.Value]int{}
	for _, f := range withClosures(fn) {
		for _, b := range f.Blocks {
			for _, in := range b.Instrs {
				call, ok := in.(*ssa.Call)
				if !ok {
					continue
				}
				id := CalleeID(call)
				switch {
				case strings.HasSuffix(id, "fastssz.ReadOffset"):
					if sl, ok := call.Call.Args[0].(*ssa.Slice); ok {
						lo, _ := ConstInt(sl.Low)
						hi, okh := ConstInt(sl.High)
						if sl.Low == nil {
							lo = 0
						}
						if okh {
							offsetVals[call] = len(c.Offsets)
							c.Offsets = append(c.Offsets, OffsetRead{Lo: lo, Hi: hi, FirstConst: -1})
						}
					}
				case strings.HasSuffix(id, "littleEndian).Uint32"):
					// the same read written with the standard library: uint64(LittleEndian.Uint32(buf[a:a+4])),
					// an offset when the widened value is compared with the input size
					sl, ok := call.Call.Args[len(call.Call.Args)-1].(*ssa.Slice)
					if !ok || call.Referrers() == nil {
						break
					}
					lo, _ := ConstInt(sl.Low)
					hi, okh := ConstInt(sl.High)
					if sl.Low == nil {
						lo = 0
					}
					if !okh || hi-lo != 4 {
						break
					}
					for _, rf := range *call.Referrers() {
						cv, ok := rf.(*ssa.Convert)
						if !ok || cv.Referrers() == nil {
							continue
						}
						vsSize := false
						for _, r2 := range *cv.Referrers() {
							if bo, ok := r2.(*ssa.BinOp); ok && ((bo.X == ssa.Value(cv) && isSize(bo.Y)) || (bo.Y == ssa.Value(cv) && isSize(bo.X))) {
								vsSize = true
							}
						}
						if vsSize {
							offsetVals[cv] = len(c.Offsets)
							c.Offsets = append(c.Offsets, OffsetRead{Lo: lo, Hi: hi, FirstConst: -1})
						}
					}
				case strings.HasSuffix(id, "fastssz.DecodeDynamicLength"):
					if k, ok := ConstInt(call.Call.Args[1]); ok {
						c.DynLen = append(c.DynLen, k)
					}
				case strings.HasSuffix(id, "fastssz.DivideInt2"):
					e, ok1 := ConstInt(call.Call.Args[1])
					m, ok2 := ConstInt(call.Call.Args[2])
					if ok1 && ok2 {
						c.Divide = append(c.Divide, [2]int64{e, m})
					}
				case strings.HasSuffix(id, "fastssz.ValidateBitlist"):
					if k, ok := ConstInt(call.Call.Args[1]); ok {
						c.Bitlist = append(c.Bitlist, k)
					}
				}
			}
		}
	}
	c.HasOffset = len(c.Offsets) > 0
	// comparisons
	offIdx := func(v ssa.Value) (int, bool) {
		// the offset value may flow through a phi-free local; compare directly
		i, ok := offsetVals[v]
		return i, ok
	}
	for _, f := range withClosures(fn) {
		for _, b := range f.Blocks {
			for _, in := range b.Instrs {
				bo, ok := in.(*ssa.BinOp)
				if !ok {
					continue
				}
				if _, isCmp := negOp[bo.Op]; !isCmp {
					continue
				}
				x, y := bo.X, bo.Y
				op := bo.Op
				if _, isC := ConstInt(x); isC {
					x, y, op = y, x, swapOp[op]
				}
				k, yConst := ConstInt(y)
				switch {
				case isSize(x) && yConst && op == token.LSS:
					c.SizeLss = append(c.SizeLss, k)
				case isSize(x) && yConst && op == token.NEQ:
					c.SizeNeq = append(c.SizeNeq, k)
				case yConst && (op == token.GTR) && IsLenOf(x, func(ssa.Value) bool { return true }):
					// includes len(input) > K: a bare byte list is bounded on the input itself.
					// Inside a per-element callback the bound must be on the callback's own element
					// (its parameter): a captured variable of the same name is the whole input
					if f.Parent() != nil && len(f.Params) > 0 && !IsLenOf(x, func(v ssa.Value) bool {
						return Derives(v, func(z ssa.Value) bool {
							pa, isP := z.(*ssa.Parameter)
							return isP && pa.Parent() == f
						}, DeriveOpts{})
					}) {
						break
					}
					c.ByteMax = append(c.ByteMax, k)
				}
				if i, ok := offIdx(x); ok {
					if isSize(y) && op == token.GTR {
						c.Offsets[i].GtSize = true
					}
					if yConst && (op == token.NEQ || op == token.LSS) {
						c.Offsets[i].FirstConst = k
						c.Offsets[i].FirstLoose = op == token.LSS
					}
					if j, ok2 := offIdx(y); ok2 && op == token.LSS && j < i {
						c.Offsets[i].Monotone = true // this < prev  <=> prev > this
					}
				}
				if j, ok := offIdx(y); ok {
					if i, ok2 := offIdx(x); ok2 && op == token.GTR && i < j {
						c.Offsets[j].Monotone = true // prev > this
					}
					if isSize(x) && op == token.LSS {
						c.Offsets[j].GtSize = true
					}
				}
			}
		}
	}
	// constant windows
	offWin := map[[2]int64]bool{}
	for _, o := range c.Offsets {
		offWin[[2]int64{o.Lo, o.Hi}] = true
	}
	for _, b := range fn.Blocks {
		for _, in := range b.Instrs {
			sl, ok := in.(*ssa.Slice)
			if !ok || sl.X != ssa.Value(buf) {
				continue
			}
			lo, okl := ConstInt(sl.Low)
			if sl.Low == nil {
				lo, okl = 0, true
			}
			hi, okh := ConstInt(sl.High)
			if okl && okh && !offWin[[2]int64{lo, hi}] {
				c.Windows = append(c.Windows, [2]int64{lo, hi})
			}
		}
	}
	sort.Slice(c.Windows, func(i, j int) bool { return c.Windows[i][0] < c.Windows[j][0] })
	return c
}

type EncoderCensus struct {
	ContainerOffset int64 // first constant WriteOffset argument, -1 if none
	LenGtr          []int64
	LenNeq          []int64
}

// CensusEncoder extracts the constants MarshalSSZTo enforces.
func CensusEncoder(fn *ssa.Function) EncoderCensus {
	c := EncoderCensus{ContainerOffset: -1}
	for _, b := range fn.Blocks {
		for _, in := range b.Instrs {
			switch x := in.(type) {
			case *ssa.Call:
				if strings.HasSuffix(CalleeID(x), "fastssz.WriteOffset") && c.ContainerOffset < 0 {
					if k, ok := ConstInt(x.Call.Args[1]); ok && !InLoop(b) {
						c.ContainerOffset = k
					}
				}
				// the same write with the standard library: LittleEndian.AppendUint32(dst, uint32(offset))
				if strings.HasSuffix(CalleeID(x), "littleEndian).AppendUint32") && c.ContainerOffset < 0 {
					if k, ok := ConstInt(Unwrap(x.Call.Args[len(x.Call.Args)-1])); ok && !InLoop(b) {
						c.ContainerOffset = k
					}
				}
			case *ssa.BinOp:
				k, isC := ConstInt(x.Y)
				if !isC || !IsLenOf(x.X, func(ssa.Value) bool { return true }) {
					continue
				}
				switch x.Op {
				case token.GTR:
					c.LenGtr = append(c.LenGtr, k)
				case token.NEQ:
					c.LenNeq = append(c.LenNeq, k)
				}
			}
		}
	}
	return c
}

// SizeConstants lists integer constants used additively or returned in SizeSSZ.
func SizeConstants(fn *ssa.Function) []int64 {
	set := map[int64]bool{}
	for _, b := range fn.Blocks {
		for _, in := range b.Instrs {
			switch x := in.(type) {
			case *ssa.Return:
				for _, r := range x.Results {
					if k, ok := ConstInt(r); ok {
						set[k] = true
					}
				}
			case *ssa.BinOp:
				if x.Op == token.ADD {
					if k, ok := ConstInt(x.X); ok {
						set[k] = true
					}
					if k, ok := ConstInt(x.Y); ok {
						set[k] = true
					}
				}
			case *ssa.Phi:
				for _, e := range x.Edges {
					if k, ok := ConstInt(e); ok {
						set[k] = true
					}
				}
			}
		}
	}
	var out []int64
	for k := range set {
		out = append(out, k)
	}
	sort.Slice(out, func(i, j int) bool { return out[i] < out[j] })
	return out
}

// SameMultiset compares two integer multisets.
func SameMultiset(a, b []int64) bool {
	if len(a) != len(b) {
		return false
	}
	x := append([]int64{}, a...)
	y := append([]int64{}, b...)
	sort.Slice(x, func(i, j int) bool { return x[i] < x[j] })
	sort.Slice(y, func(i, j int) bool { return y[i] < y[j] })
	return fmt.Sprint(x) == fmt.Sprint(y)
}
