package core

import (
	"fmt"
	"sort"

	"golang.org/x/tools/go/ssa"
)

// LockSpec identifies one mutex by the struct type and field that hold it, e.g. ("Table","mutex").
type LockSpec struct {
	Type, Field string
}

func (l LockSpec) String() string { return l.Type + "." + l.Field }

// lockOp classifies a call as Lock/Unlock (or RLock/RUnlock) on the mutex field.
func (l LockSpec) lockOp(c ssa.CallInstruction) (lock, unlock bool) {
	id := CalleeID(c)
	var isLock, isUnlock bool
	switch id {
	case "sync.(*Mutex).Lock", "sync.(*RWMutex).Lock":
		isLock = true
	case "sync.(*Mutex).Unlock", "sync.(*RWMutex).Unlock":
		isUnlock = true
	default:
		return false, false
	}
	args := c.Common().Args
	if len(args) == 0 {
		return false, false
	}
	t, f, _, ok := FieldRef(args[0])
	if !ok || t != l.Type || f != l.Field {
		return false, false
	}
	return isLock, isUnlock
}

// HeldMap computes, for every instruction of fn, whether the mutex is certainly held just
// before it, given the state on entry. Deferred unlocks keep the lock until the function exits.
func (l LockSpec) HeldMap(fn *ssa.Function, entryHeld bool) map[ssa.Instruction]bool {
	in := map[*ssa.BasicBlock]bool{}
	visited := map[*ssa.BasicBlock]bool{}
	out := map[*ssa.BasicBlock]bool{}
	if len(fn.Blocks) == 0 {
		return nil
	}
	transfer := func(b *ssa.BasicBlock, st bool, rec map[ssa.Instruction]bool) bool {
		for _, ins := range b.Instrs {
			if rec != nil {
				rec[ins] = st
			}
			if c, ok := ins.(*ssa.Call); ok {
				lk, ul := l.lockOp(c)
				if lk {
					st = true
				}
				if ul {
					st = false
				}
			}
		}
		return st
	}
	work := []*ssa.BasicBlock{fn.Blocks[0]}
	in[fn.Blocks[0]] = entryHeld
	visited[fn.Blocks[0]] = true
	for len(work) > 0 {
		b := work[0]
		work = work[1:]
		o := transfer(b, in[b], nil)
		out[b] = o
		for _, s := range b.Succs {
			if !visited[s] {
				visited[s] = true
				in[s] = o
				work = append(work, s)
			} else if in[s] && !o {
				in[s] = false
				work = append(work, s)
			}
		}
	}
	res := map[ssa.Instruction]bool{}
	for _, b := range fn.Blocks {
		if visited[b] {
			transfer(b, in[b], res)
		}
	}
	return res
}

// LockSite is an instruction that needs the lock.
type LockSite struct {
	Instr ssa.Instruction
	What  string
}

// LockViolation describes a path on which a protected access happens without the lock.
type LockViolation struct {
	Root  *ssa.Function
	Chain []string // root -> ... -> site description
	Site  ssa.Instruction
}

// CheckLockDiscipline verifies that every site (grouped by function) executes with the mutex
// held, following static calls up the call graph: a function that performs a protected access
// while not holding the lock itself requires its callers to hold it; a requirement that reaches
// a function without callers in the module (an entry point, a goroutine body) is a violation.
// exempt marks functions whose accesses are initialisation of an unpublished object.
func (p *Prog) CheckLockDiscipline(l LockSpec, sites map[*ssa.Function][]LockSite, exempt func(*ssa.Function) bool) []LockViolation {
	// callers index (static calls + closures created in a function count as called there)
	type callSite struct {
		caller *ssa.Function
		instr  ssa.Instruction
		async  bool // go statement: the callee starts without the lock
	}
	callers := map[*ssa.Function][]callSite{}
	for _, fn := range p.ModuleFuncs() {
		for _, b := range fn.Blocks {
			for _, ins := range b.Instrs {
				switch x := ins.(type) {
				case ssa.CallInstruction:
					if cal := StaticCalleeFn(x); cal != nil && InModule(cal) {
						_, isGo := x.(*ssa.Go)
						_, isDefer := x.(*ssa.Defer)
						callers[cal] = append(callers[cal], callSite{fn, ins, isGo || isDefer && false})
					}
					// closures passed as arguments are assumed invoked during the call
					for _, a := range x.Common().Args {
						if mc, ok := a.(*ssa.MakeClosure); ok {
							cf := mc.Fn.(*ssa.Function)
							_, isGo := x.(*ssa.Go)
							callers[cf] = append(callers[cf], callSite{fn, ins, isGo})
						}
					}
				}
			}
		}
	}
	type need struct {
		site  ssa.Instruction
		chain []string
	}
	needs := map[*ssa.Function][]need{}
	var viols []LockViolation
	heldCache := map[*ssa.Function]map[ssa.Instruction]bool{}
	held := func(fn *ssa.Function) map[ssa.Instruction]bool {
		if h, ok := heldCache[fn]; ok {
			return h
		}
		h := l.HeldMap(fn, false)
		heldCache[fn] = h
		return h
	}
	var fns []*ssa.Function
	for fn := range sites {
		fns = append(fns, fn)
	}
	sort.Slice(fns, func(i, j int) bool { return fns[i].String() < fns[j].String() })
	var work []*ssa.Function
	for _, fn := range fns {
		if exempt != nil && exempt(fn) {
			continue
		}
		h := held(fn)
		for _, s := range sites[fn] {
			if !h[s.Instr] {
				needs[fn] = append(needs[fn], need{s.Instr, []string{fmt.Sprintf("%s: %s @%s", FuncName(fn), s.What, p.Pos(InstrPos(s.Instr)))}})
			}
		}
		if len(needs[fn]) > 0 {
			work = append(work, fn)
		}
	}
	done := map[*ssa.Function]bool{}
	for len(work) > 0 {
		fn := work[0]
		work = work[1:]
		if done[fn] {
			continue
		}
		done[fn] = true
		nd := needs[fn][0]
		cs := callers[fn]
		if len(cs) == 0 {
			viols = append(viols, LockViolation{Root: fn, Chain: nd.chain, Site: nd.site})
			continue
		}
		for _, c := range cs {
			if exempt != nil && exempt(c.caller) {
				continue
			}
			if c.async {
				viols = append(viols, LockViolation{Root: fn, Chain: append([]string{"go " + FuncName(fn) + " started from " + FuncName(c.caller)}, nd.chain...), Site: nd.site})
				continue
			}
			if held(c.caller)[c.instr] {
				continue
			}
			if !done[c.caller] {
				needs[c.caller] = append(needs[c.caller], need{nd.site, append([]string{fmt.Sprintf("%s calls %s @%s", FuncName(c.caller), FuncName(fn), p.Pos(InstrPos(c.instr)))}, nd.chain...)})
				work = append(work, c.caller)
			}
		}
	}
	return viols
}
