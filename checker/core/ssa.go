package core

import (
	"fmt"
	"go/constant"
	"go/token"
	"go/types"
	"sort"
	"strings"

	"golang.org/x/tools/go/ssa"
)

// ---------- callee identity ----------

// ObjID renders a *types.Func as "pkgpath.Name" or "pkgpath.(Recv).Name" / "pkgpath.(*Recv).Name".
// For instantiated generics the origin is used.
func ObjID(f *types.Func) string {
	if f == nil {
		return ""
	}
	f = f.Origin()
	sig := f.Type().(*types.Signature)
	pkg := ""
	if f.Pkg() != nil {
		pkg = f.Pkg().Path()
	}
	if r := sig.Recv(); r != nil {
		t := r.Type()
		ptr := ""
		if p, ok := t.(*types.Pointer); ok {
			t = p.Elem()
			ptr = "*"
		}
		name := "?"
		switch tt := t.(type) {
		case *types.Named:
			name = tt.Obj().Name()
			if tt.Obj().Pkg() != nil {
				pkg = tt.Obj().Pkg().Path()
			}
		case *types.Alias:
			name = tt.Obj().Name()
		default:
			name = types.TypeString(t, nil)
		}
		if _, isIface := t.Underlying().(*types.Interface); isIface {
			ptr = ""
		}
		return fmt.Sprintf("%s.(%s%s).%s", pkg, ptr, name, f.Name())
	}
	return pkg + "." + f.Name()
}

// CalleeObj returns the *types.Func a call instruction invokes when that is statically known:
// a static function/method call, or an interface method (the interface's method object).
func CalleeObj(c ssa.CallInstruction) *types.Func {
	cc := c.Common()
	if cc.IsInvoke() {
		return cc.Method
	}
	if f := cc.StaticCallee(); f != nil {
		if obj, ok := f.Object().(*types.Func); ok {
			return obj
		}
		// bound method / thunk wrappers
		if f.Synthetic != "" {
			if o := f.Origin(); o != nil {
				if obj, ok := o.Object().(*types.Func); ok {
					return obj
				}
			}
		}
	}
	return nil
}

// CalleeID is ObjID(CalleeObj(c)), or "builtin.<name>" for builtins, or "" when dynamic.
func CalleeID(c ssa.CallInstruction) string {
	if b, ok := c.Common().Value.(*ssa.Builtin); ok {
		return "builtin." + b.Name()
	}
	id := ObjID(CalleeObj(c))
	if len(funcAlias) > 0 && strings.HasPrefix(strings.TrimPrefix(id, "(*"), ModPath) || len(funcAlias) > 0 && strings.HasPrefix(strings.TrimPrefix(id, "("), ModPath) {
		short := strings.ReplaceAll(strings.ReplaceAll(id, ModPath+"/", ""), ModPath, "")
		if old, ok := funcAlias[short]; ok {
			// rebuild the full id of the old name: same package path, old last component
			if i, j := strings.LastIndex(id, "."), strings.LastIndex(old, "."); i >= 0 && j >= 0 {
				return id[:i] + old[j:]
			}
		}
	}
	return id
}

// IsCallTo reports whether v (a value or instruction) is a call whose callee id has one of the
// given suffix-free ids. ids may use the short module form "portalwire.(*PortalProtocol).Get".
func IsCallTo(v any, ids ...string) bool {
	c, ok := v.(ssa.CallInstruction)
	if !ok {
		return false
	}
	id := CalleeID(c)
	if id == "" {
		return false
	}
	for _, want := range ids {
		if id == want || id == ModPath+"/"+want {
			return true
		}
	}
	return false
}

// StaticCalleeFn returns the SSA function statically called, following closures bound by
// MakeClosure.
func StaticCalleeFn(c ssa.CallInstruction) *ssa.Function {
	cc := c.Common()
	if cc.IsInvoke() {
		return nil
	}
	switch v := cc.Value.(type) {
	case *ssa.Function:
		return v
	case *ssa.MakeClosure:
		return v.Fn.(*ssa.Function)
	}
	return nil
}

// CallArgs returns receiver+arguments uniformly (receiver first for invoke-mode calls).
func CallArgs(c ssa.CallInstruction) []ssa.Value {
	cc := c.Common()
	if cc.IsInvoke() {
		return append([]ssa.Value{cc.Value}, cc.Args...)
	}
	return cc.Args
}

// Calls iterates over every call instruction (call, go, defer) in fn.
func Calls(fn *ssa.Function, f func(c ssa.CallInstruction)) {
	for _, b := range fn.Blocks {
		for _, in := range b.Instrs {
			if c, ok := in.(ssa.CallInstruction); ok {
				f(c)
			}
		}
	}
}

// CallsTo returns the call instructions in fn whose callee matches one of ids.
func CallsTo(fn *ssa.Function, ids ...string) []ssa.CallInstruction {
	var out []ssa.CallInstruction
	Calls(fn, func(c ssa.CallInstruction) {
		if IsCallTo(c, ids...) {
			out = append(out, c)
		}
	})
	return out
}

// WithAnon returns fn and all closures nested in it.
func WithAnon(fn *ssa.Function) []*ssa.Function {
	out := []*ssa.Function{fn}
	for _, a := range fn.AnonFuncs {
		out = append(out, WithAnon(a)...)
	}
	return out
}

// ---------- constants ----------

// capturedCell: the enclosing function's cell behind a free variable of a closure (nil if v is
// not a free variable or the binding is not a local cell).
func capturedCell(v ssa.Value) *ssa.Alloc {
	fv, ok := v.(*ssa.FreeVar)
	if !ok || fv.Parent() == nil || fv.Parent().Parent() == nil {
		return nil
	}
	cl := fv.Parent()
	idx := -1
	for i, x := range cl.FreeVars {
		if x == fv {
			idx = i
		}
	}
	if idx < 0 {
		return nil
	}
	var cell *ssa.Alloc
	for _, b := range cl.Parent().Blocks {
		for _, in := range b.Instrs {
			mc, ok := in.(*ssa.MakeClosure)
			if !ok || mc.Fn != ssa.Value(cl) || idx >= len(mc.Bindings) {
				continue
			}
			al, ok := mc.Bindings[idx].(*ssa.Alloc)
			if !ok || (cell != nil && cell != al) {
				return nil
			}
			cell = al
		}
	}
	return cell
}

func ConstInt(v ssa.Value) (int64, bool) {
	switch c := v.(type) {
	case *ssa.Const:
		if c.Value == nil {
			return 0, false
		}
		if c.Value.Kind() == constant.Int {
			if i, ok := constant.Int64Val(c.Value); ok {
				return i, true
			}
			if u, ok := constant.Uint64Val(c.Value); ok {
				return int64(u), true
			}
		}
		if c.Value.Kind() == constant.Float {
			f, _ := constant.Float64Val(c.Value)
			if f == float64(int64(f)) {
				return int64(f), true
			}
		}
	case *ssa.Convert:
		return ConstInt(c.X)
	case *ssa.ChangeType:
		return ConstInt(c.X)
	case *ssa.UnOp:
		// a captured local that holds one constant for its whole life (a limit that was a literal
		// and became a local of the enclosing function, e.g. when a helper taking it as a
		// parameter is written out in its caller): the cell has exactly one store, of a constant
		if c.Op == token.MUL {
			if cell := capturedCell(c.X); cell != nil && cell.Referrers() != nil {
				var only ssa.Value
				n := 0
				for _, rf := range *cell.Referrers() {
					if st, ok := rf.(*ssa.Store); ok && st.Addr == ssa.Value(cell) {
						n++
						only = st.Val
					}
				}
				if n == 1 {
					if _, isC := only.(*ssa.Const); isC {
						return ConstInt(only)
					}
				}
			}
		}
	case *ssa.BinOp:
		// go/ssa folds constant expressions but not operations on locals that hold constants
		x, okx := ConstInt(c.X)
		y, oky := ConstInt(c.Y)
		if okx && oky {
			switch c.Op {
			case token.ADD:
				return x + y, true
			case token.SUB:
				return x - y, true
			case token.MUL:
				return x * y, true
			case token.QUO:
				if y != 0 {
					return x / y, true
				}
			}
		}
	}
	return 0, false
}

func ConstFloat(v ssa.Value) (float64, bool) {
	if c, ok := v.(*ssa.Const); ok && c.Value != nil {
		if c.Value.Kind() == constant.Float || c.Value.Kind() == constant.Int {
			f, _ := constant.Float64Val(constant.ToFloat(c.Value))
			return f, true
		}
	}
	if c, ok := v.(*ssa.Convert); ok {
		return ConstFloat(c.X)
	}
	return 0, false
}

func IsNilConst(v ssa.Value) bool {
	c, ok := v.(*ssa.Const)
	return ok && c.Value == nil
}

func ConstBool(v ssa.Value) (bool, bool) {
	if c, ok := v.(*ssa.Const); ok && c.Value != nil && c.Value.Kind() == constant.Bool {
		return constant.BoolVal(c.Value), true
	}
	return false, false
}

// ---------- facts carried by branch edges ----------

// Fact is an atomic condition known to hold on a control-flow edge: either a comparison
// X Op Y (Op normalised so that the fact is stated positively) or a boolean value V being
// Truth (calls returning bool, loads of bool fields, comma-ok results ...).
type Fact struct {
	Op    token.Token // comparison operator, or ILLEGAL for a plain boolean value
	X, Y  ssa.Value
	V     ssa.Value
	Truth bool
}

func (f Fact) String() string {
	if f.Op != token.ILLEGAL {
		return fmt.Sprintf("%s %s %s", valStr(f.X), f.Op, valStr(f.Y))
	}
	if f.Truth {
		return valStr(f.V)
	}
	return "!" + valStr(f.V)
}

func valStr(v ssa.Value) string {
	if v == nil {
		return "<nil>"
	}
	switch x := v.(type) {
	case *ssa.Const:
		return x.String()
	case *ssa.Call:
		return "call " + CalleeID(x) + "()"
	case *ssa.Extract:
		return fmt.Sprintf("%s#%d", valStr(x.Tuple), x.Index)
	case *ssa.Parameter:
		return "param " + x.Name()
	case *ssa.FieldAddr:
		return valStr(x.X) + "." + fieldName(x.X.Type(), x.Field)
	case *ssa.Field:
		return valStr(x.X) + "." + fieldName(x.X.Type(), x.Field)
	case *ssa.UnOp:
		return x.Op.String() + valStr(x.X)
	}
	return v.Name() + ":" + strings.TrimPrefix(fmt.Sprintf("%T", v), "*ssa.")
}

// rawFieldName: the declared name, aliases not applied.
func rawFieldName(t types.Type, i int) string {
	if p, ok := t.Underlying().(*types.Pointer); ok {
		t = p.Elem()
	}
	if s, ok := t.Underlying().(*types.Struct); ok && i < s.NumFields() {
		return s.Field(i).Name()
	}
	return fmt.Sprintf("f%d", i)
}

func fieldName(t types.Type, i int) string {
	if p, ok := t.Underlying().(*types.Pointer); ok {
		t = p.Elem()
	}
	if s, ok := t.Underlying().(*types.Struct); ok && i < s.NumFields() {
		name := s.Field(i).Name()
		if len(fieldAlias) > 0 {
			if nt, ok := t.(*types.Named); ok && nt.Obj().Pkg() != nil {
				if old, ok := fieldAlias[nt.Obj().Pkg().Path()+"."+nt.Obj().Name()+"."+name]; ok {
					return old
				}
			}
		}
		return name
	}
	return fmt.Sprintf("f%d", i)
}

var negOp = map[token.Token]token.Token{
	token.EQL: token.NEQ, token.NEQ: token.EQL,
	token.LSS: token.GEQ, token.GEQ: token.LSS,
	token.GTR: token.LEQ, token.LEQ: token.GTR,
}

var swapOp = map[token.Token]token.Token{
	token.EQL: token.EQL, token.NEQ: token.NEQ,
	token.LSS: token.GTR, token.GTR: token.LSS,
	token.LEQ: token.GEQ, token.GEQ: token.LEQ,
}

// Facts decomposes "cond has value truth" into atomic facts. Handles !, comparisons, and the
// phi-of-constants shapes go/ssa produces for `x := a && b` / `a || b` / flag variables.
func Facts(cond ssa.Value, truth bool) []Fact {
	return factsDepth(cond, truth, 0)
}

func factsDepth(cond ssa.Value, truth bool, depth int) []Fact {
	if depth > 8 {
		return nil
	}
	switch c := cond.(type) {
	case *ssa.UnOp:
		if c.Op == token.NOT {
			return factsDepth(c.X, !truth, depth+1)
		}
	case *ssa.BinOp:
		if _, ok := negOp[c.Op]; ok {
			op := c.Op
			if !truth {
				op = negOp[op]
			}
			out := []Fact{{Op: op, X: c.X, Y: c.Y}}
			// an enum-like local (a phi of integer constants) compared with a constant: the
			// comparison holds only for some of the incoming edges, and what all of those edges
			// have established holds as well (`kind := A; switch { case p: kind = B ... }; if kind == A`)
			for _, pr := range [][2]ssa.Value{{c.X, c.Y}, {c.Y, c.X}} {
				ph, isPhi := pr[0].(*ssa.Phi)
				k, isK := ConstInt(pr[1])
				if !isPhi || !isK || len(ph.Edges) < 2 {
					continue
				}
				o := op
				if pr[0] != c.X {
					o = swapOp[op]
				}
				nConst := 0
				var result []Fact
				first := true
				for i, e := range ph.Edges {
					if ek, isC := ConstInt(e); isC {
						nConst++
						if !cmpHolds(o, ek, k) {
							continue
						}
					}
					fs := upFacts(ph.Block().Preds[i], ph.Block(), depth+1)
					if first {
						result, first = fs, false
					} else {
						result = intersectFacts(result, fs)
					}
				}
				if nConst >= 2 {
					out = append(out, result...)
				}
			}
			return out
		}
	case *ssa.Phi:
		// edges that could produce `truth`
		type inc struct {
			pred *ssa.BasicBlock
			v    ssa.Value
		}
		var live []inc
		for i, e := range c.Edges {
			if b, ok := ConstBool(e); ok && b != truth {
				continue
			}
			live = append(live, inc{c.Block().Preds[i], e})
		}
		if len(live) == 0 {
			return nil
		}
		var result []Fact
		for i, l := range live {
			var fs []Fact
			if _, ok := ConstBool(l.v); !ok {
				fs = append(fs, factsDepth(l.v, truth, depth+1)...)
			}
			fs = append(fs, upFacts(l.pred, c.Block(), depth+1)...)
			if i == 0 {
				result = fs
			} else {
				result = intersectFacts(result, fs)
			}
		}
		// the phi itself as a boolean fact too
		result = append(result, Fact{V: cond, Truth: truth})
		return result
	}
	return []Fact{{V: cond, Truth: truth}}
}

func cmpHolds(op token.Token, a, b int64) bool {
	switch op {
	case token.EQL:
		return a == b
	case token.NEQ:
		return a != b
	case token.LSS:
		return a < b
	case token.LEQ:
		return a <= b
	case token.GTR:
		return a > b
	case token.GEQ:
		return a >= b
	}
	return true
}

// upFacts collects the branch facts on the unique-predecessor chain leading to block p,
// stopping at the immediate dominator of `join`.
func upFacts(p, join *ssa.BasicBlock, depth int) []Fact {
	stop := join.Idom()
	var out []Fact
	cur := p
	// the edge p->join itself
	if f := edgeFacts(p, join, depth); f != nil {
		out = append(out, f...)
	}
	for steps := 0; cur != nil && cur != stop && steps < 16; steps++ {
		if len(cur.Preds) != 1 {
			break
		}
		pr := cur.Preds[0]
		out = append(out, edgeFacts(pr, cur, depth)...)
		cur = pr
	}
	return out
}

func edgeFacts(from, to *ssa.BasicBlock, depth int) []Fact {
	if len(from.Instrs) == 0 {
		return nil
	}
	ifi, ok := from.Instrs[len(from.Instrs)-1].(*ssa.If)
	if !ok || len(from.Succs) != 2 || from.Succs[0] == from.Succs[1] {
		return nil
	}
	if from.Succs[0] == to {
		return factsDepth(ifi.Cond, true, depth)
	}
	if from.Succs[1] == to {
		return factsDepth(ifi.Cond, false, depth)
	}
	return nil
}

func sameFact(a, b Fact) bool {
	return a.Op == b.Op && a.X == b.X && a.Y == b.Y && a.V == b.V && a.Truth == b.Truth
}

func intersectFacts(a, b []Fact) []Fact {
	var out []Fact
	for _, x := range a {
		for _, y := range b {
			if sameFact(x, y) {
				out = append(out, x)
				break
			}
		}
	}
	return out
}

// EdgeFacts returns the facts established by taking successor idx of block b.
func EdgeFacts(b *ssa.BasicBlock, idx int) []Fact {
	if len(b.Instrs) == 0 || len(b.Succs) != 2 {
		return nil
	}
	ifi, ok := b.Instrs[len(b.Instrs)-1].(*ssa.If)
	if !ok || b.Succs[0] == b.Succs[1] {
		return nil
	}
	if n := len(curSuffix); n > 0 && curSuffix[n-1] == b {
		// inside a path search: resolve phis along the path that led here
		if fs, feasible := FactsOnPath(ifi.Cond, idx == 0, curSuffix); feasible {
			// several tests of one enum-like local along the path can pin down the edge it came from
			if extra := EnumRefine(append(append([]Fact{}, fs...), PathFacts(curSuffix)...)); len(extra) > 0 {
				fs = append(fs, extra...)
			}
			return fs
		}
	}
	return Facts(ifi.Cond, idx == 0)
}

// curSuffix is the last blocks of the path the cut engine is extending while it asks a Cut
// predicate about an edge (the predicates call EdgeFacts); nil outside a search.
var curSuffix []*ssa.BasicBlock

const cutK = 6

// ---------- the cut engine ----------

// CutSpec describes a must-pass-through obligation in one function.
type CutSpec struct {
	Fn *ssa.Function
	// From is the block the search starts at (nil = entry). Starting at a loop header
	// expresses "within one iteration".
	From *ssa.BasicBlock
	// Cut reports whether taking successor idx of block b establishes the required gate
	// (or a declared bypass); such edges are removed.
	Cut func(b *ssa.BasicBlock, idx int) bool
	// Target reports whether arriving in block b from prev (nil at the start) reaches what
	// must be protected.
	Target func(prev, b *ssa.BasicBlock) bool
	// NoEnter, if set, marks blocks that are not traversed (e.g. blocks after a target).
	NoEnter func(b *ssa.BasicBlock) bool
}

// CutReach returns a witness path (blocks) from the start to a target that avoids every cut
// edge, or nil if every path is cut - i.e. the gate is passed on all paths.
func CutReach(s CutSpec) []*ssa.BasicBlock {
	if len(s.Fn.Blocks) == 0 {
		return nil
	}
	start := s.From
	if start == nil {
		start = s.Fn.Blocks[0]
	}
	type node struct {
		b    *ssa.BasicBlock
		prev *node
	}
	suffix := func(n *node) []*ssa.BasicBlock {
		var out []*ssa.BasicBlock
		for x := n; x != nil && len(out) < cutK; x = x.prev {
			out = append([]*ssa.BasicBlock{x.b}, out...)
		}
		return out
	}
	type stateKey [cutK + 1]int
	key := func(sfx []*ssa.BasicBlock, next *ssa.BasicBlock) stateKey {
		var k stateKey
		for i := range k {
			k[i] = -1
		}
		all := append(append([]*ssa.BasicBlock{}, sfx...), next)
		if len(all) > cutK+1 {
			all = all[len(all)-cutK-1:]
		}
		for i, b := range all {
			k[i] = b.Index
		}
		return k
	}
	// state = the last blocks of the path: a Cut predicate may hold on an edge only for some of
	// the ways the edge is reached (phis), and Target may depend on the incoming edge
	seen := map[stateKey]bool{}
	queue := []*node{{b: start}}
	if s.Target(nil, start) {
		return []*ssa.BasicBlock{start}
	}
	saved := curSuffix
	defer func() { curSuffix = saved }()
	for len(queue) > 0 {
		n := queue[0]
		queue = queue[1:]
		sfx := suffix(n)
		var ifi *ssa.If
		if len(n.b.Instrs) > 0 && len(n.b.Succs) == 2 && n.b.Succs[0] != n.b.Succs[1] {
			ifi, _ = n.b.Instrs[len(n.b.Instrs)-1].(*ssa.If)
		}
		for i, succ := range n.b.Succs {
			if ifi != nil {
				// an edge the path itself rules out (a phi condition that took the other constant,
				// or a comparison the path has already decided the other way)
				fs, feasible := FactsOnPath(ifi.Cond, i == 0, sfx)
				if !feasible || contradictsPath(fs, sfx) {
					continue
				}
			}
			curSuffix = sfx
			cut := s.Cut != nil && s.Cut(n.b, i)
			curSuffix = saved
			if cut {
				continue
			}
			k := key(sfx, succ)
			if seen[k] {
				continue
			}
			seen[k] = true
			nn := &node{b: succ, prev: n}
			curSuffix = append(append([]*ssa.BasicBlock{}, sfx...), succ)
			hit := s.Target(n.b, succ)
			curSuffix = saved
			if hit {
				var path []*ssa.BasicBlock
				for x := nn; x != nil; x = x.prev {
					path = append([]*ssa.BasicBlock{x.b}, path...)
				}
				return path
			}
			if s.NoEnter != nil && s.NoEnter(succ) {
				continue
			}
			queue = append(queue, nn)
		}
	}
	return nil
}

// contradictsPath: one of the facts fs is the negation of a fact established by an earlier
// edge of the (acyclic) path suffix. SSA values are immutable, so on a path that visits no
// block twice a comparison of the same two values cannot come out both ways.
func contradictsPath(fs []Fact, sfx []*ssa.BasicBlock) bool {
	seen := map[*ssa.BasicBlock]bool{}
	for _, b := range sfx {
		if seen[b] {
			return false
		}
		seen[b] = true
	}
	for j := 0; j+1 < len(sfx); j++ {
		b, nb := sfx[j], sfx[j+1]
		if len(b.Succs) != 2 || b.Succs[0] == b.Succs[1] || len(b.Instrs) == 0 {
			continue
		}
		ifi, ok := b.Instrs[len(b.Instrs)-1].(*ssa.If)
		if !ok {
			continue
		}
		idx := 0
		if b.Succs[1] == nb {
			idx = 1
		}
		efs, feasible := FactsOnPath(ifi.Cond, idx == 0, sfx[:j+1])
		if !feasible {
			continue
		}
		for _, e := range efs {
			for _, f := range fs {
				if factsContradict(e, f) {
					return true
				}
			}
		}
	}
	return false
}

func factsContradict(a, b Fact) bool {
	if a.Op == token.ILLEGAL || b.Op == token.ILLEGAL {
		return a.Op == token.ILLEGAL && b.Op == token.ILLEGAL && a.V != nil && a.V == b.V && a.Truth != b.Truth
	}
	same := (a.X == b.X && a.Y == b.Y) || (a.X == b.Y && a.Y == b.X && (a.Op == token.EQL || a.Op == token.NEQ))
	if !same {
		// nil constants are distinct SSA values: compare them by nil-ness
		if !(sameOrBothNil(a.X, b.X) && sameOrBothNil(a.Y, b.Y)) {
			return false
		}
	}
	return (a.Op == token.EQL && b.Op == token.NEQ) || (a.Op == token.NEQ && b.Op == token.EQL)
}

func sameOrBothNil(x, y ssa.Value) bool {
	if x == y {
		return true
	}
	return IsNilConst(x) && IsNilConst(y)
}

// PathString renders a witness path with source lines.
func (p *Prog) PathString(path []*ssa.BasicBlock) string {
	var parts []string
	last := ""
	for _, b := range path {
		pos := token.NoPos
		for _, in := range b.Instrs {
			if in.Pos().IsValid() {
				pos = in.Pos()
				break
			}
		}
		s := fmt.Sprintf("b%d", b.Index)
		if pos.IsValid() {
			ps := p.Fset.Position(pos)
			s = fmt.Sprintf("b%d@L%d", b.Index, ps.Line)
		}
		if s != last {
			parts = append(parts, s)
		}
		last = s
	}
	return strings.Join(parts, "→")
}

// BlockOf returns the block of a value's defining instruction (nil for params/consts).
func BlockOf(v ssa.Value) *ssa.BasicBlock {
	if in, ok := v.(ssa.Instruction); ok {
		return in.Block()
	}
	return nil
}

// ErrNilEdges: for a call instruction whose callee returns an error as result #errIdx (or as the
// only result when errIdx < 0), FactIsErrNil reports whether fact states "that error == nil".
func FactIsErrNil(f Fact, isErrOf func(v ssa.Value) bool) bool {
	if f.Op != token.EQL {
		return false
	}
	if IsNilConst(f.Y) && (isErrOf(f.X) || isErrOf(ResolveSpill(f.X))) {
		return true
	}
	if IsNilConst(f.X) && (isErrOf(f.Y) || isErrOf(ResolveSpill(f.Y))) {
		return true
	}
	return false
}

// ResultOf reports whether v is result #idx of call (idx < 0: the call's only result),
// looking through phis whose other incoming values are nil constants is NOT done here.
func ResultOf(v ssa.Value, call ssa.Value, idx int) bool {
	return resultOfSeen(v, call, idx, map[*ssa.Phi]bool{})
}

// resultOfSeen: phis of a loop refer to each other; a phi met again on the way contributes
// nothing new (it neither is the result nor disproves it).
func resultOfSeen(v ssa.Value, call ssa.Value, idx int, seen map[*ssa.Phi]bool) bool {
	if v == call && idx <= 0 {
		if t, ok := call.Type().(*types.Tuple); ok && t.Len() > 1 {
			return false
		}
		return true
	}
	if e, ok := v.(*ssa.Extract); ok && e.Tuple == call && (idx < 0 || e.Index == idx) {
		return true
	}
	// a merge of that result with zero values only (the shape an inlined helper's early error
	// returns leave: `return nil, nil, err` next to `return f(...)`)
	if ph, ok := v.(*ssa.Phi); ok {
		if seen[ph] {
			return false
		}
		seen[ph] = true
		hit := false
		for _, e := range ph.Edges {
			switch {
			case e == ssa.Value(ph):
			case isZeroConst(e):
			case resultOfNoPhi(e, call, idx):
				hit = true
			default:
				if p2, ok := e.(*ssa.Phi); ok && p2 != ph {
					if seen[p2] {
						continue // part of the same cycle: decided by the other edges
					}
					if resultOfSeen(p2, call, idx, seen) {
						hit = true
						continue
					}
				}
				return false
			}
		}
		return hit
	}
	return false
}

func resultOfNoPhi(v ssa.Value, call ssa.Value, idx int) bool {
	if _, ok := v.(*ssa.Phi); ok {
		return false
	}
	return ResultOf(v, call, idx)
}

func isZeroConst(v ssa.Value) bool {
	c, ok := v.(*ssa.Const)
	if !ok {
		return false
	}
	if c.Value == nil {
		return true
	}
	if k, isC := ConstInt(c); isC && k == 0 {
		return true
	}
	if b, isB := ConstBool(c); isB && !b {
		return true
	}
	return false
}

// ErrResultIndex returns the index of the last result of type error in the signature, or -1.
func ErrResultIndex(sig *types.Signature) int {
	r := sig.Results()
	for i := r.Len() - 1; i >= 0; i-- {
		if types.Identical(r.At(i).Type(), types.Universe.Lookup("error").Type()) {
			return i
		}
	}
	return -1
}

// ErrValueOfCall returns the SSA value(s) holding the error result of call c.
func ErrValuesOfCall(c *ssa.Call) []ssa.Value {
	sig := c.Call.Signature()
	idx := ErrResultIndex(sig)
	if idx < 0 {
		return nil
	}
	if sig.Results().Len() == 1 {
		return []ssa.Value{c}
	}
	var out []ssa.Value
	if refs := c.Referrers(); refs != nil {
		for _, r := range *refs {
			if e, ok := r.(*ssa.Extract); ok && e.Index == idx {
				out = append(out, e)
			}
		}
	}
	return out
}

// storedJustBefore: ld reads an address that the same block stored to earlier, with no call,
// send or other store through a pointer in between; returns the stored value.
func storedJustBefore(ld *ssa.UnOp) ssa.Value {
	var last ssa.Value
	for _, in := range ld.Block().Instrs {
		if in == ssa.Instruction(ld) {
			return last
		}
		switch x := in.(type) {
		case *ssa.Store:
			if x.Addr == ld.X {
				last = x.Val
			}
		case ssa.CallInstruction:
			if _, isDefer := in.(*ssa.Defer); !isDefer {
				last = nil
			}
		case *ssa.Send, *ssa.Select:
			last = nil
		}
	}
	return nil
}

// FlowsFrom reports whether v is, possibly through phis / type changes / interface boxing, one
// of the values in set (used for "this err variable carries the result of that call").
func FlowsFrom(v ssa.Value, set map[ssa.Value]bool) bool {
	seen := map[ssa.Value]bool{}
	var rec func(v ssa.Value) bool
	rec = func(v ssa.Value) bool {
		if v == nil || seen[v] {
			return false
		}
		seen[v] = true
		if set[v] {
			return true
		}
		switch x := v.(type) {
		case *ssa.Phi:
			for _, e := range x.Edges {
				if rec(e) {
					return true
				}
			}
		case *ssa.ChangeType:
			return rec(x.X)
		case *ssa.ChangeInterface:
			return rec(x.X)
		case *ssa.MakeInterface:
			return rec(x.X)
		case *ssa.UnOp:
			if x.Op == token.MUL {
				// load from a local cell: look at stores
				if a, ok := x.X.(*ssa.Alloc); ok {
					for _, st := range storesTo(a) {
						if rec(st.Val) {
							return true
						}
					}
				} else if _, isFv := x.X.(*ssa.FreeVar); isFv {
					// a captured variable written and read back in the same block with no call
					// in between (`v, err = f(); if err != nil` where err belongs to the enclosing function)
					if sv := storedJustBefore(x); sv != nil && rec(sv) {
						return true
					}
				}
			}
		}
		return false
	}
	return rec(v)
}

func storesTo(a ssa.Value) []*ssa.Store {
	var out []*ssa.Store
	if refs := a.Referrers(); refs != nil {
		for _, r := range *refs {
			if st, ok := r.(*ssa.Store); ok && st.Addr == a {
				out = append(out, st)
			}
		}
	}
	return out
}

// ---------- provenance ----------

// DeriveOpts tunes the backward slice.
type DeriveOpts struct {
	ThroughCalls bool // follow arguments and receivers of calls (value computed from ...)
	MaxDepth     int
}

// Derives reports whether v is computed from some value satisfying pred, following
// conversions, slicing, field/index selection, loads (with local stores), tuple extraction,
// phis and - optionally - calls.
func Derives(v ssa.Value, pred func(ssa.Value) bool, o DeriveOpts) bool {
	if o.MaxDepth == 0 {
		o.MaxDepth = 24
	}
	seen := map[ssa.Value]bool{}
	var rec func(v ssa.Value, d int) bool
	rec = func(v ssa.Value, d int) bool {
		if v == nil || seen[v] || d > o.MaxDepth {
			return false
		}
		seen[v] = true
		if pred(v) {
			return true
		}
		switch x := v.(type) {
		case *ssa.ChangeType:
			return rec(x.X, d+1)
		case *ssa.Convert:
			return rec(x.X, d+1)
		case *ssa.ChangeInterface:
			return rec(x.X, d+1)
		case *ssa.MakeInterface:
			return rec(x.X, d+1)
		case *ssa.SliceToArrayPointer:
			return rec(x.X, d+1)
		case *ssa.Slice:
			return rec(x.X, d+1)
		case *ssa.Field:
			return rec(x.X, d+1)
		case *ssa.FieldAddr:
			return rec(x.X, d+1)
		case *ssa.Index:
			return rec(x.X, d+1)
		case *ssa.IndexAddr:
			return rec(x.X, d+1)
		case *ssa.Lookup:
			return rec(x.X, d+1)
		case *ssa.TypeAssert:
			return rec(x.X, d+1)
		case *ssa.Extract:
			return rec(x.Tuple, d+1)
		case *ssa.BinOp:
			return rec(x.X, d+1) || rec(x.Y, d+1)
		case *ssa.Phi:
			for _, e := range x.Edges {
				if rec(e, d+1) {
					return true
				}
			}
		case *ssa.UnOp:
			if x.Op == token.MUL {
				if rec(x.X, d+1) {
					return true
				}
				return false
			}
			return rec(x.X, d+1)
		case *ssa.Alloc:
			// a local cell: what was stored into it, and what calls filled it by address
			if refs := x.Referrers(); refs != nil {
				for _, r := range *refs {
					switch r := r.(type) {
					case *ssa.Store:
						if r.Addr == x && rec(r.Val, d+1) {
							return true
						}
					case ssa.CallInstruction:
						if o.ThroughCalls {
							for _, a := range CallArgs(r) {
								if a != x && rec(a, d+1) {
									return true
								}
							}
						}
					case *ssa.Slice:
						// the local array handed as a slice to a call that fills it (subtle.XORBytes(dst[:], a, b),
						// copy(dst[:], src), ...)
						if o.ThroughCalls && r.X == ssa.Value(x) {
							if rr := r.Referrers(); rr != nil {
								for _, r2 := range *rr {
									if ci, ok := r2.(ssa.CallInstruction); ok {
										for _, a := range CallArgs(ci) {
											if a != ssa.Value(r) && rec(a, d+1) {
												return true
											}
										}
									}
								}
							}
						}
					case *ssa.FieldAddr, *ssa.IndexAddr:
						// stores through a sub-address
						if rr := r.(ssa.Value).Referrers(); rr != nil {
							for _, r2 := range *rr {
								if st, ok := r2.(*ssa.Store); ok && st.Addr == r.(ssa.Value) && rec(st.Val, d+1) {
									return true
								}
							}
						}
					}
				}
			}
		case *ssa.Call:
			if o.ThroughCalls {
				for _, a := range CallArgs(x) {
					if rec(a, d+1) {
						return true
					}
				}
			}
		case *ssa.MakeSlice, *ssa.MakeMap:
		}
		return false
	}
	return rec(v, 0)
}

// IsParam returns a predicate matching the named parameter of fn (or free variable bound to it).
func IsParam(fn *ssa.Function, name string) func(ssa.Value) bool {
	return func(v ssa.Value) bool {
		if p, ok := v.(*ssa.Parameter); ok && p.Parent() == fn && p.Name() == name {
			return true
		}
		return false
	}
}

// ParamIndex returns the i'th parameter of fn, counting the receiver as index 0 for methods.
func Param(fn *ssa.Function, name string) *ssa.Parameter {
	for _, p := range fn.Params {
		if p.Name() == name {
			return p
		}
	}
	return nil
}

// IsCallResult returns a predicate matching values that are (results of) calls to ids.
func IsCallResult(ids ...string) func(ssa.Value) bool {
	return func(v ssa.Value) bool {
		if c, ok := v.(*ssa.Call); ok {
			return IsCallTo(c, ids...)
		}
		return false
	}
}

// IsFieldLoad matches a load/selection of field `field` of struct type named typeName.
func IsFieldOf(typeName, field string) func(ssa.Value) bool {
	return func(v ssa.Value) bool {
		var xt types.Type
		var idx int
		switch x := v.(type) {
		case *ssa.FieldAddr:
			xt, idx = x.X.Type(), x.Field
		case *ssa.Field:
			xt, idx = x.X.Type(), x.Field
		default:
			return false
		}
		return namedStructField(xt, typeName, field, idx)
	}
}

func namedStructField(t types.Type, typeName, field string, idx int) bool {
	if p, ok := t.Underlying().(*types.Pointer); ok {
		t = p.Elem()
	}
	n := TypeName(t)
	if typeName != "" && n != typeName {
		return false
	}
	s, ok := t.Underlying().(*types.Struct)
	if !ok || idx >= s.NumFields() {
		return false
	}
	return s.Field(idx).Name() == field
}

// TypeName returns the unqualified name of a named (or pointer-to-named) type, "" otherwise.
func TypeName(t types.Type) string {
	if p, ok := t.(*types.Pointer); ok {
		t = p.Elem()
	}
	switch n := t.(type) {
	case *types.Named:
		return n.Obj().Name()
	case *types.Alias:
		return n.Obj().Name()
	}
	return ""
}

// QualTypeName returns pkgpath.Name for named types.
func QualTypeName(t types.Type) string {
	if p, ok := t.(*types.Pointer); ok {
		t = p.Elem()
	}
	if n, ok := t.(*types.Named); ok {
		if n.Obj().Pkg() != nil {
			return n.Obj().Pkg().Path() + "." + n.Obj().Name()
		}
		return n.Obj().Name()
	}
	return ""
}

// FieldAddrOf finds the struct type name and field name of an address/selection value.
func FieldRef(v ssa.Value) (typ, field string, base ssa.Value, ok bool) {
	switch x := v.(type) {
	case *ssa.FieldAddr:
		t := x.X.Type()
		if p, ok2 := t.Underlying().(*types.Pointer); ok2 {
			t = p.Elem()
		}
		// a field that was moved into a sub-struct held by value: owner.sub.field is the
		// audited tree's owner.oldField
		if inner, isF := x.X.(*ssa.FieldAddr); isF && len(nestedFieldAlias) > 0 {
			if old, ok3 := NestedFieldAlias(inner.X.Type(), rawFieldName(inner.X.Type(), inner.Field), rawFieldName(x.X.Type(), x.Field)); ok3 {
				ot := inner.X.Type()
				if p, ok4 := ot.Underlying().(*types.Pointer); ok4 {
					ot = p.Elem()
				}
				return TypeName(ot), old, inner.X, true
			}
		}
		return TypeName(t), fieldName(x.X.Type(), x.Field), x.X, true
	case *ssa.Field:
		return TypeName(x.X.Type()), fieldName(x.X.Type(), x.Field), x.X, true
	}
	return "", "", nil, false
}

// LoadedField: if v is `*(&x.f)` or `x.f`, return type and field names.
func LoadedField(v ssa.Value) (typ, field string, ok bool) {
	if u, ok2 := v.(*ssa.UnOp); ok2 && u.Op == token.MUL {
		t, f, _, ok3 := FieldRef(u.X)
		return t, f, ok3
	}
	t, f, _, ok3 := FieldRef(v)
	return t, f, ok3
}

// Returns lists the return instructions of fn.
func Returns(fn *ssa.Function) []*ssa.Return {
	var out []*ssa.Return
	for _, b := range fn.Blocks {
		if len(b.Instrs) == 0 || b == fn.Recover {
			// the recover block only runs after a recovered panic; it re-loads the result cells
			continue
		}
		if r, ok := b.Instrs[len(b.Instrs)-1].(*ssa.Return); ok {
			out = append(out, r)
		}
	}
	return out
}

// Unwrap strips conversions / interface boxing.
func Unwrap(v ssa.Value) ssa.Value {
	for {
		switch x := v.(type) {
		case *ssa.ChangeType:
			v = x.X
		case *ssa.Convert:
			v = x.X
		case *ssa.MakeInterface:
			v = x.X
		case *ssa.ChangeInterface:
			v = x.X
		default:
			return v
		}
	}
}

// SameExpr is structural equality of SSA expressions (go/ssa performs no CSE, so two source
// occurrences of `a+int(b)` are distinct instructions).
func SameExpr(a, b ssa.Value) bool {
	return sameExpr(a, b, 0)
}

func sameExpr(a, b ssa.Value, d int) bool {
	if a == b {
		return true
	}
	if a == nil || b == nil || d > 12 {
		return false
	}
	switch x := a.(type) {
	case *ssa.Const:
		y, ok := b.(*ssa.Const)
		if !ok {
			return false
		}
		if x.Value == nil || y.Value == nil {
			return x.Value == nil && y.Value == nil && types.Identical(x.Type(), y.Type())
		}
		return constant.Compare(x.Value, token.EQL, y.Value)
	case *ssa.BinOp:
		y, ok := b.(*ssa.BinOp)
		if !ok || x.Op != y.Op {
			return false
		}
		if sameExpr(x.X, y.X, d+1) && sameExpr(x.Y, y.Y, d+1) {
			return true
		}
		if x.Op == token.ADD || x.Op == token.MUL {
			return sameExpr(x.X, y.Y, d+1) && sameExpr(x.Y, y.X, d+1)
		}
		return false
	case *ssa.Convert:
		y, ok := b.(*ssa.Convert)
		return ok && types.Identical(x.Type(), y.Type()) && sameExpr(x.X, y.X, d+1)
	case *ssa.ChangeType:
		y, ok := b.(*ssa.ChangeType)
		return ok && sameExpr(x.X, y.X, d+1)
	case *ssa.UnOp:
		y, ok := b.(*ssa.UnOp)
		if !ok || x.Op != y.Op {
			return false
		}
		if x.Op == token.MUL {
			return false // two loads are not known equal
		}
		return sameExpr(x.X, y.X, d+1)
	case *ssa.Call:
		y, ok := b.(*ssa.Call)
		if !ok {
			return false
		}
		bx, ok1 := x.Call.Value.(*ssa.Builtin)
		by, ok2 := y.Call.Value.(*ssa.Builtin)
		if ok1 && ok2 && bx.Name() == by.Name() && (bx.Name() == "len" || bx.Name() == "cap") {
			return sameExpr(x.Call.Args[0], y.Call.Args[0], d+1)
		}
		return false
	case *ssa.Extract:
		y, ok := b.(*ssa.Extract)
		return ok && x.Index == y.Index && x.Tuple == y.Tuple
	}
	return false
}

// CallersOf returns module functions containing a call (call/go/defer) to a function
// matching one of ids, with the call sites.
func (p *Prog) CallersOf(ids ...string) map[*ssa.Function][]ssa.CallInstruction {
	out := map[*ssa.Function][]ssa.CallInstruction{}
	for _, fn := range p.ModuleFuncs() {
		if cs := CallsTo(fn, ids...); len(cs) > 0 {
			out[fn] = cs
		}
	}
	return out
}

// CallersOfFn returns module functions that statically call target.
func (p *Prog) CallersOfFn(target *ssa.Function) map[*ssa.Function][]ssa.CallInstruction {
	out := map[*ssa.Function][]ssa.CallInstruction{}
	for _, fn := range p.ModuleFuncs() {
		Calls(fn, func(c ssa.CallInstruction) {
			if StaticCalleeFn(c) == target {
				out[fn] = append(out[fn], c)
			}
		})
	}
	return out
}

// SortedFuncs returns map keys in deterministic order.
func SortedFuncs[T any](m map[*ssa.Function]T) []*ssa.Function {
	var out []*ssa.Function
	for f := range m {
		out = append(out, f)
	}
	sort.Slice(out, func(i, j int) bool { return out[i].String() < out[j].String() })
	return out
}

// InLoop reports whether block b lies on a cycle of the CFG.
func InLoop(b *ssa.BasicBlock) bool {
	seen := map[*ssa.BasicBlock]bool{}
	var stack []*ssa.BasicBlock
	stack = append(stack, b.Succs...)
	for len(stack) > 0 {
		x := stack[len(stack)-1]
		stack = stack[:len(stack)-1]
		if x == b {
			return true
		}
		if seen[x] {
			continue
		}
		seen[x] = true
		stack = append(stack, x.Succs...)
	}
	return false
}

// AccessPath gives a canonical name to the memory location / value v denotes, so that the
// repeated loads go/ssa emits for one source variable (no CSE; parameters captured by a closure
// or address-taken live in a cell that is re-loaded at every use) compare equal. Cells with
// more than one store are not canonicalised (the path then names the individual load).
func AccessPath(v ssa.Value) string {
	return accessPath(v, 0)
}

func accessPath(v ssa.Value, d int) string {
	if v == nil || d > 10 {
		return ""
	}
	switch x := v.(type) {
	case *ssa.Parameter:
		return "P:" + x.Name()
	case *ssa.FreeVar:
		// a captured variable is the parent's variable
		if b := freeVarBinding(x); b != nil {
			return accessPath(b, d+1)
		}
		return "FV:" + x.Name()
	case *ssa.Global:
		return "G:" + x.String()
	case *ssa.Const:
		return "C:" + x.String()
	case *ssa.Alloc:
		if s := singleStore(x); s != nil {
			return accessPath(s.Val, d+1)
		}
		return fmt.Sprintf("A:%p", x)
	case *ssa.UnOp:
		if x.Op == token.MUL {
			return accessPath(x.X, d+1)
		}
	case *ssa.FieldAddr:
		b := accessPath(x.X, d+1)
		if b == "" {
			return ""
		}
		return b + "." + fieldName(x.X.Type(), x.Field)
	case *ssa.Field:
		b := accessPath(x.X, d+1)
		if b == "" {
			return ""
		}
		return b + "." + fieldName(x.X.Type(), x.Field)
	case *ssa.ChangeType:
		return accessPath(x.X, d+1)
	case *ssa.MakeInterface:
		return accessPath(x.X, d+1)
	case *ssa.Extract:
		return fmt.Sprintf("%s#%d", accessPath(x.Tuple, d+1), x.Index)
	}
	return fmt.Sprintf("V:%p", v)
}

// singleStore returns the only Store into local cell a (nil if none or several, or if the
// cell's address escapes to anything but closures and loads).
func singleStore(a *ssa.Alloc) *ssa.Store {
	var st *ssa.Store
	refs := a.Referrers()
	if refs == nil {
		return nil
	}
	for _, r := range *refs {
		switch r := r.(type) {
		case *ssa.Store:
			if r.Addr != ssa.Value(a) {
				return nil // the address itself is stored somewhere
			}
			if st != nil {
				return nil
			}
			st = r
		case *ssa.UnOp, *ssa.FieldAddr, *ssa.MakeClosure, *ssa.DebugRef:
		case ssa.CallInstruction:
			// the address is handed to a module function that only reads through it
			f := StaticCalleeFn(r)
			if f == nil || !InModule(f) || f.Blocks == nil {
				return nil
			}
			for i, arg := range r.Common().Args {
				if arg == ssa.Value(a) && (i >= len(f.Params) || !paramReadOnly(f.Params[i])) {
					return nil
				}
			}
		default:
			return nil
		}
	}
	return st
}

// SameValue: identical SSA value or same canonical access path.
func SameValue(a, b ssa.Value) bool {
	if a == b {
		return true
	}
	pa := AccessPath(a)
	return pa != "" && pa == AccessPath(b)
}

// Is returns a predicate matching values that denote the same value/location as target.
func Is(target ssa.Value) func(ssa.Value) bool {
	return func(v ssa.Value) bool { return SameValue(v, target) }
}

// freeVarBinding returns the value the enclosing function binds to free variable fv when it
// creates the closure (nil if the closure is created at several places with different bindings).
func freeVarBinding(fv *ssa.FreeVar) ssa.Value {
	fn := fv.Parent()
	if fn == nil || fn.Parent() == nil {
		return nil
	}
	idx := -1
	for i, f := range fn.FreeVars {
		if f == fv {
			idx = i
		}
	}
	if idx < 0 {
		return nil
	}
	var out ssa.Value
	for _, b := range fn.Parent().Blocks {
		for _, in := range b.Instrs {
			if mc, ok := in.(*ssa.MakeClosure); ok && mc.Fn == ssa.Value(fn) && idx < len(mc.Bindings) {
				if out != nil && out != mc.Bindings[idx] {
					return nil
				}
				out = mc.Bindings[idx]
			}
		}
	}
	return out
}

// paramReadOnly: the pointer parameter is only loaded from (directly or through a field or
// element address); it is not stored, passed on or written through.
func paramReadOnly(pa *ssa.Parameter) bool {
	refs := pa.Referrers()
	if refs == nil {
		return true
	}
	for _, r := range *refs {
		switch x := r.(type) {
		case *ssa.UnOp:
			if x.Op != token.MUL {
				return false
			}
		case *ssa.FieldAddr, *ssa.IndexAddr:
			if rr := x.(ssa.Value).Referrers(); rr != nil {
				for _, r2 := range *rr {
					if u, ok := r2.(*ssa.UnOp); !ok || u.Op != token.MUL {
						return false
					}
				}
			}
		case *ssa.DebugRef:
		default:
			return false
		}
	}
	return true
}

// ConcreteRecv returns the receiver of a method call and the method called, resolving an
// interface call whose receiver was made from a concrete value in the same function
// (`var i I = x; i.M()` is x.M()). fn is nil when the method cannot be resolved.
func ConcreteRecv(c *ssa.Call) (recv ssa.Value, fn *ssa.Function) {
	if !c.Call.IsInvoke() {
		if len(c.Call.Args) == 0 {
			return nil, nil
		}
		return c.Call.Args[0], StaticCalleeFn(c)
	}
	v := c.Call.Value
	for i := 0; i < 3; i++ {
		if ci, ok := v.(*ssa.ChangeInterface); ok {
			v = ci.X
			continue
		}
		break
	}
	mi, ok := v.(*ssa.MakeInterface)
	if !ok {
		return c.Call.Value, nil
	}
	prog := c.Parent().Prog
	m := prog.LookupMethod(mi.X.Type(), c.Call.Method.Pkg(), c.Call.Method.Name())
	if m != nil && m.Synthetic != "" {
		// pointer-receiver wrapper of a value method: the declared method is the one it calls
		for _, b := range m.Blocks {
			for _, in := range b.Instrs {
				if c2, ok := in.(ssa.CallInstruction); ok {
					if f := StaticCalleeFn(c2); f != nil && f.Name() == m.Name() && f.Synthetic == "" {
						return mi.X, f
					}
				}
			}
		}
	}
	return mi.X, m
}
