package core

import (
	"fmt"
	"go/token"
	"go/types"
	"sort"
	"strings"

	"golang.org/x/tools/go/ssa"
)

// Lin is an integer expression in normal form c0 + sum(coef * atom). Atoms are named by a
// classifier supplied by the rule (e.g. "slot%8192", "number/8192"); unclassifiable
// sub-expressions become opaque atoms "?<ptr>".
type Lin struct {
	C0    int64
	Terms map[string]int64
}

func (l Lin) String() string {
	var ks []string
	for k := range l.Terms {
		ks = append(ks, k)
	}
	sort.Strings(ks)
	s := fmt.Sprint(l.C0)
	for _, k := range ks {
		s += fmt.Sprintf(" + %d*%s", l.Terms[k], k)
	}
	return s
}

// Opaque reports whether the form contains an unclassified atom.
func (l Lin) Opaque() bool {
	for k := range l.Terms {
		if strings.HasPrefix(k, "?") {
			return true
		}
	}
	return false
}

// smallBounded: every atom is a remainder by a constant (x%K) with a small non-negative
// coefficient, so the value fits any 32-bit or wider integer type whatever x is; for a 64-bit
// target a quotient by a constant >= 1024 is small enough as well.
func (l Lin) smallBounded(wide bool) bool {
	if l.C0 < 0 || l.C0 > 1<<30 {
		return false
	}
	for k, c := range l.Terms {
		if c < 0 || c > 1<<10 || strings.HasPrefix(k, "?") || strings.HasPrefix(k, "conv<") {
			return false
		}
		i := strings.LastIndex(k, "%")
		if j := strings.LastIndex(k, "/"); j > i && wide {
			// a quotient by a constant >= 1024 of a 64-bit value is below 2^54
			var d int64
			if _, err := fmt.Sscanf(k[j+1:], "%d", &d); err == nil && d >= 1024 && !strings.ContainsAny(k[j+1:], "+-*% ") {
				continue
			}
			return false
		}
		if i < 0 {
			return false
		}
		var m int64
		if _, err := fmt.Sscanf(k[i+1:], "%d", &m); err != nil || m <= 0 || m > 1<<20 || strings.ContainsAny(k[i+1:], "+-*/ ") {
			return false
		}
	}
	return true
}

func (l Lin) Coef(atom string) int64 { return l.Terms[atom] }

// OnlyAtoms reports whether the form's atoms are exactly the given ones.
func (l Lin) OnlyAtoms(atoms ...string) bool {
	if len(l.Terms) != len(atoms) {
		return false
	}
	for _, a := range atoms {
		if _, ok := l.Terms[a]; !ok {
			return false
		}
	}
	return true
}

// LinEval normalises v. src classifies a leaf value into a source name ("slot", "number", ...)
// or "" when unknown. Single-return module helpers are inlined (depth <= 3).
func LinEval(v ssa.Value, src func(ssa.Value) string) Lin {
	return linEval(v, src, map[*ssa.Parameter]ssa.Value{}, 0)
}

func linConst(c int64) Lin { return Lin{C0: c, Terms: map[string]int64{}} }

func linAtom(name string) Lin { return Lin{Terms: map[string]int64{name: 1}} }

func linAdd(a, b Lin, sign int64) Lin {
	out := Lin{C0: a.C0 + sign*b.C0, Terms: map[string]int64{}}
	for k, v := range a.Terms {
		out.Terms[k] += v
	}
	for k, v := range b.Terms {
		out.Terms[k] += sign * v
	}
	for k, v := range out.Terms {
		if v == 0 {
			delete(out.Terms, k)
		}
	}
	return out
}

func linScale(a Lin, k int64) Lin {
	out := Lin{C0: a.C0 * k, Terms: map[string]int64{}}
	for t, v := range a.Terms {
		if v*k != 0 {
			out.Terms[t] = v * k
		}
	}
	return out
}

func (l Lin) isConst() (int64, bool) {
	if len(l.Terms) == 0 {
		return l.C0, true
	}
	return 0, false
}

// single source name of a form that is exactly one atom with coefficient 1 and no constant.
func (l Lin) single() (string, bool) {
	if l.C0 != 0 || len(l.Terms) != 1 {
		return "", false
	}
	for k, v := range l.Terms {
		if v == 1 {
			return k, true
		}
	}
	return "", false
}

func linEval(v ssa.Value, src func(ssa.Value) string, env map[*ssa.Parameter]ssa.Value, depth int) Lin {
	if depth > 24 {
		return linAtom(fmt.Sprintf("?%p", v))
	}
	if c, ok := v.(*ssa.Const); ok {
		if k, ok := ConstInt(c); ok {
			return linConst(k)
		}
	}
	if pa, ok := v.(*ssa.Parameter); ok {
		if a, bound := env[pa]; bound {
			// evaluate the argument in the caller's environment (no nesting of envs needed: args were resolved eagerly)
			return linEval(a, src, map[*ssa.Parameter]ssa.Value{}, depth+1)
		}
	}
	if s := src(v); s != "" {
		return linAtom(s)
	}
	switch x := v.(type) {
	case *ssa.Convert:
		if inner := linEval(x.X, src, env, depth+1); lossyIntConv(x) && !inner.smallBounded(convTo64(x)) {
			return linAtom("conv<" + x.X.Type().String() + "→" + x.Type().String() + ">(" + inner.String() + ")")
		}
		return linEval(x.X, src, env, depth+1)
	case *ssa.ChangeType:
		return linEval(x.X, src, env, depth+1)
	case *ssa.BinOp:
		a := linEval(x.X, src, env, depth+1)
		b := linEval(x.Y, src, env, depth+1)
		switch x.Op {
		case token.ADD:
			return linAdd(a, b, 1)
		case token.SUB:
			return linAdd(a, b, -1)
		case token.MUL:
			if k, ok := b.isConst(); ok {
				return linScale(a, k)
			}
			if k, ok := a.isConst(); ok {
				return linScale(b, k)
			}
		case token.REM, token.QUO:
			if k, ok := b.isConst(); ok && k > 0 {
				if ka, ok := a.isConst(); ok {
					if x.Op == token.REM {
						return linConst(ka % k)
					}
					return linConst(ka / k)
				}
				op := "%"
				if x.Op == token.QUO {
					op = "/"
				}
				if s, ok := a.single(); ok {
					return linAtom(fmt.Sprintf("%s%s%d", s, op, k))
				}
				// (s - c)/k
				if len(a.Terms) == 1 {
					for s, coef := range a.Terms {
						if coef == 1 && !strings.HasPrefix(s, "?") {
							return linAtom(fmt.Sprintf("(%s%+d)%s%d", s, a.C0, op, k))
						}
					}
				}
			}
		}
	case *ssa.Call:
		if f := StaticCalleeFn(x); f != nil && InModule(f) && len(f.Blocks) > 0 {
			rets := Returns(f)
			if len(rets) == 1 && len(rets[0].Results) == 1 && len(f.Blocks) == 1 {
				env2 := map[*ssa.Parameter]ssa.Value{}
				for i, pa := range f.Params {
					if i < len(x.Call.Args) {
						a := x.Call.Args[i]
						// resolve through the current env eagerly
						if pp, ok := a.(*ssa.Parameter); ok {
							if aa, bound := env[pp]; bound {
								a = aa
							}
						}
						env2[pa] = a
					}
				}
				return linEvalIn(rets[0].Results[0], src, env2, env, depth+1)
			}
		}
	case *ssa.Phi:
		// all edges equal?
		var first *Lin
		same := true
		for _, e := range x.Edges {
			l := linEval(e, src, env, depth+1)
			if first == nil {
				first = &l
			} else if first.String() != l.String() {
				same = false
			}
		}
		if same && first != nil {
			return *first
		}
		return linAtom(fmt.Sprintf("?phi%p", v))
	}
	return linAtom(fmt.Sprintf("?%p", v))
}

// linEvalIn evaluates a callee expression: parameters map to caller arguments which are
// evaluated in the caller's env.
func linEvalIn(v ssa.Value, src func(ssa.Value) string, calleeEnv, callerEnv map[*ssa.Parameter]ssa.Value, depth int) Lin {
	// substitute: build a combined resolver by evaluating args lazily through a wrapper source
	wrapped := func(x ssa.Value) string { return src(x) }
	// evaluate with calleeEnv; when a bound argument is itself a caller parameter bound in callerEnv it was resolved eagerly above
	return linEvalSub(v, wrapped, calleeEnv, callerEnv, depth)
}

func linEvalSub(v ssa.Value, src func(ssa.Value) string, env, outer map[*ssa.Parameter]ssa.Value, depth int) Lin {
	if pa, ok := v.(*ssa.Parameter); ok {
		if a, bound := env[pa]; bound {
			return linEval(a, src, outer, depth+1)
		}
	}
	if depth > 24 {
		return linAtom(fmt.Sprintf("?%p", v))
	}
	if c, ok := v.(*ssa.Const); ok {
		if k, ok := ConstInt(c); ok {
			return linConst(k)
		}
	}
	if s := src(v); s != "" {
		return linAtom(s)
	}
	switch x := v.(type) {
	case *ssa.Convert:
		if inner := linEvalSub(x.X, src, env, outer, depth+1); lossyIntConv(x) && !inner.smallBounded(convTo64(x)) {
			return linAtom("conv<" + x.X.Type().String() + "→" + x.Type().String() + ">(" + inner.String() + ")")
		}
		return linEvalSub(x.X, src, env, outer, depth+1)
	case *ssa.ChangeType:
		return linEvalSub(x.X, src, env, outer, depth+1)
	case *ssa.BinOp:
		a := linEvalSub(x.X, src, env, outer, depth+1)
		b := linEvalSub(x.Y, src, env, outer, depth+1)
		switch x.Op {
		case token.ADD:
			return linAdd(a, b, 1)
		case token.SUB:
			return linAdd(a, b, -1)
		case token.MUL:
			if k, ok := b.isConst(); ok {
				return linScale(a, k)
			}
			if k, ok := a.isConst(); ok {
				return linScale(b, k)
			}
		case token.REM, token.QUO:
			if k, ok := b.isConst(); ok && k > 0 {
				op := "%"
				if x.Op == token.QUO {
					op = "/"
				}
				if s, ok := a.single(); ok {
					return linAtom(fmt.Sprintf("%s%s%d", s, op, k))
				}
			}
		}
	case *ssa.Call:
		if f := StaticCalleeFn(x); f != nil && InModule(f) && len(f.Blocks) == 1 {
			rets := Returns(f)
			if len(rets) == 1 && len(rets[0].Results) == 1 {
				// resolve args to caller-level values first
				env2 := map[*ssa.Parameter]ssa.Value{}
				allResolved := true
				for i, pa := range f.Params {
					if i >= len(x.Call.Args) {
						continue
					}
					a := x.Call.Args[i]
					if pp, ok := a.(*ssa.Parameter); ok {
						if aa, bound := env[pp]; bound {
							a = aa
						} else {
							allResolved = false
						}
					}
					env2[pa] = a
				}
				if allResolved {
					return linEvalSub(rets[0].Results[0], src, env2, outer, depth+1)
				}
			}
		}
	}
	return linAtom(fmt.Sprintf("?%p", v))
}

// lossyIntConv: an integer conversion that does not preserve every value of its operand: an
// unsigned value to a signed type that is not wider (uint64 → int turns slots >= 2^63 negative,
// and signed / and % then round toward zero), or any narrowing. Such a conversion is not
// transparent to the index arithmetic; the converted value becomes an atom of its own.
func lossyIntConv(c *ssa.Convert) bool {
	from, ok1 := c.X.Type().Underlying().(*types.Basic)
	to, ok2 := c.Type().Underlying().(*types.Basic)
	if !ok1 || !ok2 || from.Info()&types.IsInteger == 0 || to.Info()&types.IsInteger == 0 {
		return false
	}
	if _, isConst := c.X.(*ssa.Const); isConst {
		return false
	}
	bits := func(b *types.Basic) int {
		switch b.Kind() {
		case types.Int8, types.Uint8:
			return 8
		case types.Int16, types.Uint16:
			return 16
		case types.Int32, types.Uint32:
			return 32
		}
		return 64
	}
	fu, tu := from.Info()&types.IsUnsigned != 0, to.Info()&types.IsUnsigned != 0
	if bits(to) < bits(from) {
		return true
	}
	return fu && !tu && bits(to) <= bits(from)
}

func convTo64(c *ssa.Convert) bool {
	if b, ok := c.Type().Underlying().(*types.Basic); ok {
		switch b.Kind() {
		case types.Int, types.Int64, types.Uint, types.Uint64, types.Uintptr:
			return true
		}
	}
	return false
}
