package core

import (
	"golang.org/x/tools/go/callgraph"
	"golang.org/x/tools/go/callgraph/cha"
	"golang.org/x/tools/go/callgraph/vta"
	"golang.org/x/tools/go/ssa"
	"golang.org/x/tools/go/ssa/ssautil"
)

// ReachableVTA computes module functions reachable from roots in a whole-program VTA call graph
// (calls through dependencies and callbacks included). Requires Whole.
func (p *Prog) ReachableVTA(roots []*ssa.Function) map[*ssa.Function]bool {
	all := ssautil.AllFunctions(p.SSA)
	cg := vta.CallGraph(all, cha.CallGraph(p.SSA))
	seen := map[*ssa.Function]bool{}
	var work []*callgraph.Node
	for _, r := range roots {
		if n := cg.Nodes[r]; n != nil {
			work = append(work, n)
		}
	}
	visited := map[*callgraph.Node]bool{}
	for len(work) > 0 {
		n := work[len(work)-1]
		work = work[:len(work)-1]
		if visited[n] {
			continue
		}
		visited[n] = true
		if n.Func != nil && InModule(n.Func) && n.Func.Blocks != nil {
			seen[n.Func] = true
			for _, a := range n.Func.AnonFuncs {
				if an := cg.Nodes[a]; an != nil {
					work = append(work, an)
				}
			}
		}
		for _, e := range n.Out {
			work = append(work, e.Callee)
		}
	}
	return seen
}
