package core

import (
	"go/ast"
	"go/token"
	"go/types"

	"golang.org/x/tools/go/ssa"
)

// DroppedError describes an error value that is bound to a variable but can be overwritten
// (or fall out of the function) on some path before anything examined it.
type DroppedError struct {
	Fn   *ssa.Function
	Def  ssa.Value // the call (or extract) producing the error
	Path []*ssa.BasicBlock
	How  string
}

var errType = types.Universe.Lookup("error").Type()

// DroppedErrors finds, in fn, error results of calls that are assigned to a variable (they have
// at least one referrer: explicit discards `_ =` are a conscious choice and not reported) and
// that on some path reach a point where the variable is overwritten by another value, or the
// function returns something else, without the error having been compared with nil, returned,
// passed on, or stored. Path sensitive through phis: following the edge on which a phi takes a
// different incoming value means the carried error is gone.
func DroppedErrors(fn *ssa.Function) []DroppedError {
	var out []DroppedError
	for _, b := range fn.Blocks {
		for _, in := range b.Instrs {
			var ev ssa.Value
			switch x := in.(type) {
			case *ssa.Call:
				if types.Identical(x.Type(), errType) {
					ev = x
				}
			case *ssa.Extract:
				if types.Identical(x.Type(), errType) {
					if _, isCall := x.Tuple.(*ssa.Call); isCall {
						ev = x
					}
				}
			}
			if ev == nil || ev.Referrers() == nil || len(*ev.Referrers()) == 0 {
				continue
			}
			if d := droppedOn(fn, ev); d != nil {
				out = append(out, *d)
			}
		}
	}
	return out
}

// usesValue: instruction consumes carrier in a way that examines or forwards it.
func usesValue(in ssa.Instruction, carrier ssa.Value) bool {
	switch x := in.(type) {
	case *ssa.BinOp:
		return (x.X == carrier || x.Y == carrier) && (x.Op == token.EQL || x.Op == token.NEQ)
	case *ssa.Return:
		for _, r := range x.Results {
			if r == carrier {
				return true
			}
		}
	case *ssa.Store:
		return x.Val == carrier
	case ssa.CallInstruction:
		for _, a := range x.Common().Args {
			if a == carrier {
				return true
			}
		}
		return x.Common().Value == carrier
	case *ssa.MakeInterface:
		return x.X == carrier
	case *ssa.ChangeInterface:
		return x.X == carrier
	case *ssa.TypeAssert:
		return x.X == carrier
	case *ssa.Send:
		return x.X == carrier
	case *ssa.MapUpdate:
		return x.Value == carrier
	}
	return false
}

func droppedOn(fn *ssa.Function, ev ssa.Value) *DroppedError {
	def := ev.(ssa.Instruction)
	type node struct {
		b       *ssa.BasicBlock
		carrier ssa.Value
		prev    *node
	}
	type key struct {
		b int
		c ssa.Value
	}
	seen := map[key]bool{}
	pathOf := func(n *node) []*ssa.BasicBlock {
		var p []*ssa.BasicBlock
		for x := n; x != nil; x = x.prev {
			p = append([]*ssa.BasicBlock{x.b}, p...)
		}
		return p
	}
	// scan a block from `from` (exclusive; nil = start); returns true if the carrier is used
	scan := func(b *ssa.BasicBlock, carrier ssa.Value, from ssa.Instruction) (used bool, exit bool) {
		active := from == nil
		for _, in := range b.Instrs {
			if !active {
				if in == from {
					active = true
				}
				continue
			}
			if _, isPhi := in.(*ssa.Phi); isPhi {
				continue
			}
			if usesValue(in, carrier) {
				return true, false
			}
			if ret, isRet := in.(*ssa.Return); isRet {
				// leaving with another, certainly non-nil error is not a loss: the failure is reported
				if idx := ErrResultIndex(b.Parent().Signature); idx >= 0 && idx < len(ret.Results) {
					if !MayBeNilErr(ret.Results[idx], nil, b, nil) {
						return true, false
					}
				}
				return false, true
			}
			if _, isPanic := in.(*ssa.Panic); isPanic {
				return true, false // not an exit we care about
			}
		}
		return false, false
	}
	start := &node{b: def.Block(), carrier: ev}
	if used, exit := scan(def.Block(), ev, def); used {
		return nil
	} else if exit {
		return &DroppedError{Fn: fn, Def: ev, Path: []*ssa.BasicBlock{def.Block()}, How: "the function returns without examining it"}
	}
	stack := []*node{start}
	first := true
	for len(stack) > 0 {
		n := stack[len(stack)-1]
		stack = stack[:len(stack)-1]
		if !first {
			used, exit := scan(n.b, n.carrier, nil)
			if used {
				continue
			}
			if exit {
				return &DroppedError{Fn: fn, Def: ev, Path: pathOf(n), How: "the function returns without examining it"}
			}
		}
		first = false
		var ifi *ssa.If
		if len(n.b.Instrs) > 0 && len(n.b.Succs) == 2 && n.b.Succs[0] != n.b.Succs[1] {
			ifi, _ = n.b.Instrs[len(n.b.Instrs)-1].(*ssa.If)
		}
		var sfx []*ssa.BasicBlock
		if ifi != nil {
			for x := n; x != nil && len(sfx) < cutK; x = x.prev {
				sfx = append([]*ssa.BasicBlock{x.b}, sfx...)
			}
		}
		for si, s := range n.b.Succs {
			// an edge this very path rules out (a flag phi that took the other constant, a comparison
			// already decided the other way)
			if ifi != nil {
				fs, feasible := FactsOnPath(ifi.Cond, si == 0, sfx)
				if !feasible || contradictsPath(fs, sfx) {
					continue
				}
			}
			// phi handling in s
			carrier := n.carrier
			overwritten := false
			idx := -1
			for i, p := range s.Preds {
				if p == n.b {
					idx = i
				}
			}
			carriedBy := []ssa.Value{}
			for _, in := range s.Instrs {
				ph, ok := in.(*ssa.Phi)
				if !ok {
					break
				}
				if idx >= 0 && ph.Edges[idx] == carrier {
					carriedBy = append(carriedBy, ph)
				}
			}
			if len(carriedBy) > 0 {
				carrier = carriedBy[0]
			} else if ph, ok := carrier.(*ssa.Phi); ok && ph.Block() == s {
				// re-entering the block of the phi that carried the error, on an edge with another value
				if idx >= 0 && ph.Edges[idx] != carrier {
					overwritten = true
				}
			} else if _, isPhi := carrier.(*ssa.Phi); !isPhi && carrier == ev {
				// the original value simply goes out of scope when no later instruction can reach it:
				// handled by reaching a return
			}
			if overwritten {
				nn := &node{b: s, carrier: carrier, prev: n}
				return &DroppedError{Fn: fn, Def: ev, Path: pathOf(nn), How: "the variable holding it is overwritten by a later assignment"}
			}
			k := key{s.Index, carrier}
			if seen[k] {
				continue
			}
			seen[k] = true
			stack = append(stack, &node{b: s, carrier: carrier, prev: n})
		}
	}
	return nil
}

// DeadErrorStores finds `x, err = f()` / `err := f()` where the error is assigned to a named
// variable but that value is never read afterwards (typically because a shadowed variable of
// the same name is the one checked or returned). go/ssa drops such stores, so the call's error
// result has no referrer although the source binds it to a non-blank name.
func DeadErrorStores(fn *ssa.Function, info *types.Info) []ssa.Instruction {
	syn := fn.Syntax()
	if syn == nil || info == nil {
		return nil
	}
	var body *ast.BlockStmt
	switch x := syn.(type) {
	case *ast.FuncDecl:
		body = x.Body
	case *ast.FuncLit:
		body = x.Body
	}
	if body == nil {
		return nil
	}
	callAt := map[token.Pos]*ssa.Call{}
	for _, b := range fn.Blocks {
		for _, in := range b.Instrs {
			if c, ok := in.(*ssa.Call); ok {
				callAt[c.Pos()] = c
			}
		}
	}
	var out []ssa.Instruction
	var walk func(n ast.Node)
	walk = func(n ast.Node) {
		ast.Inspect(n, func(x ast.Node) bool {
			if fl, ok := x.(*ast.FuncLit); ok && x != n {
				_ = fl
				return false // a separate function
			}
			as, ok := x.(*ast.AssignStmt)
			if !ok || len(as.Rhs) != 1 {
				return true
			}
			ce, ok := ast.Unparen(as.Rhs[0]).(*ast.CallExpr)
			if !ok {
				return true
			}
			c := callAt[ce.Lparen]
			if c == nil {
				return true
			}
			for i, l := range as.Lhs {
				id, ok := l.(*ast.Ident)
				if !ok || id.Name == "_" {
					continue
				}
				var t types.Type
				if tup, ok := c.Type().(*types.Tuple); ok {
					if i >= tup.Len() {
						continue
					}
					t = tup.At(i).Type()
				} else if i == 0 {
					t = c.Type()
				}
				if t == nil || !types.Identical(t, errType) {
					continue
				}
				used := false
				if refs := c.Referrers(); refs != nil {
					for _, r := range *refs {
						if _, isTup := c.Type().(*types.Tuple); isTup {
							if ex, ok := r.(*ssa.Extract); ok && ex.Index == i && ex.Referrers() != nil && len(*ex.Referrers()) > 0 {
								used = true
							}
						} else {
							used = true
						}
					}
				}
				if !used {
					out = append(out, c)
				}
			}
			return true
		})
	}
	walk(body)
	return out
}
