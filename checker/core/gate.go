package core

import (
	"go/token"
	"go/types"

	"golang.org/x/tools/go/ssa"
)

// knownNonNilErrCalls are constructors that never return a nil error.
var knownNonNilErrCalls = map[string]bool{
	"fmt.Errorf": true, "errors.New": true,
}

// chainFacts collects the facts on the unique-predecessor chain above block b (the facts that
// certainly hold on entry to b).
func chainFacts(b *ssa.BasicBlock) []Fact {
	var out []Fact
	cur := b
	for steps := 0; cur != nil && steps < 64; steps++ {
		if len(cur.Preds) != 1 {
			// use the immediate dominator edge when the join is a simple diamond we cannot see through
			break
		}
		pr := cur.Preds[0]
		out = append(out, edgeFacts(pr, cur, 0)...)
		cur = pr
	}
	return out
}

// DomFacts collects facts that hold on entry to b on every path: facts of edges (d -> s)
// where s dominates b and s has the single predecessor d.
func DomFacts(b *ssa.BasicBlock) []Fact {
	var out []Fact
	for cur := b; cur != nil; cur = cur.Idom() {
		if len(cur.Preds) == 1 {
			out = append(out, edgeFacts(cur.Preds[0], cur, 0)...)
		}
	}
	out = append(out, EnumRefine(out)...)
	return out
}

// MayBeNilErr reports whether error value v, returned from block b reached via prev, may be nil.
// okVal marks values that are acceptable whatever their nil-ness (the gate's own error).
func MayBeNilErr(v ssa.Value, prev, b *ssa.BasicBlock, okVal func(ssa.Value) bool) bool {
	seen := map[ssa.Value]bool{}
	var rec func(v ssa.Value, prev, b *ssa.BasicBlock) bool
	rec = func(v ssa.Value, prev, b *ssa.BasicBlock) bool {
		if v == nil || seen[v] {
			return false
		}
		seen[v] = true
		v = ResolveSpill(v)
		if okVal != nil && okVal(v) {
			return false
		}
		if IsNilConst(v) {
			return true
		}
		// known non-nil by a dominating `v != nil`
		if b != nil {
			for _, f := range DomFacts(b) {
				if f.Op == token.NEQ && ((SameValue(f.X, v) && IsNilConst(f.Y)) || (SameValue(f.Y, v) && IsNilConst(f.X))) {
					return false
				}
			}
		}
		switch x := v.(type) {
		case *ssa.Phi:
			if b != nil && x.Block() == b && prev != nil {
				for i, p := range b.Preds {
					if p == prev {
						return rec(x.Edges[i], nil, p)
					}
				}
			}
			for i, e := range x.Edges {
				if rec(e, nil, x.Block().Preds[i]) {
					return true
				}
			}
			return false
		case *ssa.MakeInterface:
			return false // a concrete error value boxed: non-nil interface
		case *ssa.Call:
			if knownNonNilErrCalls[CalleeID(x)] {
				return false
			}
			return true
		case *ssa.Extract:
			return true
		case *ssa.UnOp:
			if x.Op == token.MUL {
				if _, ok := x.X.(*ssa.Global); ok {
					return false // package-level Err* sentinel
				}
				if a, ok := x.X.(*ssa.Alloc); ok {
					for _, st := range storesTo(a) {
						if rec(st.Val, nil, st.Block()) {
							return true
						}
					}
					return false
				}
			}
			return true
		}
		return true
	}
	return rec(v, prev, b)
}

// Gate describes a check that every success path must pass.
type Gate struct {
	Name string
	// Edge reports whether the facts of an edge establish the gate.
	Edge func(fs []Fact) bool
	// ErrOK marks a returned error value that is the gate's own verdict (return g(...)).
	ErrOK func(v ssa.Value) bool
}

// SuccessTarget builds the Target function for "return with possibly-nil error".
func SuccessTarget(fn *ssa.Function, errOK func(ssa.Value) bool) func(prev, b *ssa.BasicBlock) bool {
	idx := ErrResultIndex(fn.Signature)
	return func(prev, b *ssa.BasicBlock) bool {
		if len(b.Instrs) == 0 {
			return false
		}
		r, ok := b.Instrs[len(b.Instrs)-1].(*ssa.Return)
		if !ok || idx < 0 || idx >= len(r.Results) {
			return false
		}
		return MayBeNilErr(r.Results[idx], prev, b, errOK)
	}
}

// BoolTarget builds the Target for "return with result #idx possibly == want".
func BoolTarget(fn *ssa.Function, idx int, want bool, okVal func(ssa.Value) bool) func(prev, b *ssa.BasicBlock) bool {
	var may func(v ssa.Value, prev, b *ssa.BasicBlock, depth int) bool
	may = func(v ssa.Value, prev, b *ssa.BasicBlock, depth int) bool {
		if depth > 8 {
			return true
		}
		v = ResolveSpill(v)
		if okVal != nil && okVal(v) {
			return false
		}
		if c, ok := ConstBool(v); ok {
			return c == want
		}
		if ph, ok := v.(*ssa.Phi); ok {
			if ph.Block() == b && prev != nil {
				for i, p := range b.Preds {
					if p == prev {
						return may(ph.Edges[i], nil, p, depth+1)
					}
				}
			}
			for i, e := range ph.Edges {
				if may(e, nil, ph.Block().Preds[i], depth+1) {
					return true
				}
			}
			return false
		}
		return true
	}
	return func(prev, b *ssa.BasicBlock) bool {
		if len(b.Instrs) == 0 {
			return false
		}
		r, ok := b.Instrs[len(b.Instrs)-1].(*ssa.Return)
		if !ok || idx >= len(r.Results) {
			return false
		}
		return may(r.Results[idx], prev, b, 0)
	}
}

// AllSuccessPass checks that every success exit of fn (nil error) is reached only through
// an edge establishing gate g. Returns a witness path when violated.
func AllSuccessPass(fn *ssa.Function, g Gate, from *ssa.BasicBlock) []*ssa.BasicBlock {
	return CutReach(CutSpec{
		Fn:   fn,
		From: from,
		Cut: func(b *ssa.BasicBlock, idx int) bool {
			return g.Edge(EdgeFacts(b, idx))
		},
		Target: SuccessTarget(fn, g.ErrOK),
	})
}

// InstrGuarded checks that every path from `from` (nil = entry) to the block of instruction
// `in` passes an edge establishing the gate.
func InstrGuarded(in ssa.Instruction, edge func(fs []Fact) bool, from *ssa.BasicBlock) []*ssa.BasicBlock {
	tb := in.Block()
	return CutReach(CutSpec{
		Fn:   in.Parent(),
		From: from,
		Cut: func(b *ssa.BasicBlock, idx int) bool {
			return edge(EdgeFacts(b, idx))
		},
		Target: func(prev, b *ssa.BasicBlock) bool { return b == tb },
	})
}

// ErrNilGate builds a gate "error result of a call to one of ids is nil", optionally
// restricted by a predicate on the call.
func ErrNilGate(name string, callOK func(c *ssa.Call) bool) Gate {
	isErr := func(v ssa.Value) bool {
		return errOfCall(v, callOK, map[ssa.Value]bool{})
	}
	return Gate{
		Name: name,
		Edge: func(fs []Fact) bool {
			for _, f := range fs {
				if FactIsErrNil(f, isErr) {
					return true
				}
			}
			return false
		},
		ErrOK: isErr,
	}
}

// errOfCall: v is the error result of a call accepted by callOK (through phis whose every
// non-nil-constant edge is such an error: `var err error; if c { err = g() }` does not count,
// but `err := g()` re-assigned from the same gate does).
func errOfCall(v ssa.Value, callOK func(c *ssa.Call) bool, seen map[ssa.Value]bool) bool {
	if seen[v] {
		return true
	}
	seen[v] = true
	switch x := v.(type) {
	case *ssa.Call:
		if _, ok := x.Type().(*types.Tuple); ok {
			return false
		}
		return callOK(x)
	case *ssa.Extract:
		c, ok := x.Tuple.(*ssa.Call)
		if !ok {
			return false
		}
		if x.Index != ErrResultIndex(c.Call.Signature()) {
			return false
		}
		return callOK(c)
	case *ssa.Phi:
		for _, e := range x.Edges {
			if !errOfCall(e, callOK, seen) {
				return false
			}
		}
		return len(x.Edges) > 0
	case *ssa.UnOp:
		// read back from a captured variable it was just stored to (same block, no call between)
		if x.Op == token.MUL {
			if _, isFv := x.X.(*ssa.FreeVar); isFv {
				if sv := storedJustBefore(x); sv != nil {
					return errOfCall(sv, callOK, seen)
				}
			}
		}
	}
	return false
}

// BoolCallGate builds a gate "a call accepted by callOK returned `want`" (for calls returning
// bool or (.., bool)).
func BoolCallGate(name string, want bool, callOK func(c *ssa.Call) bool) Gate {
	isRes := func(v ssa.Value) bool {
		switch x := v.(type) {
		case *ssa.Call:
			return callOK(x)
		case *ssa.Extract:
			if c, ok := x.Tuple.(*ssa.Call); ok {
				return callOK(c)
			}
		}
		return false
	}
	return Gate{
		Name: name,
		Edge: func(fs []Fact) bool {
			for _, f := range fs {
				if f.Op == token.ILLEGAL && f.Truth == want && isRes(f.V) {
					return true
				}
			}
			return false
		},
	}
}

// CmpFact matches a comparison fact irrespective of operand order: it calls match with the
// fact oriented as (x op y) and, swapped, as (y op' x).
func CmpFact(f Fact, match func(op token.Token, x, y ssa.Value) bool) bool {
	if f.Op == token.ILLEGAL {
		return false
	}
	if match(f.Op, f.X, f.Y) {
		return true
	}
	return match(swapOp[f.Op], f.Y, f.X)
}

// AnyFact lifts a per-fact predicate to an edge predicate.
func AnyFact(pred func(f Fact) bool) func(fs []Fact) bool {
	return func(fs []Fact) bool {
		for _, f := range fs {
			if pred(f) {
				return true
			}
		}
		return false
	}
}

// IsLenOf matches `len(x)` where x satisfies pred.
func IsLenOf(v ssa.Value, pred func(ssa.Value) bool) bool {
	v = Unwrap(v)
	c, ok := v.(*ssa.Call)
	if !ok {
		return false
	}
	b, ok := c.Call.Value.(*ssa.Builtin)
	if !ok || b.Name() != "len" {
		return false
	}
	return pred(c.Call.Args[0])
}

// ResolveSpill undoes go/ssa's result spilling in functions with defers: `*r = v; rundefers;
// t = *r; return t` - a load of a local cell is replaced by the value stored into that cell
// earlier in the same block.
func ResolveSpill(v ssa.Value) ssa.Value {
	u, ok := v.(*ssa.UnOp)
	if !ok || u.Op != token.MUL {
		return v
	}
	a, ok := u.X.(*ssa.Alloc)
	if !ok {
		return v
	}
	var last ssa.Value
	for _, in := range u.Block().Instrs {
		if in == ssa.Instruction(u) {
			break
		}
		if st, ok := in.(*ssa.Store); ok && st.Addr == ssa.Value(a) {
			last = st.Val
		}
	}
	if last != nil {
		return last
	}
	return v
}

// ---------- path-sensitive variant of the cut engine ----------
//
// go/ssa lowers `v := a || b` / `if c { v = x } else { v = y }` into phis; whether the branch on
// such a phi establishes a fact depends on the edge the phi was entered through. CutReachPS
// searches over (last K blocks) states, resolves phi conditions along the actual path suffix,
// prunes edges that contradict a phi-resolved constant, and hands the resolved facts to Cut.

const psK = 5

type psState [psK]int

// FactsOnPath resolves cond == truth along the path suffix (last element = the block whose
// terminator tests cond). feasible=false when the path forces cond to the other value.
func FactsOnPath(cond ssa.Value, truth bool, path []*ssa.BasicBlock) (facts []Fact, feasible bool) {
	return factsOnPath(cond, truth, path, 0)
}

func factsOnPath(cond ssa.Value, truth bool, path []*ssa.BasicBlock, depth int) ([]Fact, bool) {
	if depth > 8 {
		return nil, true
	}
	switch c := cond.(type) {
	case *ssa.UnOp:
		if c.Op == token.NOT {
			return factsOnPath(c.X, !truth, path, depth+1)
		}
	case *ssa.Phi:
		// locate the phi's block on the path
		for i := len(path) - 1; i >= 1; i-- {
			if path[i] != c.Block() {
				continue
			}
			pred := path[i-1]
			for ei, p := range c.Block().Preds {
				if p != pred {
					continue
				}
				e := c.Edges[ei]
				if b, ok := ConstBool(e); ok {
					if b != truth {
						return nil, false
					}
					// which edge brought us here is itself informative
					return append(edgeFacts(pred, c.Block(), depth+1), Fact{V: cond, Truth: truth}), true
				}
				fs, ok := factsOnPath(e, truth, path[:i], depth+1)
				if !ok {
					return nil, false
				}
				// the conjuncts/disjuncts evaluated before e on the way to pred hold as well
				fs = append(fs, upFacts(pred, c.Block(), depth+1)...)
				return append(fs, Fact{V: cond, Truth: truth}), true
			}
		}
		return Facts(cond, truth), true
	}
	fs := resolveFactOperands(Facts(cond, truth), path)
	// a comparison of two constants (after resolving phis along the path) that does not hold
	// rules the edge out on this path
	for _, f := range fs {
		if f.Op == token.ILLEGAL {
			continue
		}
		// nil against a value that cannot be nil on this path (err = fmt.Errorf(...) then
		// `err != nil` taken as false)
		if f.Op == token.EQL || f.Op == token.NEQ {
			for _, pr := range [][2]ssa.Value{{f.X, f.Y}, {f.Y, f.X}} {
				if !IsNilConst(pr[0]) {
					continue
				}
				if KnownNonNil(pr[1]) && f.Op == token.EQL {
					return nil, false
				}
				if IsNilConst(pr[1]) && f.Op == token.NEQ && isNilable(pr[1].Type()) {
					return nil, false
				}
			}
		}
		kx, okx := ConstInt(f.X)
		ky, oky := ConstInt(f.Y)
		if !okx || !oky {
			continue
		}
		holds := true
		switch f.Op {
		case token.EQL:
			holds = kx == ky
		case token.NEQ:
			holds = kx != ky
		case token.LSS:
			holds = kx < ky
		case token.LEQ:
			holds = kx <= ky
		case token.GTR:
			holds = kx > ky
		case token.GEQ:
			holds = kx >= ky
		}
		if !holds {
			return nil, false
		}
	}
	return fs, true
}

// KnownNonNil: the value is never nil (a fresh error, allocation, boxed value, address).
func KnownNonNil(v ssa.Value) bool {
	switch x := v.(type) {
	case *ssa.Call:
		if f := x.Call.StaticCallee(); f != nil && f.Pkg != nil {
			switch f.Pkg.Pkg.Path() + "." + f.Name() {
			case "fmt.Errorf", "errors.New":
				return true
			}
		}
	case *ssa.MakeInterface, *ssa.Alloc, *ssa.MakeMap, *ssa.MakeChan, *ssa.MakeClosure, *ssa.FieldAddr, *ssa.IndexAddr, *ssa.Function, *ssa.Global:
		return true
	case *ssa.ChangeInterface:
		return KnownNonNil(x.X)
	case *ssa.UnOp:
		// a package-level sentinel (var errX = errors.New(...)) nobody assigns afterwards
		if g, ok := x.X.(*ssa.Global); ok && x.Op == token.MUL {
			return sentinelGlobal(g)
		}
	}
	return false
}

var sentinelCache = map[*ssa.Package]map[*ssa.Global]bool{}

func sentinelGlobal(g *ssa.Global) bool {
	pk := g.Pkg
	if pk == nil {
		return false
	}
	if m, ok := sentinelCache[pk]; ok {
		return m[g]
	}
	inits := map[*ssa.Global]int{}
	bad := map[*ssa.Global]bool{}
	seen := map[*ssa.Function]bool{}
	var visit func(f *ssa.Function)
	visit = func(f *ssa.Function) {
		if f == nil || seen[f] {
			return
		}
		seen[f] = true
		for _, b := range f.Blocks {
			for _, in := range b.Instrs {
				for _, op := range in.Operands(nil) {
					gg, isG := (*op).(*ssa.Global)
					if !isG {
						continue
					}
					switch x := in.(type) {
					case *ssa.UnOp:
						if x.Op == token.MUL {
							continue
						}
					case *ssa.Store:
						if x.Addr == ssa.Value(gg) && f.Name() == "init" && f.Parent() == nil {
							if c, isC := x.Val.(*ssa.Call); isC && KnownNonNil(c) {
								inits[gg]++
								continue
							}
						}
					}
					bad[gg] = true
				}
			}
		}
		for _, a := range f.AnonFuncs {
			visit(a)
		}
	}
	for _, m := range pk.Members {
		switch m := m.(type) {
		case *ssa.Function:
			visit(m)
		case *ssa.Type:
			for _, t := range []types.Type{m.Type(), types.NewPointer(m.Type())} {
				ms := pk.Prog.MethodSets.MethodSet(t)
				for i := 0; i < ms.Len(); i++ {
					visit(pk.Prog.MethodValue(ms.At(i)))
				}
			}
		}
	}
	out := map[*ssa.Global]bool{}
	for gg, n := range inits {
		// unexported, or exported: other packages can only assign an exported one, and the
		// load-time check of the importing package would be needed; keep to unexported ones and
		// exported ones of error type that no in-package code reassigns
		if n == 1 && !bad[gg] {
			out[gg] = true
		}
	}
	sentinelCache[pk] = out
	return out[g]
}

func isNilable(t types.Type) bool {
	switch t.Underlying().(type) {
	case *types.Pointer, *types.Interface, *types.Slice, *types.Map, *types.Chan, *types.Signature:
		return true
	}
	return false
}

// resolveFactOperands adds, for every comparison whose operand is a phi entered along the
// path, the same comparison on the value that phi took on this path (`err = phi(e1, e2)` then
// `err != nil` says e2 != nil when the path came in through the edge of e2).
func resolveFactOperands(fs []Fact, path []*ssa.BasicBlock) []Fact {
	out := fs
	for _, f := range fs {
		if f.Op == token.ILLEGAL {
			continue
		}
		x, y := ResolveOnPath(f.X, path), ResolveOnPath(f.Y, path)
		if x != f.X || y != f.Y {
			out = append(out, Fact{Op: f.Op, X: x, Y: y, Truth: f.Truth})
		}
	}
	return out
}

// ResolveOnPath follows v through phis whose block the path entered, taking the incoming value.
func ResolveOnPath(v ssa.Value, path []*ssa.BasicBlock) ssa.Value {
	for depth := 0; depth < 6; depth++ {
		ph, ok := v.(*ssa.Phi)
		if !ok {
			return v
		}
		found := false
		for i := len(path) - 1; i >= 1 && !found; i-- {
			if path[i] != ph.Block() {
				continue
			}
			for ei, p := range ph.Block().Preds {
				if p == path[i-1] {
					v = ph.Edges[ei]
					path = path[:i]
					found = true
					break
				}
			}
			if !found {
				return v
			}
		}
		if !found {
			return v
		}
	}
	return v
}

// PathFacts lists what the branches taken along the path suffix have established (the facts of
// every edge between consecutive blocks of sfx, phis resolved along it). A test written as nested
// ifs establishes its conjuncts on consecutive edges; a cut predicate asking for the conjunction
// sees them together this way. Only the acyclic tail of the suffix is used: a block seen twice
// means the earlier facts are about the previous iteration's values.
func PathFacts(sfx []*ssa.BasicBlock) []Fact {
	start := 0
	last := map[*ssa.BasicBlock]int{}
	for i, b := range sfx {
		if j, ok := last[b]; ok && j+1 > start {
			start = j + 1
		}
		last[b] = i
	}
	var out []Fact
	for j := start; j+1 < len(sfx); j++ {
		b, nb := sfx[j], sfx[j+1]
		if len(b.Succs) != 2 || b.Succs[0] == b.Succs[1] || len(b.Instrs) == 0 {
			continue
		}
		ifi, ok := b.Instrs[len(b.Instrs)-1].(*ssa.If)
		if !ok {
			continue
		}
		efs, feasible := FactsOnPath(ifi.Cond, b.Succs[0] == nb, sfx[:j+1])
		if feasible {
			out = append(out, efs...)
		}
	}
	return out
}

// EnumRefine: several tests of one enum-like local (a phi of integer constants) along a path
// narrow down which incoming edge the phi took: `switch k { case A: .. case B: .. default: }`
// reaches default knowing k != A and k != B. When exactly one incoming edge remains possible,
// what that edge established holds (returned as extra facts).
func EnumRefine(fs []Fact) []Fact {
	type cons struct {
		op token.Token
		k  int64
	}
	by := map[*ssa.Phi][]cons{}
	for _, f := range fs {
		if f.Op == token.ILLEGAL {
			continue
		}
		for _, pr := range [][2]ssa.Value{{f.X, f.Y}, {f.Y, f.X}} {
			ph, isPhi := pr[0].(*ssa.Phi)
			k, isK := ConstInt(pr[1])
			if !isPhi || !isK {
				continue
			}
			op := f.Op
			if pr[0] != f.X {
				op = swapOp[op]
			}
			by[ph] = append(by[ph], cons{op, k})
		}
	}
	var out []Fact
	for ph, cs := range by {
		if len(cs) < 2 {
			continue // a single test is handled where the fact is made
		}
		live := -1
		n := 0
		allConst := true
		for i, e := range ph.Edges {
			ek, isC := ConstInt(e)
			if !isC {
				allConst = false
				break
			}
			ok := true
			for _, c := range cs {
				if !cmpHolds(c.op, ek, c.k) {
					ok = false
				}
			}
			if ok {
				live = i
				n++
			}
		}
		if allConst && n == 1 {
			out = append(out, upFacts(ph.Block().Preds[live], ph.Block(), 1)...)
		}
	}
	return out
}

// CutSpecPS is CutSpec with a facts-based cut predicate evaluated path-sensitively.
type CutSpecPS struct {
	Fn     *ssa.Function
	From   *ssa.BasicBlock
	Cut    func(fs []Fact) bool
	Target func(prev, b *ssa.BasicBlock) bool
}

func CutReachPS(s CutSpecPS) []*ssa.BasicBlock {
	if len(s.Fn.Blocks) == 0 {
		return nil
	}
	start := s.From
	if start == nil {
		start = s.Fn.Blocks[0]
	}
	type node struct {
		b    *ssa.BasicBlock
		prev *node
	}
	suffix := func(n *node) []*ssa.BasicBlock {
		var out []*ssa.BasicBlock
		for x := n; x != nil && len(out) < psK; x = x.prev {
			out = append([]*ssa.BasicBlock{x.b}, out...)
		}
		return out
	}
	key := func(sfx []*ssa.BasicBlock, next *ssa.BasicBlock) psState {
		var k psState
		for i := range k {
			k[i] = -1
		}
		all := append(append([]*ssa.BasicBlock{}, sfx...), next)
		if len(all) > psK {
			all = all[len(all)-psK:]
		}
		for i, b := range all {
			k[i] = b.Index
		}
		return k
	}
	seen := map[psState]bool{}
	root := &node{b: start}
	if s.Target(nil, start) {
		return []*ssa.BasicBlock{start}
	}
	queue := []*node{root}
	for len(queue) > 0 {
		n := queue[0]
		queue = queue[1:]
		sfx := suffix(n)
		var ifi *ssa.If
		if len(n.b.Instrs) > 0 {
			ifi, _ = n.b.Instrs[len(n.b.Instrs)-1].(*ssa.If)
		}
		for i, succ := range n.b.Succs {
			if ifi != nil && len(n.b.Succs) == 2 && n.b.Succs[0] != n.b.Succs[1] {
				fs, feasible := FactsOnPath(ifi.Cond, i == 0, sfx)
				if !feasible || contradictsPath(fs, sfx) {
					continue
				}
				all := append(fs, PathFacts(sfx)...)
				all = append(all, EnumRefine(all)...)
				if s.Cut != nil && s.Cut(all) {
					continue
				}
			}
			k := key(sfx, succ)
			if seen[k] {
				continue
			}
			seen[k] = true
			nn := &node{b: succ, prev: n}
			if s.Target(n.b, succ) {
				var path []*ssa.BasicBlock
				for x := nn; x != nil; x = x.prev {
					path = append([]*ssa.BasicBlock{x.b}, path...)
				}
				return path
			}
			queue = append(queue, nn)
		}
	}
	return nil
}

// InstrGuardedPS: every path to the block of `in` passes an edge whose path-resolved facts satisfy cut.
func InstrGuardedPS(in ssa.Instruction, cut func(fs []Fact) bool, from *ssa.BasicBlock) []*ssa.BasicBlock {
	tb := in.Block()
	return CutReachPS(CutSpecPS{Fn: in.Parent(), From: from, Cut: cut, Target: func(prev, b *ssa.BasicBlock) bool { return b == tb }})
}

// AllSuccessPassPS: every success exit passes an edge whose path-resolved facts satisfy cut.
func AllSuccessPassPS(fn *ssa.Function, cut func(fs []Fact) bool, errOK func(ssa.Value) bool) []*ssa.BasicBlock {
	return CutReachPS(CutSpecPS{Fn: fn, Cut: cut, Target: SuccessTarget(fn, errOK)})
}
