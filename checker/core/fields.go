package core

import (
	"go/token"
	"go/types"

	"golang.org/x/tools/go/ssa"
)

// FieldWrite is one store into a named struct field (or into an element of the slice/array
// held by that field).
type FieldWrite struct {
	Fn      *ssa.Function
	Store   *ssa.Store
	Base    ssa.Value // the struct (pointer) whose field is written
	Val     ssa.Value
	Element bool // store to field[i] rather than to the field itself
	Init    bool // the struct was allocated in this very function (initialisation of an unpublished object)
}

// FieldWrites enumerates every store to typeName.field in module functions.
func (p *Prog) FieldWrites(typeName, field string) []FieldWrite {
	var out []FieldWrite
	for _, fn := range p.ModuleFuncs() {
		for _, b := range fn.Blocks {
			for _, in := range b.Instrs {
				st, ok := in.(*ssa.Store)
				if !ok {
					continue
				}
				if t, f, base, ok := FieldRef(st.Addr); ok && t == typeName && f == field {
					out = append(out, FieldWrite{Fn: fn, Store: st, Base: base, Val: st.Val, Init: isFreshAlloc(base)})
					continue
				}
				// element store: IndexAddr(load(FieldAddr)) or IndexAddr(FieldAddr) for arrays
				if ia, ok := st.Addr.(*ssa.IndexAddr); ok {
					x := ia.X
					if u, ok := x.(*ssa.UnOp); ok && u.Op == token.MUL {
						x = u.X
					}
					if t, f, base, ok := FieldRef(x); ok && t == typeName && f == field {
						out = append(out, FieldWrite{Fn: fn, Store: st, Base: base, Val: st.Val, Element: true, Init: isFreshAlloc(base)})
					}
				}
			}
		}
	}
	return out
}

// isFreshAlloc: base is (derived by field selection from) an Alloc of this function.
func isFreshAlloc(v ssa.Value) bool {
	for i := 0; i < 6; i++ {
		switch x := v.(type) {
		case *ssa.Alloc:
			return true
		case *ssa.FieldAddr:
			v = x.X
		case *ssa.IndexAddr:
			v = x.X
		default:
			return false
		}
	}
	return false
}

// IsLoadOfField reports whether v is a load of typeName.field (any base).
func IsLoadOfField(v ssa.Value, typeName, field string) bool {
	t, f, ok := LoadedField(v)
	return ok && t == typeName && f == field
}

// AppendOf: if v is append(s, ...) return s and the appended operand.
func AppendOf(v ssa.Value) (slice, elems ssa.Value, ok bool) {
	c, ok2 := v.(*ssa.Call)
	if !ok2 || CalleeID(c) != "builtin.append" {
		return nil, nil, false
	}
	return c.Call.Args[0], c.Call.Args[1], true
}

// VariadicElems returns the individual values of a variadic argument slice built by go/ssa
// (new [n]T; stores; slice).
func VariadicElems(v ssa.Value) []ssa.Value {
	sl, ok := v.(*ssa.Slice)
	if !ok {
		return nil
	}
	al, ok := sl.X.(*ssa.Alloc)
	if !ok {
		return nil
	}
	var out []ssa.Value
	if refs := al.Referrers(); refs != nil {
		for _, r := range *refs {
			if ia, ok := r.(*ssa.IndexAddr); ok {
				if rr := ia.Referrers(); rr != nil {
					for _, r2 := range *rr {
						if st, ok := r2.(*ssa.Store); ok && st.Addr == ia {
							out = append(out, st.Val)
						}
					}
				}
			}
		}
	}
	return out
}

// ReachesFunc reports whether fn (transitively, through static module calls, up to depth)
// contains an instruction satisfying pred.
func ReachesInstr(fn *ssa.Function, depth int, pred func(in ssa.Instruction) bool) bool {
	seen := map[*ssa.Function]bool{}
	var rec func(f *ssa.Function, d int) bool
	rec = func(f *ssa.Function, d int) bool {
		if f == nil || seen[f] || d < 0 {
			return false
		}
		seen[f] = true
		for _, b := range f.Blocks {
			for _, in := range b.Instrs {
				if pred(in) {
					return true
				}
				if c, ok := in.(ssa.CallInstruction); ok {
					if cal := StaticCalleeFn(c); cal != nil && InModule(cal) {
						if rec(cal, d-1) {
							return true
						}
					}
				}
			}
		}
		return false
	}
	return rec(fn, depth)
}

// PkgConstInt reads an integer constant from a module package scope.
func (p *Prog) PkgConstInt(pkgrel, name string) (int64, bool) {
	pk := p.Pkg(pkgrel)
	if pk == nil {
		return 0, false
	}
	c, ok := pk.Types.Scope().Lookup(name).(*types.Const)
	if !ok {
		return 0, false
	}
	return ConstInt(ssa.NewConst(c.Val(), c.Type()))
}

// BlocksWith returns the set of blocks of fn containing an instruction satisfying pred.
func BlocksWith(fn *ssa.Function, pred func(in ssa.Instruction) bool) map[*ssa.BasicBlock]bool {
	out := map[*ssa.BasicBlock]bool{}
	for _, b := range fn.Blocks {
		for _, in := range b.Instrs {
			if pred(in) {
				out[b] = true
				break
			}
		}
	}
	return out
}

// MustPassBefore checks that every path from instruction `from` to a function exit
// (return) passes through a block in `via` (instructions after `from` in its own block count).
// Panicking exits are ignored. Returns a witness path if some exit is reachable without.
func MustPassAfter(from ssa.Instruction, via func(in ssa.Instruction) bool) []*ssa.BasicBlock {
	fb := from.Block()
	// same block, later instruction?
	after := false
	for _, in := range fb.Instrs {
		if in == from {
			after = true
			continue
		}
		if after && via(in) {
			return nil
		}
	}
	viaBlocks := BlocksWith(from.Parent(), via)
	return CutReach(CutSpec{
		Fn:   from.Parent(),
		From: fb,
		Cut:  func(b *ssa.BasicBlock, i int) bool { return viaBlocks[b.Succs[i]] },
		Target: func(prev, b *ssa.BasicBlock) bool {
			if prev == nil {
				// starting block: is it itself an exit?
				_, isRet := b.Instrs[len(b.Instrs)-1].(*ssa.Return)
				return isRet
			}
			_, isRet := b.Instrs[len(b.Instrs)-1].(*ssa.Return)
			return isRet
		},
	})
}

// MustPassBefore checks that every path from entry to instruction `to` passes through an
// instruction satisfying via (earlier in the same block counts).
func MustPassBefore(to ssa.Instruction, via func(in ssa.Instruction) bool) []*ssa.BasicBlock {
	tb := to.Block()
	for _, in := range tb.Instrs {
		if in == to {
			break
		}
		if via(in) {
			return nil
		}
	}
	viaBlocks := BlocksWith(to.Parent(), via)
	delete(viaBlocks, tb)
	if tb == to.Parent().Blocks[0] {
		return []*ssa.BasicBlock{tb}
	}
	return CutReach(CutSpec{
		Fn:      to.Parent(),
		Cut:     func(b *ssa.BasicBlock, i int) bool { return viaBlocks[b] },
		Target:  func(prev, b *ssa.BasicBlock) bool { return b == tb },
		NoEnter: func(b *ssa.BasicBlock) bool { return viaBlocks[b] },
	})
}

// MayFollow reports whether instruction b can execute after instruction a on some path of
// their function (same block: a is earlier, or the block lies on a cycle).
func MayFollow(a, b ssa.Instruction) bool {
	if a.Parent() != b.Parent() {
		return false
	}
	ab, bb := a.Block(), b.Block()
	if ab == bb {
		for _, in := range ab.Instrs {
			if in == a {
				if a != b {
					return true
				}
				break
			}
			if in == b {
				break
			}
		}
	}
	seen := map[*ssa.BasicBlock]bool{}
	work := append([]*ssa.BasicBlock{}, ab.Succs...)
	for len(work) > 0 {
		x := work[len(work)-1]
		work = work[:len(work)-1]
		if seen[x] {
			continue
		}
		seen[x] = true
		if x == bb {
			return true
		}
		work = append(work, x.Succs...)
	}
	return false
}
