package props

import (
	"fmt"
	"go/token"
	"go/types"
	"reflect"
	"strings"

	"golang.org/x/tools/go/ssa"

	"verifchk/core"
)

func init() {
	Registry["C08"] = c08
	Registry["C11"] = c11
}

const (
	discv5MaxPacket   = 1280
	talkRespFraming   = 103 // 16 IV + 55 header + 1 + 3 + 9 + 3 + 16 HMAC (itemised in the repository's comment)
	netutilCheckRelay = "github.com/ethereum/go-ethereum/p2p/netutil.CheckRelayIP"
	// the netip flavour of the same rule, same argument roles (sender, relayed address)
	netutilCheckRelayAddr = "github.com/ethereum/go-ethereum/p2p/netutil.CheckRelayAddr"
)

func isRelayCheck(id string) bool { return id == netutilCheckRelay || id == netutilCheckRelayAddr }

// handlerFor finds the portalwire function whose last parameter is *<msgType> and that returns ([]byte, error).
func handlerFor(p *core.Prog, msgType string) *ssa.Function {
	for _, fn := range p.ModuleFuncs() {
		if fn.Pkg == nil || fn.Pkg != p.SSAPkg("portalwire") || fn.Signature.Recv() == nil {
			continue
		}
		ps := fn.Signature.Params()
		if ps.Len() == 0 || fn.Signature.Results().Len() != 2 {
			continue
		}
		pt, ok := ps.At(ps.Len() - 1).Type().(*types.Pointer)
		if !ok || core.TypeName(pt.Elem()) != msgType || core.TypeName(fn.Signature.Recv().Type()) != "PortalProtocol" {
			continue
		}
		return fn
	}
	return nil
}

// truncator: callee with signature ([]*enode.Node, int, int) [][]byte
func truncatorOf(fn *ssa.Function) (*ssa.Function, *ssa.Call) {
	var tf *ssa.Function
	var tc *ssa.Call
	core.Calls(fn, func(ci ssa.CallInstruction) {
		f := core.StaticCalleeFn(ci)
		if f == nil || !core.InModule(f) {
			return
		}
		ps := f.Signature.Params()
		if ps.Len() == 3 && f.Signature.Results().Len() > 0 && strings.HasPrefix(f.Signature.Results().At(0).Type().String(), "[][]") {
			tf = f
			tc, _ = ci.(*ssa.Call)
		}
	})
	return tf, tc
}

// checkTruncator verifies the truncation loop once.
func checkTruncator(c *Ctx, rule string, tf *ssa.Function) {
	p, r := c.P, c.R
	name := core.FuncName(tf)
	maxP, ovP := tf.Params[len(tf.Params)-2], tf.Params[len(tf.Params)-1]
	var apps []*ssa.Call
	for _, b := range tf.Blocks {
		for _, in := range b.Instrs {
			if ap, ok := in.(*ssa.Call); ok && core.CalleeID(ap) == "builtin.append" && strings.HasPrefix(ap.Type().String(), "[][]") {
				apps = append(apps, ap)
			}
		}
	}
	if len(apps) != 1 {
		r.Fail(rule, name+" shape", p.Pos(tf.Pos()), fmt.Sprintf("expected one append of an encoded record, found %d", len(apps)))
		return
	}
	ap := apps[0]
	el := core.VariadicElems(ap.Call.Args[1])
	if len(el) != 1 {
		r.Fail(rule, name+" shape", p.Pos(tf.Pos()), "unrecognised append")
		return
	}
	rec := el[0]
	// the guard: total + len(rec) + overhead <= max
	var total ssa.Value
	hasAll := func(sum ssa.Value) bool {
		atoms := sumAtoms(sum)
		lenOK, ovOK := false, false
		var rest []ssa.Value
		for _, a := range atoms {
			switch {
			case core.IsLenOf(a, func(v ssa.Value) bool { return v == rec }):
				lenOK = true
			case a == ssa.Value(ovP):
				ovOK = true
			default:
				rest = append(rest, a)
			}
		}
		if lenOK && ovOK && len(rest) == 1 {
			total = rest[0]
			return true
		}
		return false
	}
	// the same test kept as a remaining budget: remaining starts as the budget and the test is
	// len(rec) + overhead <= remaining
	isCost := func(v ssa.Value) bool {
		atoms := sumAtoms(v)
		if len(atoms) != 2 {
			return false
		}
		l, o := false, false
		for _, a := range atoms {
			if core.IsLenOf(a, func(v ssa.Value) bool { return v == rec }) {
				l = true
			} else if a == ssa.Value(ovP) {
				o = true
			}
		}
		return l && o
	}
	var remaining *ssa.Phi
	isRemaining := func(v ssa.Value) bool {
		ph, ok := v.(*ssa.Phi)
		if !ok {
			return false
		}
		for _, e := range ph.Edges {
			if core.Unwrap(e) == ssa.Value(maxP) {
				remaining = ph
				return true
			}
		}
		return false
	}
	cmpBudget := func(f core.Fact, want token.Token) bool {
		return core.CmpFact(f, func(op token.Token, x, y ssa.Value) bool {
			if op != want {
				return false
			}
			return (y == ssa.Value(maxP) && hasAll(x)) || (isCost(x) && isRemaining(y))
		})
	}
	fits := core.AnyFact(func(f core.Fact) bool { return cmpBudget(f, token.LEQ) })
	w := core.InstrGuarded(ap, fits, nil)
	r.Check(w == nil, rule, name+" fit-check", p.Pos(ap.Pos()), "a record is added only under total + len(record) + per-record overhead <= budget", "a record can be added without its length AND its per-record offset overhead fitting the budget (the reply can exceed one packet): "+p.PathString(w))
	// running total update
	okUpd := false
	if remaining != nil && total == nil {
		for _, b := range tf.Blocks {
			for _, in := range b.Instrs {
				if bo, ok := in.(*ssa.BinOp); ok && bo.Op == token.SUB && bo.X == ssa.Value(remaining) && isCost(bo.Y) && core.FlowsFrom(remaining, map[ssa.Value]bool{bo: true}) {
					// and the budget is spent in the step that adds the record
					if bo.Block() == ap.Block() || core.MustPassBefore(bo, func(i2 ssa.Instruction) bool { return i2 == ssa.Instruction(ap) }) == nil {
						okUpd = true
					}
				}
			}
		}
	}
	if ph, ok := total.(*ssa.Phi); ok {
		for _, e := range ph.Edges {
			if core.FlowsFrom(e, map[ssa.Value]bool{}) {
				continue
			}
		}
		for _, b := range tf.Blocks {
			for _, in := range b.Instrs {
				bo, ok := in.(*ssa.BinOp)
				if !ok || bo.Op != token.ADD {
					continue
				}
				at := sumAtoms(bo)
				var l, o, t bool
				for _, a := range at {
					switch {
					case core.IsLenOf(a, func(v ssa.Value) bool { return v == rec }):
						l = true
					case a == ssa.Value(ovP):
						o = true
					case a == total:
						t = true
					}
				}
				if l && o && t && len(at) == 3 && core.FlowsFrom(ph, map[ssa.Value]bool{bo: true}) {
					okUpd = true
				}
			}
		}
	}
	r.Check(okUpd, rule, name+" running-total", p.Pos(ap.Pos()), "the running total grows by len(record) + overhead for each record added", "the running size does not account len(record) + per-record overhead for every record added")
	// stop at the first record that does not fit: from the 'does not fit' edge the loop is left
	okStop := true
	for _, b := range tf.Blocks {
		for i := range b.Succs {
			fs := core.EdgeFacts(b, i)
			over := core.AnyFact(func(f core.Fact) bool {
				return cmpBudget(f, token.GTR)
			})(fs)
			if over && reaches(b.Succs[i], ap.Block()) {
				okStop = false
			}
		}
	}
	r.Check(okStop, rule, name+" prefix", p.Pos(ap.Pos()), "the loop stops at the first record that does not fit (the reply is a prefix of the ordered list)", "after a record that does not fit the loop goes on adding later (farther) records")
}

func sumAtoms(v ssa.Value) []ssa.Value {
	if bo, ok := v.(*ssa.BinOp); ok && bo.Op == token.ADD {
		return append(sumAtoms(bo.X), sumAtoms(bo.Y)...)
	}
	return []ssa.Value{v}
}

// selectorTable reads, from the asking side's decoder, which selector byte goes with which message type.
func selectorTable(fn *ssa.Function) map[string]int64 {
	out := map[string]int64{}
	for _, d := range fn.Blocks {
		for _, in := range d.Instrs {
			cc, ok := in.(*ssa.Call)
			if !ok || !strings.HasSuffix(core.CalleeID(cc), ").UnmarshalSSZ") {
				continue
			}
			pt, ok := cc.Call.Args[0].Type().(*types.Pointer)
			if !ok {
				continue
			}
			// the nearest dominating `x == const` fact is the switch case that selected this decoder
			for _, f := range core.DomFacts(d) {
				if f.Op != token.EQL {
					continue
				}
				if k, isC := core.ConstInt(f.Y); isC {
					out[core.TypeName(pt.Elem())] = k
					break
				}
			}
		}
	}
	return out
}

func c08(c *Ctx) {
	p, r := c.P, c.R
	r.Technique = "value-flow analysis store -> reply in the FINDCONTENT handler; writer/reader agreement of the selector table; numeric packet-budget check on folded constants; structural check of the truncation loop, of the ordering comparator and of the requester exclusion"
	r.Explanation = "Decides: (R1) the Content field of the inline reply and the argument of the uTP frame encoder in the spawned writer are the very value storage.Get returned for the requested key; each reply branch uses the selector byte the asking side's decoder associates with that message type; the connection id announced is the Send id of the connection the writer goroutine accepts on; (R2) the inline branch is taken only under len(content) <= K with K <= 1280-103-2 and the ENR budgets passed to the truncation are <= 1175 (CONTENT) and <= 1171 (NODES) with per-record overhead 4 = the SSZ offset size; the truncation loop adds a record only if total+len+overhead fits, accounts len+overhead per record and stops at the first misfit (prefix); (R3) the closer-peers list comes from the routing table - built from the bucket entries on every call, not from a list kept in a field of the table -, is sorted by LogDist(a, id) < LogDist(b, id) against the content id, the requester's record is compared against and removed before truncation; (R4) on the asking side the id dialled is the one decoded from the reply and the bytes returned are the result of the version-dependent frame decoder applied to what was read (encoder/decoder symmetry itself is C19.R2 and C15). Not decided: byte equality end to end, actual datagram sizes (the 103-byte TALKRESP framing is an assumption about the discv5 dependency taken from the repository's own itemisation), loss/reordering."
	r.Assumptions = []string{"discv5 maximum packet size 1280 and TALKRESP framing overhead 103 bytes", "SSZ list offsets are 4 bytes", "sort.Slice sorts by the comparator"}
	r.Floor("R1.value-flow", 4)
	r.Floor("R1.selectors", 3)
	r.Floor("R2.budget", 3)
	r.Floor("R2.truncation", 3)
	r.Floor("R3.order-exclusion", 3)
	r.Floor("R4.asking-side", 2)

	H := handlerFor(p, "FindContent")
	if H == nil {
		r.Fail("R1.value-flow", "FINDCONTENT handler", "-", "anchor-unresolved")
		return
	}
	hname := core.FuncName(H)
	var getCall *ssa.Call
	core.Calls(H, func(ci ssa.CallInstruction) {
		cc := ci.Common()
		if cc.IsInvoke() && cc.Method.Name() == "Get" && core.TypeName(cc.Value.Type()) == "ContentStorage" {
			getCall, _ = ci.(*ssa.Call)
		}
	})
	if getCall == nil {
		r.Fail("R1.value-flow", hname+" storage-read", p.Pos(H.Pos()), "the handler does not read the store")
		return
	}
	// the key asked for is the request's key
	{
		okKey := core.Derives(getCall.Call.Args[0], func(v ssa.Value) bool { _, f, ok := core.LoadedField(v); return ok && f == "ContentKey" }, core.DeriveOpts{})
		r.Check(okKey, "R1.value-flow", hname+" reads-requested-key", p.Pos(getCall.Pos()), "storage.Get is asked for the request's content key", "the store is read under a key other than the requested one")
	}
	isStored := func(v ssa.Value) bool {
		v = core.Unwrap(v)
		if core.ResultOf(v, getCall, 0) {
			return true
		}
		// through the captured cell `content`
		if u, ok := v.(*ssa.UnOp); ok && u.Op == token.MUL {
			if a, ok := u.X.(*ssa.Alloc); ok {
				for _, rf := range *a.Referrers() {
					if st, ok := rf.(*ssa.Store); ok && st.Addr == ssa.Value(a) && core.ResultOf(st.Val, getCall, 0) {
						return true
					}
				}
			}
		}
		return false
	}
	// inline reply
	nRaw := 0
	for _, b := range H.Blocks {
		for _, in := range b.Instrs {
			st, ok := in.(*ssa.Store)
			if !ok {
				continue
			}
			t, f, _, ok := core.FieldRef(st.Addr)
			if !ok || t != "Content" || f != "Content" {
				continue
			}
			nRaw++
			r.Check(isStored(st.Val), "R1.value-flow", hname+" inline-content", p.Pos(st.Pos()), "the inline reply carries the value storage.Get returned", "the inline reply carries something other than the stored bytes")
			// R2 inline bound
			var K int64 = -1
			g := core.AnyFact(func(fc core.Fact) bool {
				return core.CmpFact(fc, func(op token.Token, x, y ssa.Value) bool {
					k, isC := core.ConstInt(y)
					if isC && core.IsLenOf(x, isStored) && (op == token.LEQ || op == token.LSS) {
						K = k
						if op == token.LSS {
							K = k - 1
						}
						return true
					}
					return false
				})
			})
			w := core.InstrGuarded(st, g, nil)
			lim := int64(discv5MaxPacket - talkRespFraming - 2)
			r.Check(w == nil && K >= 0 && K <= lim, "R2.budget", hname+" inline-bound", p.Pos(st.Pos()),
				fmt.Sprintf("inline only under len(content) <= %d (<= 1280-103-2 = %d)", K, lim), fmt.Sprintf("content is sent inline under len(content) <= %d, which exceeds the %d bytes that fit one discv5 packet (or the bound is missing: %s)", K, lim, p.PathString(w)))
		}
	}
	if nRaw != 1 {
		r.Fail("R1.value-flow", hname+" inline-branch", p.Pos(H.Pos()), fmt.Sprintf("expected one inline reply, found %d", nRaw))
	}
	// writer goroutine
	var goi *ssa.Go
	for _, b := range H.Blocks {
		for _, in := range b.Instrs {
			if g, ok := in.(*ssa.Go); ok {
				goi = g
			}
		}
	}
	if goi == nil {
		r.Fail("R1.value-flow", hname+" stream-branch", p.Pos(H.Pos()), "no writer goroutine for content that does not fit inline")
	} else {
		cf := core.StaticCalleeFn(goi)
		okEnc, okWrite, okAcc := false, false, false
		var encRes ssa.Value
		core.Calls(cf, func(ci ssa.CallInstruction) {
			f := core.StaticCalleeFn(ci)
			if f != nil && core.InModule(f) && (f.Signature.Results().Len() == 2 || f.Signature.Results().Len() == 1) && framesForVersion(f, lebEncode32) {
				a := ci.Common().Args
				data := a[len(a)-1]
				// handed to the goroutine as an argument: the parameter's actual is storage.Get's result
				if pa := core.ParamOf(data); pa != nil && pa.Parent() == cf {
					for pi, q := range cf.Params {
						if q == pa && pi < len(goi.Call.Args) && isResultThroughCell(goi.Call.Args[pi], getCall) {
							okEnc = true
						}
					}
				}
				// the captured content cell (a free variable of the closure bound to the cell holding storage.Get's result)
				if u, ok := data.(*ssa.UnOp); ok {
					if fv, ok := u.X.(*ssa.FreeVar); ok {
						if mc, ok := goi.Call.Value.(*ssa.MakeClosure); ok {
							for bi, bnd := range mc.Bindings {
								if cf.FreeVars[bi] == fv {
									if al, ok := bnd.(*ssa.Alloc); ok {
										for _, rf := range *al.Referrers() {
											if st, ok := rf.(*ssa.Store); ok && st.Addr == ssa.Value(al) && core.ResultOf(st.Val, getCall, 0) {
												okEnc = true
											}
										}
									}
								}
							}
						}
					}
				}
				if call, ok := ci.(*ssa.Call); ok {
					if f.Signature.Results().Len() == 1 {
						// the framing function called directly (the version dispatch is written out here)
						encRes = call
					}
					for _, rf := range *call.Referrers() {
						if ex, ok := rf.(*ssa.Extract); ok && ex.Index == 0 {
							encRes = ex
						}
					}
				}
			}
		})
		core.Calls(cf, func(ci ssa.CallInstruction) {
			id := core.CalleeID(ci)
			if strings.HasSuffix(id, "utp-go.(*UtpStream).Write") {
				a := ci.Common().Args
				d := a[len(a)-1]
				// what is written is what the encoder returned (through the captured cell)
				if encRes != nil {
					if u, ok := d.(*ssa.UnOp); ok {
						for _, b := range cf.Blocks {
							for _, in := range b.Instrs {
								if st, ok := in.(*ssa.Store); ok && st.Addr == u.X && st.Val == encRes {
									okWrite = true
								}
							}
						}
					}
					if d == encRes {
						okWrite = true
					}
				}
			}
			if strings.HasSuffix(id, utpAcceptWithCid) {
				okAcc = true
			}
		})
		r.Check(okEnc, "R1.value-flow", hname+" stream-encodes-stored", p.Pos(goi.Pos()), "the frame encoder is applied to the value storage.Get returned", "the uTP writer encodes something other than the stored bytes")
		r.Check(okWrite, "R1.value-flow", hname+" stream-writes-encoded", p.Pos(goi.Pos()), "the stream writes exactly the encoder's result", "the uTP writer sends bytes other than the encoder's result")
		// announced id
		okID := false
		core.Calls(H, func(ci ssa.CallInstruction) {
			if strings.HasSuffix(core.CalleeID(ci), ".PutUint16") || strings.HasSuffix(core.CalleeID(ci), ".AppendUint16") {
				a := ci.Common().Args
				v := a[len(a)-1]
				if _, f, ok := core.LoadedField(v); ok && f == "Send" {
					base := v.(*ssa.UnOp).X.(*ssa.FieldAddr).X
					for _, ga := range goi.Call.Args {
						if core.SameValue(ga, base) {
							okID = true
						}
					}
					if mc, ok := goi.Call.Value.(*ssa.MakeClosure); ok {
						for _, bnd := range mc.Bindings {
							if core.SameValue(bnd, base) || bnd == cellOfValue(base) {
								okID = true
							}
						}
					}
				}
			}
		})
		r.Check(okID && okAcc, "R1.value-flow", hname+" announced-id", p.Pos(goi.Pos()), "the reply announces the Send id of the connection the writer accepts on", "the connection id announced is not the one the writer goroutine accepts on")
	}
	// selectors
	var decoder *ssa.Function
	for _, fn := range p.ModuleFuncs() {
		if fn.Pkg == p.SSAPkg("portalwire") && fn.Signature.Results().Len() == 3 && len(core.CallsTo(fn, core.ModPath+"/portalwire.(*Enrs).UnmarshalSSZ")) > 0 {
			decoder = fn
		}
	}
	if decoder == nil {
		r.Fail("R1.selectors", "asking-side decoder", "-", "anchor-unresolved: the CONTENT reply decoder")
	} else {
		table := selectorTable(decoder)
		for _, b := range H.Blocks {
			for _, in := range b.Instrs {
				mc, ok := in.(*ssa.Call)
				if !ok || !strings.HasSuffix(core.CalleeID(mc), ").MarshalSSZ") {
					continue
				}
				pt, ok := mc.Call.Args[0].Type().(*types.Pointer)
				if !ok {
					continue
				}
				tn := core.TypeName(pt.Elem())
				want, known := table[tn]
				// find append(X, bytes...) where bytes is this call's result; X = append(make, selector)
				var got int64 = -1
				for _, b2 := range H.Blocks {
					for _, in2 := range b2.Instrs {
						ap, ok := in2.(*ssa.Call)
						if !ok || core.CalleeID(ap) != "builtin.append" {
							continue
						}
						if !isResultThroughCell(ap.Call.Args[1], mc) {
							continue
						}
						if prev, ok := ap.Call.Args[0].(*ssa.Call); ok && core.CalleeID(prev) == "builtin.append" {
							// the selector is the byte right before the payload: the only element
							// appended, or the last of (message code, selector) appended together
							el := core.VariadicElems(prev.Call.Args[1])
							if len(el) == 1 || len(el) == 2 {
								if k, isC := core.ConstInt(el[len(el)-1]); isC {
									got = k
								}
							}
						}
					}
				}
				r.Check(known && got == want, "R1.selectors", hname+" selector-of "+tn, p.Pos(mc.Pos()),
					fmt.Sprintf("selector %d, as the asking side decodes it", got), fmt.Sprintf("the %s payload is sent under selector %d but the asking side decodes %s under %d", tn, got, tn, want))
			}
		}
	}

	// ---- R2 ENR budget + truncation
	tf, tc := truncatorOf(H)
	if tf == nil {
		r.Fail("R2.truncation", hname+" truncation", p.Pos(H.Pos()), "the closer-peers reply is not truncated to a byte budget")
	} else {
		mx, c1 := core.ConstInt(tc.Call.Args[len(tc.Call.Args)-2])
		ov, c2 := core.ConstInt(tc.Call.Args[len(tc.Call.Args)-1])
		lim := int64(discv5MaxPacket - talkRespFraming - 2)
		r.Check(c1 && mx <= lim && mx > 0, "R2.budget", hname+" enr-budget", p.Pos(tc.Pos()), fmt.Sprintf("ENR budget %d <= %d", mx, lim), fmt.Sprintf("the ENR list budget is %d, more than the %d bytes that fit one packet after message id and selector", mx, lim))
		r.Check(c2 && ov == 4, "R2.budget", hname+" per-enr-overhead", p.Pos(tc.Pos()), "per-record overhead 4 = SSZ offset size", fmt.Sprintf("per-record overhead is %d, SSZ list offsets take 4 bytes", ov))
		checkTruncator(c, "R2.truncation", tf)
		// the package constants
		if v, ok := p.PkgConstInt("portalwire", "maxPacketSize"); ok {
			r.Check(v <= discv5MaxPacket, "R2.budget", "maxPacketSize", "-", fmt.Sprintf("= %d", v), fmt.Sprintf("maxPacketSize is %d, discv5 packets are at most 1280 bytes", v))
		}
		if v, ok := p.PkgConstInt("portalwire", "talkRespOverhead"); ok {
			r.Check(v >= talkRespFraming, "R2.budget", "talkRespOverhead", "-", fmt.Sprintf("= %d", v), fmt.Sprintf("talkRespOverhead is %d, the TALKRESP framing takes %d bytes", v, talkRespFraming))
		}
	}

	// ---- R3 order / exclusion
	var candCall *ssa.Call
	core.Calls(H, func(ci ssa.CallInstruction) {
		f := core.StaticCalleeFn(ci)
		if f == nil || !core.InModule(f) {
			return
		}
		rs := f.Signature.Results()
		if rs.Len() == 1 && strings.HasSuffix(rs.At(0).Type().String(), "]*github.com/ethereum/go-ethereum/p2p/enode.Node") && f != tf {
			candCall, _ = ci.(*ssa.Call)
		}
	})
	if candCall == nil {
		r.Fail("R3.order-exclusion", hname+" candidates", p.Pos(H.Pos()), "closer-peers query not found")
	} else {
		// the closer-peers answer is given only when the store reported not-found: a held key
		// (whatever its value, the empty value included) is answered with its content
		notFound := core.AnyFact(func(f core.Fact) bool {
			if f.Op != token.ILLEGAL || !f.Truth {
				return false
			}
			cc, ok := f.V.(*ssa.Call)
			if !ok || core.CalleeID(cc) != "errors.Is" || len(cc.Call.Args) != 2 {
				return false
			}
			g, isG := core.Unwrap(cc.Call.Args[1]).(*ssa.UnOp)
			if !isG {
				return false
			}
			gl, isGl := g.X.(*ssa.Global)
			return isGl && strings.Contains(gl.Name(), "NotFound")
		})
		wnf := core.InstrGuarded(candCall, notFound, nil)
		r.Check(wnf == nil, "R1.value-flow", hname+" peers-only-when-not-found", p.Pos(candCall.Pos()), "the closer-peers reply is built only on the store's not-found error", "a held key can be answered with closer peers instead of its stored bytes (the not-found branch is reachable without the store's not-found error): "+p.PathString(wnf))
		cf := core.StaticCalleeFn(candCall)
		cname := core.FuncName(cf)
		// from the routing table
		fromTable := false
		core.Calls(cf, func(ci ssa.CallInstruction) {
			if f := core.StaticCalleeFn(ci); f != nil && f.Signature.Recv() != nil && core.TypeName(f.Signature.Recv().Type()) == "Table" {
				fromTable = true
			}
		})
		r.Check(fromTable, "R3.order-exclusion", cname+" source", p.Pos(cf.Pos()), "candidates are read from the routing table", "the closer-peers list does not come from the routing table")
		// ... as it is now: the table function that hands out the records builds its list from the
		// bucket entries on every call; a list kept in a field of the table (a cache) keeps records
		// that were replaced in place since it was built
		core.Calls(cf, func(ci ssa.CallInstruction) {
			tf := core.StaticCalleeFn(ci)
			if tf == nil || tf.Signature.Recv() == nil || core.TypeName(tf.Signature.Recv().Type()) != "Table" || tf.Signature.Results().Len() != 1 {
				return
			}
			if !strings.HasSuffix(tf.Signature.Results().At(0).Type().String(), "enode.Node") {
				return
			}
			stale := ""
			for _, ret := range core.Returns(tf) {
				for _, leaf := range listLeaves(core.ResolveSpill(ret.Results[0])) {
					if t, f, ok := core.LoadedField(leaf); ok && t == "Table" && f != "buckets" {
						stale = t + "." + f
					}
				}
			}
			r.Check(stale == "", "R3.order-exclusion", core.FuncName(tf)+" reads-current-entries", p.Pos(tf.Pos()), "the list is built from the bucket entries on every call", "the records handed out come from "+stale+", a list kept across calls: a record replaced in place (newer ENR of a known node) is still answered in its old version, which is no longer in the routing table")
		})
		// comparator
		okCmp := false
		detail := "no sort by log-distance to the content id"
		core.Calls(cf, func(ci ssa.CallInstruction) {
			if core.CalleeID(ci) != "sort.Slice" && core.CalleeID(ci) != "sort.SliceStable" {
				return
			}
			mc, ok := ci.Common().Args[1].(*ssa.MakeClosure)
			if !ok {
				return
			}
			less := mc.Fn.(*ssa.Function)
			for _, ret := range core.Returns(less) {
				bo, ok := ret.Results[0].(*ssa.BinOp)
				if !ok {
					continue
				}
				cx, okx := bo.X.(*ssa.Call)
				cy, oky := bo.Y.(*ssa.Call)
				if okx && oky && core.CalleeID(cx) != enodeLogDist && core.CalleeID(cy) != enodeLogDist {
					// both sides call one local helper `func(n) int { return LogDist(n.ID(), target) }`
					// (a closure kept in a local, possibly captured by the comparator)
					hx, hy := localFuncOf(cx), localFuncOf(cy)
					if hx != nil && hx == hy && len(hx.Params) == 1 {
						rets := core.Returns(hx)
						if len(rets) == 1 {
							if lc, ok := rets[0].Results[0].(*ssa.Call); ok && core.CalleeID(lc) == enodeLogDist &&
								core.Derives(lc.Call.Args[0], func(v ssa.Value) bool { return v == ssa.Value(hx.Params[0]) }, core.DeriveOpts{ThroughCalls: true}) &&
								!core.Derives(lc.Call.Args[1], func(v ssa.Value) bool { return v == ssa.Value(hx.Params[0]) }, core.DeriveOpts{ThroughCalls: true}) {
								idxOfArg := func(call *ssa.Call) ssa.Value {
									var idx ssa.Value
									core.Derives(call.Call.Args[len(call.Call.Args)-1], func(v ssa.Value) bool {
										if ia, ok := v.(*ssa.IndexAddr); ok {
											idx = ia.Index
										}
										return false
									}, core.DeriveOpts{})
									return idx
								}
								ix, iy := idxOfArg(cx), idxOfArg(cy)
								i0, j0 := ssa.Value(less.Params[0]), ssa.Value(less.Params[1])
								if (bo.Op == token.LSS && ix == i0 && iy == j0) || (bo.Op == token.GTR && ix == j0 && iy == i0) {
									okCmp = true
								}
							}
						}
					}
					continue
				}
				if !okx || !oky || core.CalleeID(cx) != enodeLogDist || core.CalleeID(cy) != enodeLogDist {
					continue
				}
				idxOf := func(call *ssa.Call) ssa.Value {
					var idx ssa.Value
					core.Derives(call.Call.Args[0], func(v ssa.Value) bool {
						if ia, ok := v.(*ssa.IndexAddr); ok {
							idx = ia.Index
						}
						return false
					}, core.DeriveOpts{ThroughCalls: true})
					return idx
				}
				ix, iy := idxOf(cx), idxOf(cy)
				i0, j0 := ssa.Value(less.Params[0]), ssa.Value(less.Params[1])
				asc := (bo.Op == token.LSS && ix == i0 && iy == j0) || (bo.Op == token.GTR && ix == j0 && iy == i0)
				sameTarget := core.SameExpr(core.Unwrap(cx.Call.Args[1]), core.Unwrap(cy.Call.Args[1])) || core.AccessPath(cx.Call.Args[1]) == core.AccessPath(cy.Call.Args[1]) || bothFromFreeVar(cx.Call.Args[1], cy.Call.Args[1])
				if asc && sameTarget {
					okCmp = true
				} else {
					detail = "the comparator does not order by ascending log-distance of element i vs element j to one target"
				}
			}
		})
		// library form: slices.SortFunc(list, func(a, b) int { return cmp.Compare(LogDist(a, t), LogDist(b, t)) })
		core.Calls(cf, func(ci ssa.CallInstruction) {
			if id := core.CalleeID(ci); id != "slices.SortFunc" && id != "slices.SortStableFunc" {
				return
			}
			mc, ok := ci.Common().Args[1].(*ssa.MakeClosure)
			if !ok {
				return
			}
			cmpf := mc.Fn.(*ssa.Function)
			if len(cmpf.Params) != 2 {
				return
			}
			okAll := len(core.Returns(cmpf)) > 0
			for _, ret := range core.Returns(cmpf) {
				var x, y ssa.Value
				switch v := ret.Results[0].(type) {
				case *ssa.Call:
					if core.CalleeID(v) == "cmp.Compare" && len(v.Call.Args) == 2 {
						x, y = v.Call.Args[0], v.Call.Args[1]
					}
				case *ssa.BinOp:
					if v.Op == token.SUB {
						x, y = v.X, v.Y
					}
				}
				cx, okx := x.(*ssa.Call)
				cy, oky := y.(*ssa.Call)
				if !okx || !oky || core.CalleeID(cx) != enodeLogDist || core.CalleeID(cy) != enodeLogDist {
					okAll = false
					continue
				}
				of := func(call *ssa.Call, pa *ssa.Parameter) bool {
					return core.Derives(call.Call.Args[0], func(v ssa.Value) bool { return v == ssa.Value(pa) }, core.DeriveOpts{ThroughCalls: true})
				}
				sameTarget := core.SameExpr(core.Unwrap(cx.Call.Args[1]), core.Unwrap(cy.Call.Args[1])) || core.AccessPath(cx.Call.Args[1]) == core.AccessPath(cy.Call.Args[1]) || bothFromFreeVar(cx.Call.Args[1], cy.Call.Args[1])
				if !(of(cx, cmpf.Params[0]) && of(cy, cmpf.Params[1]) && !of(cx, cmpf.Params[1]) && !of(cy, cmpf.Params[0]) && sameTarget) {
					okAll = false
					detail = "the comparator does not order by ascending log-distance of its first vs its second argument to one target"
				}
			}
			if okAll {
				okCmp = true
			}
		})
		r.Check(okCmp, "R3.order-exclusion", cname+" comparator", p.Pos(cf.Pos()), "sorted by LogDist(node[i], id) < LogDist(node[j], id)", detail)
		wUnsorted := unsortedReturn(cf)
		r.Check(wUnsorted == nil, "R3.order-exclusion", cname+" sorted-on-every-return", p.Pos(cf.Pos()), "every non-nil list returned passed the sort", "a list can be returned without having been sorted (callers take its head as 'the closest'): "+p.PathString(wUnsorted))
		// requester exclusion before truncation
		req := H.Params[1]
		sameID := core.AnyFact(func(f core.Fact) bool {
			if f.Op != token.EQL {
				return false
			}
			isID := func(v ssa.Value, ofReq bool) bool {
				cc, ok := v.(*ssa.Call)
				if !ok || core.CalleeID(cc) != enodeID {
					return false
				}
				return core.SameValue(cc.Call.Args[0], req) == ofReq
			}
			return (isID(f.X, true) && isID(f.Y, false)) || (isID(f.Y, true) && isID(f.X, false))
		})
		var removal *ssa.Call
		for _, b := range H.Blocks {
			for _, in := range b.Instrs {
				ap, ok := in.(*ssa.Call)
				if !ok || core.CalleeID(ap) != "builtin.append" {
					continue
				}
				s0, ok0 := ap.Call.Args[0].(*ssa.Slice)
				s1, ok1 := ap.Call.Args[1].(*ssa.Slice)
				if ok0 && ok1 && s0.Low == nil && s0.High != nil && s1.High == nil {
					if bo, ok := s1.Low.(*ssa.BinOp); ok && bo.Op == token.ADD && bo.X == s0.High {
						if k, isC := core.ConstInt(bo.Y); isC && k == 1 {
							removal = ap
						}
					}
				}
			}
		}
		// library form of the cut: slices.Delete(list, i, i+1)
		var remIdx, remList ssa.Value
		if removal == nil {
			core.Calls(H, func(ci ssa.CallInstruction) {
				cc, ok := ci.(*ssa.Call)
				if !ok || core.CalleeID(cc) != "slices.Delete" || len(cc.Call.Args) != 3 {
					return
				}
				if bo, ok := cc.Call.Args[2].(*ssa.BinOp); ok && bo.Op == token.ADD && bo.X == cc.Call.Args[1] {
					if k, isC := core.ConstInt(bo.Y); isC && k == 1 {
						removal, remIdx, remList = cc, cc.Call.Args[1], cc.Call.Args[0]
					}
				}
			})
		} else if s0, ok := removal.Call.Args[0].(*ssa.Slice); ok {
			remIdx, remList = s0.High, s0.X
		}
		okRem := removal != nil && core.InstrGuarded(removal, sameID, nil) == nil
		if removal != nil && !okRem {
			// index form: i := slices.IndexFunc(list, func(x) bool { return x.ID() == requester.ID() }); if i >= 0 { cut list[i] }
			if ic, ok := core.Unwrap(remIdx).(*ssa.Call); ok && core.CalleeID(ic) == "slices.IndexFunc" && len(ic.Call.Args) == 2 {
				if mc, ok := ic.Call.Args[1].(*ssa.MakeClosure); ok {
					pred := mc.Fn.(*ssa.Function)
					okPred := len(core.Returns(pred)) > 0
					for _, ret := range core.Returns(pred) {
						bo, isBo := ret.Results[0].(*ssa.BinOp)
						if !isBo || bo.Op != token.EQL {
							okPred = false
							continue
						}
						isIDof := func(v ssa.Value, wantReq bool) bool {
							cc, ok := v.(*ssa.Call)
							if !ok || core.CalleeID(cc) != enodeID {
								return false
							}
							isReq := core.AccessPath(cc.Call.Args[0]) == core.AccessPath(req)
							return isReq == wantReq
						}
						if !((isIDof(bo.X, true) && isIDof(bo.Y, false)) || (isIDof(bo.Y, true) && isIDof(bo.X, false))) {
							okPred = false
						}
					}
					nonNeg := core.AnyFact(func(f core.Fact) bool {
						return core.CmpFact(f, func(op token.Token, a, c ssa.Value) bool {
							k, isC := core.ConstInt(c)
							return a == ssa.Value(ic) && isC && ((op == token.GEQ && k == 0) || (op == token.GTR && k == -1) || (op == token.NEQ && k == -1))
						})
					})
					if okPred && ic.Call.Args[0] == remList && core.InstrGuarded(removal, nonNeg, nil) == nil {
						okRem = true
					}
				}
			}
		}
		r.Check(okRem, "R3.order-exclusion", hname+" requester-removed", p.Pos(H.Pos()), "the element whose id equals the requester's is cut out of the list", "the requester's own record is not removed from the closer-peers list")
		if removal != nil && tc != nil {
			// what is truncated is the list after removal (phi containing the removal result)
			okFlow := core.FlowsFrom(tc.Call.Args[len(tc.Call.Args)-3], map[ssa.Value]bool{removal: true})
			r.Check(okFlow, "R3.order-exclusion", hname+" exclusion-before-truncation", p.Pos(tc.Pos()), "the truncated list is the one the requester was removed from", "truncation is applied to a list that still contains the requester")
		}
	}

	// ---- R4 both ends of a transfer must settle on the same version: the version is a symmetric
	// function (the maximum of the intersection) of the two advertised lists
	checkHighestCommon(c, "R4.symmetric-version", highestCommonFn(p))

	// ---- R4 asking side
	if decoder != nil {
		dname := core.FuncName(decoder)
		okDial, okRet := false, false
		core.Calls(decoder, func(ci ssa.CallInstruction) {
			if strings.HasSuffix(core.CalleeID(ci), "(*UtpTransportService).DialWithCid") {
				a := ci.Common().Args
				if cc, ok := a[len(a)-1].(*ssa.Call); ok && strings.HasSuffix(core.CalleeID(cc), ".Uint16") {
					if core.Derives(cc.Call.Args[len(cc.Call.Args)-1], func(v ssa.Value) bool { t, f, ok := core.LoadedField(v); return ok && t == "ConnectionId" && f == "Id" }, core.DeriveOpts{}) {
						okDial = true
					}
				}
			}
		})
		for _, ret := range core.Returns(decoder) {
			v := core.ResolveSpill(ret.Results[1])
			if core.Derives(v, func(x ssa.Value) bool {
				ex, ok := x.(*ssa.Extract)
				if !ok || ex.Index != 0 {
					return false
				}
				cc, ok := ex.Tuple.(*ssa.Call)
				f := core.StaticCalleeFn(cc)
				return ok && f != nil && framesForVersion(f, lebDecode32)
			}, core.DeriveOpts{}) {
				okRet = true
			}
		}
		r.Check(okDial, "R4.asking-side", dname+" dials-announced-id", p.Pos(decoder.Pos()), "dials the connection id decoded from the reply", "the asker dials a connection id other than the one in the reply")
		r.Check(okRet, "R4.asking-side", dname+" returns-decoded-stream", p.Pos(decoder.Pos()), "returns the frame decoder's result for the bytes read", "the asker returns stream bytes without passing them through the version-dependent frame decoder")
	}
	errorsExamined(c, "R5.errors-examined", "FINDCONTENT paths", []string{"portalwire"}, ".handleFindContent", ".processContent", ".findContent", ".encodeUtpContent", ".decodeUtpContent", ".truncateNodes", ".findNodesCloseToContent")
}

func bothFromFreeVar(a, b ssa.Value) bool {
	fv := func(v ssa.Value) *ssa.FreeVar {
		var out *ssa.FreeVar
		core.Derives(v, func(x ssa.Value) bool {
			if f, ok := x.(*ssa.FreeVar); ok {
				out = f
			}
			return false
		}, core.DeriveOpts{})
		return out
	}
	fa, fb := fv(a), fv(b)
	return fa != nil && fa == fb
}

// framesForVersion: f (or a function it calls) uses the given LEB128 codec function.
func framesForVersion(f *ssa.Function, codec string) bool {
	// the standard library's uvarint is the same encoding as unsigned LEB128
	alts := []string{codec}
	if strings.HasSuffix(codec, "leb128.EncodeUint32") {
		alts = append(alts, "encoding/binary.AppendUvarint", "encoding/binary.PutUvarint")
	}
	if strings.HasSuffix(codec, "leb128.DecodeUint32") {
		alts = append(alts, "encoding/binary.Uvarint")
	}
	return core.ReachesInstr(f, 2, func(in ssa.Instruction) bool {
		for _, a := range alts {
			if core.IsCallTo(in, a) {
				return true
			}
		}
		return false
	})
}

// isResultThroughCell: v is call's result #0, directly or via a captured/spilled cell.
func isResultThroughCell(v ssa.Value, call *ssa.Call) bool {
	if core.ResultOf(v, call, 0) {
		return true
	}
	if u, ok := v.(*ssa.UnOp); ok && u.Op == token.MUL {
		if a, ok := u.X.(*ssa.Alloc); ok {
			for _, rf := range *a.Referrers() {
				if st, ok := rf.(*ssa.Store); ok && st.Addr == ssa.Value(a) && core.ResultOf(st.Val, call, 0) {
					return true
				}
			}
		}
	}
	return false
}

// ============================================================================ C11

func c11(c *Ctx) {
	p, r := c.P, c.R
	r.Technique = "must-pass-through (cut) checks of every filter on the replying and on the asking side with operator/constant requirements; numeric budget check on folded constants; agreement of the count limit with the SSZ list limit read from the struct tag"
	r.Explanation = "Decides presence, polarity and constants of every filter the statement names. Replying side: (R1a) a distance is looked up only if it is <= 256 and not a repeat; (R1b) distance 0 yields the local record and other distances read bucket entries only under !checkLive || isValidatedLive with checkLive = !NoFindnodeLivenessCheck; (R1c) every record that enters the reply list - bucket entries AND the local record - passed CheckRelayIP(asker, record) == nil; (R1d) the count limit is 32, equals the SSZ maximum of Nodes.Enrs, and collection stops at it; (R1e) the byte budget passed to the truncation is <= 1280-103-6 = 1171 with per-record overhead 4 and the truncation loop is sound (shared with C08.R2). Asking side: (R2) a record is returned with nil error only after enode.New (signature), CheckRelayIP(sender, record), UDP port > 1024, log-distance membership when distances were requested (bypass only on distances == nil), and the not-seen test followed by marking it seen; only nil-error records are appended to the result. The liveness flag the bucket reader trusts is cleared on every change of an entry's ip or port (shared with C18.R4). Not decided: sizes of actual datagrams, the ENR signature scheme itself."
	r.Assumptions = []string{"netutil.CheckRelayIP implements the relay-address rule", "enode.New verifies the record signature", "discv5 packet 1280 bytes, TALKRESP framing 103 bytes"}
	r.Floor("R1.distance-filter", 2)
	r.Floor("R1.bucket-read", 3)
	r.Floor("R1.relay-check", 1)
	r.Floor("R1.count-limit", 3)
	r.Floor("R1.byte-budget", 2)
	r.Floor("R2.accept-record", 6)
	r.Floor("R2.only-verified-appended", 1)

	H := handlerFor(p, "FindNodes")
	if H == nil {
		r.Fail("R1.distance-filter", "FINDNODES handler", "-", "anchor-unresolved")
		return
	}
	hname := core.FuncName(H)
	// collector
	isBucketReader := func(f *ssa.Function) bool {
		if f == nil || f.Signature.Recv() == nil || core.TypeName(f.Signature.Recv().Type()) != "Table" {
			return false
		}
		rs := f.Signature.Results()
		return rs.Len() == 1 && strings.HasSuffix(rs.At(0).Type().String(), "]*github.com/ethereum/go-ethereum/p2p/enode.Node") && f.Signature.Params().Len() >= 2
	}
	var coll *ssa.Function
	var collCall *ssa.Call
	tf, tc := truncatorOf(H)
	core.Calls(H, func(ci ssa.CallInstruction) {
		f := core.StaticCalleeFn(ci)
		if f == nil || !core.InModule(f) || f == tf || isBucketReader(f) {
			return
		}
		rs := f.Signature.Results()
		if rs.Len() == 1 && strings.HasSuffix(rs.At(0).Type().String(), "]*github.com/ethereum/go-ethereum/p2p/enode.Node") {
			coll = f
			collCall, _ = ci.(*ssa.Call)
		}
	})
	inl := false // the collection loop written out in the handler itself
	if coll == nil {
		core.Calls(H, func(ci ssa.CallInstruction) {
			if isBucketReader(core.StaticCalleeFn(ci)) && core.InLoop(ci.Block()) {
				coll, inl = H, true
			}
		})
	}
	if coll == nil {
		r.Fail("R1.distance-filter", hname+" collector", p.Pos(H.Pos()), "anchor-unresolved: the function collecting table nodes for the reply")
		return
	}
	cname := core.FuncName(coll)
	// bucket reader: Table method called by the collector with (dist, ..)
	var reader *ssa.Function
	var readCall *ssa.Call
	core.Calls(coll, func(ci ssa.CallInstruction) {
		f := core.StaticCalleeFn(ci)
		if f != nil && f.Signature.Recv() != nil && core.TypeName(f.Signature.Recv().Type()) == "Table" && (!inl || isBucketReader(f)) {
			reader = f
			readCall, _ = ci.(*ssa.Call)
		}
	})
	if reader == nil {
		r.Fail("R1.bucket-read", cname+" table-access", p.Pos(coll.Pos()), "the collector does not read the routing table")
		return
	}
	dist := readCall.Call.Args[1]
	// R1a
	le256 := core.AnyFact(func(f core.Fact) bool {
		return core.CmpFact(f, func(op token.Token, x, y ssa.Value) bool {
			k, isC := core.ConstInt(y)
			return isC && x == dist && ((op == token.LEQ && k == 256) || (op == token.LSS && k == 257))
		})
	})
	w := core.InstrGuarded(readCall, le256, nil)
	r.Check(w == nil, "R1.distance-filter", cname+" distance<=256", p.Pos(readCall.Pos()), "the table is read only for distances <= 256", "an invalid distance (> 256) reaches the table lookup: "+p.PathString(w))
	var seenSet ssa.Value
	notSeen := core.AnyFact(func(f core.Fact) bool {
		set, key, ok := core.SetAbsent(f)
		if ok && key == dist {
			seenSet = set
		}
		return ok && key == dist
	})
	w = core.InstrGuarded(readCall, notSeen, nil)
	marks := false
	for _, b := range coll.Blocks {
		for _, in := range b.Instrs {
			if set, key, ok := core.SetAdd(in); ok && key == dist && (seenSet == nil || set == seenSet || core.AccessPath(set) == core.AccessPath(seenSet)) {
				marks = true
			}
		}
	}
	r.Check(w == nil && marks, "R1.distance-filter", cname+" no-repeat", p.Pos(readCall.Pos()), "a distance is served once (seen-set tested and updated)", "a repeated distance is served again: "+p.PathString(w))

	// R1b in the reader
	rname := core.FuncName(reader)
	{
		// distance 0 => local record
		zero := core.AnyFact(func(f core.Fact) bool {
			return core.CmpFact(f, func(op token.Token, x, y ssa.Value) bool {
				k, isC := core.ConstInt(y)
				_, isP := x.(*ssa.Parameter)
				return isC && isP && op == token.EQL && k == 0
			})
		})
		okSelf := false
		for _, ret := range core.Returns(reader) {
			ap, ok := ret.Results[0].(*ssa.Call)
			if !ok || core.CalleeID(ap) != "builtin.append" {
				continue
			}
			el := core.VariadicElems(ap.Call.Args[1])
			if len(el) == 1 {
				if cc, ok := el[0].(*ssa.Call); ok && (strings.HasSuffix(core.CalleeID(cc), ").self") || strings.HasSuffix(core.CalleeID(cc), ".Self")) {
					if core.InstrGuarded(ret, zero, nil) == nil {
						okSelf = true
					}
				}
			}
		}
		r.Check(okSelf, "R1.bucket-read", rname+" distance-0", p.Pos(reader.Pos()), "distance 0 yields the local record", "distance 0 no longer yields exactly the local record")
		// entries under !checkLive || isValidatedLive
		nApp := 0
		for _, b := range reader.Blocks {
			for _, in := range b.Instrs {
				ap, ok := in.(*ssa.Call)
				if !ok || core.CalleeID(ap) != "builtin.append" {
					continue
				}
				el := core.VariadicElems(ap.Call.Args[1])
				if len(el) != 1 {
					continue
				}
				if _, f, ok := core.LoadedField(el[0]); !ok || f != "Node" {
					continue
				}
				nApp++
				live := core.AnyFact(func(f core.Fact) bool {
					if f.Op != token.ILLEGAL {
						return false
					}
					if pa, ok := f.V.(*ssa.Parameter); ok && pa.Type().String() == "bool" && !f.Truth {
						return true
					}
					if _, fld, ok := core.LoadedField(f.V); ok && fld == "isValidatedLive" && f.Truth {
						return true
					}
					return false
				})
				w := core.InstrGuarded(ap, live, nil)
				r.Check(w == nil, "R1.bucket-read", rname+" liveness-filter", p.Pos(ap.Pos()), "an entry is offered only if liveness checking is off or it is validated live", "an entry that never passed a liveness check can be offered: "+p.PathString(w))
			}
		}
		if nApp == 0 {
			r.Fail("R1.bucket-read", rname+" entries", p.Pos(reader.Pos()), "no bucket entries are appended")
		}
		// checkLive operand at the call site = !cfg.NoFindnodeLivenessCheck
		cl := readCall.Call.Args[len(readCall.Call.Args)-1]
		okCL := false
		if u, ok := cl.(*ssa.UnOp); ok && u.Op == token.NOT {
			if _, f, ok := core.LoadedField(u.X); ok && f == "NoFindnodeLivenessCheck" {
				okCL = true
			}
		}
		r.Check(okCL, "R1.bucket-read", cname+" checkLive-operand", p.Pos(readCall.Pos()), "checkLive = !NoFindnodeLivenessCheck", "the liveness requirement passed to the table is not the negated configuration flag")
		// "liveness-checked" is about the endpoint that is offered: the flag the reader trusts must
		// not survive a change of the entry's ip or port (shared with C18.R4)
		tm := newTableModel(c)
		for _, w := range tm.nodeW {
			if !w.Init {
				endpointChangeClears(c, tm, w, "R1.bucket-read", tm.key(w, "record-replaced"))
			}
		}
	}

	// R1c relay check: every value that can end up in the collector's result passed CheckRelayIP
	{
		nApp := 0
		for _, b := range coll.Blocks {
			for _, in := range b.Instrs {
				ap, ok := in.(*ssa.Call)
				if !ok || core.CalleeID(ap) != "builtin.append" || !strings.HasSuffix(ap.Type().String(), "enode.Node") {
					continue
				}
				el := core.VariadicElems(ap.Call.Args[1])
				if len(el) != 1 {
					continue
				}
				nApp++
				node := el[0]
				relay := core.AnyFact(func(f core.Fact) bool {
					if f.Op != token.EQL {
						return false
					}
					is := func(v ssa.Value) bool {
						cc, ok := v.(*ssa.Call)
						if !ok || !isRelayCheck(core.CalleeID(cc)) {
							return false
						}
						fromAsker := false
						if pa := core.ParamOf(cc.Call.Args[0]); pa != nil && pa.Parent() == coll {
							fromAsker = true
						} else if core.CalleeID(cc) == netutilCheckRelayAddr {
							// the asker's net.IP converted to a netip.Addr
							fromAsker = core.Derives(cc.Call.Args[0], func(x ssa.Value) bool {
								pa := core.ParamOf(x)
								return pa != nil && pa.Parent() == coll && strings.HasSuffix(pa.Type().String(), "IP")
							}, core.DeriveOpts{ThroughCalls: true})
						}
						if inl {
							// the asker's address is a parameter of the handler (its IP field)
							fromAsker = core.Derives(cc.Call.Args[0], func(x ssa.Value) bool {
								pa, ok := x.(*ssa.Parameter)
								return ok && pa.Parent() == coll && strings.Contains(pa.Type().String(), "Addr")
							}, core.DeriveOpts{})
						}
						ofNode := core.Derives(cc.Call.Args[1], func(x ssa.Value) bool { return x == node }, core.DeriveOpts{ThroughCalls: true})
						return fromAsker && ofNode
					}
					return (is(f.X) && core.IsNilConst(f.Y)) || (is(f.Y) && core.IsNilConst(f.X))
				})
				w := core.InstrGuarded(ap, relay, nil)
				r.Check(w == nil, "R1.relay-check", fmt.Sprintf("%s reply-append #%d", cname, nApp), p.Pos(ap.Pos()), "a record enters the reply only after CheckRelayIP(asker, record) == nil", "a record can enter the reply without the relay-address check: "+p.PathString(w))
			}
		}
		// the result must be built from those appends only: every return value is nil, the accumulator phi or an append checked above
		okRes := true
		var resVals []ssa.Value
		if inl {
			if tc != nil {
				resVals = append(resVals, tc.Call.Args[len(tc.Call.Args)-3])
			} else {
				okRes = false
			}
		} else {
			for _, ret := range core.Returns(coll) {
				resVals = append(resVals, ret.Results[0])
			}
		}
		for _, v := range resVals {
			if core.IsNilConst(v) {
				continue
			}
			if !core.Derives(v, func(x ssa.Value) bool {
				ap, ok := x.(*ssa.Call)
				return ok && core.CalleeID(ap) == "builtin.append"
			}, core.DeriveOpts{}) {
				okRes = false
			}
			// a return of a table-reader call result directly would bypass the check
			if core.Derives(v, func(x ssa.Value) bool {
				cc, ok := x.(*ssa.Call)
				return ok && core.StaticCalleeFn(cc) == reader
			}, core.DeriveOpts{}) {
				// allowed only through a checked append element; Derives through append args[1] is not followed (Slice of varargs) so reaching here means direct use
				okRes = false
			}
		}
		if nApp == 0 {
			okRes = false
		}
		r.Check(okRes, "R1.relay-check", cname+" result-only-from-checked-appends", p.Pos(coll.Pos()), "the reply list is built only from relay-checked appends", "the reply list takes records straight from the table (the local record included) without the relay-address check at this level")
	}

	// R1d count limit
	{
		var lim int64
		var isC bool
		limPos := p.Pos(H.Pos())
		var nodesAcc ssa.Value // written-out form: the list the relay-checked appends build
		if inl {
			// the limit is the constant the length of the collected list is compared with on the
			// edge that leaves the collection loops
			for _, b := range coll.Blocks {
				for i := range b.Succs {
					for _, f := range core.EdgeFacts(b, i) {
						core.CmpFact(f, func(op token.Token, x, y ssa.Value) bool {
							k, kc := core.ConstInt(y)
							if (op == token.GEQ || op == token.EQL) && kc && core.InLoop(b) && !core.InLoop(b.Succs[i]) && core.IsLenOf(x, func(v ssa.Value) bool {
								ap, ok := v.(*ssa.Call)
								return ok && core.CalleeID(ap) == "builtin.append" && strings.HasSuffix(ap.Type().String(), "enode.Node")
							}) {
								lim, isC = k, true
								nodesAcc = x
							}
							return false
						})
					}
				}
			}
		} else {
			limArg := collCall.Call.Args[len(collCall.Call.Args)-1]
			lim, isC = core.ConstInt(limArg)
			limPos = p.Pos(collCall.Pos())
			if !isC {
				// the limit as a setting: every value it can take is within 1..32
				if rg := p.RangeOf(limArg, collCall.Block()); rg.HasHi && rg.Hi <= 32 && rg.HasLo && rg.Lo >= 1 {
					lim, isC = 32, true
				}
			}
		}
		r.Check(isC && lim == 32, "R1.count-limit", hname+" limit", limPos, "at most 32 records are collected", fmt.Sprintf("the record limit passed is %d, the property states 32", lim))
		// SSZ max of Nodes.Enrs
		sszMax := int64(-1)
		if tn, ok := p.Pkg("portalwire").Types.Scope().Lookup("Nodes").(*types.TypeName); ok {
			if st, ok := tn.Type().Underlying().(*types.Struct); ok {
				for i := 0; i < st.NumFields(); i++ {
					if st.Field(i).Name() == "Enrs" {
						tag := reflect.StructTag(st.Tag(i)).Get("ssz-max")
						fmt.Sscanf(strings.Split(tag, ",")[0], "%d", &sszMax)
					}
				}
			}
		}
		r.Check(sszMax == lim, "R1.count-limit", "Nodes.Enrs ssz-max", "-", fmt.Sprintf("SSZ list limit %d equals the collection limit", sszMax), fmt.Sprintf("SSZ list limit of Nodes.Enrs is %d but %d records are collected", sszMax, lim))
		// collection stops at the limit
		stop := inl && nodesAcc != nil
		var limP ssa.Value
		if !inl {
			limP = coll.Params[len(coll.Params)-1]
		}
		for _, b := range coll.Blocks {
			if inl {
				break
			}
			for i := range b.Succs {
				for _, f := range core.EdgeFacts(b, i) {
					if core.CmpFact(f, func(op token.Token, x, y ssa.Value) bool {
						return (op == token.GEQ || op == token.EQL) && (y == limP || (core.ParamOf(y) != nil && ssa.Value(core.ParamOf(y)) == limP)) && core.IsLenOf(x, func(ssa.Value) bool { return true })
					}) {
						if _, isRet := b.Succs[i].Instrs[len(b.Succs[i].Instrs)-1].(*ssa.Return); isRet {
							stop = true
						}
					}
				}
			}
		}
		r.Check(stop, "R1.count-limit", cname+" stops-at-limit", p.Pos(coll.Pos()), "collection returns once len(nodes) >= limit", "collection does not stop at the record limit")
	}

	// R1e byte budget
	if tf == nil {
		r.Fail("R1.byte-budget", hname+" truncation", p.Pos(H.Pos()), "the NODES reply is not truncated to a byte budget")
	} else {
		mx, c1 := core.ConstInt(tc.Call.Args[len(tc.Call.Args)-2])
		ov, c2 := core.ConstInt(tc.Call.Args[len(tc.Call.Args)-1])
		lim := int64(discv5MaxPacket - talkRespFraming - 6)
		r.Check(c1 && mx <= lim && mx > 0, "R1.byte-budget", hname+" enr-budget", p.Pos(tc.Pos()), fmt.Sprintf("ENR budget %d <= 1280-103-6 = %d", mx, lim), fmt.Sprintf("the ENR budget is %d, more than the %d bytes left after message id, total and list offset", mx, lim))
		r.Check(c2 && ov == 4, "R1.byte-budget", hname+" per-enr-overhead", p.Pos(tc.Pos()), "per-record overhead 4", fmt.Sprintf("per-record overhead is %d, SSZ offsets take 4 bytes", ov))
		checkTruncator(c, "R1.byte-budget", tf)
		// what is truncated is the collector's result and what is sent is the truncator's result
		okIn := collCall != nil && tc.Call.Args[len(tc.Call.Args)-3] == ssa.Value(collCall)
		if inl {
			// checked above: the list handed to the truncation is built only from relay-checked appends
			okIn = true
		}
		r.Check(okIn, "R1.byte-budget", hname+" truncates-collected", p.Pos(tc.Pos()), "the truncation is applied to the collected nodes", "the truncation is not applied to the collected list")
		okOut := false
		for _, b := range H.Blocks {
			for _, in := range b.Instrs {
				if st, ok := in.(*ssa.Store); ok {
					if t, f, _, ok := core.FieldRef(st.Addr); ok && t == "Nodes" && f == "Enrs" && st.Val == ssa.Value(tc) {
						okOut = true
					}
				}
			}
		}
		r.Check(okOut, "R1.byte-budget", hname+" sends-truncated", p.Pos(tc.Pos()), "the reply carries the truncated list", "the reply carries a list other than the truncated one")
	}

	// ---- R2 asking side: the verifier = function calling enode.New and CheckRelayIP returning (*enode.Node, error)
	var V *ssa.Function
	for _, fn := range p.ModuleFuncs() {
		if fn.Pkg == p.SSAPkg("portalwire") && len(core.CallsTo(fn, "github.com/ethereum/go-ethereum/p2p/enode.New")) > 0 && len(core.CallsTo(fn, netutilCheckRelay))+len(core.CallsTo(fn, netutilCheckRelayAddr)) > 0 {
			V = fn
		}
	}
	if V == nil {
		r.Fail("R2.accept-record", "response-node verifier", "-", "anchor-unresolved")
		return
	}
	vname := core.FuncName(V)
	var newCall *ssa.Call
	for _, ci := range core.CallsTo(V, "github.com/ethereum/go-ethereum/p2p/enode.New") {
		newCall, _ = ci.(*ssa.Call)
	}
	var node ssa.Value
	for _, rf := range *newCall.Referrers() {
		if ex, ok := rf.(*ssa.Extract); ok && ex.Index == 0 {
			node = ex
		}
	}
	isNode := func(v ssa.Value) bool { return v == node || core.SameValue(v, node) }
	sender := V.Params[1]
	target := core.SuccessTarget(V, nil)
	checkGate := func(key, okMsg, failMsg string, cut func(fs []core.Fact) bool) {
		w := core.CutReach(core.CutSpec{Fn: V, Cut: func(b *ssa.BasicBlock, i int) bool { return cut(core.EdgeFacts(b, i)) }, Target: target})
		r.Check(w == nil, "R2.accept-record", vname+" "+key, p.Pos(V.Pos()), okMsg, failMsg+": "+p.PathString(w))
	}
	g := core.ErrNilGate("enode.New", func(c2 *ssa.Call) bool { return c2 == newCall })
	checkGate("signature", "accepted only after enode.New succeeded", "a record can be accepted without a valid signature", g.Edge)
	relay := core.ErrNilGate("relay", func(c2 *ssa.Call) bool {
		if !isRelayCheck(core.CalleeID(c2)) {
			return false
		}
		a0 := core.Derives(c2.Call.Args[0], func(v ssa.Value) bool { return v == ssa.Value(sender) }, core.DeriveOpts{ThroughCalls: true})
		a1 := core.Derives(c2.Call.Args[1], isNode, core.DeriveOpts{ThroughCalls: true})
		return a0 && a1
	})
	checkGate("relay-ip", "accepted only after CheckRelayIP(sender, record) == nil", "a record can be accepted without the relay-address check against the sender", relay.Edge)
	checkGate("udp-port", "accepted only with UDP port > 1024", "a record with a UDP port <= 1024 can be accepted", core.AnyFact(func(f core.Fact) bool {
		return core.CmpFact(f, func(op token.Token, x, y ssa.Value) bool {
			k, isC := core.ConstInt(y)
			cc, ok := x.(*ssa.Call)
			return isC && ok && core.CalleeID(cc) == enodeUDP && isNode(cc.Call.Args[0]) && ((op == token.GTR && k == 1024) || (op == token.GEQ && k == 1025))
		})
	}))
	distP := V.Params[3]
	checkGate("distance-membership", "accepted only at a requested distance (or when none were requested)", "a record at a distance that was not requested can be accepted", func(fs []core.Fact) bool {
		for _, f := range fs {
			// bypass: distances == nil
			if f.Op == token.EQL && ((f.X == ssa.Value(distP) && core.IsNilConst(f.Y)) || (f.Y == ssa.Value(distP) && core.IsNilConst(f.X))) {
				return true
			}
			if f.Op == token.ILLEGAL && f.Truth {
				if cc, ok := f.V.(*ssa.Call); ok && strings.HasPrefix(core.CalleeID(cc), "slices.Contains") && cc.Call.Args[0] == ssa.Value(distP) {
					// the value looked up is LogDist(sender.ID(), n.ID())
					okD := core.Derives(cc.Call.Args[1], func(v ssa.Value) bool {
						ld, ok := v.(*ssa.Call)
						if !ok || core.CalleeID(ld) != enodeLogDist {
							return false
						}
						s := core.Derives(ld.Call.Args[0], func(x ssa.Value) bool { return x == ssa.Value(sender) }, core.DeriveOpts{ThroughCalls: true})
						n := core.Derives(ld.Call.Args[1], isNode, core.DeriveOpts{ThroughCalls: true})
						s2 := core.Derives(ld.Call.Args[1], func(x ssa.Value) bool { return x == ssa.Value(sender) }, core.DeriveOpts{ThroughCalls: true})
						n2 := core.Derives(ld.Call.Args[0], isNode, core.DeriveOpts{ThroughCalls: true})
						return (s && n) || (s2 && n2)
					}, core.DeriveOpts{})
					if okD {
						return true
					}
				}
			}
		}
		return false
	})
	seenP := V.Params[4]
	checkGate("not-repeat", "accepted only if its id was not seen before in this reply", "a repeated record can be accepted", core.AnyFact(func(f core.Fact) bool {
		set, _, ok := core.SetAbsent(f)
		return ok && set == ssa.Value(seenP)
	}))
	// marks seen before success
	{
		w := core.CutReach(core.CutSpec{Fn: V,
			Cut: func(b *ssa.BasicBlock, i int) bool {
				for _, in := range b.Succs[i].Instrs {
					if set, _, ok := core.SetAdd(in); ok && set == ssa.Value(seenP) {
						return true
					}
				}
				return false
			},
			Target: func(prev, b *ssa.BasicBlock) bool {
				for _, in := range b.Instrs {
					if set, _, ok := core.SetAdd(in); ok && set == ssa.Value(seenP) {
						return false
					}
				}
				return target(prev, b)
			}})
		r.Check(w == nil, "R2.accept-record", vname+" marks-seen", p.Pos(V.Pos()), "an accepted record's id is added to the seen set", "an accepted record is not remembered, so a repeat of it would be accepted: "+p.PathString(w))
	}
	// returned node is the verified one
	{
		ok := true
		for _, ret := range core.Returns(V) {
			v := ret.Results[0]
			if !core.IsNilConst(v) && !isNode(v) {
				ok = false
			}
		}
		r.Check(ok, "R2.accept-record", vname+" returns-verified", p.Pos(V.Pos()), "the node returned is the one built from the verified record", "the verifier returns a node other than the one it verified")
	}
	// filter: only nil-error records appended
	for fn, cs := range p.CallersOfFn(V) {
		for _, ci := range cs {
			call, ok := ci.(*ssa.Call)
			if !ok {
				continue
			}
			fname := core.FuncName(fn)
			g := core.ErrNilGate("verify", func(c2 *ssa.Call) bool { return c2 == call })
			n := 0
			for _, b := range fn.Blocks {
				for _, in := range b.Instrs {
					ap, ok := in.(*ssa.Call)
					if !ok || core.CalleeID(ap) != "builtin.append" || !strings.HasSuffix(ap.Type().String(), "enode.Node") {
						continue
					}
					n++
					w := core.InstrGuarded(ap, g.Edge, call.Block())
					el := core.VariadicElems(ap.Call.Args[1])
					okEl := len(el) == 1 && (core.ResultOf(el[0], call, 0) || core.ResultOf(core.ResolveSpill(el[0]), call, 0) || loadsCellOf(el[0], call))
					r.Check(w == nil && okEl, "R2.only-verified-appended", fmt.Sprintf("%s append #%d", fname, n), p.Pos(ap.Pos()), "only the verifier's nil-error result is appended", "a record can be used although its verification failed (or something other than the verified node is appended): "+p.PathString(w))
				}
			}
			// sender argument of the verifier is the responder
			r.Check(func() bool { _, ok := call.Call.Args[1].(*ssa.Parameter); return ok }(), "R2.only-verified-appended", fname+" sender-operand", p.Pos(call.Pos()), "records are verified against the node that sent them", "records are verified against something other than the responding node")
		}
	}
	errorsExamined(c, "R3.errors-examined", "FINDNODES paths", []string{"portalwire"}, ".handleFindNodes", ".processNodes", ".filterNodes", ".verifyResponseNode", ".collectTableNodes", ".truncateNodes", ".findNodes")
}

// loadsCellOf: v is a load of a local cell that stores call's result #0 (variables shared with closures or declared outside the loop).
func loadsCellOf(v ssa.Value, call *ssa.Call) bool {
	u, ok := v.(*ssa.UnOp)
	if !ok || u.Op != token.MUL {
		return false
	}
	a, ok := u.X.(*ssa.Alloc)
	if !ok {
		return false
	}
	for _, rf := range *a.Referrers() {
		if st, ok := rf.(*ssa.Store); ok && st.Addr == ssa.Value(a) && core.ResultOf(st.Val, call, 0) {
			return true
		}
	}
	return false
}

// unsortedReturn returns a witness path on which fn returns a non-nil list that never passed a
// sort.Slice/SliceStable call (nil when every such return is preceded by the sort).
func unsortedReturn(fn *ssa.Function) []*ssa.BasicBlock {
	isSort := func(in ssa.Instruction) bool {
		ci, ok := in.(ssa.CallInstruction)
		if !ok {
			return false
		}
		id := core.CalleeID(ci)
		return id == "sort.Slice" || id == "sort.SliceStable" || id == "slices.SortFunc" || id == "slices.SortStableFunc" || id == "sort.Sort" || id == "sort.Stable"
	}
	for _, ret := range core.Returns(fn) {
		if len(ret.Results) == 0 || core.IsNilConst(ret.Results[0]) {
			continue
		}
		if w := core.MustPassBefore(ret, isSort); w != nil {
			return w
		}
	}
	return nil
}

// listLeaves: the values a slice value is assembled from, looking through phis, append (base and
// appended elements), slices.* helpers and re-slicing.
func listLeaves(v ssa.Value) []ssa.Value {
	var out []ssa.Value
	seen := map[ssa.Value]bool{}
	var rec func(v ssa.Value)
	rec = func(v ssa.Value) {
		v = core.Unwrap(v)
		if v == nil || seen[v] {
			return
		}
		seen[v] = true
		switch x := v.(type) {
		case *ssa.Phi:
			for _, e := range x.Edges {
				rec(e)
			}
		case *ssa.Slice:
			rec(x.X)
		case *ssa.Call:
			id := core.CalleeID(x)
			switch {
			case id == "builtin.append":
				rec(x.Call.Args[0])
				if el := core.VariadicElems(x.Call.Args[1]); len(el) > 0 {
					for _, e := range el {
						out = append(out, e)
					}
				} else {
					rec(x.Call.Args[1])
				}
			case strings.HasPrefix(id, "slices."):
				if len(x.Call.Args) > 0 {
					rec(x.Call.Args[0])
				}
			default:
				out = append(out, v)
			}
		default:
			out = append(out, v)
		}
	}
	rec(v)
	return out
}

// localFuncOf: the function literal behind a call of a closure kept in a local variable: called
// directly (the callee is the MakeClosure or a load of the cell it was stored in) or from
// another closure that captured the cell.
func localFuncOf(c *ssa.Call) *ssa.Function {
	if f := core.StaticCalleeFn(c); f != nil {
		return f
	}
	v := c.Call.Value
	var cell ssa.Value
	if u, ok := v.(*ssa.UnOp); ok && u.Op == token.MUL {
		cell = u.X
	}
	if cell == nil {
		return nil
	}
	if fv, ok := cell.(*ssa.FreeVar); ok {
		cl := fv.Parent()
		if cl == nil || cl.Parent() == nil {
			return nil
		}
		idx := -1
		for i, x := range cl.FreeVars {
			if x == fv {
				idx = i
			}
		}
		cell = nil
		for _, b := range cl.Parent().Blocks {
			for _, in := range b.Instrs {
				if mc, ok := in.(*ssa.MakeClosure); ok && mc.Fn == ssa.Value(cl) && idx >= 0 && idx < len(mc.Bindings) {
					cell = mc.Bindings[idx]
				}
			}
		}
	}
	al, ok := cell.(*ssa.Alloc)
	if !ok || al.Referrers() == nil {
		return nil
	}
	var fn *ssa.Function
	n := 0
	for _, rf := range *al.Referrers() {
		if st, ok := rf.(*ssa.Store); ok && st.Addr == ssa.Value(al) {
			n++
			if mc, ok := st.Val.(*ssa.MakeClosure); ok {
				fn, _ = mc.Fn.(*ssa.Function)
			}
		}
	}
	if n != 1 {
		return nil
	}
	return fn
}
