package props

import (
	"fmt"
	"go/token"
	"strings"

	"golang.org/x/tools/go/ssa"

	"verifchk/core"
)

func init() { Registry["C05"] = c05 }

func c05(c *Ctx) {
	p, r := c.P, c.R
	r.Technique = "interprocedural lock-held dataflow over the store's accounting sites; must-pass-through (cut) checks for the prune trigger; structural classification of the prune loop's paths; constant and operand agreement of the accounting arithmetic"
	r.Explanation = "Decides: (R1) the read-modify-write of the usage counter, the batch commits and prune() run with one mutex of the store held on every call path (the constructor, which owns the unpublished object, is exempt) - the necessary condition for 'concurrent puts never under-report'; (R2) every success exit of Put after the commit either saw newSize <= capacity or passed a successful prune, and the constructor prunes when the persisted size exceeds the capacity; (R3) the prune loop deletes while freed < capacity*f with the constant f >= 0.05; (R4) the loop starts at Iterator.Last, advances only by Iterator.Prev, uses the default bytewise comparer, and every path through the loop body is one of {reserved key: continue; delete current key; store radius and leave} - no path keeps a key and continues; (R5) bytes added on Put = len(id)+len(value) of what is written, bytes subtracted = len(key)+len(value) of what is deleted, the counter after pruning and the persisted record are load(counter)-freed. Not decided: the numeric bound 'bytes held <= capacity' over all put histories and item sizes; interleavings beyond lock discipline."
	r.Assumptions = []string{"pebble iterates keys in bytewise order with the default comparer", "sync.Mutex semantics"}
	r.Floor("R1.accounting-lock", 4)
	r.Floor("R2.prune-trigger", 2)
	r.Floor("R3.fraction", 2)
	r.Floor("R4.farthest-first", 4)
	r.Floor("R5.symmetry", 4)
	m, why := newStoreModel(c)
	if m == nil {
		r.Fail("R1.accounting-lock", "radius-store", "-", why)
		return
	}

	// ---------------- R1
	accountingLockRule(c, m, "R1.accounting-lock")

	// ---------------- R2 trigger in Put
	adds := m.sizeOps(m.put, "Add")
	commits := core.CallsTo(m.put, batchCommit)
	if len(adds) != 1 || len(commits) != 1 {
		r.Fail("R2.prune-trigger", core.FuncName(m.put), p.Pos(m.put.Pos()), fmt.Sprintf("expected one counter add and one commit in Put, found %d/%d", len(adds), len(commits)))
	} else {
		newSize := adds[0].Value()
		within := core.AnyFact(func(f core.Fact) bool {
			return core.CmpFact(f, func(op token.Token, x, y ssa.Value) bool {
				return op == token.LEQ && x == ssa.Value(newSize) && m.isLoadField(y, m.capField)
			})
		})
		pruned := core.ErrNilGate("prune", func(c2 *ssa.Call) bool { return core.StaticCalleeFn(c2) == m.prune })
		w := core.CutReach(core.CutSpec{Fn: m.put, From: commits[0].Block(),
			Cut:    func(b *ssa.BasicBlock, i int) bool { fs := core.EdgeFacts(b, i); return within(fs) || pruned.Edge(fs) },
			Target: core.SuccessTarget(m.put, pruned.ErrOK)})
		r.Check(w == nil, "R2.prune-trigger", core.FuncName(m.put)+" after-commit", p.Pos(commits[0].Pos()),
			"every success exit after the commit saw newSize <= capacity or a successful prune", "a put can return success over capacity without pruning: "+p.PathString(w))
	}
	// on open
	stores := m.sizeOps(m.ctor, "Store")
	if len(stores) == 0 {
		r.Fail("R2.prune-trigger", core.FuncName(m.ctor)+" on-open", p.Pos(m.ctor.Pos()), "the constructor no longer restores the persisted usage figure")
	} else {
		size := stores[0].Common().Args[1]
		within := core.AnyFact(func(f core.Fact) bool {
			return core.CmpFact(f, func(op token.Token, x, y ssa.Value) bool {
				return op == token.LEQ && x == size && m.isLoadField(y, m.capField)
			})
		})
		pruned := core.ErrNilGate("prune", func(c2 *ssa.Call) bool { return core.StaticCalleeFn(c2) == m.prune })
		w := core.CutReach(core.CutSpec{Fn: m.ctor, From: stores[0].Block(),
			Cut:    func(b *ssa.BasicBlock, i int) bool { fs := core.EdgeFacts(b, i); return within(fs) || pruned.Edge(fs) },
			Target: core.SuccessTarget(m.ctor, pruned.ErrOK)})
		r.Check(w == nil, "R2.prune-trigger", core.FuncName(m.ctor)+" on-open", p.Pos(stores[0].Pos()),
			"opening succeeds only if persisted size <= capacity or a prune succeeded", "an over-capacity store can be opened without pruning: "+p.PathString(w))
		// the restored figure is what the size record holds
		fromRec := core.Derives(size, func(v ssa.Value) bool {
			ex, ok := v.(*ssa.Extract)
			return ok && ex.Index == 0 && core.IsCallTo(ex.Tuple, pebbleGet)
		}, core.DeriveOpts{ThroughCalls: true})
		r.Check(fromRec, "R5.symmetry", core.FuncName(m.ctor)+" restores-record", p.Pos(stores[0].Pos()), "the counter is restored from the persisted size record", "the usage counter restored on open does not come from the size record")
	}

	// ---------------- R3 fraction and loop guard
	var expect ssa.Value
	frac := 0.0
	for _, b := range m.prune.Blocks {
		for _, in := range b.Instrs {
			bo, ok := in.(*ssa.BinOp)
			if !ok || bo.Op != token.MUL {
				continue
			}
			for _, pair := range [][2]ssa.Value{{bo.X, bo.Y}, {bo.Y, bo.X}} {
				if f, isC := core.ConstFloat(pair[1]); isC && core.Derives(pair[0], func(v ssa.Value) bool { return m.isLoadField(v, m.capField) }, core.DeriveOpts{}) {
					frac = f
					expect = bo
				} else if !isC && expect == nil && core.Derives(pair[0], func(v ssa.Value) bool { return m.isLoadField(v, m.capField) }, core.DeriveOpts{}) {
					// the fraction as a setting: every value it can take is within [0.05, 1]
					if rg := p.RangeOf(pair[1], bo.Block()); rg.HasLo && rg.Lo >= 0.05 && rg.HasHi && rg.Hi <= 1 {
						frac = rg.Lo
						expect = bo
					}
				}
			}
		}
	}
	r.Check(expect != nil && frac >= 0.05 && frac <= 1, "R3.fraction", core.FuncName(m.prune)+" target", p.Pos(m.prune.Pos()),
		fmt.Sprintf("prune target = capacity * %.4g", frac), fmt.Sprintf("prune target is capacity * %.4g, the property needs at least 5%% of the capacity", frac))
	dels := core.CallsTo(m.prune, batchDelete)
	if len(dels) == 0 {
		r.Fail("R4.farthest-first", core.FuncName(m.prune)+" per-key-delete", p.Pos(m.prune.Pos()), "the prune loop no longer deletes the keys it visits one by one (e.g. a range delete): which keys are dropped, and that each dropped key's bytes are the ones subtracted, cannot be established (a half-open range misses the key at its end)")
	}
	var freed ssa.Value
	for i, d := range dels {
		g := core.AnyFact(func(f core.Fact) bool {
			return core.CmpFact(f, func(op token.Token, x, y ssa.Value) bool {
				if op == token.LSS && expect != nil && core.Derives(y, func(v ssa.Value) bool { return v == expect }, core.DeriveOpts{}) {
					freed = x
					return true
				}
				return false
			})
		})
		w := core.InstrGuarded(d, g, nil)
		r.Check(w == nil, "R3.fraction", fmt.Sprintf("%s delete-guard #%d", core.FuncName(m.prune), i+1), p.Pos(d.Pos()),
			"a key is deleted only while freed < target", "the delete is not governed by freed < capacity*fraction: "+p.PathString(w))
	}

	// ---------------- R4 farthest first
	var iterCalls = map[string][]ssa.CallInstruction{}
	core.Calls(m.prune, func(ci ssa.CallInstruction) {
		id := core.CalleeID(ci)
		if strings.HasPrefix(id, iterPfx) {
			iterCalls[strings.TrimPrefix(id, iterPfx)] = append(iterCalls[strings.TrimPrefix(id, iterPfx)], ci)
		}
	})
	posOK := len(iterCalls["Last"]) == 1
	for _, bad := range []string{"First", "SeekGE", "SeekLT", "SeekPrefixGE", "Next", "NextPrefix", "NextWithLimit", "SeekGEWithLimit", "SeekLTWithLimit", "PrevWithLimit"} {
		if len(iterCalls[bad]) > 0 {
			posOK = false
		}
	}
	r.Check(posOK && len(iterCalls["Prev"]) >= 1, "R4.farthest-first", core.FuncName(m.prune)+" iteration-order", p.Pos(m.prune.Pos()),
		"starts at Iterator.Last and moves only with Iterator.Prev", "the prune loop does not walk from the farthest key downwards (Last/Prev only)")
	// default comparer: no module code sets pebble.Options.Comparer
	cmpSet := false
	for _, fn := range p.ModuleFuncs() {
		for _, b := range fn.Blocks {
			for _, in := range b.Instrs {
				if st, ok := in.(*ssa.Store); ok {
					if t, f, _, ok := core.FieldRef(st.Addr); ok && t == "Options" && f == "Comparer" {
						cmpSet = true
					}
				}
			}
		}
	}
	r.Check(!cmpSet, "R4.farthest-first", "pebble.Options.Comparer", "-", "no custom comparer: keys are ordered bytewise (big-endian distance order)", "a custom key comparer is configured: Last/Prev no longer means farthest first")
	// loop body paths
	if len(iterCalls["Prev"]) >= 1 && len(iterCalls["Valid"]) >= 1 {
		latch := iterCalls["Prev"][0].Block()
		header := iterCalls["Valid"][0].Block()
		delBlocks := map[*ssa.BasicBlock]bool{}
		for _, d := range dels {
			delBlocks[d.Block()] = true
		}
		reserved := core.AnyFact(func(f core.Fact) bool {
			if f.Op != token.ILLEGAL || !f.Truth {
				return false
			}
			call, ok := f.V.(*ssa.Call)
			return ok && core.CalleeID(call) == "bytes.Equal" && (isSizeKey(call.Call.Args[0]) || isSizeKey(call.Call.Args[1]))
		})
		// from the loop body entry, reach the latch without deleting and without the reserved-key edge
		var body *ssa.BasicBlock
		for _, s := range header.Succs {
			if s != latch && reaches(s, latch) {
				body = s
			}
		}
		if body == nil {
			r.Fail("R4.farthest-first", core.FuncName(m.prune)+" loop-shape", p.Pos(m.prune.Pos()), "cannot identify the prune loop body")
		} else {
			w := core.CutReach(core.CutSpec{Fn: m.prune, From: body,
				Cut:     func(b *ssa.BasicBlock, i int) bool { return reserved(core.EdgeFacts(b, i)) || delBlocks[b.Succs[i]] },
				Target:  func(prev, b *ssa.BasicBlock) bool { return b == latch },
				NoEnter: func(b *ssa.BasicBlock) bool { return b == header }})
			if delBlocks[body] {
				w = nil
			}
			r.Check(w == nil, "R4.farthest-first", core.FuncName(m.prune)+" no-kept-key-then-continue", p.Pos(iterCalls["Prev"][0].Pos()),
				"every path that moves on to the next (closer) key either deleted the current key or skipped the reserved key", "the prune loop can keep a far key and go on to delete closer ones (not a farthest-first prefix): "+p.PathString(w))
			// the deleted key is the iterator's current key
			for i, d := range dels {
				r.Check(isIterKey(d.Common().Args[1]), "R4.farthest-first", fmt.Sprintf("%s deletes-current-key #%d", core.FuncName(m.prune), i+1), p.Pos(d.Pos()), "deletes Iterator.Key()", "the key deleted is not the iterator's current key")
			}
		}
	} else {
		r.Fail("R4.farthest-first", core.FuncName(m.prune)+" loop-shape", p.Pos(m.prune.Pos()), "prune loop with Valid()/Prev() not found")
	}

	// ---------------- R5 symmetry
	if len(adds) == 1 {
		arg := adds[0].Common().Args[1]
		ok, note := sumOfLens(arg, func(v ssa.Value) bool { return v == ssa.Value(m.put.Params[2]) }, func(v ssa.Value) bool { return v == ssa.Value(m.put.Params[3]) })
		r.Check(ok, "R5.symmetry", core.FuncName(m.put)+" bytes-added", p.Pos(adds[0].Pos()), "adds len(content id)+len(content)"+note, "the bytes added to the usage counter are not len(id)+len(value) of the item written")
	}
	if freed != nil {
		// an accumulator `x + (len(Key)+len(Value))` connected to the compared value through phis
		okAcc := false
		for _, b := range m.prune.Blocks {
			for _, in := range b.Instrs {
				bo, ok := in.(*ssa.BinOp)
				if !ok || bo.Op != token.ADD {
					continue
				}
				ok2, _ := sumOfLens(bo.Y, func(v ssa.Value) bool { return isIterKey(v) }, func(v ssa.Value) bool {
					cc, ok := v.(*ssa.Call)
					return ok && core.CalleeID(cc) == iterValue
				})
				if !ok2 {
					continue
				}
				back := core.FlowsFrom(freed, map[ssa.Value]bool{bo: true})
				fwd := core.FlowsFrom(bo.X, map[ssa.Value]bool{freed: true})
				okAcc = back && fwd && delBlockDominates(dels, bo)
			}
		}
		r.Check(okAcc, "R5.symmetry", core.FuncName(m.prune)+" bytes-freed", p.Pos(m.prune.Pos()), "freed += len(key)+len(value) of each deleted item, in the same block as its delete", "the bytes counted as freed are not len(key)+len(value) of exactly the deleted items")
	} else {
		r.Fail("R5.symmetry", core.FuncName(m.prune)+" bytes-freed", p.Pos(m.prune.Pos()), "freed-bytes accumulator not identified")
	}
	pst := m.sizeOps(m.prune, "Store")
	if len(pst) == 1 && freed != nil {
		v := pst[0].Common().Args[1]
		bo, ok := v.(*ssa.BinOp)
		okSub := ok && bo.Op == token.SUB && core.Derives(bo.Y, func(x ssa.Value) bool { return x == freed }, core.DeriveOpts{}) && isSizeLoad(m, bo.X)
		r.Check(okSub, "R5.symmetry", core.FuncName(m.prune)+" counter-after", p.Pos(pst[0].Pos()), "counter := load(counter) - freed", "the counter stored after pruning is not load(counter) - freed")
		// persisted record is the same value
		okRec := false
		core.Calls(m.prune, func(ci ssa.CallInstruction) {
			if strings.HasSuffix(core.CalleeID(ci), ".PutUint64") || strings.HasSuffix(core.CalleeID(ci), ".AppendUint64") {
				a := ci.Common().Args
				if a[len(a)-1] == v {
					okRec = true
				}
			}
		})
		r.Check(okRec, "R5.symmetry", core.FuncName(m.prune)+" persisted-record", p.Pos(pst[0].Pos()), "the persisted size record holds the same value", "the size record persisted by prune differs from the in-memory counter")
		// underflow guard
		g := core.AnyFact(func(f core.Fact) bool {
			return core.CmpFact(f, func(op token.Token, x, y ssa.Value) bool {
				return op == token.GEQ && isSizeLoad(m, x) && core.Derives(y, func(z ssa.Value) bool { return z == freed }, core.DeriveOpts{})
			})
		})
		w := core.InstrGuarded(pst[0], g, nil)
		r.Check(w == nil, "R5.symmetry", core.FuncName(m.prune)+" no-underflow", p.Pos(pst[0].Pos()), "subtraction only under counter >= freed", "the counter subtraction can wrap around: "+p.PathString(w))
	} else {
		r.Fail("R5.symmetry", core.FuncName(m.prune)+" counter-after", p.Pos(m.prune.Pos()), "prune does not store the reduced counter exactly once")
	}
	// Put persists the new counter value in the size record
	if len(adds) == 1 {
		okRec := false
		core.Calls(m.put, func(ci ssa.CallInstruction) {
			if strings.HasSuffix(core.CalleeID(ci), ".PutUint64") || strings.HasSuffix(core.CalleeID(ci), ".AppendUint64") {
				a := ci.Common().Args
				if a[len(a)-1] == adds[0].Value() {
					okRec = true
				}
			}
		})
		r.Check(okRec, "R5.symmetry", core.FuncName(m.put)+" persisted-record", p.Pos(adds[0].Pos()), "the size record written by Put holds the counter value after the add", "the size record written by Put is not the updated counter")
	}
	errorsExamined(c, "R6.errors-examined", "content store", []string{"storage/pebble"}, "(*storage/pebble.ContentStorage).", "storage/pebble.NewStorage")
	pruneScansWholeKeyspace(c, m, "R4.farthest-first")
	keyFnLeavesArgumentsAlone(c, m, "R4.farthest-first")
}

func isSizeLoad(m *storeModel, v ssa.Value) bool {
	c, ok := v.(*ssa.Call)
	return ok && core.CalleeID(c) == atomicU64+"Load" && m.isField(c.Call.Args[0], m.sizeFld)
}

func delBlockDominates(dels []ssa.CallInstruction, in ssa.Instruction) bool {
	for _, d := range dels {
		if d.Block() == in.Block() || d.Block().Dominates(in.Block()) {
			return true
		}
	}
	return false
}

// sumOfLens: v == uint64(len(a)) + uint64(len(b)) for a, b matching the predicates.
func sumOfLens(v ssa.Value, isA, isB func(ssa.Value) bool) (bool, string) {
	bo, ok := core.Unwrap(v).(*ssa.BinOp)
	if !ok || bo.Op != token.ADD {
		return false, ""
	}
	la := func(x ssa.Value, pred func(ssa.Value) bool) bool { return core.IsLenOf(x, pred) }
	if (la(bo.X, isA) && la(bo.Y, isB)) || (la(bo.X, isB) && la(bo.Y, isA)) {
		return true, ""
	}
	return false, ""
}

func reaches(from, to *ssa.BasicBlock) bool {
	seen := map[*ssa.BasicBlock]bool{}
	st := []*ssa.BasicBlock{from}
	for len(st) > 0 {
		b := st[len(st)-1]
		st = st[:len(st)-1]
		if b == to {
			return true
		}
		if seen[b] {
			continue
		}
		seen[b] = true
		st = append(st, b.Succs...)
	}
	return false
}

// accountingLockRule: the usage counter's read-modify-write, the batch commits and prune() run with one
// mutex of the store held on every call path (the constructor owns the unpublished object and is exempt).
// Shared by C05 (concurrent puts never under-report) and C17 (the persisted figure is the newest one:
// size records are committed in the order their values were computed only inside one critical section).
func accountingLockRule(c *Ctx, m *storeModel, rule string) {
	p, r := c.P, c.R
	sites := map[*ssa.Function][]core.LockSite{}
	for _, fn := range p.ModuleFuncs() {
		if fn == m.ctor || (fn.Parent() != nil && fn.Parent() == m.ctor) {
			continue
		}
		core.Calls(fn, func(ci ssa.CallInstruction) {
			id := core.CalleeID(ci)
			args := ci.Common().Args
			switch {
			case len(args) > 0 && m.isField(args[0], m.sizeFld) && (id == atomicU64+"Add" || id == atomicU64+"Store"):
				sites[fn] = append(sites[fn], core.LockSite{Instr: ci, What: "usage counter " + strings.TrimPrefix(id, atomicU64)})
			case id == batchCommit && fn.Signature.Recv() != nil && core.TypeName(fn.Signature.Recv().Type()) == m.typName:
				sites[fn] = append(sites[fn], core.LockSite{Instr: ci, What: "batch commit"})
			case core.StaticCalleeFn(ci) == m.prune:
				sites[fn] = append(sites[fn], core.LockSite{Instr: ci, What: "call of prune"})
			}
		})
	}
	if len(m.mutexes) == 0 {
		for _, fn := range core.SortedFuncs(sites) {
			n := map[string]int{}
			for _, s := range sites[fn] {
				n[s.What]++
				r.Fail(rule, fmt.Sprintf("%s %s #%d", core.FuncName(fn), s.What, n[s.What]), p.Pos(core.InstrPos(s.Instr)),
					"the store has no mutex: the usage counter's read-modify-write, the commit and prune are not in one critical section, so two concurrent over-capacity puts can both prune the same snapshot and both subtract the freed bytes (the usage figure then under-reports)")
			}
		}
	} else {
		lock := core.LockSpec{Type: m.typName, Field: m.mutexes[0]}
		viols := p.CheckLockDiscipline(lock, sites, func(f *ssa.Function) bool { return f == m.ctor })
		bad := map[ssa.Instruction]core.LockViolation{}
		for _, v := range viols {
			bad[v.Site] = v
		}
		for _, fn := range core.SortedFuncs(sites) {
			n := map[string]int{}
			for _, s := range sites[fn] {
				n[s.What]++
				key := fmt.Sprintf("%s %s #%d", core.FuncName(fn), s.What, n[s.What])
				if v, isBad := bad[s.Instr]; isBad {
					r.Fail(rule, key, p.Pos(core.InstrPos(s.Instr)), "reachable without "+lock.String()+" from "+core.FuncName(v.Root)+": "+strings.Join(v.Chain, " <- "))
				} else {
					r.Pass(rule, key, p.Pos(core.InstrPos(s.Instr)), lock.String()+" held on every call path")
				}
			}
		}
	}
}
