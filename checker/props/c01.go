package props

import (
	"encoding/json"
	"fmt"
	"go/ast"
	"go/constant"
	"go/token"
	"go/types"
	"os"
	"path/filepath"
	"reflect"
	"sort"
	"strconv"
	"strings"

	"golang.org/x/tools/go/ssa"

	"verifchk/core"
)

func init() { Registry["C01"] = c01 }

const (
	registerTalk = "github.com/ethereum/go-ethereum/p2p/discover.(*UDPv5).RegisterTalkHandler"
	talkRequest  = "github.com/ethereum/go-ethereum/p2p/discover.(*UDPv5).TalkRequest"
)

// triage table entry: a compiler-unproven bounds check (or another panic-capable construct)
// that was read and found safe, with the invariant that makes it so.
type triageEntry struct {
	Func  string `json:"func"`
	Kind  string `json:"kind"`
	Expr  string `json:"expr"`
	Alt   string `json:"alt,omitempty"` // Expr with hoisted locals written back (filled by VERIF_C01_FILL_ALT)
	Count int    `json:"count"`
	// DataInvariant: the reason is an invariant of the data the expression reads (configuration,
	// a constant-size value), not a guard in the function: further instances of the same
	// expression in the same function are covered by the same reason
	DataInvariant bool   `json:"data_invariant,omitempty"`
	Reason        string `json:"reason"`
}

type triageTable struct {
	Comment string        `json:"comment"`
	Classes []triageClass `json:"classes"`
	Sites   []triageEntry `json:"sites"`
}

// a class covers every site in functions matching FuncRe-free simple predicates, with one reason
type triageClass struct {
	Name       string `json:"name"`
	FuncSuffix string `json:"func_suffix,omitempty"` // function name ends with
	FuncPrefix string `json:"func_prefix,omitempty"` // function name starts with
	FileSuffix string `json:"file_suffix,omitempty"`
	Reason     string `json:"reason"`
}

func loadTriage(path string) (*triageTable, error) {
	t := &triageTable{}
	b, err := os.ReadFile(path)
	if err != nil {
		return nil, err
	}
	if err := json.Unmarshal(b, t); err != nil {
		return nil, err
	}
	return t, nil
}

// c01Roots: the peer-input entry points.
func c01Roots(p *core.Prog) (roots []*ssa.Function, desc map[*ssa.Function]string) {
	desc = map[*ssa.Function]string{}
	add := func(f *ssa.Function, why string) {
		if f != nil && f.Blocks != nil {
			if _, ok := desc[f]; !ok {
				roots = append(roots, f)
				desc[f] = why
			}
		}
	}
	for _, fn := range p.ModuleFuncs() {
		core.Calls(fn, func(ci ssa.CallInstruction) {
			switch core.CalleeID(ci) {
			case registerTalk:
				for _, a := range ci.Common().Args {
					switch v := core.Unwrap(a).(type) {
					case *ssa.Function:
						add(v, "talk handler")
					case *ssa.MakeClosure:
						if f, ok := v.Fn.(*ssa.Function); ok {
							add(f, "talk handler")
							// bound method value: the wrapper calls the method
							for _, b := range v.Bindings {
								_ = b
							}
						}
					}
				}
			case talkRequest:
				// the function that receives the reply bytes
				if call, ok := ci.(*ssa.Call); ok {
					for _, rf := range *call.Referrers() {
						ex, ok := rf.(*ssa.Extract)
						if !ok || ex.Index != 0 {
							continue
						}
						for _, r2 := range *ex.Referrers() {
							if c2, ok := r2.(ssa.CallInstruction); ok {
								add(core.StaticCalleeFn(c2), "response processor")
							}
						}
					}
				}
			}
		})
	}
	// bound-method wrappers: include the underlying methods (handleTalkRequest$bound -> handleTalkRequest)
	for _, f := range append([]*ssa.Function{}, roots...) {
		if f.Synthetic != "" {
			core.Calls(f, func(ci ssa.CallInstruction) { add(core.StaticCalleeFn(ci), desc[f]) })
		}
	}
	// consumers of looked-up content: callers (two levels) of the content lookup
	var lookups []*ssa.Function
	for _, fn := range p.ModuleFuncs() {
		if fn.Name() == "ContentLookup" && fn.Signature.Recv() != nil && core.TypeName(fn.Signature.Recv().Type()) == "PortalProtocol" {
			lookups = append(lookups, fn)
		}
	}
	level := lookups
	for depth := 0; depth < 2; depth++ {
		var next []*ssa.Function
		for _, l := range level {
			for cf := range p.CallersOfFn(l) {
				if cf.Pkg != nil && cf.Pkg.Pkg.Path() != core.ModPath+"/portalwire" {
					add(cf, "looked-up content consumer")
					next = append(next, cf)
				}
			}
		}
		level = next
	}
	for _, nt := range implementersOf(p, "validation", "Validator") {
		add(methodOf(p, nt, "ValidateContent"), "content validator")
	}
	for _, nt := range contentStores(p) {
		add(methodOf(p, nt, "Get"), "storage adapter")
		add(methodOf(p, nt, "Put"), "storage adapter")
	}
	return
}

func c01(c *Ctx) {
	p, r := c.P, c.R
	r.Technique = "panic-site audit over the peer-reachable call graph: the Go compiler's own prove pass (-d=ssa/check_bce) lists every bounds check it cannot eliminate, each is mapped to its syntax node and function and must be covered by a hand-confirmed triage entry; plus type-assertion/explicit-panic inventory, definite-nil-receiver check, and a blocking-channel-operation rule for the synchronous part of talk handlers"
	r.Explanation = "Decides, for shisui's own code reachable from a peer-input entry point (registered talk handlers, the processors of TALKRESP payloads, every ValidateContent and every ContentStorage Get/Put implementation, and everything they call through static calls, closures and module-internal interface dispatch): (R1) every index / slice / slice-to-array conversion whose bounds check the compiler's prove pass could not eliminate is listed in the triage table with the invariant that protects it - a new unproven site (e.g. because a length check in front of it was removed or weakened, which turns a compiler-proved site into a reported one) is a violation naming function and expression; (R3) every type assertion without comma-ok and every explicit panic / Must* call in that set is listed likewise; (R4) no method is called on, and no field read through, a pointer variable that is definitely nil (declared and never assigned); (R5) a talk handler performs no channel send or receive synchronously outside a select with a default or cancellation case; (R6) handler dispatch switches on message codes fall through to a nil reply / error for unknown codes; (R8) a pointer field that the code itself sets to nil to mean 'gone' is dereferenced on peer-driven code (handlers and the routing-table loop) only after a non-nil test of that field on every path; (R9) the result of a module function that returns nil on one path and an object on another is dereferenced, used as a method receiver or boxed into an interface on peer-driven code only after a nil test of that result, or the site is in the triage table with the reason why nil cannot arrive; (R10) a plain map kept in a struct field is written on talk-handler code (which discv5 runs concurrently) only with a mutex of the same struct held. (R11) the lookup's in-flight counter is exact - every store to it is the initial value of a fresh lookup, the seeding step (1 with the one seeded reply while it is still negative), +1, or -1 after a receive from the reply channel - so run() returning means no worker is alive and the content lookup's close(resultChannel) cannot meet a late send. Not decided: absence of panics as such (sites in the table are trusted to their written reason), panics inside dependencies (rlp, ztyp, zrnt, fastssz, pebble, utp-go, discv5), memory exhaustion, goroutine leaks, termination in general."
	r.Assumptions = []string{"the Go compiler's prove pass is sound (a bounds check it removes cannot fail)", "triage reasons were confirmed by reading the code at the audited commit; the tables are keyed by function+expression, never by line"}
	r.Floor("R1.bounds", 100)
	r.Floor("R5.blocking-ops", 2)
	r.Floor("roots", 10)
	r.Floor("R7.tagged-union", 8)
	r.Floor("R8.nil-sentinel", 3)
	r.Floor("R9.nil-result", 3)
	r.Floor("R11.workers-joined", 4)

	roots, desc := c01Roots(p)
	for _, f := range roots {
		r.Pass("roots", core.FuncName(f), p.Pos(f.Pos()), desc[f])
	}
	reach := p.Reachable(roots)
	if p.Whole {
		// thorough: add what a whole-program VTA call graph reaches through dependencies and callbacks
		vr := p.ReachableVTA(roots)
		extra := 0
		for f := range vr {
			if !reach[f] {
				reach[f] = true
				extra++
			}
		}
		r.Count("functions_added_by_whole_program_VTA", extra)
		r.Count("functions_reachable_VTA", len(vr))
	}
	r.Count("peer_reachable_functions", len(reach))
	r.Count("roots", len(roots))

	sites, err := p.RunBCE()
	if err != nil {
		r.Fail("R1.bounds", "compiler-report", "-", err.Error())
		return
	}
	r.Count("unproven_bounds_checks_in_module", len(sites))
	tab, err := loadTriage(filepath.Join(c.Verif, "tables", "c01_bounds.json"))
	if err != nil {
		r.Fail("R1.bounds", "triage-table", "-", "cannot load tables/c01_bounds.json: "+err.Error())
		return
	}
	want := map[string]*triageEntry{}
	wantAlt := map[string]*triageEntry{}
	for i := range tab.Sites {
		e := &tab.Sites[i]
		want[e.Func+" "+e.Kind+" "+e.Expr] = e
		if e.Alt != "" {
			wantAlt[e.Func+" "+e.Kind+" "+e.Alt] = e
		}
	}
	if os.Getenv("VERIF_C01_FILL_ALT") != "" {
		// maintenance: record, for every triaged site of the audited tree, its hoisting-insensitive form
		for _, s := range sites {
			if e, ok := want[s.Key()]; ok && s.Alt != "" && s.Alt != s.Expr {
				e.Alt = s.Alt
			}
		}
		b, _ := json.MarshalIndent(tab, "", " ")
		os.WriteFile(filepath.Join(c.Verif, "tables", "c01_bounds.json"), b, 0o644)
	}
	classOf := func(s core.BoundsSite) *triageClass {
		for i := range tab.Classes {
			cl := &tab.Classes[i]
			if cl.FuncSuffix != "" && !strings.HasSuffix(s.FnName, cl.FuncSuffix) {
				continue
			}
			if cl.FuncPrefix != "" && !strings.HasPrefix(s.FnName, cl.FuncPrefix) {
				continue
			}
			if cl.FileSuffix != "" && !strings.HasSuffix(s.File, cl.FileSuffix) {
				continue
			}
			return cl
		}
		return nil
	}
	dump := os.Getenv("VERIF_C01_DUMP") != ""
	got := map[string]int{}
	first := map[string]core.BoundsSite{}
	nReach := 0
	for _, s := range sites {
		if s.Fn == nil || !reach[s.Fn] {
			continue
		}
		nReach++
		k := s.Key()
		got[k]++
		if _, ok := first[k]; !ok {
			first[k] = s
		}
	}
	r.Count("unproven_bounds_checks_peer_reachable", nReach)
	var keys []string
	for k := range got {
		keys = append(keys, k)
	}
	sort.Strings(keys)
	// checks discharged from the function's own code, by function and kind: the compiler reports
	// the same check again at every call site into which it inlined the function
	localOf := map[string]string{}
	for _, k := range keys {
		s := first[k]
		if _, triaged := want[k]; triaged || got[k] != 1 {
			continue
		}
		if why := locallyGuarded(s); why != "" {
			localOf[s.FnName+" "+s.Kind] = why
		}
	}
	for _, k := range keys {
		s := first[k]
		pos := fmt.Sprintf("%s:%d", s.File, s.Line)
		e, ok := want[k]
		if !ok && s.Alt != "" {
			// the same site with a sub-expression hoisted into (or written back from) a local
			if e2, ok2 := want[s.AltKey()]; ok2 {
				e, ok = e2, true
			} else if e2, ok2 := wantAlt[k]; ok2 {
				e, ok = e2, true
			} else if e2, ok2 := wantAlt[s.AltKey()]; ok2 {
				e, ok = e2, true
			}
		}
		if !ok {
			if e2 := closureSibling(want, k); e2 != nil {
				e, ok = e2, true
			}
		}
		if ok {
			if got[k] > e.Count && !e.DataInvariant {
				r.Fail("R1.bounds", k, pos, fmt.Sprintf("%d unproven checks of this shape, only %d were triaged (%s): a further instance appeared", got[k], e.Count, e.Reason))
			} else {
				r.Pass("R1.bounds", k, pos, "triaged: "+e.Reason)
			}
			continue
		}
		if cl := classOf(s); cl != nil {
			r.Pass("R1.bounds", k, pos, "class "+cl.Name+": "+cl.Reason)
			continue
		}
		if why := locallyGuarded(s); why != "" && got[k] == 1 {
			r.Pass("R1.bounds", k, pos, "discharged locally: "+why)
			continue
		}
		if why := sszFixedOperand(p, s); why != "" && got[k] == 1 {
			r.Pass("R1.bounds", k, pos, "discharged by provenance: "+why)
			continue
		}
		if why := inlinedCopy(p, s, want, localOf); why != "" {
			r.Pass("R1.bounds", k, pos, why)
			continue
		}
		if why := totalLibraryCall(p, s); why != "" {
			r.Pass("R1.bounds", k, pos, why)
			continue
		}
		if why := minLenBound(p, s); why != "" && got[k] == 1 {
			r.Pass("R1.bounds", k, pos, "discharged locally: "+why)
			continue
		}
		if why := pooledBufferBound(p, s); why != "" {
			r.Pass("R1.bounds", k, pos, "discharged by provenance: "+why)
			continue
		}
		if dump {
			fmt.Fprintf(os.Stderr, "UNTRIAGED\t%s\t%s\t%s\t%s\tx%d\t%s\t%s\n", s.FnName, s.Kind, s.Expr, pos, got[k], srcLine(p, s), s.Raw)
		}
		r.Fail("R1.bounds", k, pos, "a bounds check on peer-reachable code that the compiler cannot prove and that is not in the triage table: with a suitable input this "+strings.TrimPrefix(s.Kind, "Is")+" check can fail and the handler panics (a length/offset check protecting it is missing, was removed or weakened)")
	}

	c01other(c, roots, reach, tab)
}

// closureSibling looks a site key up under the names of the sibling closures of its function:
// anonymous functions are numbered in source order, so adding or removing one closure (a defer
// turned into explicit calls, a new deferred clean-up) renumbers the others. The site is the
// triaged one when exactly one sibling number has an entry for the same kind and expression and
// the key's own number has none.
func closureSibling(want map[string]*triageEntry, k string) *triageEntry {
	sp := strings.Index(k, " ")
	if sp < 0 {
		return nil
	}
	fn, rest := k[:sp], k[sp:]
	d := strings.LastIndex(fn, "$")
	if d < 0 || d == len(fn)-1 {
		return nil
	}
	for _, ch := range fn[d+1:] {
		if ch < '0' || ch > '9' {
			return nil
		}
	}
	var found *triageEntry
	for m := 1; m <= 9; m++ {
		alt := fmt.Sprintf("%s$%d%s", fn[:d], m, rest)
		if alt == k {
			continue
		}
		if e, ok := want[alt]; ok {
			if found != nil && found != e {
				return nil
			}
			found = e
		}
	}
	return found
}

func srcLine(p *core.Prog, s core.BoundsSite) string {
	b, err := os.ReadFile(filepath.Join(p.Repo, s.File))
	if err != nil {
		return ""
	}
	ls := strings.Split(string(b), "\n")
	if s.Line-1 < len(ls) {
		return strings.TrimSpace(ls[s.Line-1])
	}
	return ""
}

// c01other: R3 assertions/panics, R4 definite nil, R5 blocking ops, R6 dispatch default.
func c01other(c *Ctx, roots []*ssa.Function, reach map[*ssa.Function]bool, tab *triageTable) {
	p, r := c.P, c.R
	want := map[string]*triageEntry{}
	for i := range tab.Sites {
		e := &tab.Sites[i]
		want[e.Func+" "+e.Kind+" "+e.Expr] = e
	}
	dump := os.Getenv("VERIF_C01_DUMP") != ""
	// ---- R3
	var fns []*ssa.Function
	for f := range reach {
		fns = append(fns, f)
	}
	sort.Slice(fns, func(i, j int) bool { return fns[i].String() < fns[j].String() })
	count := map[string]int{}
	posOf := map[string]string{}
	proved := map[string]string{}
	for _, fn := range fns {
		name := core.FuncName(fn)
		for _, b := range fn.Blocks {
			for _, in := range b.Instrs {
				switch x := in.(type) {
				case *ssa.TypeAssert:
					if x.CommaOk {
						continue
					}
					// a type switch lowers to comma-ok asserts; a plain x.(T) stays
					if why := poolAssertProved(p, x); why != "" {
						kk := name + " TypeAssert " + types.TypeString(x.AssertedType, func(pk *types.Package) string { return pk.Name() }) + " (sync.Pool)"
						proved[kk] = why
						posOf[kk] = p.Pos(core.InstrPos(x))
						continue
					}
					if why := atomicValueAssertProved(p, x); why != "" {
						proved[name+" TypeAssert "+types.TypeString(x.AssertedType, func(pk *types.Package) string { return pk.Name() })+" (atomic.Value)"] = why
						posOf[name+" TypeAssert "+types.TypeString(x.AssertedType, func(pk *types.Package) string { return pk.Name() })+" (atomic.Value)"] = p.Pos(core.InstrPos(x))
						continue
					}
					k := name + " TypeAssert " + types.TypeString(x.AssertedType, func(pk *types.Package) string { return pk.Name() })
					count[k]++
					posOf[k] = p.Pos(core.InstrPos(x))
				case *ssa.Panic:
					// go/ssa's own stub after a select without default: not a panic of the program
					if mi, isMi := x.X.(*ssa.MakeInterface); isMi {
						if cs, isC := mi.X.(*ssa.Const); isC && cs.Value != nil && cs.Value.Kind() == constant.String && constant.StringVal(cs.Value) == "blocking select matched no case" && !x.Pos().IsValid() {
							k := name + " select-stub"
							proved[k] = "go/ssa's 'blocking select matched no case' stub after a select without default (unreachable)"
							posOf[k] = p.Pos(core.InstrPos(x))
							continue
						}
					}
					k := name + " Panic explicit"
					count[k]++
					posOf[k] = p.Pos(core.InstrPos(x))
				case *ssa.Call:
					id := core.CalleeID(x)
					short := shortID(id)
					if i := strings.LastIndex(short, "."); i >= 0 && strings.HasPrefix(short[i+1:], "Must") {
						k := name + " MustCall " + short
						count[k]++
						posOf[k] = p.Pos(core.InstrPos(x))
					}
				}
			}
		}
	}
	var pks []string
	for k := range proved {
		pks = append(pks, k)
	}
	sort.Strings(pks)
	for _, k := range pks {
		r.Pass("R3.assert-panic", k, posOf[k], "proved: "+proved[k])
	}
	var ks []string
	for k := range count {
		ks = append(ks, k)
	}
	sort.Strings(ks)
	for _, k := range ks {
		if e, ok := want[k]; ok && count[k] <= e.Count {
			r.Pass("R3.assert-panic", k, posOf[k], "triaged: "+e.Reason)
			continue
		}
		if _, own := want[k]; !own {
			if e := closureSibling(want, k); e != nil && count[k] <= e.Count {
				r.Pass("R3.assert-panic", k, posOf[k], "triaged (closure renumbered): "+e.Reason)
				continue
			}
		}
		if dump {
			fmt.Fprintf(os.Stderr, "UNTRIAGED-R3\t%s\tx%d\t%s\n", k, count[k], posOf[k])
		}
		r.Fail("R3.assert-panic", k, posOf[k], "an unchecked type assertion / explicit panic / Must* call on peer-reachable code that is not in the triage table")
	}

	// ---- R4 definite nil: `var x *T` never assigned, then used as receiver or dereferenced
	for _, fn := range fns {
		for _, b := range fn.Blocks {
			for _, in := range b.Instrs {
				var used ssa.Value
				var how string
				switch x := in.(type) {
				case *ssa.Call:
					if !x.Call.IsInvoke() && len(x.Call.Args) > 0 && core.StaticCalleeFn(x) != nil && core.StaticCalleeFn(x).Signature.Recv() != nil {
						used, how = x.Call.Args[0], "method call on"
					}
				case *ssa.FieldAddr:
					used, how = x.X, "field access through"
				}
				if used == nil {
					continue
				}
				if cst, ok := used.(*ssa.Const); ok && cst.Value == nil {
					if _, isPtr := cst.Type().Underlying().(*types.Pointer); isPtr {
						r.Fail("R4.definite-nil", core.FuncName(fn)+" "+how+" nil "+types.TypeString(cst.Type(), func(pk *types.Package) string { return pk.Name() }), p.Pos(core.InstrPos(in)), how+" a pointer that is nil on every path (declared, never assigned): nil dereference as soon as the callee touches a field")
					}
				}
			}
		}
	}
	r.Pass("R4.definite-nil", "scan", "-", fmt.Sprintf("%d peer-reachable functions scanned for uses of constant-nil pointers", len(fns)))

	// ---- R5 blocking ops in the synchronous part of talk handlers
	handlers := map[*ssa.Function]bool{}
	for _, f := range roots {
		if f.Synthetic == "" && f.Signature.Params().Len() == 3 && f.Signature.Results().Len() == 1 && f.Signature.Results().At(0).Type().String() == "[]byte" {
			handlers[f] = true
		}
	}
	// synchronous closure: static calls only (no go statements, no closures handed elsewhere)
	impls := p.Implementations()
	syncSet := map[*ssa.Function]bool{}
	var walk func(f *ssa.Function, depth int)
	walk = func(f *ssa.Function, depth int) {
		if f == nil || syncSet[f] || depth > 6 || !core.InModule(f) || f.Blocks == nil {
			return
		}
		syncSet[f] = true
		for _, b := range f.Blocks {
			for _, in := range b.Instrs {
				switch x := in.(type) {
				case *ssa.Call:
					if x.Call.IsInvoke() {
						for _, g := range impls(x.Call.Method) {
							walk(g, depth+1)
						}
					} else {
						walk(core.StaticCalleeFn(x), depth+1)
					}
				case *ssa.Defer:
					walk(core.StaticCalleeFn(x), depth+1)
				}
			}
		}
	}
	for h := range handlers {
		walk(h, 0)
	}
	r.Count("functions_run_synchronously_by_talk_handlers", len(syncSet))
	var sfs []*ssa.Function
	for f := range syncSet {
		sfs = append(sfs, f)
	}
	sort.Slice(sfs, func(i, j int) bool { return sfs[i].String() < sfs[j].String() })
	nops := 0
	for _, fn := range sfs {
		name := core.FuncName(fn)
		n := 0
		for _, b := range fn.Blocks {
			for _, in := range b.Instrs {
				var what string
				var ch ssa.Value
				switch x := in.(type) {
				case *ssa.Send:
					what, ch = "send", x.Chan
				case *ssa.UnOp:
					if x.Op == token.ARROW {
						what, ch = "receive", x.X
					}
				case *ssa.Select:
					if !x.Blocking {
						continue
					}
					// a blocking select is fine when one case is a cancellation channel (Done / close request)
					cancel := false
					for _, st := range x.States {
						if core.Derives(st.Chan, func(v ssa.Value) bool {
							if cc, ok := v.(*ssa.Call); ok && (strings.HasSuffix(core.CalleeID(cc), ".Done") || strings.HasSuffix(core.CalleeID(cc), ".After")) {
								return true
							}
							_, f, ok := core.LoadedField(v)
							return ok && (strings.Contains(strings.ToLower(f), "close") || strings.Contains(strings.ToLower(f), "done"))
						}, core.DeriveOpts{}) {
							cancel = true
						}
					}
					nops++
					n++
					r.Check(cancel, "R5.blocking-ops", fmt.Sprintf("%s select #%d", name, n), p.Pos(core.InstrPos(in)), "blocking select with a cancellation case", "a talk handler can block forever in a select without default or cancellation case")
					continue
				}
				if what == "" {
					continue
				}
				nops++
				n++
				// channels created in this function (result plumbing) are fine
				local := core.Derives(ch, func(v ssa.Value) bool { _, ok := v.(*ssa.MakeChan); return ok }, core.DeriveOpts{})
				key := fmt.Sprintf("%s %s #%d", name, what, n)
				if e, ok := want[name+" ChanOp "+what]; ok {
					r.Pass("R5.blocking-ops", key, p.Pos(core.InstrPos(in)), "triaged: "+e.Reason)
					continue
				}
				r.Check(local, "R5.blocking-ops", key, p.Pos(core.InstrPos(in)), "on a channel created in this function", "a talk handler performs a bare channel "+what+" synchronously: when the other side stalls (e.g. the queue is full) the discv5 read loop that called the handler blocks and the node stops answering")
			}
		}
	}
	if nops == 0 {
		r.Pass("R5.blocking-ops", "scan", "-", "no channel operation in the synchronous part of the handlers")
	}
	r.Pass("R5.blocking-ops", "handlers", "-", fmt.Sprintf("%d talk handlers, %d functions run synchronously", len(handlers), len(syncSet)))

	// ---- R6 dispatch: a handler switching on the first byte returns nil for unknown codes
	for h := range handlers {
		msg := h.Params[len(h.Params)-1]
		sel := false
		for _, b := range h.Blocks {
			for _, in := range b.Instrs {
				if ia, ok := in.(*ssa.IndexAddr); ok && ia.X == ssa.Value(msg) {
					if k, isC := core.ConstInt(ia.Index); isC && k == 0 {
						sel = true
					}
				}
			}
		}
		if !sel {
			continue
		}
		isSelCmp := func(f core.Fact) bool {
			if f.Op != token.EQL {
				return false
			}
			_, isC := core.ConstInt(f.Y)
			return isC && core.Derives(f.X, func(v ssa.Value) bool { ia, ok := v.(*ssa.IndexAddr); return ok && ia.X == ssa.Value(msg) }, core.DeriveOpts{})
		}
		// on the path where every code comparison is false the reply is nil
		w := core.CutReach(core.CutSpec{Fn: h, Cut: func(b *ssa.BasicBlock, i int) bool { return core.AnyFact(isSelCmp)(core.EdgeFacts(b, i)) },
			Target: func(prev, b *ssa.BasicBlock) bool {
				ret, ok := b.Instrs[len(b.Instrs)-1].(*ssa.Return)
				if !ok {
					return false
				}
				return !core.IsNilConst(core.ResolveSpill(ret.Results[0]))
			}})
		r.Check(w == nil, "R6.dispatch-default", core.FuncName(h), p.Pos(h.Pos()), "unknown message codes yield an empty reply", "an unknown message code can produce a non-empty reply: "+p.PathString(w))
	}
	_ = ast.Inspect
	// ---- R7: tag/payload agreement behind the triaged assertions on OfferRequest.Request
	c01TaggedUnion(c, "OfferRequest", "Kind", "Request")
	c01LockPairing(c, reach)
	c01NilSentinel(c, reach)
	c01NilReturn(c, reach, tab)
	c01SharedMaps(c, roots, c01RootDesc(p))
	// R11: the content lookup closes its result channel when run() returns; run() returns only
	// when the in-flight counter says no worker is left, so the counter must be exact
	lookupCounterExact(c, "R11.workers-joined")
}

// locallyGuarded re-derives, for a site the compiler could not prove, a guard the checker can
// see in the same function: a slice x[lo:hi] (or x[lo:]) all of whose paths pass the edge
// len(x) >= hi (same expression), with lo a constant or hi = lo + unsigned; an index x[i] all of
// whose paths pass i < len(x). Returns the reason, or "".
func locallyGuarded(s core.BoundsSite) string {
	if s.Fn == nil {
		return ""
	}
	for _, b := range s.Fn.Blocks {
		for _, in := range b.Instrs {
			if in.Pos() != s.Pos {
				continue
			}
			switch x := in.(type) {
			case *ssa.Call:
				// slices.Delete(x, i, i+1) with i := slices.Index*(x, ...) tested non-negative:
				// 0 <= i < len(x), so i+1 <= len(x) (the library form of cutting one element out)
				if core.CalleeID(x) == "slices.Delete" && len(x.Call.Args) == 3 {
					ic, ok := core.Unwrap(x.Call.Args[1]).(*ssa.Call)
					if !ok || (core.CalleeID(ic) != "slices.IndexFunc" && core.CalleeID(ic) != "slices.Index") || len(ic.Call.Args) < 1 || ic.Call.Args[0] != x.Call.Args[0] {
						continue
					}
					bo, ok := x.Call.Args[2].(*ssa.BinOp)
					if !ok || bo.Op != token.ADD || bo.X != x.Call.Args[1] {
						continue
					}
					if k, isC := core.ConstInt(bo.Y); !isC || k != 1 {
						continue
					}
					nonNeg := core.AnyFact(func(f core.Fact) bool {
						return core.CmpFact(f, func(op token.Token, a, c ssa.Value) bool {
							if a != ssa.Value(ic) {
								return false
							}
							k, isC := core.ConstInt(c)
							return isC && ((op == token.GEQ && k == 0) || (op == token.GTR && k == -1) || (op == token.NEQ && k == -1))
						})
					})
					if core.InstrGuarded(x, nonNeg, nil) == nil {
						return "slices.Delete(x, i, i+1) with i returned by slices.Index* on the same slice and tested non-negative: 0 <= i < i+1 <= len(x)"
					}
				}
				continue
			case *ssa.Slice:
				bound := x.High
				if bound == nil {
					bound = x.Low
				}
				if bound == nil {
					return ""
				}
				if why := chunkLoopGuarded(s.Fn, x); why != "" {
					return why
				}
				// x[len(h):] with x := make([]T, len(h)+len(d)): the low bound is one of the two
				// non-negative terms of the length
				if x.High == nil && x.Low != nil {
					if mk, ok := core.Unwrap(x.X).(*ssa.MakeSlice); ok {
						if sum, ok := mk.Len.(*ssa.BinOp); ok && sum.Op == token.ADD {
							isLenAny := func(v ssa.Value) bool { return core.IsLenOf(v, func(ssa.Value) bool { return true }) }
							same := func(a, b ssa.Value) bool { return a == b || core.SameExpr(core.Unwrap(a), core.Unwrap(b)) }
							if (same(sum.X, x.Low) && isLenAny(sum.X) && isLenAny(sum.Y)) || (same(sum.Y, x.Low) && isLenAny(sum.X) && isLenAny(sum.Y)) {
								return "x[len(h):] with x = make(len(h)+len(d)): len(h) <= len(x)"
							}
						}
					}
				}
				// x[len(k):] (or x[:len(x)-len(k)]) on the true edge of bytes.HasPrefix(x, k) /
				// HasSuffix(x, k): the library tests len(x) >= len(k) first
				if x.High == nil && x.Low != nil {
					hasPfx := core.AnyFact(func(f core.Fact) bool {
						if f.Op != token.ILLEGAL || !f.Truth {
							return false
						}
						cc, ok := core.Unwrap(f.V).(*ssa.Call)
						if !ok || (core.CalleeID(cc) != "bytes.HasPrefix" && core.CalleeID(cc) != "strings.HasPrefix") || len(cc.Call.Args) != 2 {
							return false
						}
						return (cc.Call.Args[0] == x.X || core.SameExpr(core.Unwrap(cc.Call.Args[0]), core.Unwrap(x.X))) &&
							core.IsLenOf(x.Low, func(v ssa.Value) bool {
								return v == cc.Call.Args[1] || core.SameExpr(core.Unwrap(v), core.Unwrap(cc.Call.Args[1])) || (core.AccessPath(v) != "" && core.AccessPath(v) == core.AccessPath(cc.Call.Args[1]))
							})
					})
					if core.InstrGuarded(x, hasPfx, nil) == nil {
						return "x[len(k):] on the true edge of HasPrefix(x, k): len(x) >= len(k)"
					}
				}
				if why := intervalGuarded(x); why != "" {
					return why
				}
				if _, isC := core.ConstInt(bound); isC {
					return ""
				}
				// chunking a buffer whose length was checked to be a multiple of k:
				//   for i := 0; i < len(x); i += k { x[i:i+k] }        (index form)
				//   for len(r) > 0 { r[:k]; r = r[k:] } with r starting as x (shrinking form)
				// x[:i] / x[i+1:] with i := slices.Index*(x, ...) and i >= 0 on every path: 0 <= i < len(x)
				{
					idxOf := func(v ssa.Value) *ssa.Call {
						c, ok := core.Unwrap(v).(*ssa.Call)
						if !ok {
							return nil
						}
						switch core.CalleeID(c) {
						case "slices.IndexFunc", "slices.Index":
							if len(c.Call.Args) >= 1 && c.Call.Args[0] == x.X {
								return c
							}
						}
						return nil
					}
					var ic *ssa.Call
					if x.Low == nil && x.High != nil {
						ic = idxOf(x.High)
					} else if x.High == nil && x.Low != nil {
						if bo, ok := x.Low.(*ssa.BinOp); ok && bo.Op == token.ADD {
							if k, isC := core.ConstInt(bo.Y); isC && k == 1 {
								ic = idxOf(bo.X)
							}
						}
					}
					if ic != nil {
						nonNeg := core.AnyFact(func(f core.Fact) bool {
							return core.CmpFact(f, func(op token.Token, a, c ssa.Value) bool {
								if a != ssa.Value(ic) {
									return false
								}
								k, isC := core.ConstInt(c)
								return isC && ((op == token.GEQ && k == 0) || (op == token.GTR && k == -1) || (op == token.NEQ && k == -1))
							})
						})
						if core.InstrGuarded(x, nonNeg, nil) == nil {
							return "the bound is an index returned by slices.Index* on the same slice, tested non-negative: 0 <= i < len(x)"
						}
					}
				}
				// x[:n] with n, err := ssz.DivideInt2(len(x), k, max), k >= 1: n = len(x)/k <= len(x)
				if x.Low == nil && x.High != nil {
					if ex, ok := core.Unwrap(x.High).(*ssa.Extract); ok && ex.Index == 0 {
						if dc, ok := ex.Tuple.(*ssa.Call); ok && strings.HasSuffix(core.CalleeID(dc), "fastssz.DivideInt2") && len(dc.Call.Args) == 3 {
							if k, isC := core.ConstInt(dc.Call.Args[1]); isC && k >= 1 && core.IsLenOf(dc.Call.Args[0], func(v ssa.Value) bool { return v == x.X }) {
								return "the bound is DivideInt2(len(x), k >= 1, ...): at most len(x)"
							}
						}
					}
				}
				g := core.AnyFact(func(f core.Fact) bool {
					return core.CmpFact(f, func(op token.Token, a, c ssa.Value) bool {
						return op == token.GEQ && wide64(a) && core.IsLenOf(a, func(v ssa.Value) bool { return v == x.X }) && core.SameExpr(core.Unwrap(c), core.Unwrap(bound))
					})
				})
				if core.InstrGuarded(x, g, nil) != nil {
					return ""
				}
				// lo <= hi
				if x.High != nil && x.Low != nil {
					if _, isC := core.ConstInt(x.Low); !isC {
						bo, ok := x.High.(*ssa.BinOp)
						if !ok || bo.Op != token.ADD || !(core.SameExpr(bo.X, x.Low) || bo.X == x.Low) {
							return ""
						}
						// the addend is non-negative: converted from an unsigned value
						cv, ok := bo.Y.(*ssa.Convert)
						if !ok {
							return ""
						}
						bt, ok := cv.X.Type().Underlying().(*types.Basic)
						if !ok || bt.Info()&types.IsUnsigned == 0 {
							return ""
						}
					}
				}
				return "every path passes len(x) >= the slice bound (same expression)"
			case *ssa.IndexAddr:
				if k, isC := core.ConstInt(x.Index); isC {
					// x[k] after len(x) > k was established on every path, where x is read through a
					// pointer parameter this function only reads (the compiler gives up as soon as a
					// call - a timer, a log line - sits between the test and the index, because it
					// must assume the call could write through the pointer)
					if k < 0 {
						return ""
					}
					base := x.X
					for {
						if ct, isCt := base.(*ssa.ChangeType); isCt {
							base = ct.X
							continue
						}
						break
					}
					ld, ok := base.(*ssa.UnOp)
					if !ok || ld.Op != token.MUL {
						return ""
					}
					pa, ok := ld.X.(*ssa.Parameter)
					if !ok || pa.Referrers() == nil {
						return ""
					}
					for _, rf := range *pa.Referrers() {
						if u, isLd := rf.(*ssa.UnOp); !isLd || u.Op != token.MUL {
							if _, isDbg := rf.(*ssa.DebugRef); !isDbg {
								return ""
							}
						}
					}
					sameLoc := func(v ssa.Value) bool {
						for {
							if ct, isCt := v.(*ssa.ChangeType); isCt {
								v = ct.X
								continue
							}
							break
						}
						u, ok := v.(*ssa.UnOp)
						return ok && u.Op == token.MUL && u.X == ssa.Value(pa)
					}
					g := core.AnyFact(func(f core.Fact) bool {
						return core.CmpFact(f, func(op token.Token, a, c ssa.Value) bool {
							n, isN := core.ConstInt(c)
							if !isN || !core.IsLenOf(a, sameLoc) {
								return false
							}
							return (op == token.GTR && n >= k) || (op == token.GEQ && n >= k+1) || (op == token.NEQ && n == 0 && k == 0)
						})
					})
					if core.InstrGuarded(x, g, nil) == nil {
						return "every path passes len(*p) > index for a pointer parameter this function only reads"
					}
					return ""
				}
				g := core.AnyFact(func(f core.Fact) bool {
					return core.CmpFact(f, func(op token.Token, a, c ssa.Value) bool {
						return op == token.LSS && (a == x.Index || core.SameExpr(core.Unwrap(a), core.Unwrap(x.Index))) && core.IsLenOf(c, func(v ssa.Value) bool { return v == x.X || core.SameValue(v, x.X) })
					})
				})
				if core.InstrGuarded(x, g, nil) == nil {
					// the index must also be non-negative: unsigned or a loop counter from 0
					if bt, ok := x.Index.Type().Underlying().(*types.Basic); ok && bt.Info()&types.IsUnsigned != 0 {
						return "every path passes index < len(x) for an unsigned index"
					}
					if isInductionVar(x.Index) {
						return "every path passes index < len(x) for a loop counter"
					}
				}
			}
		}
	}
	return ""
}

// wide64: the value has a 64-bit (or int) type, so a length converted into it is not truncated.
func wide64(v ssa.Value) bool {
	bt, ok := v.Type().Underlying().(*types.Basic)
	if !ok {
		return false
	}
	switch bt.Kind() {
	case types.Int, types.Int64, types.Uint64, types.Uint, types.Uintptr:
		return true
	}
	return false
}

// inlinedCopy: the compiler attributes a check to a call expression when it inlined the callee:
// the check is a copy of one inside that function. It is covered when the site is a call of a
// module function all of whose own unproven checks of that kind are triaged (the invariant
// written there is about the callee's own data, e.g. "crypto.Keccak256 returns 32 bytes").
func inlinedCopy(p *core.Prog, s core.BoundsSite, want map[string]*triageEntry, localOf map[string]string) string {
	call, ok := s.Node.(*ast.CallExpr)
	if !ok || s.Fn == nil {
		return ""
	}
	pk, _ := p.FileOf(s.Pos)
	if pk == nil {
		return ""
	}
	var callee *types.Func
	switch fun := ast.Unparen(call.Fun).(type) {
	case *ast.Ident:
		callee, _ = pk.TypesInfo.Uses[fun].(*types.Func)
	case *ast.SelectorExpr:
		if sel, ok := pk.TypesInfo.Selections[fun]; ok {
			callee, _ = sel.Obj().(*types.Func)
		} else {
			callee, _ = pk.TypesInfo.Uses[fun.Sel].(*types.Func)
		}
	}
	if callee == nil || callee.Pkg() == nil || !strings.HasPrefix(callee.Pkg().Path(), core.ModPath) {
		return ""
	}
	name := strings.ReplaceAll(strings.ReplaceAll(callee.FullName(), core.ModPath+"/", ""), core.ModPath, "")
	if sig, ok := callee.Type().(*types.Signature); ok && sig.Recv() != nil {
		if _, isIface := sig.Recv().Type().Underlying().(*types.Interface); isIface {
			// the compiler devirtualised the call: find the concrete method through the SSA value
			name = ""
			for _, b := range s.Fn.Blocks {
				for _, in := range b.Instrs {
					c2, ok := in.(*ssa.Call)
					if !ok || !c2.Call.IsInvoke() || c2.Call.Method.Name() != callee.Name() {
						continue
					}
					if c2.Pos() != call.Lparen && c2.Pos() != call.Pos() {
						continue
					}
					if _, f := core.ConcreteRecv(c2); f != nil {
						name = core.FuncName(f)
					}
				}
			}
			if name == "" {
				return ""
			}
		}
	}
	// a renamed callee is listed under the name it had on the audited tree
	if old, ok := p.Renamed[name]; ok {
		name = old
	}
	var reasons []string
	for k, e := range want {
		if e.Func == name && e.Kind == s.Kind {
			_ = k
			reasons = append(reasons, e.Reason)
		}
	}
	if len(reasons) == 0 {
		if why, ok := localOf[name+" "+s.Kind]; ok {
			return "the compiler's inlined copy of " + name + ", whose own check of this kind is discharged from its code (" + why + ")"
		}
		return ""
	}
	sort.Strings(reasons)
	return "copy of a triaged check inside " + name + " that the compiler inlined here: " + reasons[0]
}

// atomicValueAssertProved: x = v.(T) where v is field.Load() of an atomic.Value struct field and
// every Store into that field in the module stores a T: the assertion cannot fail once a value
// was stored (a Load before any Store yields nil and would panic on the conversion - the
// constructor must store first, which C06.R5/C17.R3 check for the radius).
func atomicValueAssertProved(p *core.Prog, x *ssa.TypeAssert) string {
	var typ, field string
	core.Derives(x.X, func(v ssa.Value) bool {
		c, ok := v.(*ssa.Call)
		if ok && core.CalleeID(c) == "sync/atomic.(*Value).Load" && len(c.Call.Args) == 1 {
			if t, f, _, ok := core.FieldRef(c.Call.Args[0]); ok {
				typ, field = t, f
			}
		}
		return false
	}, core.DeriveOpts{})
	if field == "" {
		return ""
	}
	n := 0
	for _, fn := range p.ModuleFuncs() {
		bad := false
		core.Calls(fn, func(ci ssa.CallInstruction) {
			if core.CalleeID(ci) != "sync/atomic.(*Value).Store" || len(ci.Common().Args) != 2 {
				return
			}
			t, f, _, ok := core.FieldRef(ci.Common().Args[0])
			if !ok || f != field || t != typ {
				return
			}
			n++
			mi, ok := ci.Common().Args[1].(*ssa.MakeInterface)
			if !ok || !types.Identical(mi.X.Type(), x.AssertedType) {
				bad = true
			}
		})
		if bad {
			return ""
		}
	}
	if n == 0 {
		return ""
	}
	return fmt.Sprintf("all %d Store calls into %s.%s store a %s", n, typ, field, types.TypeString(x.AssertedType, func(pk *types.Package) string { return pk.Name() }))
}

// sszFixedOperand: the site converts a byte slice to an array (or slices it to a constant
// length) and the slice is, by data flow inside the function, a field (or an element of a field)
// that the type's SSZ tags declare as a fixed-size byte vector at least that long. The size is
// enforced by the type's decoder (C14.R1 checks decoder against tags).
func sszFixedOperand(p *core.Prog, s core.BoundsSite) string {
	if s.Fn == nil || s.Kind != "IsSliceInBounds" {
		return ""
	}
	for _, b := range s.Fn.Blocks {
		for _, in := range b.Instrs {
			sp, ok := in.(*ssa.SliceToArrayPointer)
			if !ok {
				continue
			}
			if os.Getenv("VERIF_DEBUG") != "" {
				fmt.Fprintf(os.Stderr, "debug sszFixedOperand cand: %s sp.Pos=%v instrPos=%v site=%v node=%T\n", s.Key(), sp.Pos(), core.InstrPos(sp), s.Pos, s.Node)
			}
			if sp.Pos() != s.Pos && core.InstrPos(sp) != s.Pos {
				// the compiler points at the operand, go/ssa at the parenthesis: same conversion
				ce, isCall := s.Node.(*ast.CallExpr)
				ip := core.InstrPos(sp)
				if !isCall || !(ip >= ce.Pos() && ip < ce.End()) {
					continue
				}
			}
			pt, ok := sp.Type().Underlying().(*types.Pointer)
			if !ok {
				continue
			}
			at, ok := pt.Elem().Underlying().(*types.Array)
			if !ok {
				continue
			}
			need := at.Len()
			why := ""
			if os.Getenv("VERIF_DEBUG") != "" {
				fmt.Fprintf(os.Stderr, "debug sszFixedOperand: %s operand %s = %v\n", s.Key(), sp.X.Name(), sp.X)
			}
			core.Derives(sp.X, func(v ssa.Value) bool {
				var fa *ssa.FieldAddr
				switch x := v.(type) {
				case *ssa.FieldAddr:
					fa = x
				case *ssa.UnOp:
					fa, _ = x.X.(*ssa.FieldAddr)
				}
				var st *types.Struct
				var idx int
				if fa != nil {
					if p2, ok := fa.X.Type().Underlying().(*types.Pointer); ok {
						st, _ = p2.Elem().Underlying().(*types.Struct)
						idx = fa.Field
					}
				} else if f, ok := v.(*ssa.Field); ok {
					st, _ = f.X.Type().Underlying().(*types.Struct)
					idx = f.Field
				}
				if st == nil {
					return false
				}
				tag := reflect.StructTag(st.Tag(idx)).Get("ssz-size")
				if tag == "" {
					return false
				}
				parts := strings.Split(tag, ",")
				last := strings.TrimSpace(parts[len(parts)-1])
				n, err := strconv.ParseInt(last, 10, 64)
				if err != nil || n < need {
					return false
				}
				// the value converted must be the byte vector itself: the field for a 1-dimensional
				// tag, an element of it for a 2-dimensional one
				bs, isSlice := sp.X.Type().Underlying().(*types.Slice)
				if !isSlice {
					return false
				}
				if b2, ok := bs.Elem().Underlying().(*types.Basic); !ok || b2.Kind() != types.Uint8 {
					return false
				}
				why = fmt.Sprintf("operand is (an element of) field %s, an SSZ fixed vector of %d bytes (ssz-size %q), converted to [%d]byte", st.Field(idx).Name(), n, tag, need)
				return true
			}, core.DeriveOpts{})
			if why != "" {
				return why
			}
			// a value that is a hash by construction (32 bytes), possibly handed in as a parameter
			// by callers that all pass such a value
			if need <= 32 {
				if w2 := hashSizedValue(p, sp.X, 0); w2 != "" {
					return fmt.Sprintf("operand is %s, converted to [%d]byte", w2, need)
				}
			}
		}
	}
	return ""
}

// hashSizedValue: v is, by data flow, the 32-byte output of a hash (common.Hash.Bytes(),
// crypto.Keccak256, sha256.Sum256(..)[:], Header.Hash().Bytes()); a parameter counts when every
// static call site of its function in the module passes such a value and the function is not
// used as a value.
func hashSizedValue(p *core.Prog, v ssa.Value, depth int) string {
	if depth > 2 {
		return ""
	}
	why := ""
	core.Derives(v, func(x ssa.Value) bool {
		switch y := x.(type) {
		case *ssa.Call:
			id := core.CalleeID(y)
			if os.Getenv("VERIF_DEBUG") != "" {
				fmt.Fprintf(os.Stderr, "debug hashSized call: %s\n", id)
			}
			switch {
			case strings.HasSuffix(id, "go-ethereum/common.(Hash).Bytes"), strings.HasSuffix(id, "go-ethereum/crypto.Keccak256"), id == "crypto/sha256.Sum256":
				why = "the 32-byte result of " + shortID(id)
				return true
			}
		case *ssa.Parameter:
			fn := y.Parent()
			if fn == nil || !core.InModule(fn) {
				return false
			}
			idx := -1
			for i, pa := range fn.Params {
				if pa == y {
					idx = i
				}
			}
			callers := p.CallersOfFn(fn)
			if os.Getenv("VERIF_DEBUG") != "" {
				fmt.Fprintf(os.Stderr, "debug hashSized: param %s of %s idx=%d callers=%d\n", y.Name(), fn, idx, len(callers))
			}
			n := 0
			for _, sites := range callers {
				for _, cs := range sites {
					n++
					if idx < 0 || idx >= len(cs.Common().Args) || hashSizedValue(p, cs.Common().Args[idx], depth+1) == "" {
						return false
					}
				}
			}
			if n == 0 || functionUsedAsValue(p, fn) {
				return false
			}
			why = fmt.Sprintf("parameter %s, to which all %d call site(s) pass a 32-byte hash", y.Name(), n)
			return true
		}
		return false
	}, core.DeriveOpts{})
	return why
}

// functionUsedAsValue: fn is referenced other than as the callee of a static call (stored,
// passed, bound as a method value): its parameters can then receive values we do not see.
func functionUsedAsValue(p *core.Prog, fn *ssa.Function) bool {
	if refs := fn.Referrers(); refs != nil {
		for _, r := range *refs {
			ci, ok := r.(ssa.CallInstruction)
			if !ok || ci.Common().Value != ssa.Value(fn) {
				return true
			}
		}
	}
	// exported methods can be called through interfaces from outside the functions we see
	if fn.Signature.Recv() != nil && fn.Object() != nil && fn.Object().Exported() {
		return true
	}
	return false
}

// chunkLoopGuarded discharges the two usual ways of cutting a buffer into k-byte chunks after
// `len(x) % k == 0` was established on every path to the slice.
func chunkLoopGuarded(fn *ssa.Function, sl *ssa.Slice) string {
	multipleOf := func(x ssa.Value, k int64) bool {
		g := core.AnyFact(func(f core.Fact) bool {
			return core.CmpFact(f, func(op token.Token, a, c ssa.Value) bool {
				z, isZ := core.ConstInt(c)
				bo, ok := core.Unwrap(a).(*ssa.BinOp)
				if op != token.EQL || !isZ || z != 0 || !ok || bo.Op != token.REM {
					return false
				}
				kk, isK := core.ConstInt(bo.Y)
				return isK && kk == k && core.IsLenOf(bo.X, func(v ssa.Value) bool { return v == x })
			})
		})
		return core.InstrGuarded(sl, g, nil) == nil
	}
	// index form
	if sl.Low != nil && sl.High != nil {
		if bo, ok := sl.High.(*ssa.BinOp); ok && bo.Op == token.ADD && bo.X == sl.Low {
			if k, isK := core.ConstInt(bo.Y); isK && k > 0 {
				if ph, ok := sl.Low.(*ssa.Phi); ok {
					start0, step := false, false
					for _, e := range ph.Edges {
						if z, isZ := core.ConstInt(e); isZ {
							start0 = z == 0
							continue
						}
						if b2, ok := e.(*ssa.BinOp); ok && b2.Op == token.ADD && b2.X == ssa.Value(ph) {
							if kk, isKK := core.ConstInt(b2.Y); isKK && kk == k {
								step = true
							}
						}
					}
					below := core.AnyFact(func(f core.Fact) bool {
						return core.CmpFact(f, func(op token.Token, a, c ssa.Value) bool {
							return op == token.LSS && a == ssa.Value(ph) && core.IsLenOf(c, func(v ssa.Value) bool { return v == sl.X })
						})
					})
					if start0 && step && core.InstrGuarded(sl, below, nil) == nil && multipleOf(sl.X, k) {
						return fmt.Sprintf("x[i:i+%d] with i = 0, %d, 2*%d, ... < len(x) and len(x) %% %d == 0 on every path", k, k, k, k)
					}
				}
			}
		}
	}
	// shrinking form: the sliced value is a loop variable r = phi(x, r[k:])
	if ph, ok := sl.X.(*ssa.Phi); ok {
		var x ssa.Value
		var k int64 = -1
		okShape := true
		for _, e := range ph.Edges {
			if s2, ok := e.(*ssa.Slice); ok && s2.X == ssa.Value(ph) && s2.High == nil && s2.Low != nil {
				if kk, isK := core.ConstInt(s2.Low); isK && kk > 0 && (k < 0 || k == kk) {
					k = kk
					continue
				}
				okShape = false
				continue
			}
			if x != nil && x != e {
				okShape = false
			}
			x = e
		}
		if okShape && x != nil && k > 0 {
			isHead := sl.Low == nil && sl.High != nil
			isTail := sl.High == nil && sl.Low != nil
			var c int64 = -1
			if isHead {
				c, _ = core.ConstInt(sl.High)
			} else if isTail {
				c, _ = core.ConstInt(sl.Low)
			}
			nonEmpty := core.AnyFact(func(f core.Fact) bool {
				return core.CmpFact(f, func(op token.Token, a, cst ssa.Value) bool {
					z, isZ := core.ConstInt(cst)
					return isZ && core.IsLenOf(a, func(v ssa.Value) bool { return v == ssa.Value(ph) }) && ((op == token.GTR && z == 0) || (op == token.NEQ && z == 0) || (op == token.GEQ && z == k))
				})
			})
			if c == k && core.InstrGuarded(sl, nonEmpty, nil) == nil && multipleOf(x, k) {
				return fmt.Sprintf("r[:%d] / r[%d:] with r shrinking by %d from x while len(r) > 0, and len(x) %% %d == 0 on every path", k, k, k, k)
			}
		}
	}
	return ""
}

// intervalGuarded discharges a slice of a fixed-size array whose bounds are linear in one loop
// counter with a constant range: a[c0+c1*w : d0+d1*w] for w in [lo, hi] needs
// 0 <= low <= high <= len(a) at both ends of the range (linear => at every w).
func intervalGuarded(sl *ssa.Slice) string {
	L := int64(-1)
	t := sl.X.Type()
	if pt, ok := t.Underlying().(*types.Pointer); ok {
		t = pt.Elem()
	}
	if at, ok := t.Underlying().(*types.Array); ok {
		L = at.Len()
	}
	if L < 0 {
		return ""
	}
	var counter *ssa.Phi
	src := func(v ssa.Value) string {
		if ph, ok := v.(*ssa.Phi); ok && isInductionVar(ph) {
			if counter == nil || counter == ph {
				counter = ph
				return "w"
			}
		}
		return ""
	}
	eval := func(v ssa.Value, dflt int64) (core.Lin, bool) {
		if v == nil {
			return core.Lin{C0: dflt, Terms: map[string]int64{}}, true
		}
		l := core.LinEval(v, src)
		if l.Opaque() || !l.OnlyAtoms("w") {
			return l, false
		}
		return l, true
	}
	lo, ok1 := eval(sl.Low, 0)
	hi, ok2 := eval(sl.High, L)
	if !ok1 || !ok2 || counter == nil {
		return ""
	}
	// range of the counter: start constant, step +1 (or -1), guard against a constant
	var start int64
	okStart := false
	step := int64(0)
	for _, e := range counter.Edges {
		if k, isC := core.ConstInt(e); isC {
			start, okStart = k, true
			continue
		}
		if bo, ok := e.(*ssa.BinOp); ok && bo.X == ssa.Value(counter) {
			if k, isC := core.ConstInt(bo.Y); isC {
				switch bo.Op {
				case token.ADD:
					step = k
				case token.SUB:
					step = -k
				}
			}
		}
	}
	if !okStart || step != 1 {
		return ""
	}
	// go/ssa's range-over-array/int loops start the phi at -1 and test phi+1 < N
	var bound int64 = -1
	plusOne := false
	g := core.AnyFact(func(f core.Fact) bool {
		return core.CmpFact(f, func(op token.Token, a, c ssa.Value) bool {
			k, isC := core.ConstInt(c)
			if !isC || op != token.LSS {
				return false
			}
			if a == ssa.Value(counter) {
				bound = k
				return true
			}
			if bo, ok := a.(*ssa.BinOp); ok && bo.Op == token.ADD && bo.X == ssa.Value(counter) {
				if one, isOne := core.ConstInt(bo.Y); isOne && one == 1 {
					bound, plusOne = k, true
					return true
				}
			}
			return false
		})
	})
	if core.InstrGuarded(sl, g, nil) != nil || bound < 0 {
		return ""
	}
	wlo, whi := start, bound-1
	if plusOne {
		// go/ssa's range loops: the phi starts one below and the guard tests phi+1 < N, so in the
		// body phi ranges over [start, N-2] (the linear forms are in terms of the phi itself)
		whi = bound - 2
	}
	if whi < wlo {
		return ""
	}
	at := func(l core.Lin, w int64) int64 { return l.C0 + l.Coef("w")*w }
	for _, w := range []int64{wlo, whi} {
		a, b := at(lo, w), at(hi, w)
		if a < 0 || a > b || b > L {
			return ""
		}
	}
	return fmt.Sprintf("bounds %s : %s are linear in a loop counter w in [%d, %d]; 0 <= low <= high <= %d at both ends", lo.String(), hi.String(), wlo, whi, L)
}

// totalLibraryCall: the compiler attributes a check to a call expression when it inlined the
// callee. For a short list of dependency functions that are total - they size their own output
// from the input and accept any input length (hex and string formatting, cloning) - the check is
// about the callee's own buffers, not about peer data: such calls appear whenever a log line or
// a metric label is added.
var totalLibraryFuncs = map[string]bool{
	"github.com/ethereum/go-ethereum/common/hexutil.Encode":         true,
	"github.com/ethereum/go-ethereum/common.Bytes2Hex":              true,
	"encoding/hex.EncodeToString":                                   true,
	"(github.com/ethereum/go-ethereum/common.Hash).Hex":             true,
	"(github.com/ethereum/go-ethereum/common.Hash).String":          true,
	"(github.com/ethereum/go-ethereum/common.Hash).TerminalString":  true,
	"(github.com/ethereum/go-ethereum/common.Address).Hex":          true,
	"(github.com/ethereum/go-ethereum/common.Address).String":       true,
	"(github.com/ethereum/go-ethereum/p2p/enode.ID).String":         true,
	"(github.com/ethereum/go-ethereum/p2p/enode.ID).TerminalString": true,
	"(github.com/ethereum/go-ethereum/p2p/enode.ID).GoString":       true,
	// total on every input (they compare lengths before they slice or index):
	"bytes.CutPrefix":                             true,
	"bytes.CutSuffix":                             true,
	"bytes.TrimPrefix":                            true,
	"bytes.TrimSuffix":                            true,
	"bytes.HasPrefix":                             true,
	"bytes.HasSuffix":                             true,
	"bytes.Equal":                                 true,
	"bytes.Compare":                               true,
	"bytes.Contains":                              true,
	"bytes.Index":                                 true,
	"bytes.IndexByte":                             true,
	"strings.CutPrefix":                           true,
	"strings.CutSuffix":                           true,
	"strings.TrimPrefix":                          true,
	"strings.TrimSuffix":                          true,
	"strings.HasPrefix":                           true,
	"strings.HasSuffix":                           true,
	"slices.Contains":                             true,
	"slices.ContainsFunc":                         true,
	"slices.Index":                                true,
	"slices.IndexFunc":                            true,
	"slices.Equal":                                true,
	"slices.Compare":                              true,
	"slices.Reverse":                              true,
	"slices.Sort":                                 true,
	"slices.SortFunc":                             true,
	"slices.SortStableFunc":                       true,
	"slices.BinarySearch":                         true,
	"slices.BinarySearchFunc":                     true,
	"slices.Chunk":                                false, // panics for n < 1
	"encoding/binary.AppendUvarint":               true,
	"encoding/binary.AppendVarint":                true,
	"(encoding/binary.bigEndian).AppendUint16":    true,
	"(encoding/binary.bigEndian).AppendUint32":    true,
	"(encoding/binary.bigEndian).AppendUint64":    true,
	"(encoding/binary.littleEndian).AppendUint16": true,
	"(encoding/binary.littleEndian).AppendUint32": true,
	"(encoding/binary.littleEndian).AppendUint64": true,
	"bytes.Clone":                                 true,
	"slices.Clone":                                true,
	"strings.Clone":                               true,
	"strconv.Itoa":                                true,
	"strconv.FormatUint":                          true,
	"strconv.FormatInt":                           true,
}

func totalLibraryCall(p *core.Prog, s core.BoundsSite) string {
	call, ok := s.Node.(*ast.CallExpr)
	if !ok {
		return ""
	}
	pk, _ := p.FileOf(s.Pos)
	if pk == nil {
		return ""
	}
	var callee *types.Func
	switch fun := ast.Unparen(call.Fun).(type) {
	case *ast.Ident:
		callee, _ = pk.TypesInfo.Uses[fun].(*types.Func)
	case *ast.SelectorExpr:
		if sel, ok := pk.TypesInfo.Selections[fun]; ok {
			callee, _ = sel.Obj().(*types.Func)
		} else {
			callee, _ = pk.TypesInfo.Uses[fun.Sel].(*types.Func)
		}
	case *ast.IndexExpr: // explicit instantiation
		if id, ok := fun.X.(*ast.SelectorExpr); ok {
			callee, _ = pk.TypesInfo.Uses[id.Sel].(*types.Func)
		}
	}
	if callee == nil {
		return ""
	}
	name := callee.FullName()
	if o := callee.Origin(); o != nil {
		name = o.FullName()
	}
	if totalLibraryFuncs[name] {
		return "check inside the inlined dependency function " + name + ", which sizes its own output and accepts any input length (dependencies are out of scope)"
	}
	return ""
}

// minLenBound: x[:min(len(x), k)] (the builtin form of "cut to at most k"): the upper bound holds
// by construction; the lower bound needs k >= 0, accepted when k is a non-negative constant, a
// length, or a parameter that every call site in the module gives a non-negative constant.
func minLenBound(p *core.Prog, s core.BoundsSite) string {
	if s.Fn == nil {
		return ""
	}
	nonNeg := func(v ssa.Value) bool {
		if k, isC := core.ConstInt(v); isC {
			return k >= 0
		}
		if core.IsLenOf(v, func(ssa.Value) bool { return true }) {
			return true
		}
		pa := core.ParamOf(v)
		if pa == nil || pa.Parent() != s.Fn {
			return false
		}
		idx := -1
		for i, q := range s.Fn.Params {
			if q == pa {
				idx = i
			}
		}
		n := 0
		for _, cs := range p.CallersOfFn(s.Fn) {
			for _, c := range cs {
				n++
				if idx < 0 || idx >= len(c.Common().Args) {
					return false
				}
				if k, isC := core.ConstInt(c.Common().Args[idx]); !isC || k < 0 {
					return false
				}
			}
		}
		return n > 0
	}
	for _, b := range s.Fn.Blocks {
		for _, in := range b.Instrs {
			x, ok := in.(*ssa.Slice)
			if !ok || x.Pos() != s.Pos || x.Low != nil || x.High == nil {
				continue
			}
			mc, ok := core.Unwrap(x.High).(*ssa.Call)
			if !ok || core.CalleeID(mc) != "builtin.min" || len(mc.Call.Args) != 2 {
				continue
			}
			a0, a1 := mc.Call.Args[0], mc.Call.Args[1]
			isLen := func(v ssa.Value) bool {
				return core.IsLenOf(v, func(y ssa.Value) bool {
					// the same slice, or two loads of one local cell in the same block with no store in between
					if y == x.X || core.SameValue(y, x.X) {
						return true
					}
					l1, ok1 := y.(*ssa.UnOp)
					l2, ok2 := x.X.(*ssa.UnOp)
					if !ok1 || !ok2 || l1.X != l2.X || l1.Block() != l2.Block() {
						return false
					}
					if _, isCell := l1.X.(*ssa.Alloc); !isCell {
						return false
					}
					between := false
					for _, i2 := range l1.Block().Instrs {
						if i2 == ssa.Instruction(l1) || i2 == ssa.Instruction(l2) {
							between = !between
							continue
						}
						if between {
							switch i2.(type) {
							case *ssa.Store, *ssa.Call, *ssa.Go, *ssa.Defer:
								return false
							}
						}
					}
					return true
				})
			}
			if (isLen(a0) && nonNeg(a1)) || (isLen(a1) && nonNeg(a0)) {
				return "x[:min(len(x), k)] with k >= 0: 0 <= bound <= len(x)"
			}
		}
	}
	return ""
}

func c01RootDesc(p *core.Prog) map[*ssa.Function]string {
	_, d := c01Roots(p)
	return d
}
