package props

import (
	"fmt"
	"go/token"
	"strings"

	"golang.org/x/tools/go/ssa"

	"verifchk/core"
)

func init() { Registry["C13"] = c13 }

const keccak256 = "github.com/ethereum/go-ethereum/crypto.Keccak256"

// hashCheckers: functions (node, hash) error returning nil only under bytes.Equal(node.NodeHash(), hash).
func hashCheckers(p *core.Prog) []*ssa.Function {
	var out []*ssa.Function
	for _, fn := range p.ModuleFuncs() {
		if fn.Pkg != p.SSAPkg("state") || fn.Signature.Params().Len() != 2 || fn.Signature.Results().Len() != 1 || core.ErrResultIndex(fn.Signature) != 0 {
			continue
		}
		hashes := false
		core.Calls(fn, func(ci ssa.CallInstruction) {
			if strings.HasSuffix(core.CalleeID(ci), ").NodeHash") {
				hashes = true
			}
		})
		if hashes {
			out = append(out, fn)
		}
	}
	return out
}

func c13(c *Ctx) {
	p, r := c.P, c.R
	r.Technique = "must-pass-through (cut) checks of the hash-link gate chain inside the proof walker (per loop iteration) and of the final gates in the node/bytecode validators; provenance of the root (oracle header for the content's block hash) and of what reaches the store; structural check that each traversal case consumes the nibbles it compared"
	r.Explanation = "Decides: (R1) the hash comparer returns nil only under bytes.Equal(node hash, expected); the proof walker succeeds only for a non-empty proof whose first node passed the comparer against the root argument, and in every loop iteration the carried node is replaced by the next proof element only after decoding the carried node, traversing it with the carried remaining path and the comparer succeeding on (next element, reference returned by that traversal); the carried path becomes exactly the traversal's remainder; the walk succeeds only after the loop ran out of proof elements (no early exit to a success return, so surplus nodes are decoded and linked too); (R2) the trie-node validator returns nil only under len(remaining) == 0 and the comparer succeeding on (last node, key's node hash), with the walker applied to (root, key path, content proof); the bytecode validator only under account code hash == key code hash for the account proven by the walker under the key's address hash, the account being the value the traversal of the last proof node yields for the remaining address path; every root argument derives from the oracle's header for the content's own block hash (header binding is C02.R3) and the storage-trie root from the proven account; oracle and decode errors stop validation; unknown selectors fail; (R3) the state store writes only the last proof element (re-hashed and compared with the key's node hash) or the code (hashed and compared with the key's code hash), nothing else from the proof; (R4) traversal: the branch case indexes with path[0] and continues with path[1:], the extension case compares every key nibble with the path and continues with path[len(key):], the leaf case requires the remaining path to equal the key prefix and hands the path back unconsumed (what the walker's progress test relies on to tell a leaf's value from a child reference). (R3.validated-before-store) the state network writes a (key, item) pair only after ValidateContent of that very pair returned nil. Not decided: soundness over all tries; panics on malformed nodes are C01's."
	r.Assumptions = []string{"keccak256 collision resistance", "trie node decoding (go-ethereum derived) is faithful"}
	r.Floor("R1.hash-link", 8)
	r.Floor("R2.final-gates", 9)
	r.Floor("R3.store-writes", 6)
	r.Floor("R3.validated-before-store", 2)
	r.Floor("R4.traversal", 4)

	sp := p.SSAPkg("state")
	checkers := hashCheckers(p)
	if len(checkers) == 0 {
		// the comparison may be written out where it is needed (bytes.Equal(node.NodeHash()[:], want))
		n := 0
		for _, fn := range p.ModuleFuncs() {
			if fn.Pkg == sp {
				n += len(hashLinksIn(fn, nil))
			}
		}
		if n == 0 {
			r.Fail("R1.hash-link", "hash comparer", "-", "anchor-unresolved")
			return
		}
	}
	for _, h := range checkers {
		g := bytesEqualFact(func(v ssa.Value) bool {
			return core.Derives(v, func(x ssa.Value) bool {
				cc, ok := x.(*ssa.Call)
				return ok && strings.HasSuffix(core.CalleeID(cc), ").NodeHash")
			}, core.DeriveOpts{})
		}, func(v ssa.Value) bool { return v == ssa.Value(h.Params[1]) })
		w := core.CutReach(core.CutSpec{Fn: h, Cut: func(b *ssa.BasicBlock, i int) bool { return g(core.EdgeFacts(b, i)) }, Target: core.SuccessTarget(h, nil)})
		r.Check(w == nil, "R1.hash-link", core.FuncName(h)+" compares", p.Pos(h.Pos()), "nil only when the node's hash equals the expected hash", "the hash comparer can accept a node whose hash differs: "+p.PathString(w))
		// NodeHash of its first parameter
		okRecv := false
		core.Calls(h, func(ci ssa.CallInstruction) {
			if strings.HasSuffix(core.CalleeID(ci), ").NodeHash") && core.Derives(ci.Common().Args[0], func(v ssa.Value) bool { return v == ssa.Value(h.Params[0]) }, core.DeriveOpts{}) {
				okRecv = true
			}
		})
		r.Check(okRecv, "R1.hash-link", core.FuncName(h)+" hashes-its-node", p.Pos(h.Pos()), "hashes the node it was given", "the comparer hashes something other than the node it was given")
	}
	isChecker := func(c2 *ssa.Call) bool { return containsFn(checkers, core.StaticCalleeFn(c2)) }

	// the walker
	var W *ssa.Function
	for _, fn := range p.ModuleFuncs() {
		if fn.Pkg != sp || fn.Signature.Results().Len() != 3 {
			continue
		}
		n := 0
		core.Calls(fn, func(ci ssa.CallInstruction) {
			if strings.HasSuffix(core.CalleeID(ci), "trie.TraverseTrieNode") && core.InLoop(ci.Block()) {
				n++
			}
		})
		if n > 0 {
			W = fn
		}
	}
	if W == nil {
		r.Fail("R1.hash-link", "proof walker", "-", "anchor-unresolved")
		return
	}
	wn := core.FuncName(W)
	rootP, pathP, proofP := W.Params[0], W.Params[1], W.Params[2]
	// non-empty proof
	{
		ne := core.AnyFact(func(f core.Fact) bool {
			return core.CmpFact(f, func(op token.Token, x, y ssa.Value) bool {
				k, isC := core.ConstInt(y)
				return isC && core.IsLenOf(x, func(v ssa.Value) bool { return derivesFromParam(v, proofP) }) && ((op == token.NEQ && k == 0) || (op == token.GTR && k == 0) || (op == token.GEQ && k == 1))
			})
		})
		w := core.CutReach(core.CutSpec{Fn: W, Cut: func(b *ssa.BasicBlock, i int) bool { return ne(core.EdgeFacts(b, i)) }, Target: core.SuccessTarget(W, nil)})
		r.Check(w == nil, "R1.hash-link", wn+" non-empty", p.Pos(W.Pos()), "succeeds only for a non-empty proof", "an empty proof can be accepted: "+p.PathString(w))
	}
	// first node vs root
	{
		var gates []func(fs []core.Fact) bool
		for _, l := range hashLinksIn(W, checkers) {
			first := core.Derives(l.node, func(v ssa.Value) bool {
				ia, ok := v.(*ssa.IndexAddr)
				if !ok {
					return false
				}
				k, isC := core.ConstInt(ia.Index)
				return isC && k == 0 && derivesFromParam(ia.X, proofP)
			}, core.DeriveOpts{})
			if first && derivesFromParam(l.hash, rootP) {
				gates = append(gates, l.gate)
			}
		}
		w := core.CutReach(core.CutSpec{Fn: W, Cut: func(b *ssa.BasicBlock, i int) bool {
			for _, g := range gates {
				if g(core.EdgeFacts(b, i)) {
					return true
				}
			}
			return false
		}, Target: core.SuccessTarget(W, nil)})
		r.Check(w == nil, "R1.hash-link", wn+" first-node-is-root", p.Pos(W.Pos()), "succeeds only if the first node hashes to the root argument", "a proof that does not start at the given root can be accepted: "+p.PathString(w))
	}
	// per-iteration chain
	var trav, dec, chk *ssa.Call
	var chkLink *hashLink
	for _, l := range hashLinksIn(W, checkers) {
		if l := l; core.InLoop(l.at.Block()) {
			chk, chkLink = l.at, &l
		}
	}
	core.Calls(W, func(ci ssa.CallInstruction) {
		call, ok := ci.(*ssa.Call)
		if !ok || !core.InLoop(call.Block()) {
			return
		}
		id := core.CalleeID(call)
		switch {
		case strings.HasSuffix(id, "trie.TraverseTrieNode"):
			trav = call
		case strings.HasSuffix(id, "trie.DecodeTrieNode"):
			dec = call
		}
	})
	if trav == nil || dec == nil || chk == nil {
		r.Fail("R1.hash-link", wn+" loop-shape", p.Pos(W.Pos()), "the loop does not decode, traverse and compare in every iteration")
	} else {
		// loop header = block of the phi that carries the node
		var nodePhi, pathPhi *ssa.Phi
		if ph, ok := core.Unwrap(dec.Call.Args[len(dec.Call.Args)-1]).(*ssa.Phi); ok {
			nodePhi = ph
		}
		if ph, ok := trav.Call.Args[1].(*ssa.Phi); ok {
			pathPhi = ph
		}
		if nodePhi == nil || pathPhi == nil {
			r.Fail("R1.hash-link", wn+" loop-carried", p.Pos(trav.Pos()), "decode/traverse are not applied to the loop-carried node and remaining path")
		} else {
			header := nodePhi.Block()
			for _, gc := range []struct {
				key  string
				call *ssa.Call
			}{{"decode-ok", dec}, {"traverse-ok", trav}, {"link-ok", chk}} {
				g := core.ErrNilGate(gc.key, func(c2 *ssa.Call) bool { return c2 == gc.call })
				if gc.call == chk {
					g.Edge = chkLink.gate
				}
				// from the loop header, reaching the header again (next iteration) or a success exit requires the gate
				w := core.CutReach(core.CutSpec{Fn: W, From: header,
					Cut: func(b *ssa.BasicBlock, i int) bool { return g.Edge(core.EdgeFacts(b, i)) },
					Target: func(prev, b *ssa.BasicBlock) bool {
						if prev == nil {
							return false
						}
						if b == header && reaches(dec.Block(), prev) && prev != header {
							// back edge: came from inside the body
							return core.InLoop(prev) && prev.Index > header.Index
						}
						return false
					}})
				r.Check(w == nil, "R1.hash-link", wn+" iteration "+gc.key, p.Pos(gc.call.Pos()), "the walk moves on to the next node only after this step succeeded", "the walk can move on to the next proof node although this step failed: "+p.PathString(w))
			}
			// operands
			okTrav := core.ResultOf(trav.Call.Args[0], dec, 0)
			r.Check(okTrav, "R1.hash-link", wn+" traverses-decoded", p.Pos(trav.Pos()), "the node traversed is the decoded carried node", "the node traversed is not the one just decoded")
			a := []ssa.Value{chkLink.node, chkLink.hash}
			okLink := core.ResultOf(a[1], trav, 0)
			var nextEl ssa.Value
			core.Derives(a[0], func(v ssa.Value) bool {
				if ia, ok := v.(*ssa.IndexAddr); ok && isInductionVar(ia.Index) {
					nextEl = ia
				}
				return false
			}, core.DeriveOpts{})
			// the compared node is the range element
			okNext := nextEl != nil || isRangeElemCell(a[0])
			r.Check(okLink && okNext, "R1.hash-link", wn+" link-operands", p.Pos(chk.Pos()), "the next proof element is compared with the reference the traversal returned", "the hash link compares something other than (next proof element, child reference returned by the traversal)")
			// what is compared is a child reference, never a leaf's value: the link check is
			// reached only after the traversal consumed part of the path (a leaf consumes nothing
			// and yields its value; a 31-byte storage value has a 32-byte RLP form that an
			// attacker can make equal to the hash of a node of their own), or the traversal used
			// cannot end in a leaf at all
			{
				progress := core.AnyFact(func(f core.Fact) bool {
					return core.CmpFact(f, func(op token.Token, x, y ssa.Value) bool {
						isLeft := func(v ssa.Value) bool {
							return core.IsLenOf(v, func(z ssa.Value) bool { return core.ResultOf(z, trav, 1) })
						}
						isBefore := func(v ssa.Value) bool {
							return core.IsLenOf(v, func(z ssa.Value) bool { return z == trav.Call.Args[1] })
						}
						return (op == token.LSS && isLeft(x) && isBefore(y)) || (op == token.GTR && isBefore(x) && isLeft(y))
					})
				})
				wl := core.InstrGuarded(chk, progress, header)
				leafFree := true
				if tf := core.StaticCalleeFn(trav); tf != nil {
					for _, b := range tf.Blocks {
						for _, in := range b.Instrs {
							if ta, ok := in.(*ssa.TypeAssert); ok && !ta.CommaOk && strings.HasSuffix(ta.AssertedType.String(), "valueNode") {
								leafFree = false
							}
						}
					}
				}
				r.Check(wl == nil || leafFree, "R1.hash-link", wn+" link-is-child-reference", p.Pos(chk.Pos()),
					"the next node is compared with the traversal's result only after the traversal consumed part of the path (a leaf's value is never taken for a child reference)",
					"a leaf's value can be taken for the hash of the next proof node: the proof may continue below a leaf with nodes that are not part of the trie (witness: storage slot holding keccak(N)[1:] for a crafted node N with keccak(N)[0] == 0x9f): "+p.PathString(wl))
			}
			// carried updates
			okCarry := false
			for _, e := range pathPhi.Edges {
				if core.ResultOf(e, trav, 1) {
					okCarry = true
				}
			}
			okFirstPath := false
			for _, e := range pathPhi.Edges {
				if e == ssa.Value(pathP) {
					okFirstPath = true
				}
			}
			r.Check(okCarry && okFirstPath, "R1.hash-link", wn+" remaining-path-carried", p.Pos(trav.Pos()), "the remaining path starts as the path argument and becomes exactly what the traversal left", "the remaining path is not carried from traversal to traversal")
			// returns the carried node and path
			okRet := false
			for _, ret := range core.Returns(W) {
				if ret.Results[0] == ssa.Value(nodePhi) && ret.Results[1] == ssa.Value(pathPhi) {
					okRet = true
				}
			}
			r.Check(okRet, "R1.hash-link", wn+" returns-last", p.Pos(W.Pos()), "returns the last linked node and the path left after it", "the walker does not return the last linked node / remaining path")
			// the slice iterated is proof[1:]
			okRange := false
			for _, b := range W.Blocks {
				for _, in := range b.Instrs {
					if sl, ok := in.(*ssa.Slice); ok && derivesFromParam(sl.X, proofP) {
						if k, isC := core.ConstInt(sl.Low); isC && k == 1 && sl.High == nil {
							okRange = true
						}
					}
				}
			}
			if !okRange && nextEl != nil {
				// index form: for i := 1; i < len(nodes); i++ { ... nodes[i] ... }
				if ia, ok := nextEl.(*ssa.IndexAddr); ok {
					if ph, ok := ia.Index.(*ssa.Phi); ok && derivesFromParam(ia.X, proofP) {
						start1, step1 := false, false
						for _, e := range ph.Edges {
							if k, isC := core.ConstInt(e); isC {
								start1 = k == 1
								continue
							}
							if bo, ok := e.(*ssa.BinOp); ok && bo.Op == token.ADD && bo.X == ssa.Value(ph) {
								if k, isC := core.ConstInt(bo.Y); isC && k == 1 {
									step1 = true
								}
							}
						}
						bound := false
						for _, b := range W.Blocks {
							for i := range b.Succs {
								for _, f := range core.EdgeFacts(b, i) {
									core.CmpFact(f, func(op token.Token, x, y ssa.Value) bool {
										if op == token.LSS && x == ssa.Value(ph) && core.IsLenOf(y, func(v ssa.Value) bool { return core.SameValue(v, ia.X) || derivesFromParam(v, proofP) }) {
											bound = true
										}
										return false
									})
								}
							}
						}
						okRange = start1 && step1 && bound
					}
				}
			}
			r.Check(okRange, "R1.hash-link", wn+" walks-all-following", p.Pos(W.Pos()), "iterates over every element after the first", "the walk does not cover every proof element after the first")
			// ... and success is reached only when the loop ran out of elements: an edge that leaves
			// the loop from inside its body (break) must not lead to a success exit, or the nodes
			// after that point are neither decoded nor linked (surplus nodes accepted)
			{
				inLoop := map[*ssa.BasicBlock]bool{}
				for _, b := range W.Blocks {
					if b == header || (reaches(header, b) && reaches(b, header) && core.InLoop(b)) {
						inLoop[b] = true
					}
				}
				var wEarly []*ssa.BasicBlock
				for b := range inLoop {
					if b == header {
						continue
					}
					for _, sblk := range b.Succs {
						if inLoop[sblk] {
							continue
						}
						st := core.SuccessTarget(W, nil)
						if st(b, sblk) {
							wEarly = []*ssa.BasicBlock{b, sblk}
							continue
						}
						if w := core.CutReach(core.CutSpec{Fn: W, From: sblk, NoEnter: func(x *ssa.BasicBlock) bool { return inLoop[x] }, Target: st}); w != nil {
							wEarly = append([]*ssa.BasicBlock{b}, w...)
						}
					}
				}
				r.Check(wEarly == nil, "R1.hash-link", wn+" no-early-success", p.Pos(W.Pos()), "the walk succeeds only after the loop ran out of proof elements", "the walk can leave the loop early and succeed: the proof elements after that point are neither decoded nor linked, so a proof with surplus nodes is accepted: "+p.PathString(wEarly))
			}
		}
	}

	// ---- the state root comes from the header the oracle bound to the content's block hash
	for _, nt := range implementersOf(p, "validation", "Oracle") {
		if m := methodOf(p, nt, "GetBlockHeaderByHash"); m != nil && len(core.CallsTo(m, rpcCallContext)) > 0 {
			oracleHeaderBinding(c, "R2.oracle-binding", m)
		}
	}
	// ---- R2 validators
	var SV *ssa.Function
	for _, nt := range implementersOf(p, "validation", "Validator") {
		if nt.Obj().Pkg().Path() == core.ModPath+"/state" {
			SV = methodOf(p, nt, "ValidateContent")
		}
	}
	if SV == nil {
		r.Fail("R2.final-gates", "state validator", "-", "anchor-unresolved")
		return
	}
	{
		isSelCmp := func(f core.Fact) bool {
			if f.Op != token.EQL {
				return false
			}
			_, isC := core.ConstInt(f.Y)
			return isC
		}
		w := core.CutReach(core.CutSpec{Fn: SV, Cut: func(b *ssa.BasicBlock, i int) bool { return core.AnyFact(isSelCmp)(core.EdgeFacts(b, i)) }, Target: core.SuccessTarget(SV, func(v ssa.Value) bool { _, ok := v.(*ssa.Call); return ok })})
		r.Check(w == nil, "R2.final-gates", core.FuncName(SV)+" default-rejects", p.Pos(SV.Pos()), "unknown selectors yield an error", "state content with an unknown selector can be accepted: "+p.PathString(w))
	}
	// per-type validators: methods of the validator type calling the oracle
	for _, fn := range p.ModuleFuncs() {
		if fn.Pkg != sp || fn.Signature.Recv() == nil || fn.Signature.Recv().Type().String() != SV.Signature.Recv().Type().String() {
			continue
		}
		var oc *ssa.Call
		core.Calls(fn, func(ci ssa.CallInstruction) {
			cc := ci.Common()
			if cc.IsInvoke() && cc.Method.Name() == "GetBlockHeaderByHash" {
				oc, _ = ci.(*ssa.Call)
			}
		})
		if oc == nil {
			continue
		}
		name := core.FuncName(fn)
		contentP := fn.Params[len(fn.Params)-1]
		keyP := fn.Params[len(fn.Params)-2]
		// oracle asked for the content's block hash
		okBH := core.Derives(oc.Call.Args[0], func(v ssa.Value) bool { _, f, _, ok := core.FieldRef(v); return ok && f == "BlockHash" }, core.DeriveOpts{}) && derivesFromParam(oc.Call.Args[0], contentP)
		r.Check(okBH, "R2.final-gates", name+" header-of-content-block", p.Pos(oc.Pos()), "the header comes from the oracle for the block hash named in the content", "the state root is taken from a header other than the one the content names")
		og := core.ErrNilGate("oracle", func(c2 *ssa.Call) bool { return c2 == oc })
		var hdr ssa.Value
		for _, rf := range *oc.Referrers() {
			if ex, ok := rf.(*ssa.Extract); ok && ex.Index == 0 {
				hdr = ex
			}
		}
		fromHdrRoot := func(v ssa.Value) bool {
			return core.Derives(v, func(x ssa.Value) bool {
				_, f, base, ok := core.FieldRef(x)
				return ok && f == "Root" && base == hdr
			}, core.DeriveOpts{})
		}
		// calls to proof validators in this function
		var proofCalls []*ssa.Call
		core.Calls(fn, func(ci ssa.CallInstruction) {
			call, ok := ci.(*ssa.Call)
			if !ok {
				return
			}
			f := core.StaticCalleeFn(call)
			if f == nil || f.Pkg != sp {
				return
			}
			if f == W || len(p.CallersOfFn(W)[f]) > 0 {
				proofCalls = append(proofCalls, call)
			}
		})
		if len(proofCalls) == 0 {
			r.Fail("R2.final-gates", name+" proof-check", p.Pos(fn.Pos()), "this validator does not verify a trie proof")
			continue
		}
		// every success exit passes every proof call's success and the oracle's
		for i, pc := range proofCalls {
			g := core.ErrNilGate("proof", func(c2 *ssa.Call) bool { return c2 == pc })
			w := core.CutReach(core.CutSpec{Fn: fn, Cut: func(b *ssa.BasicBlock, i int) bool { return g.Edge(core.EdgeFacts(b, i)) }, Target: core.SuccessTarget(fn, g.ErrOK)})
			r.Check(w == nil, "R2.final-gates", fmt.Sprintf("%s proof-#%d-verdict", name, i+1), p.Pos(pc.Pos()), "nil only if this proof check succeeded", "content can be accepted although this proof check failed: "+p.PathString(w))
			w2 := core.InstrGuarded(pc, og.Edge, nil)
			r.Check(w2 == nil, "R2.final-gates", fmt.Sprintf("%s proof-#%d-after-oracle", name, i+1), p.Pos(pc.Pos()), "proofs are checked only when the oracle returned a header", "validation proceeds although the oracle failed: "+p.PathString(w2))
		}
		// the first proof call's root is the header's state root; a second one's root is the proven account's storage root
		first := proofCalls[0]
		r.Check(fromHdrRoot(first.Call.Args[0]), "R2.final-gates", name+" root-is-header-state-root", p.Pos(first.Pos()), "the (account) proof is rooted at the oracle header's state root", "the proof is not verified against the state root of the header the content names")
		if len(proofCalls) == 2 {
			second := proofCalls[1]
			okRoot := core.Derives(second.Call.Args[0], func(v ssa.Value) bool {
				_, f, base, ok := core.FieldRef(v)
				return ok && f == "Root" && core.ResultOf(base, first, 0)
			}, core.DeriveOpts{})
			r.Check(okRoot, "R2.final-gates", name+" storage-root-is-proven-account's", p.Pos(second.Pos()), "the storage proof is rooted at the storage root of the account just proven", "the storage proof is not verified against the proven account's storage root")
		}
		// key/content operands: key fields come from the key, proofs from the content
		for i, pc := range proofCalls {
			okOps := true
			sawKey, sawContent := false, false
			for _, a := range pc.Call.Args[1:] {
				if derivesFromParam(a, keyP) && !derivesFromParam(a, contentP) {
					sawKey = true
				} else if derivesFromParam(a, contentP) && !derivesFromParam(a, keyP) {
					sawContent = true
				} else if derivesFromParam(a, contentP) && derivesFromParam(a, keyP) {
					okOps = false
				}
				// an operand that comes from neither (a limit held by the validator, a logger) is
				// not part of the key/content pairing
			}
			r.Check(okOps && sawKey && sawContent, "R2.final-gates", fmt.Sprintf("%s proof-#%d-operands", name, i+1), p.Pos(pc.Pos()), "hash/path operands come from the key, the proof from the content", "the proof check mixes up key and content operands")
		}
		// bytecode: code hash comparison
		if len(proofCalls) == 1 && core.StaticCalleeFn(first) != W && core.StaticCalleeFn(first).Signature.Results().Len() == 2 {
			g := bytesEqualFact(func(v ssa.Value) bool {
				return core.Derives(v, func(x ssa.Value) bool {
					_, f, base, ok := core.FieldRef(x)
					return ok && f == "CodeHash" && core.ResultOf(base, first, 0)
				}, core.DeriveOpts{})
			}, func(v ssa.Value) bool {
				return core.Derives(v, func(x ssa.Value) bool { _, f, _, ok := core.FieldRef(x); return ok && f == "CodeHash" }, core.DeriveOpts{}) && derivesFromParam(v, keyP)
			})
			w := core.CutReach(core.CutSpec{Fn: fn, Cut: func(b *ssa.BasicBlock, i int) bool { return g(core.EdgeFacts(b, i)) }, Target: core.SuccessTarget(fn, nil)})
			r.Check(w == nil, "R2.final-gates", name+" code-hash", p.Pos(fn.Pos()), "nil only if the proven account's code hash equals the key's code hash", "bytecode can be accepted although the proven account's code hash differs from the key's: "+p.PathString(w))
		}
	}
	// account leg: the account handed on is what the trie traversal of the LAST proof node yields
	// for the path the walker left over - that traversal is what compares the leaf's key with the
	// rest of the address path, i.e. what makes the proven account the one the key names
	for fn := range p.CallersOfFn(W) {
		if fn.Signature.Results().Len() != 2 || !strings.HasSuffix(fn.Signature.Results().At(0).Type().String(), "StateAccount") {
			continue
		}
		name := core.FuncName(fn)
		wc := p.CallersOfFn(W)[fn][0].(*ssa.Call)
		var trav *ssa.Call
		core.Calls(fn, func(ci ssa.CallInstruction) {
			if cc, ok := ci.(*ssa.Call); ok && strings.HasSuffix(core.CalleeID(cc), "trie.TraverseTrieNode") {
				trav = cc
			}
		})
		okT := false
		if trav != nil {
			// traverse(decode(walker's node), walker's remaining path)
			okNode := core.Derives(trav.Call.Args[0], func(v ssa.Value) bool {
				dc, ok := v.(*ssa.Call)
				return ok && strings.HasSuffix(core.CalleeID(dc), "trie.DecodeTrieNode") && core.Derives(dc.Call.Args[len(dc.Call.Args)-1], func(x ssa.Value) bool { return core.ResultOf(x, wc, 0) }, core.DeriveOpts{})
			}, core.DeriveOpts{})
			okPath := core.ResultOf(trav.Call.Args[1], wc, 1)
			// the account returned derives from the traversal's value, and its error gates success
			okVal := false
			for _, ret := range core.Returns(fn) {
				if core.Derives(core.ResolveSpill(ret.Results[0]), func(v ssa.Value) bool { return core.ResultOf(v, trav, 0) }, core.DeriveOpts{ThroughCalls: true}) {
					okVal = true
				}
			}
			g := core.ErrNilGate("traverse", func(c2 *ssa.Call) bool { return c2 == trav })
			wg := core.CutReach(core.CutSpec{Fn: fn, Cut: func(b *ssa.BasicBlock, i int) bool { return g.Edge(core.EdgeFacts(b, i)) }, Target: core.SuccessTarget(fn, func(v ssa.Value) bool { _, isC := v.(*ssa.Extract); return isC })})
			okT = okNode && okPath && okVal && wg == nil
		}
		r.Check(okT, "R2.final-gates", name+" account-is-the-leaf-on-the-path", p.Pos(fn.Pos()), "the account is the value the traversal of the last proof node yields for the remaining address path", "the account handed on is not obtained by traversing the last proof node with the remaining address path: the leaf's key is then never compared with the rest of the path, and the proof of a neighbouring account is accepted for an address it does not belong to (its code and storage validate under the wrong address)")
	}
	// node validator: len(remaining)==0 and final hash
	for fn := range p.CallersOfFn(W) {
		if fn.Signature.Results().Len() != 1 {
			continue
		}
		name := core.FuncName(fn)
		wc := p.CallersOfFn(W)[fn][0].(*ssa.Call)
		empty := core.AnyFact(func(f core.Fact) bool {
			return core.CmpFact(f, func(op token.Token, x, y ssa.Value) bool {
				k, isC := core.ConstInt(y)
				return isC && core.IsLenOf(x, func(v ssa.Value) bool { return core.ResultOf(v, wc, 1) }) && ((op == token.EQL && k == 0) || (op == token.LEQ && k == 0) || (op == token.LSS && k == 1))
			})
		})
		w := core.CutReach(core.CutSpec{Fn: fn, Cut: func(b *ssa.BasicBlock, i int) bool { return empty(core.EdgeFacts(b, i)) }, Target: core.SuccessTarget(fn, nil)})
		r.Check(w == nil, "R2.final-gates", name+" path-fully-consumed", p.Pos(fn.Pos()), "nil only under len(remaining path) == 0", "a node can be accepted although the key's path was not fully consumed: "+p.PathString(w))
		finalOK := func(node, hash ssa.Value) bool {
			okNode := core.Derives(node, func(v ssa.Value) bool { return core.ResultOf(v, wc, 0) }, core.DeriveOpts{}) || storedResult(node, wc, 0)
			okHash := false
			for _, pa := range fn.Params {
				if derivesFromParam(hash, pa) && strings.Contains(strings.ToLower(pa.Name()), "hash") && pa != fn.Params[0] {
					okHash = true
				}
			}
			return okNode && okHash
		}
		g := core.ErrNilGate("final", func(c2 *ssa.Call) bool {
			if !isChecker(c2) {
				return false
			}
			return finalOK(c2.Call.Args[0], c2.Call.Args[1])
		})
		var written []func(fs []core.Fact) bool
		for _, l := range hashLinksIn(fn, nil) {
			if finalOK(l.node, l.hash) {
				written = append(written, l.gate)
			}
		}
		w2 := core.CutReach(core.CutSpec{Fn: fn, Cut: func(b *ssa.BasicBlock, i int) bool {
			fs := core.EdgeFacts(b, i)
			for _, wg := range written {
				if wg(fs) {
					return true
				}
			}
			return g.Edge(fs)
		}, Target: core.SuccessTarget(fn, g.ErrOK)})
		r.Check(w2 == nil, "R2.final-gates", name+" final-node-is-key-hash", p.Pos(fn.Pos()), "nil only if the last node hashes to the key's node hash", "a node other than the one named by the key can be accepted: "+p.PathString(w2))
		// walker operands
		wa := wc.Call.Args
		okW := wa[0] == ssa.Value(fn.Params[0]) && derivesFromParam(wa[1], fn.Params[2]) && wa[2] == ssa.Value(fn.Params[3])
		r.Check(okW, "R2.final-gates", name+" walker-operands", p.Pos(wc.Pos()), "the walker gets (root, key path, proof)", "the walker is not applied to the given root, the key's path and the proof")
	}

	// ---- R5 no decode/validation error is lost on the state validation path
	{
		roots := []*ssa.Function{SV}
		for _, fn := range p.ModuleFuncs() {
			if fn.Pkg == sp && fn.Signature.Recv() != nil && core.TypeName(fn.Signature.Recv().Type()) == "Storage" {
				roots = append(roots, fn)
			}
		}
		lostErrorRule(c, "R5.error-not-lost", "state validation path", roots, []string{"state", "state/trie"})
	}

	// ---- R3 store writes (state.Storage put* functions)
	nPut := 0
	for _, fn := range p.ModuleFuncs() {
		if fn.Pkg != sp || fn.Signature.Recv() == nil || core.TypeName(fn.Signature.Recv().Type()) != "Storage" {
			continue
		}
		core.Calls(fn, func(ci ssa.CallInstruction) {
			cc := ci.Common()
			if !cc.IsInvoke() || cc.Method.Name() != "Put" {
				return
			}
			nPut++
			name := core.FuncName(fn)
			keyP, contentP := fn.Params[1], fn.Params[3]
			// gate: keccak(X) == key hash where X is what is stored
			var hashed ssa.Value
			g := bytesEqualFact(func(v ssa.Value) bool {
				item, ok := keccakOperand(v)
				if ok && item != nil {
					hashed = core.Unwrap(item)
				}
				return ok
			}, func(v ssa.Value) bool { return derivesFromParam(v, keyP) && !derivesFromParam(v, contentP) })
			w := core.InstrGuarded(ci, g, nil)
			r.Check(w == nil, "R3.store-writes", name+" hash-gate", p.Pos(ci.Pos()), "stored only after keccak(item) == the key's hash", "the state store can write an item whose hash is not the key's: "+p.PathString(w))
			// the stored value is the serialisation of a container holding exactly the hashed item
			okVal := false
			if hashed != nil {
				for _, b := range fn.Blocks {
					for _, in := range b.Instrs {
						st, ok := in.(*ssa.Store)
						if !ok {
							continue
						}
						isHashed := func(v ssa.Value) bool {
							v = core.Unwrap(v)
							if core.SameValue(v, hashed) {
								return true
							}
							// the result of a written-out helper: the hashed item on its success
							// exit, nil on its error exits (which the hash gate above rules out here)
							ph, ok := v.(*ssa.Phi)
							if !ok || w != nil {
								return false
							}
							n := 0
							for _, e := range ph.Edges {
								e = core.Unwrap(e)
								if core.IsNilConst(e) {
									continue
								}
								if !core.SameValue(e, hashed) {
									return false
								}
								n++
							}
							return n > 0
						}
						if _, f, base, ok := core.FieldRef(st.Addr); ok && (f == "Node" || f == "Code") && isHashed(st.Val) {
							// that container is serialised into the buffer whose bytes are stored
							ser := false
							core.Calls(fn, func(c3 ssa.CallInstruction) {
								if !strings.HasSuffix(core.CalleeID(c3), ").Serialize") {
									return
								}
								recv := c3.Common().Args[0]
								isBase := recv == base
								if u, ok := recv.(*ssa.UnOp); ok && u.Op == token.MUL && u.X == base {
									isBase = true
								}
								if !isBase {
									return
								}
								// serialised into the very buffer whose bytes are stored
								stored := cc.Args[len(cc.Args)-1]
								if bc, ok := stored.(*ssa.Call); ok && core.CalleeID(bc) == "bytes.(*Buffer).Bytes" {
									buf := bc.Call.Args[0]
									if core.Derives(c3.Common().Args[1], func(v ssa.Value) bool { return v == buf }, core.DeriveOpts{ThroughCalls: true}) {
										ser = true
									}
								}
							})
							if ser {
								okVal = true
							}
						}
					}
				}
			}
			r.Check(okVal, "R3.store-writes", name+" stores-only-hashed-item", p.Pos(ci.Pos()), "what is stored is the container of exactly the item that was hashed", "the value written is not (only) the item whose hash was compared with the key")
			// trie node: the item is the LAST proof element
			if hashed != nil {
				if u, ok := hashed.(*ssa.UnOp); ok {
					if ia, ok := u.X.(*ssa.IndexAddr); ok {
						bo, isBo := ia.Index.(*ssa.BinOp)
						okLast := isBo && bo.Op == token.SUB && core.IsLenOf(bo.X, func(v ssa.Value) bool { return core.SameValue(v, ia.X) || sameFieldLoad(v, ia.X) })
						if okLast {
							k, isC := core.ConstInt(bo.Y)
							okLast = isC && k == 1
						}
						r.Check(okLast, "R3.store-writes", name+" last-proof-element", p.Pos(ci.Pos()), "the item is proof[len(proof)-1]", "the node stored is not the last element of the proof")
					}
				}
			}
		})
	}
	r.Count("state_store_puts", nPut)
	// the consumer of the validator: what the state network receives is handed to the store only
	// after the validator accepted this very (key, item) pair
	{
		n := networkStoresOnlyValidated(c, "R3.validated-before-store", "state")
		r.Check(n >= 1, "R3.validated-before-store", "state network store writes", "-", fmt.Sprintf("%d write(s) of received content inspected", n), "the state network no longer writes received content through PortalProtocol.Put: the hand-off from validation to the store is not recognisable")
	}

	// ---- R4 traversal
	var T *ssa.Function
	if tp := p.SSAPkg("state/trie"); tp != nil {
		T = tp.Func("TraverseTrieNode")
	}
	if T == nil {
		for _, fn := range p.ModuleFuncs() {
			if strings.HasSuffix(fn.String(), "trie.TraverseTrieNode") {
				T = fn
			}
		}
	}
	if T == nil {
		r.Fail("R4.traversal", "trie traversal", "-", "anchor-unresolved")
		return
	}
	tn := core.FuncName(T)
	// a step of the walk: continue with (child, rest of the path). Either a recursive call
	// T(child, rest), or - iterative form - the values the loop-carried (node, path) pair takes
	// on a back edge. pathT is the path as the step sees it: the parameter, or the loop variable.
	var pathT ssa.Value = T.Params[1]
	type walkStep struct {
		anchor      ssa.Instruction
		child, rest ssa.Value
	}
	var recs []walkStep
	core.Calls(T, func(ci ssa.CallInstruction) {
		if core.StaticCalleeFn(ci) == T {
			if call, ok := ci.(*ssa.Call); ok {
				recs = append(recs, walkStep{call, call.Call.Args[0], call.Call.Args[1]})
			}
		}
	})
	if len(recs) == 0 {
		var nodePhi, pathPhi *ssa.Phi
		for _, b := range T.Blocks {
			for _, in := range b.Instrs {
				ph, ok := in.(*ssa.Phi)
				if !ok {
					continue
				}
				for _, e := range ph.Edges {
					if e == ssa.Value(T.Params[1]) {
						pathPhi = ph
					}
					if e == ssa.Value(T.Params[0]) {
						nodePhi = ph
					}
				}
			}
		}
		if nodePhi != nil && pathPhi != nil && nodePhi.Block() == pathPhi.Block() {
			pathT = pathPhi
			var pairs func(nv, pv ssa.Value, d int)
			pairs = func(nv, pv ssa.Value, d int) {
				np, ok1 := nv.(*ssa.Phi)
				pp, ok2 := pv.(*ssa.Phi)
				if ok1 && ok2 && np.Block() == pp.Block() && np != nodePhi && d < 4 {
					for j := range np.Edges {
						pairs(np.Edges[j], pp.Edges[j], d+1)
					}
					return
				}
				if pv == ssa.Value(T.Params[1]) || pv == ssa.Value(pathPhi) {
					return
				}
				if in, ok := pv.(ssa.Instruction); ok {
					recs = append(recs, walkStep{in, nv, pv})
				}
			}
			for j := range pathPhi.Edges {
				pairs(nodePhi.Edges[j], pathPhi.Edges[j], 0)
			}
		}
	}
	nBranch, nExt := 0, 0
	for _, st := range recs {
		rc := st.anchor
		// library form of the extension step: rest, found := bytes.CutPrefix(path, key); continue
		// with rest only when found (rest is then path[len(key):] and the whole key was compared)
		if ex, isEx := st.rest.(*ssa.Extract); isEx && ex.Index == 0 {
			if cc, isCall := ex.Tuple.(*ssa.Call); isCall && core.CalleeID(cc) == "bytes.CutPrefix" && len(cc.Call.Args) == 2 && cc.Call.Args[0] == ssa.Value(pathT) {
				_, f, okKey := core.LoadedField(cc.Call.Args[1])
				foundFact := core.AnyFact(func(fc core.Fact) bool {
					if fc.Op != token.ILLEGAL || !fc.Truth {
						return false
					}
					e2, ok := fc.V.(*ssa.Extract)
					return ok && e2.Tuple == ex.Tuple && e2.Index == 1
				})
				nExt++
				r.Check(okKey && f == "Key" && core.InstrGuarded(rc, foundFact, nil) == nil, "R4.traversal", tn+" extension-consumes-key", p.Pos(core.InstrPos(rc)), "the walk continues with what bytes.CutPrefix(path, key) left, only when the key was a prefix", "the extension case does not consume exactly the nibbles it compared")
				continue
			}
		}
		sl, ok := st.rest.(*ssa.Slice)
		if !ok || sl.X != ssa.Value(pathT) || sl.High != nil {
			r.Fail("R4.traversal", tn+" recursion-path", p.Pos(core.InstrPos(rc)), "the recursion does not continue with a suffix of the path")
			continue
		}
		if k, isC := core.ConstInt(sl.Low); isC {
			// branch: child selected by path[0], continue with path[1:]
			nBranch++
			okChild := core.Derives(st.child, func(v ssa.Value) bool {
				ia, ok := v.(*ssa.IndexAddr)
				if !ok {
					return false
				}
				return core.Derives(ia.Index, func(x ssa.Value) bool {
					i2, ok := x.(*ssa.IndexAddr)
					if !ok || i2.X != ssa.Value(pathT) {
						return false
					}
					z, isZ := core.ConstInt(i2.Index)
					return isZ && z == 0
				}, core.DeriveOpts{})
			}, core.DeriveOpts{})
			r.Check(k == 1 && okChild, "R4.traversal", tn+" branch-consumes-one", p.Pos(core.InstrPos(rc)), "child = Children[path[0]], continue with path[1:]", "the branch case does not consume exactly the nibble it used to select the child")
		} else {
			// extension: continue with path[len(key):] after comparing every key nibble
			nExt++
			var keyV ssa.Value
			okLen := core.IsLenOf(sl.Low, func(v ssa.Value) bool { keyV = v; _, f, ok := core.LoadedField(v); return ok && f == "Key" })
			okCmp := false
			if okLen {
				cmp := core.AnyFact(func(f core.Fact) bool {
					if f.Op != token.EQL {
						return false
					}
					isPathAt := func(v ssa.Value) bool {
						return core.Derives(v, func(x ssa.Value) bool {
							ia, ok := x.(*ssa.IndexAddr)
							return ok && ia.X == ssa.Value(pathT) && isInductionVar(ia.Index)
						}, core.DeriveOpts{})
					}
					isKeyAt := func(v ssa.Value) bool {
						return core.Derives(v, func(x ssa.Value) bool {
							ia, ok := x.(*ssa.IndexAddr)
							return ok && isInductionVar(ia.Index) && (core.SameValue(ia.X, keyV) || sameFieldLoad(ia.X, keyV))
						}, core.DeriveOpts{})
					}
					return (isPathAt(f.X) && isKeyAt(f.Y)) || (isPathAt(f.Y) && isKeyAt(f.X))
				})
				// the loop exits to the recursion only through its natural end; each iteration continues only on equality
				found := false
				// equivalent whole-prefix comparison: bytes.HasPrefix(path, key) / bytes.Equal(path[:len(key)], key) with the WHOLE key
				whole := core.AnyFact(func(f core.Fact) bool {
					if f.Op != token.ILLEGAL || !f.Truth {
						return false
					}
					cc, ok := f.V.(*ssa.Call)
					if !ok {
						return false
					}
					isKey := func(v ssa.Value) bool { return core.SameValue(v, keyV) || sameFieldLoad(v, keyV) }
					switch core.CalleeID(cc) {
					case "bytes.HasPrefix":
						return cc.Call.Args[0] == ssa.Value(pathT) && isKey(cc.Call.Args[1])
					case "bytes.Equal":
						a, b := cc.Call.Args[0], cc.Call.Args[1]
						isPfx := func(v ssa.Value) bool {
							sl, ok := v.(*ssa.Slice)
							return ok && sl.X == ssa.Value(pathT) && sl.Low == nil && core.IsLenOf(sl.High, isKey)
						}
						return (isPfx(a) && isKey(b)) || (isPfx(b) && isKey(a))
					}
					return false
				})
				if core.InstrGuarded(rc, whole, nil) == nil {
					found = true
				}
				for _, b := range T.Blocks {
					for i := range b.Succs {
						if cmp(core.EdgeFacts(b, i)) {
							found = true
						}
					}
				}
				okCmp = found
			}
			r.Check(okLen && okCmp, "R4.traversal", tn+" extension-consumes-key", p.Pos(core.InstrPos(rc)), "every key nibble is compared with the path and the walk continues with path[len(key):]", "the extension case does not consume exactly the nibbles it compared")
		}
	}
	r.Check(nBranch == 1 && nExt == 1, "R4.traversal", tn+" cases", p.Pos(T.Pos()), "one branch and one extension recursion", fmt.Sprintf("expected one branch and one extension recursion, found %d/%d", nBranch, nExt))
	// leaf: value returned only under bytes.Equal(key prefix, path)
	{
		g := bytesEqualFact(func(v ssa.Value) bool {
			return core.Derives(v, func(x ssa.Value) bool { _, f, ok := core.LoadedField(x); return ok && f == "Key" }, core.DeriveOpts{})
		}, func(v ssa.Value) bool { return v == ssa.Value(pathT) })
		n := 0
		for _, ret := range core.Returns(T) {
			ta, ok := ret.Results[0].(*ssa.ChangeType)
			var src ssa.Value
			if ok {
				src = ta.X
			} else {
				src = ret.Results[0]
			}
			ta2, isTA := src.(*ssa.TypeAssert)
			if !isTA || ta2.CommaOk {
				continue
			}
			if _, f, ok := core.LoadedField(ta2.X); !ok || f != "Val" {
				continue
			}
			n++
			w := core.InstrGuarded(ret, g, nil)
			r.Check(w == nil, "R4.traversal", tn+" leaf-prefix", p.Pos(core.InstrPos(ret)), "a leaf's value is returned only when the remaining path equals the leaf's key prefix", "a leaf can be accepted on a path that differs from its key: "+p.PathString(w))
			// a leaf hands the path back unconsumed: that is what lets the walker tell a leaf's value
			// from a child reference (its guard is "the traversal consumed part of the path")
			if len(ret.Results) > 1 {
				r.Check(ret.Results[1] == ssa.Value(pathT), "R4.traversal", tn+" leaf-consumes-nothing", p.Pos(core.InstrPos(ret)), "the leaf case returns the path it was given as the remainder", "the leaf case reports part of the path as consumed: the walker's test that the traversal made progress no longer tells a leaf's value from a child reference, and a proof can continue below a leaf (a 31-byte storage value is 32 bytes long like a hash)")
			}
		}
		if n == 0 {
			r.Note("R4.traversal", tn+" leaf-return", p.Pos(T.Pos()), "leaf value return not recognised (shape changed)")
		}
	}
}

// isRangeElemCell: v is the address of the cell holding the range element (go 1.22 per-iteration variable).
func isRangeElemCell(v ssa.Value) bool {
	a, ok := v.(*ssa.Alloc)
	if !ok {
		return false
	}
	for _, rf := range *a.Referrers() {
		if st, ok := rf.(*ssa.Store); ok && st.Addr == ssa.Value(a) {
			if u, ok := st.Val.(*ssa.UnOp); ok {
				if ia, ok := u.X.(*ssa.IndexAddr); ok && isInductionVar(ia.Index) {
					return true
				}
			}
		}
	}
	return false
}

// storedResult: v is the address of a cell that stores result #idx of call.
func storedResult(v ssa.Value, call *ssa.Call, idx int) bool {
	a, ok := v.(*ssa.Alloc)
	if !ok {
		return false
	}
	for _, rf := range *a.Referrers() {
		if st, ok := rf.(*ssa.Store); ok && st.Addr == ssa.Value(a) && core.ResultOf(st.Val, call, idx) {
			return true
		}
	}
	return false
}

// keccakOperand: v is keccak256(item), possibly converted or sliced, or the result of a module
// function with a single parameter that returns keccak256 of (what) that parameter (points to).
// Returns the item hashed (nil when it cannot be named).
func keccakOperand(v ssa.Value) (ssa.Value, bool) {
	for i := 0; i < 4; i++ {
		v = core.Unwrap(v)
		switch x := v.(type) {
		case *ssa.Slice:
			v = x.X
			continue
		case *ssa.Convert:
			v = x.X
			continue
		case *ssa.SliceToArrayPointer:
			v = x.X
			continue
		case *ssa.UnOp:
			if x.Op == token.MUL {
				if sp, ok := x.X.(*ssa.SliceToArrayPointer); ok {
					v = sp.X
					continue
				}
			}
		}
		break
	}
	cc, ok := v.(*ssa.Call)
	if !ok {
		return nil, false
	}
	if core.CalleeID(cc) == keccak256 || core.CalleeID(cc) == keccak256+"Hash" {
		el := core.VariadicElems(cc.Call.Args[0])
		if len(el) == 1 {
			return el[0], true
		}
		return nil, true
	}
	f := core.StaticCalleeFn(cc)
	if f == nil || !core.InModule(f) || len(f.Params) != 1 || len(cc.Call.Args) != 1 {
		return nil, false
	}
	rets := core.Returns(f)
	if len(rets) != 1 || len(rets[0].Results) != 1 {
		return nil, false
	}
	inner, ok := keccakOperand(rets[0].Results[0])
	if !ok || inner == nil {
		return nil, false
	}
	// the inner item is the parameter (or what it points to)
	base := core.Unwrap(inner)
	if u, isLoad := base.(*ssa.UnOp); isLoad && u.Op == token.MUL {
		base = u.X
	}
	if base != ssa.Value(f.Params[0]) {
		return nil, false
	}
	arg := cc.Call.Args[0]
	if a, isCell := arg.(*ssa.Alloc); isCell {
		if refs := a.Referrers(); refs != nil {
			var st *ssa.Store
			n := 0
			for _, rf := range *refs {
				if s2, ok := rf.(*ssa.Store); ok && s2.Addr == ssa.Value(a) {
					st = s2
					n++
				}
			}
			if n == 1 {
				return st.Val, true
			}
		}
	}
	return arg, true
}

// hashLink is one place where a node is required to hash to an expected value: a call of a hash
// comparer (gate: its error is nil), or the comparison written out as
// bytes.Equal(node.NodeHash()[:], want) (gate: the call is true).
type hashLink struct {
	at         *ssa.Call
	node, hash ssa.Value
	gate       func(fs []core.Fact) bool
}

func hashLinksIn(fn *ssa.Function, checkers []*ssa.Function) []hashLink {
	var out []hashLink
	core.Calls(fn, func(ci ssa.CallInstruction) {
		call, ok := ci.(*ssa.Call)
		if !ok {
			return
		}
		if f := core.StaticCalleeFn(call); f != nil && containsFn(checkers, f) && len(call.Call.Args) == 2 {
			g := core.ErrNilGate("link", func(c2 *ssa.Call) bool { return c2 == call })
			out = append(out, hashLink{at: call, node: call.Call.Args[0], hash: call.Call.Args[1], gate: g.Edge})
			return
		}
		if core.CalleeID(call) != "bytes.Equal" {
			return
		}
		for i := 0; i < 2; i++ {
			var recv ssa.Value
			core.Derives(call.Call.Args[i], func(x ssa.Value) bool {
				if cc, ok := x.(*ssa.Call); ok && strings.HasSuffix(core.CalleeID(cc), ").NodeHash") {
					recv = cc.Call.Args[0]
					return true
				}
				return false
			}, core.DeriveOpts{})
			if recv == nil {
				continue
			}
			out = append(out, hashLink{at: call, node: recv, hash: call.Call.Args[1-i], gate: core.AnyFact(func(f core.Fact) bool {
				return f.Op == token.ILLEGAL && f.Truth && f.V == ssa.Value(call)
			})})
			break
		}
	})
	return out
}
