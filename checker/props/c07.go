package props

import (
	"fmt"
	"go/token"
	"go/types"
	"strings"

	"golang.org/x/tools/go/ssa"

	"verifchk/core"
)

func init() { Registry["C07"] = c07 }

var tableLock = core.LockSpec{Type: "Table", Field: "mutex"}

func c07(c *Ctx) {
	p, r := c.P, c.R
	r.Technique = "who-may-write inventory of the table's fields over SSA; interprocedural lock-held dataflow; must-pass-through (cut) checks for size, IP-limit and pairing gates; interval check of the distance-to-bucket mapping"
	r.Explanation = "Decides structural necessary conditions of the routing-table invariants: (R1) every write to bucket.entries / bucket.replacements / tableNode.Node / liveness fields and every IP-set update happens with Table.mutex held on every call path from every entry point; (R2) every growth of entries is guarded by len(entries) < 16 or follows a removal on the same path, replacements grow only through a push bounded by the constant 10, IP limits are the constants 2 per bucket and 10 per table on /24; (R3) the insertion of a new node passes the self-id test, the not-already-present test, a successful IP-limit reservation for that node's address, and uses the bucket derived from that node's id; every node displaced from replacements gives its IP back; every record replacement re-checks the IP limits unless the IP is unchanged; (R4) the distance-to-bucket mapping stays inside the bucket array for all distances 0..256 and all its callers pass such distances; (R5) every insertion into entries is followed by registration with the revalidation lists and every removal by deregistration and IP release. The reserving function is all-or-nothing per path: a refusal leaves the table-wide and the per-bucket /24 counter as they were, an admission raises each touched counter by one, and no counter is decremented that was not incremented on that path. Not decided: the invariants as facts about reachable states; schedules beyond lock discipline."
	r.Assumptions = []string{
		"netutil.DistinctNetSet enforces Limit per Subnet (dependency contract)",
		"enode.LogDist returns a value in [0,256]",
		"the revalidation lists are touched by the table loop without Table.mutex by design (inherited from go-ethereum); they are not part of R1",
	}
	m := newTableModel(c)
	r.Count("writes_bucket.entries", len(m.entries))
	r.Count("writes_bucket.replacements", len(m.repl))
	r.Count("writes_tableNode.Node", len(m.nodeW))
	r.Floor("R1.lock", 8)
	r.Floor("R2.entries-growth", 2)
	r.Floor("R2.replacements-growth", 3)
	r.Floor("R2.limits", 4)
	r.Floor("R3.insert-gates", 5)
	r.Floor("R3.record-ip", 1)
	r.Floor("R4.mapping", 3)
	r.Floor("R5.pairing", 4)
	r.Floor("R6.reval-pointer-nil-guard", 3)

	// ---------------- R1 lock discipline
	sites := map[*ssa.Function][]core.LockSite{}
	addSites := func(ws []core.FieldWrite, what string) {
		for _, w := range ws {
			if w.Init {
				continue
			}
			sites[w.Fn] = append(sites[w.Fn], core.LockSite{Instr: w.Store, What: "write " + what})
		}
	}
	addSites(m.entries, "bucket.entries")
	addSites(m.repl, "bucket.replacements")
	addSites(m.nodeW, "tableNode.Node")
	addSites(p.FieldWrites("tableNode", "livenessChecks"), "tableNode.livenessChecks")
	addSites(p.FieldWrites("tableNode", "isValidatedLive"), "tableNode.isValidatedLive")
	for _, fn := range p.ModuleFuncs() {
		for _, ci := range core.CallsTo(fn, netsetAdd, netsetRemove) {
			if onTableSet(ci.Common().Args[0]) {
				sites[fn] = append(sites[fn], core.LockSite{Instr: ci, What: "update of the per-/24 IP counters"})
			}
		}
	}
	nsites := 0
	for fn, ss := range sites {
		_ = fn
		nsites += len(ss)
	}
	viols := p.CheckLockDiscipline(tableLock, sites, nil)
	violBySite := map[ssa.Instruction]core.LockViolation{}
	for _, v := range viols {
		violBySite[v.Site] = v
	}
	for _, fn := range core.SortedFuncs(sites) {
		counts := map[string]int{}
		for _, s := range sites[fn] {
			counts[s.What]++
			key := fmt.Sprintf("%s %s #%d", core.FuncName(fn), s.What, counts[s.What])
			if v, bad := violBySite[s.Instr]; bad {
				r.Fail("R1.lock", key, p.Pos(core.InstrPos(s.Instr)), "reachable without Table.mutex from "+core.FuncName(v.Root)+": "+strings.Join(v.Chain, " <- "))
			} else {
				r.Pass("R1.lock", key, p.Pos(core.InstrPos(s.Instr)), "Table.mutex held on every static call path")
			}
		}
	}
	r.Count("lock_sites", nsites)

	// ---------------- R2 bounded growth
	bucketSize := int64(16)
	for _, w := range m.entries {
		if w.Init {
			continue
		}
		if w.Element {
			r.Fail("R2.entries-growth", m.key(w, "element-store"), p.Pos(w.Store.Pos()), "an element of bucket.entries is overwritten in place (no accounting possible)")
			continue
		}
		switch m.shape(w, "bucket", "entries") {
		case shapeAppend:
			w1 := core.InstrGuarded(w.Store, factLenLess("bucket", "entries", bucketSize), nil)
			if w1 == nil {
				r.Pass("R2.entries-growth", m.key(w, "append"), p.Pos(w.Store.Pos()), "growth dominated on all paths by len(entries) < 16")
				continue
			}
			// alternative: preceded on all paths by a removal from the same slice
			w2 := core.MustPassBefore(w.Store, func(in ssa.Instruction) bool {
				st, ok := in.(*ssa.Store)
				if !ok {
					return false
				}
				t, f, _, ok := core.FieldRef(st.Addr)
				return ok && t == "bucket" && f == "entries" && isShrinkCall(st.Val)
			})
			if w2 == nil {
				r.Pass("R2.entries-growth", m.key(w, "append-after-removal"), p.Pos(w.Store.Pos()), "growth follows a removal from the same slice on every path (net size unchanged)")
			} else {
				r.Fail("R2.entries-growth", m.key(w, "append"), p.Pos(w.Store.Pos()), "bucket.entries can grow without the len(entries) < 16 test: "+p.PathString(w1))
			}
		case shapeShrink, shapeEmpty:
			r.Pass("R2.entries-growth", m.key(w, "shrink"), p.Pos(w.Store.Pos()), "shrinking write")
		default:
			r.Fail("R2.entries-growth", m.key(w, "unrecognised"), p.Pos(w.Store.Pos()), "write to bucket.entries of an unrecognised shape (neither guarded append nor removal)")
		}
	}
	for _, w := range m.repl {
		if w.Init {
			continue
		}
		if w.Element && inPlacePush(w, "bucket", "replacements") == nil {
			r.Fail("R2.replacements-growth", m.key(w, "element-store"), p.Pos(w.Store.Pos()), "an element of bucket.replacements is overwritten in place")
			continue
		}
		switch m.shape(w, "bucket", "replacements") {
		case shapeBoundedPush:
			call, isCall := boundedPush(w.Val)
			var maxArg, removed ssa.Value
			if isCall {
				maxArg = call.Call.Args[len(call.Call.Args)-1]
			} else if ip := inlinePush(w.Val); ip != nil {
				maxArg, removed = ip.max, ip.removed
			} else if ip := inPlacePush(w, "bucket", "replacements"); ip != nil {
				maxArg, removed = ip.max, ip.removed
			}
			n, isC := core.ConstInt(maxArg)
			okBound := isC && n == 10
			boundTxt := fmt.Sprint(n)
			if !isC && maxArg != nil {
				// a setting instead of the constant: every value it can take is within 1..10
				rg := p.RangeOf(maxArg, w.Store.Block())
				okBound = rg.HasHi && rg.Hi <= 10 && rg.HasLo && rg.Lo >= 1
				boundTxt = rg.String()
			}
			r.Check(okBound, "R2.replacements-growth", m.key(w, "bounded-push"), p.Pos(w.Store.Pos()),
				"replacements grow only through a push bounded by len(list) < 10 (or a setting within 1..10)", fmt.Sprintf("replacement list bound is %s, expected the constant 10 (or a value that cannot exceed it)", boundTxt))
			// displaced node gives its IP back
			if isCall && call.Referrers() != nil {
				for _, rf := range *call.Referrers() {
					if ex, ok := rf.(*ssa.Extract); ok && ex.Index == 1 {
						removed = ex
					}
				}
			}
			okRel := false
			if removed != nil {
				core.Calls(w.Fn, func(ci ssa.CallInstruction) {
					if callReaches(ci, m.ipRemovers) {
						for _, a := range ci.Common().Args {
							if core.Derives(a, func(v ssa.Value) bool { return v == removed }, core.DeriveOpts{ThroughCalls: true}) {
								okRel = true
							}
						}
					}
				})
			}
			r.Check(okRel, "R3.insert-gates", m.key(w, "displaced-replacement-releases-ip"), p.Pos(w.Store.Pos()),
				"the node pushed out of the replacement list is passed to the IP release", "the node displaced from the replacement list does not give its IP reservation back")
			// pushed node's address was reserved
			g := core.BoolCallGate("addIP", true, func(c2 *ssa.Call) bool { return callReaches(c2, m.ipAdders) })
			w1 := core.InstrGuarded(w.Store, g.Edge, nil)
			r.Check(w1 == nil, "R3.insert-gates", m.key(w, "replacement-ip-reserved"), p.Pos(w.Store.Pos()),
				"push into replacements only after a successful IP-limit reservation", "a node enters the replacement list without a successful IP-limit reservation: "+p.PathString(w1))
			// an id is in entries or in replacements, never both: the function that pushes into the
			// replacement list is called only for an id that the record updater did not find among the
			// entries (otherwise a re-announced live entry also becomes a replacement and can later be
			// promoted next to itself)
			{
				notInEntries := core.AnyFact(func(f core.Fact) bool {
					if f.Op != token.EQL {
						return false
					}
					isUpd := func(v ssa.Value) bool {
						ex, ok := v.(*ssa.Extract)
						if !ok {
							return false
						}
						cc, ok := ex.Tuple.(*ssa.Call)
						return ok && callReaches(cc, m.updaters)
					}
					return (isUpd(f.X) && core.IsNilConst(f.Y)) || (isUpd(f.Y) && core.IsNilConst(f.X))
				})
				callers := p.CallersOfFn(w.Fn)
				nc := 0
				for _, cf := range core.SortedFuncs(callers) {
					for _, cs := range callers[cf] {
						nc++
						wq := core.InstrGuarded(cs, notInEntries, nil)
						r.Check(wq == nil, "R3.insert-gates", fmt.Sprintf("%s→%s #%d replacement-not-a-live-entry", core.FuncName(cf), core.FuncName(w.Fn), nc), p.Pos(cs.Pos()),
							"a node is offered to the replacement list only after the entries were searched for its id and it was not found", "a node that is already a live entry of the bucket can also be put on the replacement list (and later be promoted: the same id twice in entries): "+p.PathString(wq))
					}
				}
			}
		case shapeShrink, shapeEmpty:
			r.Pass("R2.replacements-growth", m.key(w, "shrink"), p.Pos(w.Store.Pos()), "shrinking write")
		case shapeAppend:
			w1 := core.InstrGuarded(w.Store, factLenLess("bucket", "replacements", 10), nil)
			r.Check(w1 == nil, "R2.replacements-growth", m.key(w, "append"), p.Pos(w.Store.Pos()), "growth dominated by len(replacements) < 10", "bucket.replacements can grow without a len < 10 test: "+p.PathString(w1))
		default:
			r.Fail("R2.replacements-growth", m.key(w, "unrecognised"), p.Pos(w.Store.Pos()), "write to bucket.replacements of an unrecognised shape")
		}
	}
	// limits: DistinctNetSet literals stored into Table.ips / bucket.ips
	for _, spec := range []struct {
		typ   string
		limit int64
	}{{"Table", 10}, {"bucket", 2}} {
		found := 0
		for _, fn := range p.ModuleFuncs() {
			for _, b := range fn.Blocks {
				for _, in := range b.Instrs {
					st, ok := in.(*ssa.Store)
					if !ok {
						continue
					}
					t, f, base, ok := core.FieldRef(st.Addr)
					if !ok || t != "DistinctNetSet" {
						continue
					}
					bt, bf, _, ok2 := core.FieldRef(base)
					if !ok2 || bt != spec.typ || bf != "ips" {
						continue
					}
					n, isC := core.ConstInt(st.Val)
					want := spec.limit
					if f == "Subnet" {
						want = 24
					}
					found++
					r.Check(isC && n == want, "R2.limits", fmt.Sprintf("%s.ips.%s", spec.typ, f), p.Pos(st.Pos()), fmt.Sprintf("= %d", n), fmt.Sprintf("is %d, the property states %d", n, want))
				}
			}
		}
		if found < 2 {
			r.Fail("R2.limits", spec.typ+".ips", "-", "initialisation of the per-/24 limit set not found")
		}
	}

	// ---------------- R3 insertion gates for fresh nodes into entries, R5 pairing
	for _, w := range m.entries {
		if w.Init || w.Element {
			continue
		}
		sh := m.shape(w, "bucket", "entries")
		if sh == shapeAppend {
			_, el, _ := core.AppendOf(w.Val)
			elems := core.VariadicElems(el)
			var node ssa.Value
			if len(elems) == 1 {
				node = elems[0]
			}
			// R5: followed by registration with the revalidation lists
			w5 := core.MustPassAfter(w.Store, func(in ssa.Instruction) bool { return callReaches(in, m.revalAdd) })
			r.Check(w5 == nil, "R5.pairing", m.key(w, "insert→nodeAdded"), p.Pos(w.Store.Pos()),
				"every path after the insertion registers the node with the revalidation lists", "an insertion into entries can return without registering the node for revalidation: "+p.PathString(w5))
			fresh := false
			if node != nil {
				if _, ok := node.(*ssa.Alloc); ok {
					fresh = true
				}
			}
			if !fresh {
				// promoted replacement: must be taken out of replacements
				okFrom := node != nil && core.Derives(node, func(v ssa.Value) bool { return core.IsLoadOfField(v, "bucket", "replacements") }, core.DeriveOpts{})
				r.Check(okFrom, "R3.insert-gates", m.key(w, "promoted-from-replacements"), p.Pos(w.Store.Pos()),
					"non-fresh node appended to entries is an element of replacements (already IP-accounted)", "a node that is neither new nor a replacement is appended to entries")
				continue
			}
			// the enode stored in the fresh tableNode
			var enodeVal ssa.Value
			for _, nw := range m.nodeW {
				if nw.Init && nw.Base == node {
					enodeVal = nw.Val
				}
			}
			if enodeVal == nil {
				r.Fail("R3.insert-gates", m.key(w, "fresh-node"), p.Pos(w.Store.Pos()), "cannot identify the record wrapped by the inserted node")
				continue
			}
			fromNode := core.Is(enodeVal)
			// (a) self test
			selfGate := core.AnyFact(func(f core.Fact) bool {
				if f.Op != token.NEQ {
					return false
				}
				isSelf := func(v ssa.Value) bool {
					return core.Derives(v, func(x ssa.Value) bool {
						if cc, ok := x.(*ssa.Call); ok {
							id := core.CalleeID(cc)
							return strings.HasSuffix(id, ".Self") || strings.HasSuffix(id, ").self")
						}
						return false
					}, core.DeriveOpts{ThroughCalls: true})
				}
				isNode := func(v ssa.Value) bool { return core.Derives(v, fromNode, core.DeriveOpts{ThroughCalls: true}) }
				return (isSelf(f.X) && isNode(f.Y)) || (isSelf(f.Y) && isNode(f.X))
			})
			wa := core.InstrGuarded(w.Store, selfGate, nil)
			r.Check(wa == nil, "R3.insert-gates", m.key(w, "not-self"), p.Pos(w.Store.Pos()), "insertion only after id != local id", "a node can be inserted without the local-id test: "+p.PathString(wa))
			// (b) not already present: result of the record updater == nil
			presentGate := core.AnyFact(func(f core.Fact) bool {
				if f.Op != token.EQL {
					return false
				}
				isUpd := func(v ssa.Value) bool {
					ex, ok := v.(*ssa.Extract)
					if !ok {
						return false
					}
					cc, ok := ex.Tuple.(*ssa.Call)
					return ok && callReaches(cc, m.updaters)
				}
				return (isUpd(f.X) && core.IsNilConst(f.Y)) || (isUpd(f.Y) && core.IsNilConst(f.X))
			})
			wb := core.InstrGuarded(w.Store, presentGate, nil)
			r.Check(wb == nil, "R3.insert-gates", m.key(w, "not-present"), p.Pos(w.Store.Pos()), "insertion only when the id is not already in the bucket", "a node can be inserted without the already-in-bucket test: "+p.PathString(wb))
			// (c) bucket derived from this node's id
			okB := core.Derives(w.Base, func(v ssa.Value) bool {
				cc, ok := v.(*ssa.Call)
				if !ok {
					return false
				}
				for _, a := range cc.Call.Args {
					if core.Derives(a, func(x ssa.Value) bool {
						c3, ok := x.(*ssa.Call)
						return ok && core.CalleeID(c3) == enodeID && core.Derives(c3.Call.Args[0], fromNode, core.DeriveOpts{})
					}, core.DeriveOpts{}) {
						f := core.StaticCalleeFn(cc)
						return f != nil && core.ReachesInstr(f, 1, func(in ssa.Instruction) bool { return core.IsCallTo(in, enodeLogDist) })
					}
				}
				return false
			}, core.DeriveOpts{})
			r.Check(okB, "R3.insert-gates", m.key(w, "bucket-of-node"), p.Pos(w.Store.Pos()), "the bucket written is the log-distance bucket of the inserted node's id", "the bucket written is not derived from the inserted node's id through the log-distance mapping")
			// (d) addIP success for this node's address
			ipGate := core.BoolCallGate("addIP", true, func(c2 *ssa.Call) bool {
				if !callReaches(c2, m.ipAdders) {
					return false
				}
				for _, a := range c2.Call.Args {
					if core.Derives(a, func(x ssa.Value) bool {
						c3, ok := x.(*ssa.Call)
						return ok && core.CalleeID(c3) == enodeIPAddr && core.Derives(c3.Call.Args[0], fromNode, core.DeriveOpts{})
					}, core.DeriveOpts{}) {
						return true
					}
				}
				return false
			})
			wd := core.InstrGuarded(w.Store, ipGate.Edge, nil)
			r.Check(wd == nil, "R3.insert-gates", m.key(w, "ip-reserved"), p.Pos(w.Store.Pos()), "insertion only after a successful IP-limit reservation for the node's address", "a new node can enter entries without a successful IP-limit reservation for its address: "+p.PathString(wd))
		}
		if sh == shapeShrink {
			w5 := core.MustPassAfter(w.Store, func(in ssa.Instruction) bool { return callReaches(in, m.revalDel) })
			if w5 != nil && core.MustPassBefore(w.Store, func(in ssa.Instruction) bool { return callReaches(in, m.revalDel) }) == nil {
				w5 = nil
			}
			r.Check(w5 == nil, "R5.pairing", m.key(w, "remove→nodeRemoved"), p.Pos(w.Store.Pos()),
				"every path after the removal deregisters the node from the revalidation lists", "a removal from entries can return without deregistering the node: "+p.PathString(w5))
			isRelease := func(in ssa.Instruction) bool { return callReaches(in, m.ipRemovers) }
			w6 := core.MustPassAfter(w.Store, isRelease)
			if w6 != nil && core.MustPassBefore(w.Store, isRelease) == nil {
				w6 = nil // released just before the entry is cut out (same path, same critical section)
			}
			r.Check(w6 == nil, "R5.pairing", m.key(w, "remove→removeIP"), p.Pos(w.Store.Pos()),
				"every path through the removal releases the node's IP reservation", "a removal from entries can return without releasing the IP reservation: "+p.PathString(w6))
		}
	}
	// record replacement must re-check the IP limits (or leave the IP unchanged)
	for _, w := range m.nodeW {
		if w.Init {
			continue
		}
		newRec := w.Val
		ipSame := core.AnyFact(func(f core.Fact) bool {
			if f.Op != token.EQL {
				return false
			}
			isIP := func(v ssa.Value, ofNew bool) bool {
				cc, ok := v.(*ssa.Call)
				if !ok || core.CalleeID(cc) != enodeIPAddr {
					return false
				}
				d := core.Derives(cc.Call.Args[0], core.Is(newRec), core.DeriveOpts{})
				return d == ofNew
			}
			return (isIP(f.X, true) && isIP(f.Y, false)) || (isIP(f.Y, true) && isIP(f.X, false))
		})
		ipGate := core.BoolCallGate("addIP", true, func(c2 *ssa.Call) bool {
			if !callReaches(c2, m.ipAdders) {
				return false
			}
			for _, a := range c2.Call.Args {
				if core.Derives(a, func(x ssa.Value) bool {
					c3, ok := x.(*ssa.Call)
					return ok && core.CalleeID(c3) == enodeIPAddr && core.Derives(c3.Call.Args[0], core.Is(newRec), core.DeriveOpts{})
				}, core.DeriveOpts{}) {
					return true
				}
			}
			return false
		})
		wr := core.InstrGuarded(w.Store, func(fs []core.Fact) bool { return ipSame(fs) || ipGate.Edge(fs) }, nil)
		r.Check(wr == nil, "R3.record-ip", m.key(w, "record-replaced"), p.Pos(w.Store.Pos()),
			"a stored record is replaced only when its IP is unchanged or the new IP passed the limit reservation", "a node's record can be replaced without re-checking the /24 limits for its new address (the IP counters go stale): "+p.PathString(wr))
	}

	// ---------------- R6 a node's revalidation-list pointer is nil while the node is not tracked
	// (removed nodes, stale answers): every dereference must be guarded by a nil test of that
	// same node's pointer, or follow the assignment that sets it
	{
		setsNonNil := func(in ssa.Instruction, base ssa.Value) bool {
			st, ok := in.(*ssa.Store)
			if !ok {
				return false
			}
			t, f, b2, ok := core.FieldRef(st.Addr)
			return ok && t == "tableNode" && f == "revalList" && core.SameValue(b2, base) && !core.IsNilConst(st.Val)
		}
		n := 0
		for _, fn := range p.ModuleFuncs() {
			if fn.Pkg != p.SSAPkg("portalwire") && (fn.Parent() == nil || fn.Parent().Pkg != p.SSAPkg("portalwire")) {
				continue
			}
			perFn := 0
			for _, b := range fn.Blocks {
				for _, in := range b.Instrs {
					// dereference of a value loaded from tableNode.revalList
					var ptr ssa.Value
					switch x := in.(type) {
					case *ssa.FieldAddr:
						ptr = x.X
					case *ssa.Call:
						if !x.Call.IsInvoke() && len(x.Call.Args) > 0 {
							if cf := core.StaticCalleeFn(x); cf != nil && cf.Signature.Recv() != nil && core.TypeName(cf.Signature.Recv().Type()) == "revalidationList" {
								ptr = x.Call.Args[0]
							}
						}
					}
					if ptr == nil {
						continue
					}
					u, ok := ptr.(*ssa.UnOp)
					if !ok || u.Op != token.MUL {
						continue
					}
					t, f, base, ok := core.FieldRef(u.X)
					if !ok || t != "tableNode" || f != "revalList" {
						continue
					}
					n++
					perFn++
					guard := core.AnyFact(func(fc core.Fact) bool {
						if fc.Op != token.NEQ {
							return false
						}
						is := func(v ssa.Value) bool {
							u2, ok := v.(*ssa.UnOp)
							if !ok || u2.Op != token.MUL {
								return false
							}
							t2, f2, b2, ok := core.FieldRef(u2.X)
							return ok && t2 == "tableNode" && f2 == "revalList" && core.SameValue(b2, base)
						}
						return (is(fc.X) && core.IsNilConst(fc.Y)) || (is(fc.Y) && core.IsNilConst(fc.X))
					})
					w := core.InstrGuarded(in, guard, nil)
					if w != nil {
						// or the pointer was just assigned on every path
						if core.MustPassBefore(in, func(i2 ssa.Instruction) bool { return setsNonNil(i2, base) }) == nil {
							w = nil
						}
					}
					r.Check(w == nil, "R6.reval-pointer-nil-guard", fmt.Sprintf("%s deref #%d", core.FuncName(fn), perFn), p.Pos(core.InstrPos(in)),
						"revalList is dereferenced only after a nil test of the same node's pointer", "a node's revalidation-list pointer is dereferenced without a nil test of that node: for a node that was removed from the table meanwhile (stale revalidation answer, re-added id) the pointer is nil and the table loop panics: "+p.PathString(w))
				}
			}
		}
		r.Count("revalList_dereferences", n)
	}

	// ---------------- R4 mapping distance -> bucket
	c07mapping(c)
	c07IPBalance(c, m)
	errorsExamined(c, "R7.errors-examined", "routing table", []string{"portalwire"}, "(*portalwire.Table).", "(*portalwire.tableRevalidation).", "(*portalwire.bucket).", "(*portalwire.revalidationList).")
}

// c07mapping checks the function that indexes Table.buckets with a computed index.
func c07mapping(c *Ctx) {
	p, r := c.P, c.R
	var mapFns []*ssa.Function
	for _, fn := range p.ModuleFuncs() {
		for _, b := range fn.Blocks {
			for _, in := range b.Instrs {
				ia, ok := in.(*ssa.IndexAddr)
				if !ok {
					continue
				}
				t, f, _, ok := core.FieldRef(ia.X)
				if !ok || t != "Table" || f != "buckets" {
					continue
				}
				if _, isC := core.ConstInt(ia.Index); isC {
					continue
				}
				// computed index: range loops over the array use an induction variable (phi)
				if isInductionVar(ia.Index) {
					continue
				}
				// array length
				arrLen := int64(-1)
				if pt, ok := ia.X.Type().Underlying().(*types.Pointer); ok {
					if at, ok := pt.Elem().Underlying().(*types.Array); ok {
						arrLen = at.Len()
					}
				}
				name := core.FuncName(fn)
				// index must be param - K
				bo, ok := ia.Index.(*ssa.BinOp)
				var d ssa.Value
				K := int64(0)
				okShape := false
				if ok && bo.Op == token.SUB {
					// (d - a) - b
					if k1, isC := core.ConstInt(bo.Y); isC {
						K = k1
						d = bo.X
						if b2, ok := bo.X.(*ssa.BinOp); ok && b2.Op == token.SUB {
							if k2, isC2 := core.ConstInt(b2.Y); isC2 {
								K += k2
								d = b2.X
							}
						}
						_, okShape = d.(*ssa.Parameter)
					}
				}
				if !okShape {
					r.Fail("R4.mapping", name+" index-shape", p.Pos(ia.Pos()), "bucket index is not of the form distance - constant")
					continue
				}
				// guard: d > M on all paths
				var M int64 = -1
				guard := core.AnyFact(func(f core.Fact) bool {
					return core.CmpFact(f, func(op token.Token, x, y ssa.Value) bool {
						k, isC := core.ConstInt(y)
						if !isC || x != d {
							return false
						}
						if op == token.GTR {
							M = k
							return true
						}
						if op == token.GEQ {
							M = k - 1
							return true
						}
						return false
					})
				})
				w := core.InstrGuarded(ia, guard, nil)
				ok1 := w == nil && M >= 0 && M+1-K >= 0
				r.Check(ok1, "R4.mapping", name+" lower-bound", p.Pos(ia.Pos()), fmt.Sprintf("index d-%d is reached only under d > %d (index >= %d)", K, M, M+1-K), fmt.Sprintf("bucket index d-%d can be negative (guard d > %d missing or too weak)", K, M))
				ok2 := arrLen > 0 && 256-K <= arrLen-1 && 256-K == arrLen-1 && M+1 == K
				r.Check(ok2, "R4.mapping", name+" upper-bound", p.Pos(ia.Pos()), fmt.Sprintf("d<=256 gives index <= %d = len-1 (%d buckets), distances <= %d share bucket 0", 256-K, arrLen, M), fmt.Sprintf("mapping d-%d with %d buckets and threshold %d does not place distances 0..256 on the bucket array exactly", K, arrLen, M))
				mapFns = append(mapFns, fn)
			}
		}
	}
	// callers pass log distances
	for _, mf := range mapFns {
		callers := p.CallersOfFn(mf)
		for _, fn := range core.SortedFuncs(callers) {
			for i, ci := range callers[fn] {
				args := ci.Common().Args
				darg := args[len(args)-1]
				okArg := core.Derives(darg, func(v ssa.Value) bool {
					cc, ok := v.(*ssa.Call)
					return ok && core.CalleeID(cc) == enodeLogDist
				}, core.DeriveOpts{})
				if !okArg {
					// guarded by <= 256
					src := core.Unwrap(darg)
					g := core.AnyFact(func(f core.Fact) bool {
						return core.CmpFact(f, func(op token.Token, x, y ssa.Value) bool {
							k, isC := core.ConstInt(y)
							return isC && core.Unwrap(x) == src && ((op == token.LEQ && k <= 256) || (op == token.LSS && k <= 257))
						})
					})
					okArg = core.InstrGuarded(ci, g, nil) == nil
				}
				r.Check(okArg, "R4.mapping", fmt.Sprintf("%s→%s #%d distance-arg", core.FuncName(fn), core.FuncName(mf), i+1), p.Pos(ci.Pos()),
					"argument is a log distance (LogDist result or checked <= 256)", "the distance passed to the bucket mapping is neither a LogDist result nor checked against 256")
			}
		}
	}
}

func isInductionVar(v ssa.Value) bool {
	if bo, ok := v.(*ssa.BinOp); ok && bo.Op == token.ADD {
		if ph, ok := bo.X.(*ssa.Phi); ok {
			for _, e := range ph.Edges {
				if e == v {
					return true
				}
			}
		}
	}
	ph, ok := v.(*ssa.Phi)
	if !ok {
		return false
	}
	for _, e := range ph.Edges {
		if bo, ok := e.(*ssa.BinOp); ok && bo.Op == token.ADD && bo.X == ssa.Value(ph) {
			return true
		}
	}
	return false
}
