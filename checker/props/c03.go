package props

import (
	"fmt"
	"go/token"
	"go/types"
	"math/bits"
	"reflect"
	"strings"

	"golang.org/x/tools/go/ssa"

	"verifchk/core"
)

func init() { Registry["C03"] = c03 }

const (
	sszVerifyProof  = "github.com/ferranbt/fastssz.VerifyProof"
	mergeBlock      = 15537394
	shanghaiBlock   = 17034870
	cancunBlock     = 19426587
	capellaStartSlt = 194048 * 32
)

// srcClass classifies leaf values for the linear normaliser.
func srcClass(v ssa.Value) string {
	// header.Number.Uint64()
	if cc, ok := v.(*ssa.Call); ok && core.CalleeID(cc) == "math/big.(*Int).Uint64" {
		if derivesFromHeaderField(cc.Call.Args[0], "Number") {
			return "number"
		}
	}
	if _, f, ok := core.LoadedField(v); ok && f == "Slot" {
		return "slot"
	}
	if pa, ok := v.(*ssa.Parameter); ok {
		n := strings.ToLower(pa.Name())
		if n == "slot" {
			return "slot"
		}
		if n == "blocknumber" {
			return "number"
		}
	}
	return ""
}

func proofVectorLen(p *core.Prog, typeName, field string) int64 {
	pk := p.Pkg("types/history")
	if pk == nil {
		return -1
	}
	tn, ok := pk.Types.Scope().Lookup(typeName).(*types.TypeName)
	if !ok {
		return -1
	}
	st, ok := tn.Type().Underlying().(*types.Struct)
	if !ok {
		return -1
	}
	for i := 0; i < st.NumFields(); i++ {
		if st.Field(i).Name() == field {
			tag := reflect.StructTag(st.Tag(i)).Get("ssz-size")
			var n int64 = -1
			fmt.Sscanf(strings.Split(tag, ",")[0], "%d", &n)
			return n
		}
	}
	return -1
}

func c03(c *Ctx) {
	p, r := c.P, c.R
	r.Technique = "constant-table and linear-form agreement of every Merkle check's (leaf, depth, index, root) with the consensus-spec positions per era; must-pass-through (cut) checks that each era's success passes all of its checks; bounds-to-error gates on every accumulator index; prover/verifier index agreement"
	r.Explanation = "Decides: (R1) the header-proof entry point partitions block numbers by strict comparisons with 15537394 / 17034870 / 19426587 into four distinct validators, decoding the proof type of that era, and the duplicated constants (epoch size, fork numbers, Capella fork epoch, slots per epoch across packages) agree; (R2) pre-merge success only if ssz.VerifyProof returned (true, nil); post-merge success only if both the execution-block branch and the beacon-block branch verified; (R3) per call site: execution branch - leaf = header hash, depth = len(branch) = the SSZ vector length of that era's proof type = floor(log2(gindex)), gindex 3228 (merge..Deneb) / 6444 (Deneb..), root = the proof's beacon block root; beacon branch - leaf = beacon block root, depth 14 (historical roots) / 13 (summaries) = SSZ vector length, index = k*2^depth' + slot % 8192 with the constant part vanishing modulo 2^depth, root = HistoricalRoots[slot / 8192] resp. the BlockSummaryRoot of summary (slot - 194048*32) / 8192 on every path; pre-merge - index 4*8192 + 2*(number % 8192), leaf = header hash, root = HistoricalEpochs[number / 8192]; the index arithmetic is done on the wire value: an integer conversion that can change the value (unsigned to signed of the same width, narrowing) of anything but an already reduced remainder is not looked through, so `int(slot) % 8192` is not `slot % 8192`; (R4) every accumulator lookup with a header- or proof-derived index on the validator's call paths is guarded by index < len(accumulator) whose failing edge returns an error; (R5) the prover's index is 2*8192 + 2*(number % 8192) (verifier = prover shifted under the length mix-in), it appends exactly one extra sibling holding the epoch size, and MixInLength is the same computation in both packages. Not decided: correctness of hashing/Merkle primitives; completeness and soundness over all accumulators and all single-node corruptions (value level)."
	r.Assumptions = []string{"zrnt merkle.VerifyMerkleBranch uses the low `depth` bits of index; fastssz VerifyProof checks a generalized-index proof", "consensus-spec generalized indices (execution payload block_hash 3228 / 6444; historical batch / summary block roots)"}
	r.Floor("R1.era-dispatch", 5)
	r.Floor("R2.success-gates", 7)
	proofChunkerWholeWords(c, "R2.success-gates")
	r.Floor("R3.merkle-arguments", 20)
	r.Floor("R4.bounds-to-error", 3)
	r.Floor("R5.prover-agreement", 4)

	vp := p.SSAPkg("validation")
	// the entry point: HeaderValidator method (header, proof []byte) error with >= 3 comparisons against constants
	var EV *ssa.Function
	for _, fn := range p.ModuleFuncs() {
		if fn.Pkg != vp || fn.Signature.Recv() == nil || core.TypeName(fn.Signature.Recv().Type()) != "HeaderValidator" {
			continue
		}
		ps := fn.Signature.Params()
		if ps.Len() == 2 && ps.At(1).Type().String() == "[]byte" {
			if pt, ok := ps.At(0).Type().(*types.Pointer); ok && core.TypeName(pt.Elem()) == "Header" {
				// the dispatcher decodes proofs
				n := 0
				core.Calls(fn, func(ci ssa.CallInstruction) {
					if strings.HasSuffix(core.CalleeID(ci), ").UnmarshalSSZ") {
						n++
					}
				})
				if n >= 2 {
					EV = fn
				}
			}
		}
	}
	if EV == nil {
		r.Fail("R1.era-dispatch", "entry point", "-", "anchor-unresolved: HeaderValidator (header, proof) dispatcher")
		return
	}
	ev := core.FuncName(EV)
	// ---- R1
	type eraCall struct {
		call  *ssa.Call
		lo    int64 // number >= lo
		hi    int64 // number < hi (0 = unbounded)
		ptype string
	}
	var eras []eraCall
	core.Calls(EV, func(ci ssa.CallInstruction) {
		call, ok := ci.(*ssa.Call)
		if !ok {
			return
		}
		f := core.StaticCalleeFn(call)
		if f == nil || f.Pkg != vp || f.Signature.Recv() == nil || core.TypeName(f.Signature.Recv().Type()) != "HeaderValidator" {
			return
		}
		e := eraCall{call: call, lo: 0, hi: 0}
		for _, fct := range core.DomFacts(call.Block()) {
			core.CmpFact(fct, func(op token.Token, x, y ssa.Value) bool {
				k, isC := core.ConstInt(y)
				if !isC || srcClass(core.Unwrap(x)) != "number" {
					return false
				}
				switch op {
				case token.LSS:
					if e.hi == 0 || k < e.hi {
						e.hi = k
					}
				case token.GEQ:
					if k > e.lo {
						e.lo = k
					}
				case token.LEQ:
					if e.hi == 0 || k+1 < e.hi {
						e.hi = k + 1
					}
				case token.GTR:
					if k+1 > e.lo {
						e.lo = k + 1
					}
				}
				return false
			})
		}
		for _, a := range call.Call.Args {
			if pt, ok := a.Type().(*types.Pointer); ok && strings.HasPrefix(core.TypeName(pt.Elem()), "BlockProof") {
				e.ptype = core.TypeName(pt.Elem())
			}
		}
		eras = append(eras, e)
	})
	wantEras := []struct {
		lo, hi int64
		ptype  string
		name   string
	}{{0, mergeBlock, "", "pre-merge"}, {mergeBlock, shanghaiBlock, "BlockProofHistoricalRoots", "merge-to-capella"}, {shanghaiBlock, cancunBlock, "BlockProofHistoricalSummariesCapella", "capella-to-deneb"}, {cancunBlock, 0, "BlockProofHistoricalSummariesDeneb", "post-deneb"}}
	eraFn := map[string]*ssa.Function{}
	seenFn := map[*ssa.Function]bool{}
	for _, we := range wantEras {
		var found *eraCall
		for i := range eras {
			if eras[i].lo == we.lo && eras[i].hi == we.hi {
				found = &eras[i]
			}
		}
		if found == nil {
			r.Fail("R1.era-dispatch", ev+" era "+we.name, p.Pos(EV.Pos()), fmt.Sprintf("no validator is selected for exactly block numbers [%d, %d) (an era boundary moved or a comparison is not strict)", we.lo, we.hi))
			continue
		}
		f := core.StaticCalleeFn(found.call)
		okT := found.ptype == we.ptype
		r.Check(okT && !seenFn[f], "R1.era-dispatch", ev+" era "+we.name, p.Pos(found.call.Pos()), fmt.Sprintf("[%d, %d) -> %s with %s", we.lo, we.hi, core.FuncName(f), orNone(we.ptype)), fmt.Sprintf("block numbers [%d, %d) are validated by %s with proof type %q (expected %q, a validator of their own)", we.lo, we.hi, core.FuncName(f), found.ptype, we.ptype))
		seenFn[f] = true
		eraFn[we.name] = f
		// the era's verdict is what is returned
		g := core.ErrNilGate("era", func(c2 *ssa.Call) bool { return c2 == found.call })
		w := core.CutReach(core.CutSpec{Fn: EV, From: found.call.Block(), Cut: func(b *ssa.BasicBlock, i int) bool { return g.Edge(core.EdgeFacts(b, i)) }, Target: core.SuccessTarget(EV, g.ErrOK)})
		r.Check(w == nil, "R2.success-gates", ev+" era "+we.name+" verdict", p.Pos(found.call.Pos()), "the entry point succeeds only with this era's verdict", "the entry point can succeed without this era's validator having succeeded: "+p.PathString(w))
	}
	// from its entry, the dispatcher succeeds only with the verdict of one of the era validators
	// (no exit in front of the dispatch - a cached answer, a short-cut for some input - succeeds)
	{
		var gates []core.Gate
		for _, e := range eras {
			call := e.call
			if f := core.StaticCalleeFn(call); f != nil && seenFn[f] {
				gates = append(gates, core.ErrNilGate("era", func(c2 *ssa.Call) bool { return c2 == call }))
			}
		}
		w := core.CutReach(core.CutSpec{Fn: EV,
			Cut: func(b *ssa.BasicBlock, i int) bool {
				fs := core.EdgeFacts(b, i)
				for _, g := range gates {
					if g.Edge(fs) {
						return true
					}
				}
				return false
			},
			Target: core.SuccessTarget(EV, func(v ssa.Value) bool {
				for _, g := range gates {
					if g.ErrOK != nil && g.ErrOK(v) {
						return true
					}
				}
				return false
			})})
		r.Check(w == nil && len(gates) > 0, "R2.success-gates", ev+" entry-verdict", p.Pos(EV.Pos()), "every success exit passed the verdict of an era validator", "the header-proof validator can report success without any era validator having verified this header and proof: "+p.PathString(w))
	}
	// pass-through wrappers of the dispatcher (a memoising or logging front) succeed only with
	// the dispatcher's verdict for the same header and proof
	passThroughWrappers(p, EV, 3, func(G *ssa.Function, call *ssa.Call) {
		g := core.ErrNilGate("dispatcher", func(c2 *ssa.Call) bool { return c2 == call })
		w := core.CutReach(core.CutSpec{Fn: G, Cut: func(b *ssa.BasicBlock, i int) bool { return g.Edge(core.EdgeFacts(b, i)) }, Target: core.SuccessTarget(G, g.ErrOK)})
		r.Check(w == nil, "R2.success-gates", core.FuncName(G)+" wrapper-verdict", p.Pos(call.Pos()), "succeeds only with the verdict of "+core.FuncName(core.StaticCalleeFn(call))+" for the same arguments", "a wrapper of the header-proof validator can report success without the validator's verdict for this header and proof (e.g. a cached answer keyed by less than the whole input): "+p.PathString(w))
	})
	// duplicated constants
	for _, grp := range []struct {
		want  int64
		names [][2]string
	}{
		{8192, [][2]string{{"validation", "epochSize"}, {"history", "epochSize"}, {"types/history", "EpochSize"}}},
		{mergeBlock, [][2]string{{"types/history", "MergeBlockNumber"}, {"history", "mergeBlockNumber"}}},
		{shanghaiBlock, [][2]string{{"types/history", "ShanghaiBlockNumber"}, {"history", "shanghaiBlockNumber"}}},
		{cancunBlock, [][2]string{{"types/history", "CancunNumber"}, {"history", "cancunNumber"}}},
		{194048, [][2]string{{"validation", "capellaForkEpoch"}, {"history", "CapellaForkEpoch"}}},
		{32, [][2]string{{"validation", "slotsPerEpoch"}, {"history", "SlotsPerEpoch"}}},
	} {
		for _, n := range grp.names {
			if v, ok := p.PkgConstInt(n[0], n[1]); ok {
				r.Check(v == grp.want, "R1.era-dispatch", "const "+n[0]+"."+n[1], "-", fmt.Sprintf("= %d", v), fmt.Sprintf("is %d, expected %d (the copies of this constant disagree with the spec value)", v, grp.want))
			}
		}
	}

	// ---- R2/R3 for each function in package validation (and the duplicated helpers in history) calling a Merkle primitive
	for _, fn := range p.ModuleFuncs() {
		if fn.Pkg != vp && fn.Pkg != p.SSAPkg("history") {
			continue
		}
		name := core.FuncName(fn)
		onPath := fn.Pkg == vp
		rule := "R3.merkle-arguments"
		// pre-merge
		for _, ci := range core.CallsTo(fn, sszVerifyProof) {
			call := ci.(*ssa.Call)
			// gates
			okTrue := core.AnyFact(func(f core.Fact) bool { return f.Op == token.ILLEGAL && f.Truth && core.ResultOf(f.V, call, 0) })
			g := core.ErrNilGate("verify", func(c2 *ssa.Call) bool { return c2 == call })
			w1 := core.CutReach(core.CutSpec{Fn: fn, Cut: func(b *ssa.BasicBlock, i int) bool { return okTrue(core.EdgeFacts(b, i)) }, Target: core.SuccessTarget(fn, nil)})
			w2 := core.CutReach(core.CutSpec{Fn: fn, Cut: func(b *ssa.BasicBlock, i int) bool { return g.Edge(core.EdgeFacts(b, i)) }, Target: core.SuccessTarget(fn, nil)})
			r.Check(w1 == nil, "R2.success-gates", name+" pre-merge verified-true", p.Pos(call.Pos()), "nil only after VerifyProof returned true", "a pre-merge header can be accepted although the proof did not verify: "+p.PathString(w1))
			r.Check(w2 == nil, "R2.success-gates", name+" pre-merge verify-error", p.Pos(call.Pos()), "nil only if VerifyProof reported no error", "a VerifyProof error can be ignored: "+p.PathString(w2))
			// proof struct fields
			prf := core.Unwrap(call.Call.Args[1])
			var idxV, leafV, hashesV ssa.Value
			if al, ok := prf.(*ssa.Alloc); ok {
				for _, rf := range *al.Referrers() {
					if fa, ok := rf.(*ssa.FieldAddr); ok {
						_, f, _, _ := core.FieldRef(fa)
						for _, r2 := range *fa.Referrers() {
							if st, ok := r2.(*ssa.Store); ok {
								switch f {
								case "Index":
									idxV = st.Val
								case "Leaf":
									leafV = st.Val
								case "Hashes":
									hashesV = st.Val
								}
							}
						}
					}
				}
			}
			if idxV == nil || leafV == nil || hashesV == nil {
				r.Fail(rule, name+" pre-merge proof-struct", p.Pos(call.Pos()), "cannot read Index/Leaf/Hashes of the proof handed to VerifyProof")
				continue
			}
			lin := core.LinEval(idxV, srcClass)
			okIdx := lin.C0 == 4*8192 && lin.OnlyAtoms("number%8192") && lin.Coef("number%8192") == 2
			r.Check(okIdx, rule, name+" pre-merge index", p.Pos(call.Pos()), "index = 4*8192 + 2*(number % 8192)", "pre-merge proof index is "+lin.String()+", the accumulator commits header i of an epoch at 4*8192 + 2*(number % 8192)")
			r.Check(derivesFromCall(leafV, gethHeaderHash, nil), rule, name+" pre-merge leaf", p.Pos(call.Pos()), "leaf = header hash", "the leaf is not the header's hash")
			var hdrP *ssa.Parameter
			for _, pa := range fn.Params {
				if pa.Type().String() == "[]byte" {
					hdrP = pa
				}
			}
			r.Check(hdrP != nil && derivesFromParam(hashesV, hdrP), rule, name+" pre-merge siblings", p.Pos(call.Pos()), "siblings come from the supplied proof", "the siblings do not come from the supplied proof")
			// root = HistoricalEpochs[number/8192]
			root := call.Call.Args[0]
			okRoot := false
			core.Derives(root, func(v ssa.Value) bool {
				if ia, ok := v.(*ssa.IndexAddr); ok {
					if _, f, ok := core.LoadedField(ia.X); ok && f == "HistoricalEpochs" {
						l := core.LinEval(ia.Index, srcClass)
						if l.C0 == 0 && l.OnlyAtoms("number/8192") && l.Coef("number/8192") == 1 {
							okRoot = true
						}
					}
				}
				return false
			}, core.DeriveOpts{})
			r.Check(okRoot, rule, name+" pre-merge root", p.Pos(call.Pos()), "root = HistoricalEpochs[number / 8192]", "the root the proof is checked against is not the epoch root selected by number / 8192")
		}
		// merkle branches
		calls := core.CallsTo(fn, merkleVerify)
		for ci, cc := range calls {
			call := cc.(*ssa.Call)
			a := call.Call.Args
			key := fmt.Sprintf("%s merkle #%d ", name, ci+1)
			pos := p.Pos(call.Pos())
			if g, isConst := core.ConstInt(a[3]); isConst {
				// execution-block branch: constant gindex
				okG := g == 3228 || g == 6444
				r.Check(okG, rule, key+"el-gindex", pos, fmt.Sprintf("gindex %d", g), fmt.Sprintf("execution block hash gindex is %d, the spec positions are 3228 (Bellatrix..Capella) and 6444 (Deneb)", g))
				// depth = len(branch)
				okD := core.IsLenOf(a[2], func(v ssa.Value) bool { return v == a[1] })
				r.Check(okD, rule, key+"el-depth", pos, "depth = len(branch)", "the depth verified is not the length of the supplied branch (zrnt indexes branch[i] for i < depth without a length check)")
				_, lp := core.Unwrap(a[0]).(*ssa.SliceToArrayPointer)
				okLeaf := core.Derives(a[0], func(v ssa.Value) bool { pa, ok := v.(*ssa.Parameter); return ok && pa.Type().String() == "[]byte" }, core.DeriveOpts{})
				_ = lp
				r.Check(okLeaf, rule, key+"el-leaf", pos, "leaf = the header hash parameter", "the execution branch's leaf is not the header hash")
				// the operands: through the call sites when this is a helper taking (hash, branch, root),
				// directly when the check is written out in the era validator
				elOperands := func(skey string, at ssa.Instruction, leafV, branchV, rootV ssa.Value) {
					var ptype string
					core.Derives(branchV, func(v ssa.Value) bool {
						if c2, ok := v.(*ssa.Call); ok && (strings.HasSuffix(core.CalleeID(c2), ").GetExecutionBlockProof") || (c2.Call.IsInvoke() && c2.Call.Method.Name() == "GetExecutionBlockProof")) {
							if rv, gf := core.ConcreteRecv(c2); rv != nil && gf != nil {
								ptype = core.TypeName(rv.Type())
								checkProofGetter(c, gf, "ExecutionBlockProof")
							}
						}
						return false
					}, core.DeriveOpts{})
					vl := proofVectorLen(p, ptype, "ExecutionBlockProof")
					okVec := vl > 0 && int64(bits.Len64(uint64(g))-1) == vl
					r.Check(okVec, rule, skey+"el-vector-length", p.Pos(at.Pos()), fmt.Sprintf("%s.ExecutionBlockProof has %d siblings = floor(log2 %d)", ptype, vl, g), fmt.Sprintf("proof type %q supplies %d siblings but gindex %d lies at depth %d", ptype, vl, g, bits.Len64(uint64(g))-1))
					wantG := map[string]int64{"BlockProofHistoricalRoots": 3228, "BlockProofHistoricalSummariesCapella": 3228, "BlockProofHistoricalSummariesDeneb": 6444}[ptype]
					r.Check(wantG == g, rule, skey+"el-era-gindex", p.Pos(at.Pos()), fmt.Sprintf("%s uses gindex %d", ptype, g), fmt.Sprintf("proofs of type %q are checked at gindex %d, that era's execution payload sits at %d", ptype, g, wantG))
					okRoot := core.Derives(rootV, func(v ssa.Value) bool { _, f, ok := core.LoadedField(v); return ok && f == "BeaconBlockRoot" }, core.DeriveOpts{})
					r.Check(okRoot, rule, skey+"el-root-operand", p.Pos(at.Pos()), "verified against the proof's beacon block root", "the execution branch is verified against something other than the proof's beacon block root")
					okHash := leafV != nil && (derivesFromCall(leafV, gethHeaderHash, nil) || core.Derives(leafV, func(v ssa.Value) bool { pa, ok := v.(*ssa.Parameter); return ok && pa.Type().String() == "[]byte" }, core.DeriveOpts{}))
					r.Check(okHash, rule, skey+"el-leaf-operand", p.Pos(at.Pos()), "leaf operand is the header hash", "the execution branch's leaf operand is not the header hash")
				}
				if _, rootIsParam := a[4].(*ssa.Parameter); rootIsParam {
					r.Pass(rule, key+"el-root", pos, "root = the beacon block root parameter")
					for cf, cs := range p.CallersOfFn(fn) {
						for _, site := range cs {
							sa := site.Common().Args
							n := len(sa)
							elOperands(fmt.Sprintf("%s→%s ", core.FuncName(cf), name), site, sa[n-3], sa[n-2], sa[n-1])
						}
					}
				} else {
					r.Pass(rule, key+"el-root", pos, "root operand checked in place")
					elOperands(fmt.Sprintf("%s→(in place) ", name), call, a[0], a[1], a[4])
				}
				continue
			}
			// beacon-block branch
			d, isD := core.ConstInt(a[2])
			var ptype string
			core.Derives(a[1], func(v ssa.Value) bool {
				if c2, ok := v.(*ssa.Call); ok && (strings.HasSuffix(core.CalleeID(c2), ").GetBeaconBlockProof") || (c2.Call.IsInvoke() && c2.Call.Method.Name() == "GetBeaconBlockProof")) {
					if rv, gf := core.ConcreteRecv(c2); rv != nil && gf != nil {
						ptype = core.TypeName(rv.Type())
						checkProofGetter(c, gf, "BeaconBlockProof")
					}
				}
				return false
			}, core.DeriveOpts{})
			vl := proofVectorLen(p, ptype, "BeaconBlockProof")
			wantD := map[string]int64{"BlockProofHistoricalRoots": 14, "BlockProofHistoricalSummariesCapella": 13, "BlockProofHistoricalSummariesDeneb": 13}[ptype]
			r.Check(isD && d == wantD && d == vl, rule, key+"cl-depth", pos, fmt.Sprintf("depth %d = SSZ vector length of %s.BeaconBlockProof", d, ptype), fmt.Sprintf("beacon branch of %q verified at depth %d (vector length %d, expected %d)", ptype, d, vl, wantD))
			lin := core.LinEval(a[3], srcClass)
			okIdx := isD && d > 0 && lin.OnlyAtoms("slot%8192") && lin.Coef("slot%8192") == 1 && lin.C0%(1<<uint(d)) == 0 && lin.C0 > 0
			r.Check(okIdx, rule, key+"cl-index", pos, "index = "+lin.String()+" (constant part vanishes mod 2^depth)", "beacon branch index is "+lin.String()+": the block root of a slot sits at position slot % 8192 of its 8192-root vector")
			okLeaf := core.Derives(a[0], func(v ssa.Value) bool { _, f, ok := core.LoadedField(v); return ok && f == "BeaconBlockRoot" }, core.DeriveOpts{})
			r.Check(okLeaf, rule, key+"cl-leaf", pos, "leaf = the proof's beacon block root", "the beacon branch's leaf is not the proof's beacon block root")
			// root
			if ptype == "BlockProofHistoricalRoots" {
				okRoot := false
				core.Derives(a[4], func(v ssa.Value) bool {
					if ia, ok := v.(*ssa.IndexAddr); ok {
						if _, f, ok := core.LoadedField(ia.X); ok && f == "HistoricalRoots" {
							l := core.LinEval(ia.Index, srcClass)
							if l.C0 == 0 && l.OnlyAtoms("slot/8192") && l.Coef("slot/8192") == 1 {
								okRoot = true
							}
						}
					}
					return false
				}, core.DeriveOpts{})
				r.Check(okRoot, rule, key+"cl-root", pos, "root = HistoricalRoots[slot / 8192]", "the beacon branch is not verified against HistoricalRoots[slot / 8192]")
			} else {
				okRoot := core.Derives(a[4], func(v ssa.Value) bool {
					_, f, _, ok := core.FieldRef(v)
					if ok && f == "BlockSummaryRoot" {
						return true
					}
					_, f2, ok2 := core.LoadedField(v)
					return ok2 && f2 == "BlockSummaryRoot"
				}, core.DeriveOpts{})
				r.Check(okRoot, rule, key+"cl-root", pos, "root = the selected summary's BlockSummaryRoot", "the beacon branch is not verified against the summary's block summary root")
			}
			if onPath {
				// R2: success only after both branches
				okTrue := core.AnyFact(func(f core.Fact) bool { return f.Op == token.ILLEGAL && f.Truth && f.V == ssa.Value(call) })
				w1 := core.CutReach(core.CutSpec{Fn: fn, Cut: func(b *ssa.BasicBlock, i int) bool { return okTrue(core.EdgeFacts(b, i)) }, Target: core.SuccessTarget(fn, nil)})
				r.Check(w1 == nil, "R2.success-gates", name+" beacon-branch-true", pos, "nil only after the beacon-block branch verified", "a header can be accepted although its beacon-block branch did not verify: "+p.PathString(w1))
				elTrue := core.AnyFact(func(f core.Fact) bool {
					if f.Op != token.ILLEGAL || !f.Truth {
						return false
					}
					c2, ok := f.V.(*ssa.Call)
					if !ok {
						return false
					}
					if core.CalleeID(c2) == merkleVerify {
						// the execution branch verified in place (constant generalized index)
						_, isC := core.ConstInt(c2.Call.Args[3])
						return isC
					}
					cf := core.StaticCalleeFn(c2)
					if cf == nil {
						return false
					}
					el := false
					for _, m := range core.CallsTo(cf, merkleVerify) {
						if _, isC := core.ConstInt(m.Common().Args[3]); isC {
							el = true
						}
					}
					return el
				})
				w2 := core.CutReach(core.CutSpec{Fn: fn, Cut: func(b *ssa.BasicBlock, i int) bool { return elTrue(core.EdgeFacts(b, i)) }, Target: core.SuccessTarget(fn, nil)})
				r.Check(w2 == nil, "R2.success-gates", name+" execution-branch-true", pos, "nil only after the execution-block branch verified", "a header can be accepted although its execution-block branch did not verify: "+p.PathString(w2))
			}
		}
	}

	// summary index on every path
	for _, fn := range p.ModuleFuncs() {
		if fn.Pkg != vp {
			continue
		}
		rs := fn.Signature.Results()
		if rs.Len() != 2 || core.TypeName(rs.At(0).Type()) != "HistoricalSummary" {
			continue
		}
		name := core.FuncName(fn)
		n := 0
		for _, b := range fn.Blocks {
			for _, in := range b.Instrs {
				ia, ok := in.(*ssa.IndexAddr)
				if !ok {
					continue
				}
				if _, isC := core.ConstInt(ia.Index); isC {
					continue
				}
				n++
				l := core.LinEval(ia.Index, srcClass)
				want := fmt.Sprintf("(slot%+d)/8192", -capellaStartSlt)
				okI := l.C0 == 0 && l.OnlyAtoms(want) && l.Coef(want) == 1
				r.Check(okI, "R3.merkle-arguments", fmt.Sprintf("%s summary-index #%d", name, n), p.Pos(ia.Pos()), "summary index = (slot - 194048*32) / 8192 on every path", "the summary a proof is checked against is selected by "+l.String()+" rather than (slot - 194048*32) / 8192 on every path (slots of other eras must not resolve to a summary)")
			}
		}
	}

	// ---- R4 bounds -> error on the validator's call paths (package validation)
	nIdx := 0
	for _, fn := range p.ModuleFuncs() {
		if fn.Pkg != vp && fn.Pkg != p.SSAPkg("history") {
			continue
		}
		for _, b := range fn.Blocks {
			for _, in := range b.Instrs {
				ia, ok := in.(*ssa.IndexAddr)
				if !ok {
					continue
				}
				if _, isC := core.ConstInt(ia.Index); isC {
					continue
				}
				l := core.LinEval(ia.Index, srcClass)
				if l.Opaque() || len(l.Terms) == 0 {
					continue // not a header/proof derived position
				}
				nIdx++
				acc := ia.X
				accName := "accumulator"
				if _, f, ok := core.LoadedField(acc); ok {
					accName = f
				}
				guard := core.AnyFact(func(f core.Fact) bool {
					return core.CmpFact(f, func(op token.Token, x, y ssa.Value) bool {
						if op != token.LSS {
							return false
						}
						sameIdx := core.SameExpr(core.Unwrap(x), core.Unwrap(ia.Index)) || x == ia.Index || core.LinEval(x, srcClass).String() == l.String()
						return sameIdx && core.IsLenOf(y, func(v ssa.Value) bool { return core.SameValue(v, acc) || sameFieldLoad(v, acc) })
					})
				})
				w := core.InstrGuarded(ia, guard, nil)
				key := fmt.Sprintf("%s %s[%s]", core.FuncName(fn), accName, l.String())
				if fn.Pkg == vp {
					r.Check(w == nil, "R4.bounds-to-error", key, p.Pos(ia.Pos()), "reached only under index < len(accumulator)", "an out-of-range position (peer-chosen slot / caller-supplied accumulator) indexes past the accumulator and panics instead of yielding an error: "+p.PathString(w))
				} else if w != nil {
					r.Note("R4.bounds-to-error", key, p.Pos(ia.Pos()), "unguarded accumulator index in an exported helper that the validator does not call")
				}
			}
		}
	}
	r.Count("accumulator_index_sites", nIdx)

	// ---- R5 prover agreement
	var prover *ssa.Function
	for _, fn := range p.ModuleFuncs() {
		if fn.Pkg != p.SSAPkg("history") {
			continue
		}
		core.Calls(fn, func(ci ssa.CallInstruction) {
			if strings.HasSuffix(core.CalleeID(ci), "fastssz.(*Node).Prove") {
				prover = fn
			}
		})
	}
	if prover == nil {
		r.Fail("R5.prover-agreement", "prover", "-", "anchor-unresolved: the function building pre-merge proofs")
	} else {
		pn := core.FuncName(prover)
		core.Calls(prover, func(ci ssa.CallInstruction) {
			if !strings.HasSuffix(core.CalleeID(ci), "fastssz.(*Node).Prove") {
				return
			}
			l := core.LinEval(ci.Common().Args[1], srcClass)
			ok := l.C0 == 2*8192 && l.OnlyAtoms("number%8192") && l.Coef("number%8192") == 2
			r.Check(ok, "R5.prover-agreement", pn+" index", p.Pos(ci.Pos()), "prover index = 2*8192 + 2*(number % 8192); verifier index = that position under the length mix-in (4*8192 + 2*(number % 8192))", "prover index is "+l.String()+", not the position the verifier checks shifted by the length mix-in")
		})
		// one extra sibling: epoch size little-endian
		nApp, okSize := 0, false
		for _, b := range prover.Blocks {
			for _, in := range b.Instrs {
				if ap, ok := in.(*ssa.Call); ok && core.CalleeID(ap) == "builtin.append" && strings.HasPrefix(ap.Type().String(), "[][]") {
					nApp++
				}
				if cc, ok := in.(*ssa.Call); ok && strings.HasSuffix(core.CalleeID(cc), "littleEndian).PutUint32") {
					if k, isC := core.ConstInt(cc.Call.Args[len(cc.Call.Args)-1]); isC && k == 8192 {
						okSize = true
					}
				}
			}
		}
		r.Check(nApp == 1 && okSize, "R5.prover-agreement", pn+" length-sibling", p.Pos(prover.Pos()), "exactly one extra sibling: the epoch size, little-endian", "the prover does not append exactly one sibling holding the list length 8192 (the verifier's index assumes the length mix-in level)")
	}
	// MixInLength duplicates
	{
		var sigs []string
		var fns []*ssa.Function
		for _, fn := range p.ModuleFuncs() {
			if fn.Name() == "MixInLength" && fn.Signature.Recv() == nil {
				var ids []string
				core.Calls(fn, func(ci ssa.CallInstruction) {
					s := core.CalleeID(ci)
					for _, a := range ci.Common().Args {
						if k, isC := core.ConstInt(a); isC {
							s += fmt.Sprintf(":%d", k)
						}
					}
					ids = append(ids, s)
				})
				sigs = append(sigs, strings.Join(ids, ","))
				fns = append(fns, fn)
			}
		}
		if len(fns) >= 2 {
			same := true
			for _, s := range sigs[1:] {
				if s != sigs[0] {
					same = false
				}
			}
			r.Check(same, "R5.prover-agreement", "MixInLength copies", p.Pos(fns[0].Pos()), fmt.Sprintf("%d copies perform the same calls with the same constants", len(fns)), "the copies of MixInLength in different packages compute differently (prover and verifier roots drift apart)")
		}
		// the accumulator builder mixes the same length into every epoch root that the prover puts
		// into its proofs as the last sibling: the constant epoch size (an honest proof for a header
		// of a partial last epoch must verify against the root the builder produced)
		isMix := map[*ssa.Function]bool{}
		for _, f := range fns {
			isMix[f] = true
		}
		nmix := 0
		for _, fn := range p.ModuleFuncs() {
			if fn.Pkg == nil || fn.Pkg != p.SSAPkg("history") || fn.Signature.Recv() == nil || core.TypeName(fn.Signature.Recv().Type()) != "Accumulator" {
				continue
			}
			core.Calls(fn, func(ci ssa.CallInstruction) {
				f := core.StaticCalleeFn(ci)
				if f == nil || !isMix[f] || len(ci.Common().Args) != 2 {
					return
				}
				nmix++
				k, isC := core.ConstInt(ci.Common().Args[1])
				r.Check(isC && k == 8192, "R5.prover-agreement", fmt.Sprintf("%s mixes-in-epoch-size #%d", core.FuncName(fn), nmix), p.Pos(ci.Pos()),
					"the epoch root mixes in the constant 8192, the value the prover appends as the length sibling", "the accumulator builder mixes a length other than the constant epoch size into an epoch root while the prover's proofs carry 8192: honest proofs for that epoch do not verify")
			})
		}
	}
	errorsExamined(c, "R6.errors-examined", "header proofs", []string{"validation", "history"}, "(validation.HeaderValidator).", "validation.TurnToPreMergeProof", "history.BuildProof")
}

func orNone(s string) string {
	if s == "" {
		return "a raw proof"
	}
	return s
}

func sameFieldLoad(a, b ssa.Value) bool {
	ta, fa, oka := core.LoadedField(a)
	tb, fb, okb := core.LoadedField(b)
	return oka && okb && ta == tb && fa == fb
}

var getterChecked = map[*ssa.Function]bool{}

// checkProofGetter: the accessor converts exactly the named field, element by element, in order.
func checkProofGetter(c *Ctx, f *ssa.Function, field string) {
	if f == nil || getterChecked[f] {
		return
	}
	getterChecked[f] = true
	ok := false
	for _, b := range f.Blocks {
		for _, in := range b.Instrs {
			ap, isAp := in.(*ssa.Call)
			if !isAp || core.CalleeID(ap) != "builtin.append" {
				continue
			}
			el := core.VariadicElems(ap.Call.Args[1])
			if len(el) != 1 {
				continue
			}
			if core.Derives(el[0], func(v ssa.Value) bool {
				ia, isIA := v.(*ssa.IndexAddr)
				if !isIA || !isInductionVar(ia.Index) {
					return false
				}
				return core.Derives(ia.X, func(x ssa.Value) bool {
					_, fl, _, okf := core.FieldRef(x)
					if okf && fl == field {
						return true
					}
					_, fl2, ok2 := core.LoadedField(x)
					return ok2 && fl2 == field
				}, core.DeriveOpts{})
			}, core.DeriveOpts{}) {
				ok = true
			}
		}
	}
	// indexed form: dst[i] = Root(src[i]) with one induction variable on both sides
	if !ok {
		fromField := func(x ssa.Value) bool {
			return core.Derives(x, func(y ssa.Value) bool {
				_, fl, _, okf := core.FieldRef(y)
				if okf && fl == field {
					return true
				}
				_, fl2, ok2 := core.LoadedField(y)
				return ok2 && fl2 == field
			}, core.DeriveOpts{})
		}
		for _, b := range f.Blocks {
			for _, in := range b.Instrs {
				st, isSt := in.(*ssa.Store)
				if !isSt {
					continue
				}
				dst, isIA := st.Addr.(*ssa.IndexAddr)
				if !isIA || !isInductionVar(dst.Index) {
					continue
				}
				if core.Derives(st.Val, func(v ssa.Value) bool {
					ia, isIA2 := v.(*ssa.IndexAddr)
					return isIA2 && ia.Index == dst.Index && fromField(ia.X)
				}, core.DeriveOpts{}) {
					ok = true
				}
			}
		}
	}
	c.R.Check(ok, "R3.merkle-arguments", core.FuncName(f)+" reads "+field, c.P.Pos(f.Pos()), "the accessor converts the "+field+" vector in order", "the accessor does not return the "+field+" vector of the proof (siblings of another branch or another order)")
}

// passThroughWrappers calls visit for every module function G that statically calls target (or,
// up to depth levels, another such wrapper) handing its own parameters straight through and
// that returns an error: G is a front of target and must not succeed on its own.
func passThroughWrappers(p *core.Prog, target *ssa.Function, depth int, visit func(G *ssa.Function, call *ssa.Call)) {
	level := []*ssa.Function{target}
	seen := map[*ssa.Function]bool{target: true}
	for d := 0; d < depth && len(level) > 0; d++ {
		var next []*ssa.Function
		for _, fn := range p.ModuleFuncs() {
			if seen[fn] || core.ErrResultIndex(fn.Signature) < 0 {
				continue
			}
			core.Calls(fn, func(ci ssa.CallInstruction) {
				call, ok := ci.(*ssa.Call)
				if !ok {
					return
				}
				cal := core.StaticCalleeFn(call)
				isT := false
				for _, t := range level {
					if cal == t {
						isT = true
					}
				}
				if !isT {
					return
				}
				args := call.Call.Args
				if cal.Signature.Recv() != nil && len(args) > 0 {
					args = args[1:]
				}
				if len(args) == 0 {
					return
				}
				for _, a := range args {
					if _, isP := core.Unwrap(a).(*ssa.Parameter); !isP {
						return
					}
				}
				visit(fn, call)
				if !seen[fn] {
					seen[fn] = true
					next = append(next, fn)
				}
			})
		}
		level = next
	}
}
