package props

import (
	"strings"

	"golang.org/x/tools/go/ssa"

	"verifchk/core"
)

// errorsExamined: on the functions that implement a property's mechanism (selected by name from
// the alias-resolved function names, plus everything they call inside the given packages) no
// error bound to a variable is overwritten, dropped or assigned to a variable nobody reads on a
// path that goes on to succeed. A shadowed `err` silently turns "this step failed" into "go on".
func errorsExamined(c *Ctx, rule, what string, pkgs []string, names ...string) {
	p := c.P
	var roots []*ssa.Function
	for _, fn := range p.ModuleFuncs() {
		n := core.FuncName(fn)
		for _, s := range names {
			if strings.Contains(n, s) {
				roots = append(roots, fn)
				break
			}
		}
	}
	if len(roots) == 0 {
		c.R.Fail(rule, what, "-", "anchor-unresolved: none of the functions implementing the mechanism was found")
		return
	}
	lostErrorRule(c, rule, what, roots, pkgs)
}
