package props

import (
	"fmt"
	"go/token"
	"strings"

	"golang.org/x/tools/go/ssa"

	"verifchk/core"
)

func init() {
	Registry["C06"] = c06
	Registry["C17"] = c17
}

// u256 decoders by byte order
var u256BE = map[string]bool{"SetBytes": true, "SetBytes32": true, "SetFromBig": true, "SetBytes31": true}
var u256LE = map[string]bool{"UnmarshalSSZ": true}

// inRangeFns finds module functions of shape (node id, radius *uint256.Int, content id) bool.
func inRangeFns(p *core.Prog) []*ssa.Function {
	var out []*ssa.Function
	for _, fn := range p.ModuleFuncs() {
		sig := fn.Signature
		if sig.Recv() != nil || sig.Params().Len() != 3 || sig.Results().Len() != 1 {
			continue
		}
		if core.QualTypeName(sig.Params().At(0).Type()) != "github.com/ethereum/go-ethereum/p2p/enode.ID" {
			continue
		}
		if core.QualTypeName(sig.Params().At(1).Type()) != "github.com/holiman/uint256.Int" {
			continue
		}
		out = append(out, fn)
	}
	return out
}

// inRangeWrappers: module functions that do nothing but apply the in-range helper to (the node's
// own id, the store's current radius, their own parameter) - e.g. (*PortalProtocol).InRange. A
// call of such a wrapper is a call of the helper with the operands the rule demands.
func inRangeWrappers(p *core.Prog) []*ssa.Function {
	helpers := inRangeFns(p)
	var out []*ssa.Function
	for _, fn := range p.ModuleFuncs() {
		if containsFn(helpers, fn) || fn.Signature.Results().Len() != 1 || len(fn.Blocks) != 1 {
			continue
		}
		rets := core.Returns(fn)
		if len(rets) != 1 {
			continue
		}
		call, ok := rets[0].Results[0].(*ssa.Call)
		if !ok || !containsFn(helpers, core.StaticCalleeFn(call)) || len(call.Call.Args) != 3 {
			continue
		}
		isCallTo := func(v ssa.Value, suffix ...string) bool {
			return core.Derives(v, func(x ssa.Value) bool {
				cc, ok := x.(*ssa.Call)
				if !ok {
					return false
				}
				for _, sfx := range suffix {
					if strings.HasSuffix(core.CalleeID(cc), sfx) || (cc.Call.IsInvoke() && "."+cc.Call.Method.Name() == sfx) {
						return true
					}
				}
				return false
			}, core.DeriveOpts{ThroughCalls: true})
		}
		okID := isCallTo(call.Call.Args[0], ".Self", ").self", ".ID")
		okRad := isCallTo(call.Call.Args[1], ".Radius")
		okKey := false
		for _, pa := range fn.Params {
			if call.Call.Args[2] == ssa.Value(pa) {
				okKey = true
			}
		}
		if okID && okRad && okKey {
			out = append(out, fn)
		}
	}
	return out
}

func c06(c *Ctx) {
	p, r := c.P, c.R
	r.Technique = "value-flow classification of every uint256 byte decoding by the origin of its operand (database key / XOR distance vs wire radius) against the byte order of the decoder; structural check of every in-range comparison; who-may-write the radius; refusal gate"
	r.Explanation = "Decides: (R1) byte-order agreement - pebble orders keys bytewise, i.e. as big-endian numbers, so every conversion of a database key or XOR distance into a uint256 that is compared with or stored as the radius must be big-endian (SetBytes...); a little-endian decoder (UnmarshalSSZ) on such bytes contradicts the ordering the prune loop relies on; wire radii (ping/pong payloads, the radius cache) must be decoded little-endian (SSZ); (R2) every in-range function compares the radius with the 256-bit XOR distance of node id and content id, never with the 0..256 log-distance, with the store's strictness radius > distance; (R3) offer filtering (both versions), the store RPC and gossip selection all go through that one helper; (R4) the insufficient-radius error is returned exactly on the failing edge of the strict comparison; (R5) the radius is written only by the constructor (maximum, or the farthest key when nearly full) and by prune, where the stored value derives from the key of an item that is not deleted in that iteration. (R8) every radius put into a ping/pong payload (ping_ext payload constructors, bare-radius pong) is (*uint256.Int).MarshalSSZ of the store's Radius(). Not decided: 'every retained item lies within the radius at all times' and 'the radius only shrinks' as invariants over put histories."
	r.Assumptions = []string{"uint256.Int.UnmarshalSSZ reads little-endian, SetBytes* big-endian (read in the dependency)", "pebble's default comparer is bytewise"}
	r.Floor("R1.byte-order", 4)
	r.Floor("R2.in-range-rule", 2)
	r.Floor("R3.single-helper", 4)
	r.Floor("R4.refusal", 2)
	r.Floor("R5.radius-writers", 2)
	r.Floor("R6.admission-under-lock", 1)
	r.Floor("R8.advertised-radius", 6)
	m, why := newStoreModel(c)
	if m == nil {
		r.Fail("R1.byte-order", "radius-store", "-", why)
		return
	}

	// ---------------- R1
	isKeyBytes := func(v ssa.Value) bool {
		return core.Derives(v, func(x ssa.Value) bool {
			if cc, ok := x.(*ssa.Call); ok {
				id := core.CalleeID(cc)
				if id == iterKey {
					return true
				}
				if f := core.StaticCalleeFn(cc); f != nil && f == m.keyFn {
					return true
				}
			}
			// a []byte parameter that callers fill with the derived key
			if pa, ok := x.(*ssa.Parameter); ok && pa.Parent() == m.inRadius {
				return true
			}
			return false
		}, core.DeriveOpts{})
	}
	isWireRadius := func(v ssa.Value) bool {
		return core.Derives(v, func(x ssa.Value) bool {
			if _, f, ok := core.LoadedField(x); ok && (f == "DataRadius" || f == "Radius") {
				return true
			}
			if cc, ok := x.(*ssa.Call); ok {
				id := core.CalleeID(cc)
				if strings.HasSuffix(id, "fastcache.(*Cache).HasGet") || strings.HasSuffix(id, "fastcache.(*Cache).Get") {
					return true
				}
			}
			if ex, ok := x.(*ssa.Extract); ok {
				if cc, ok := ex.Tuple.(*ssa.Call); ok && strings.HasSuffix(core.CalleeID(cc), "fastcache.(*Cache).HasGet") {
					return true
				}
			}
			return false
		}, core.DeriveOpts{})
	}
	nDec := 0
	for _, fn := range p.ModuleFuncs() {
		perFn := map[string]int{}
		core.Calls(fn, func(ci ssa.CallInstruction) {
			id := core.CalleeID(ci)
			if !strings.HasPrefix(id, u256Pfx) {
				return
			}
			meth := strings.TrimPrefix(id, u256Pfx)
			if !u256BE[meth] && !u256LE[meth] {
				return
			}
			arg := ci.Common().Args[1]
			nDec++
			// the object decoded into must be a fresh one: decoding into a shared *uint256.Int
			// (the loaded radius, a package-level value) changes what every holder of it sees
			if fn.Pkg == m.ctor.Pkg || (fn.Parent() != nil && fn.Parent().Pkg == m.ctor.Pkg) {
				recv := core.Unwrap(ci.Common().Args[0])
				fresh := false
				switch x := recv.(type) {
				case *ssa.Alloc:
					fresh = true
				case *ssa.Call:
					id2 := core.CalleeID(x)
					fresh = id2 == "github.com/holiman/uint256.NewInt" || strings.HasPrefix(id2, "github.com/holiman/uint256.(*Int).Clone")
				}
				perFn["recv"]++
				r.Check(fresh, "R5.radius-writers", fmt.Sprintf("%s decode-target #%d", core.FuncName(fn), perFn["recv"]), p.Pos(ci.Pos()),
					"decodes into a freshly allocated value", "a key is decoded in place into an existing uint256 object (the shared radius / a package-level value): the advertised radius of every store holding that object changes without a prune of its own and can grow")
			}
			switch {
			case isKeyBytes(arg):
				perFn["key"]++
				// keyed by the role of the function in the store (helper or written out in Put, it is
				// the same decode), so that moving the code does not change the identity of a finding
				role := core.FuncName(fn)
				switch fn {
				case m.inRadius:
					role = "store admission test"
				case m.prune:
					role = "store prune"
				case m.ctor:
					role = "store open"
				}
				key := fmt.Sprintf("%s decodes database key/distance #%d", role, perFn["key"])
				r.Check(u256BE[meth], "R1.byte-order", key, p.Pos(ci.Pos()),
					"big-endian decoding of a bytewise-ordered key", "a database key / XOR distance (ordered bytewise = big-endian) is decoded with the little-endian "+meth+": the radius and the admission test read the byte-reversed number")
			case isWireRadius(arg):
				perFn["wire"]++
				key := fmt.Sprintf("%s decodes wire radius #%d", core.FuncName(fn), perFn["wire"])
				r.Check(u256LE[meth], "R1.byte-order", key, p.Pos(ci.Pos()), "little-endian (SSZ) decoding of a wire radius", "a radius received in SSZ (little-endian) is decoded big-endian")
			default:
				perFn["other"]++
				r.Note("R1.byte-order", fmt.Sprintf("%s decodes other bytes #%d with %s", core.FuncName(fn), perFn["other"], meth), p.Pos(ci.Pos()), "operand is neither a database key nor a wire radius (not classified)")
			}
		})
	}
	r.Count("uint256_byte_decodings", nDec)

	// ---------------- R2 in-range rule
	helpers := inRangeFns(p)
	for _, fn := range helpers {
		name := core.FuncName(fn)
		usesLog := len(core.CallsTo(fn, enodeLogDist)) > 0
		r.Check(!usesLog, "R2.in-range-rule", name+" metric", p.Pos(fn.Pos()),
			"does not use the logarithmic distance", "the in-range test compares the radius with the 0..256 log-distance instead of the 256-bit XOR distance (any radius above 256 admits everything)")
		// every `true` result: radius > distance (strict), distance derived from both ids by xor
		strictOK, xorOK := false, false
		for _, ret := range core.Returns(fn) {
			v := ret.Results[0]
			switch x := v.(type) {
			case *ssa.Call:
				id := core.CalleeID(x)
				if id == u256Pfx+"Gt" && x.Call.Args[0] == ssa.Value(fn.Params[1]) {
					strictOK = true
					xorOK = derivesFromBoth(x.Call.Args[1], fn)
				}
				if id == u256Pfx+"Lt" && x.Call.Args[1] == ssa.Value(fn.Params[1]) {
					strictOK = true
					xorOK = derivesFromBoth(x.Call.Args[0], fn)
				}
			case *ssa.BinOp:
				// radius.Cmp(d) > 0  /  radius.CmpBig(d) > 0
				if cc, ok := x.X.(*ssa.Call); ok && (core.CalleeID(cc) == u256Pfx+"Cmp" || core.CalleeID(cc) == u256Pfx+"CmpBig") && cc.Call.Args[0] == ssa.Value(fn.Params[1]) {
					k, isC := core.ConstInt(x.Y)
					if isC && ((x.Op == token.GTR && k == 0) || (x.Op == token.GEQ && k == 1) || (x.Op == token.EQL && k == 1)) {
						strictOK = true
						xorOK = derivesFromBoth(cc.Call.Args[1], fn)
					}
				}
			}
		}
		r.Check(strictOK, "R2.in-range-rule", name+" strictness", p.Pos(fn.Pos()), "in range iff radius > distance (strict, like the store)", "the in-range test is not the strict comparison radius > distance")
		if !usesLog {
			r.Check(xorOK, "R2.in-range-rule", name+" operands", p.Pos(fn.Pos()), "the distance compared derives from both the node id and the content id", "the distance compared does not derive from both ids")
		}
	}
	// the store's own test: radius.Gt(dis)
	{
		okGt := false
		if m.inlineTest {
			// the comparison written out in Put: some branch tests radius.Gt(distance) / distance.Lt(radius)
			for _, b := range m.put.Blocks {
				for i := range b.Succs {
					if m.radiusGate(true)(core.EdgeFacts(b, i)) {
						okGt = true
					}
				}
			}
		}
		for _, ret := range core.Returns(m.inRadius) {
			if m.inlineTest {
				break
			}
			if cc, ok := ret.Results[0].(*ssa.Call); ok && m.radiusCmpCall(cc) {
				okGt = true
			}
		}
		r.Check(okGt, "R2.in-range-rule", core.FuncName(m.inRadius)+" strictness", p.Pos(m.inRadius.Pos()), "admits iff radius > distance", "the store's admission test is not radius > distance")
	}

	// ---------------- R3 callers
	if len(helpers) != 1 {
		r.Fail("R3.single-helper", "in-range helper", "-", fmt.Sprintf("expected exactly one in-range helper of shape (node id, radius, content id) bool, found %d", len(helpers)))
	} else {
		callers := p.CallersOfFn(helpers[0])
		n := 0
		for _, fn := range core.SortedFuncs(callers) {
			for range callers[fn] {
				n++
			}
			r.Pass("R3.single-helper", core.FuncName(fn)+" uses helper", p.Pos(fn.Pos()), fmt.Sprintf("%d call(s)", len(callers[fn])))
			// the helper DECIDES: whatever the caller selects (a node appended to a target list, a key
			// appended to an accepted list) is selected only on the helper's true edge - no short-cut
			// around it for some radii (e.g. "radius is the maximum, so everything is in range": the
			// strict rule excludes the one id at distance 2^256-1)
			decides := core.BoolCallGate("inRange", true, func(c2 *ssa.Call) bool { return core.StaticCalleeFn(c2) == helpers[0] })
			na := 0
			for _, b := range fn.Blocks {
				for _, in := range b.Instrs {
					ap, ok := in.(*ssa.Call)
					if !ok || core.CalleeID(ap) != "builtin.append" || !core.InLoop(b) {
						continue
					}
					// only lists that some helper-guarded append feeds: selection lists
					el := core.VariadicElems(ap.Call.Args[1])
					if len(el) != 1 {
						continue
					}
					et := el[0].Type().String()
					if !(strings.HasSuffix(et, "enode.Node") || et == "[]byte") {
						continue
					}
					if !sameLoopAsHelper(fn, b, helpers[0]) {
						continue
					}
					na++
					w := core.InstrGuarded(ap, decides.Edge, nil)
					r.Check(w == nil, "R3.single-helper", fmt.Sprintf("%s selection #%d decided-by-helper", core.FuncName(fn), na), p.Pos(ap.Pos()), "selected only on the true edge of the in-range helper", "something is selected as in range without the in-range helper having said so (a private short-cut: the three users of the rule can disagree): "+p.PathString(w))
				}
			}
		}
		// no other radius comparison in package portalwire outside the helper
		for _, fn := range p.ModuleFuncs() {
			if fn == helpers[0] || fn.Pkg == nil || fn.Pkg != p.SSAPkg("portalwire") {
				continue
			}
			core.Calls(fn, func(ci ssa.CallInstruction) {
				id := core.CalleeID(ci)
				if id == u256Pfx+"Gt" || id == u256Pfx+"Lt" || id == u256Pfx+"Cmp" || id == u256Pfx+"CmpBig" {
					r.Fail("R3.single-helper", core.FuncName(fn)+" private comparison", p.Pos(ci.Pos()), "a radius/distance comparison outside the single in-range helper (the rules can drift apart)")
				}
			})
		}
		// users that go through a thin wrapper (own id, current radius, the key) are users too
		for _, wfn := range inRangeWrappers(p) {
			wc := p.CallersOfFn(wfn)
			for _, fn := range core.SortedFuncs(wc) {
				n += len(wc[fn])
				r.Pass("R3.single-helper", core.FuncName(fn)+" uses helper through "+core.FuncName(wfn), p.Pos(fn.Pos()), fmt.Sprintf("%d call(s)", len(wc[fn])))
			}
		}
		if n < 4 {
			r.Fail("R3.single-helper", "call sites", "-", fmt.Sprintf("only %d call sites of the in-range helper (offer filtering v0/v1, store RPC, gossip expected)", n))
		}
	}

	// ---------------- R6 admission and commit are one critical section: the radius read that
	// admits an item happens with the same mutex held under which prune lowers the radius
	// (otherwise a put admitted against the old radius commits after a concurrent prune and an
	// item beyond the advertised radius is retained)
	{
		readsRadius := func(f *ssa.Function) bool {
			return f != nil && core.InModule(f) && core.ReachesInstr(f, 2, func(in ssa.Instruction) bool {
				ci, ok := in.(ssa.CallInstruction)
				return ok && isAtomicCell(core.CalleeID(ci), "Load") && len(ci.Common().Args) > 0 && m.isField(ci.Common().Args[0], m.radFld)
			})
		}
		sites := map[*ssa.Function][]core.LockSite{}
		core.Calls(m.put, func(ci ssa.CallInstruction) {
			direct := isAtomicCell(core.CalleeID(ci), "Load") && len(ci.Common().Args) > 0 && m.isField(ci.Common().Args[0], m.radFld)
			if direct || readsRadius(core.StaticCalleeFn(ci)) {
				sites[m.put] = append(sites[m.put], core.LockSite{Instr: ci, What: "radius read for admission"})
			}
		})
		if len(sites[m.put]) == 0 {
			r.Fail("R6.admission-under-lock", core.FuncName(m.put), p.Pos(m.put.Pos()), "Put no longer reads the radius before writing")
		} else if len(m.mutexes) == 0 {
			r.Fail("R6.admission-under-lock", core.FuncName(m.put), p.Pos(m.put.Pos()), "the store has no mutex: admission against the radius and the commit are not atomic with respect to prune")
		} else {
			lock := core.LockSpec{Type: m.typName, Field: m.mutexes[0]}
			viols := p.CheckLockDiscipline(lock, sites, func(f *ssa.Function) bool { return f == m.ctor })
			bad := map[ssa.Instruction]bool{}
			for _, v := range viols {
				bad[v.Site] = true
			}
			for i, st := range sites[m.put] {
				r.Check(!bad[st.Instr], "R6.admission-under-lock", fmt.Sprintf("%s radius-read #%d", core.FuncName(m.put), i+1), p.Pos(core.InstrPos(st.Instr)),
					lock.String()+" held when the radius is read for admission", "the radius is read for admission without "+lock.String()+": a concurrent prune can lower the radius between this test and the commit, and an item beyond the advertised radius is retained")
			}
		}
	}

	// ---------------- R4 refusal
	nref := 0
	for _, ret := range core.Returns(m.put) {
		ev := core.ResolveSpill(ret.Results[len(ret.Results)-1])
		isRefusal := func(v ssa.Value) bool {
			u, ok := core.Unwrap(v).(*ssa.UnOp)
			if !ok {
				return false
			}
			g, ok := u.X.(*ssa.Global)
			return ok && g.Name() == "ErrInsufficientRadius"
		}
		if ph, isPhi := ev.(*ssa.Phi); isPhi {
			// the verdict of a written-out helper: the refusal error arrives over one edge of the
			// merged error value; that edge must start on the false side of the radius test
			for ei, e := range ph.Edges {
				if !isRefusal(e) {
					continue
				}
				nref++
				pred := ph.Block().Preds[ei]
				w := core.InstrGuarded(pred.Instrs[len(pred.Instrs)-1], m.radiusGate(false), nil)
				r.Check(w == nil, "R4.refusal", core.FuncName(m.put)+" insufficient-radius", p.Pos(core.InstrPos(ret)), "returned only on the false edge of the radius test", "ErrInsufficientRadius can be returned although the radius test succeeded: "+p.PathString(w))
			}
			continue
		}
		if !isRefusal(ev) {
			continue
		}
		nref++
		refused := m.radiusGate(false)
		w := core.InstrGuarded(ret, refused, nil)
		r.Check(w == nil, "R4.refusal", core.FuncName(m.put)+" insufficient-radius", p.Pos(core.InstrPos(ret)), "returned only on the false edge of the radius test", "ErrInsufficientRadius can be returned although the radius test succeeded: "+p.PathString(w))
	}
	r.Check(nref == 1, "R4.refusal", core.FuncName(m.put)+" refusal-exit", p.Pos(m.put.Pos()), "one refusal exit", fmt.Sprintf("%d exits return ErrInsufficientRadius", nref))

	// ---------------- R5 who may write the radius
	for _, fn := range p.ModuleFuncs() {
		perFn := 0
		core.Calls(fn, func(ci ssa.CallInstruction) {
			if !isAtomicCell(core.CalleeID(ci), "Store") || !m.isField(ci.Common().Args[0], m.radFld) {
				return
			}
			perFn++
			key := fmt.Sprintf("%s radius-store #%d", core.FuncName(fn), perFn)
			val := ci.Common().Args[1]
			isMax := core.Derives(val, func(v ssa.Value) bool { g, ok := v.(*ssa.Global); return ok && g.Name() == "MaxDistance" }, core.DeriveOpts{})
			fromKey := decodedFromIterKey(fn, val)
			switch {
			case fn == m.ctor && isMax:
				r.Pass("R5.radius-writers", key, p.Pos(ci.Pos()), "constructor: maximum radius")
			case fn == m.ctor && fromKey:
				r.Pass("R5.radius-writers", key, p.Pos(ci.Pos()), "constructor: decoded from the farthest key")
			case fn == m.prune && fromKey:
				// not in an iteration that deleted the key
				dels := core.CallsTo(m.prune, batchDelete)
				ok := true
				// where the key is decoded (the store itself may come after the loop)
				decodeBlocks := []*ssa.BasicBlock{ci.Block()}
				core.Calls(m.prune, func(c2 ssa.CallInstruction) {
					id := core.CalleeID(c2)
					if strings.HasPrefix(id, u256Pfx) && (u256BE[strings.TrimPrefix(id, u256Pfx)] || u256LE[strings.TrimPrefix(id, u256Pfx)]) && len(c2.Common().Args) == 2 && isIterKey(c2.Common().Args[1]) {
						decodeBlocks = append(decodeBlocks, c2.Block())
					}
				})
				for _, d := range dels {
					for _, db := range decodeBlocks {
						if d.Block() == db || (d.Block().Dominates(db) && core.InLoop(db) && db != ci.Block()) || (db == ci.Block() && d.Block().Dominates(db) && core.InLoop(db)) {
							ok = false
						}
					}
				}
				r.Check(ok, "R5.radius-writers", key, p.Pos(ci.Pos()), "prune: decoded from the key of the first item kept", "the radius is taken from a key that is deleted in the same iteration")
			default:
				r.Fail("R5.radius-writers", key, p.Pos(ci.Pos()), "the advertised radius is written outside the constructor/prune or with a value that is neither the maximum nor a retained key")
			}
		})
	}
	advertisedRadiusRule(c, "R8.advertised-radius", 5)
	errorsExamined(c, "R7.errors-examined", "content store and gossip", []string{"storage/pebble", "portalwire"}, "(*storage/pebble.ContentStorage).", "storage/pebble.NewStorage", ".GossipAndReturnPeers", ".processPing", ".processPongPayload")
	if sm, _ := newStoreModel(c); sm != nil {
		pruneScansWholeKeyspace(c, sm, "R5.radius-writers")
	}
}

func derivesFromBoth(v ssa.Value, fn *ssa.Function) bool {
	a := core.Derives(v, func(x ssa.Value) bool { return x == ssa.Value(fn.Params[0]) }, core.DeriveOpts{ThroughCalls: true})
	b := core.Derives(v, func(x ssa.Value) bool { return x == ssa.Value(fn.Params[2]) }, core.DeriveOpts{ThroughCalls: true})
	return a && b
}

// decodedFromIterKey: val is a *uint256.Int on which a byte decoder was called with Iterator.Key().
func decodedFromIterKey(fn *ssa.Function, val ssa.Value) bool {
	obj := core.Unwrap(val)
	// a variable that is nil until the decoded value is assigned (`var b *Int; ...; b = dis`): every
	// non-nil value it can hold must be such a decoded object
	if ph, ok := obj.(*ssa.Phi); ok {
		n := 0
		for _, e := range ph.Edges {
			if core.IsNilConst(e) || e == ssa.Value(ph) {
				continue
			}
			n++
			if !decodedFromIterKey(fn, e) {
				return false
			}
		}
		return n > 0
	}
	found := false
	core.Calls(fn, func(ci ssa.CallInstruction) {
		id := core.CalleeID(ci)
		if !strings.HasPrefix(id, u256Pfx) {
			return
		}
		meth := strings.TrimPrefix(id, u256Pfx)
		if !u256BE[meth] && !u256LE[meth] {
			return
		}
		a := ci.Common().Args
		if (a[0] == obj || ci.Value() == obj) && core.Derives(a[1], func(x ssa.Value) bool { return isIterKey(x) }, core.DeriveOpts{}) {
			found = true
		}
	})
	return found
}

// ============================================================================ C17

func c17(c *Ctx) {
	p, r := c.P, c.R
	r.Technique = "structural write-grouping analysis over go/ssa: same-batch identity of the item and size-record writes, single commit after both, no direct DB writes, synced prune commit; open-time gates by must-pass-through (cut) checks"
	r.Explanation = "Decides the write-grouping and open-time structure that crash consistency rests on (nothing is executed, no crash point is enumerated): (R1) in Put the size record and the item are set on the same batch, which is committed exactly once after both, what Put adds to the usage figure is len(id)+len(value) of the item on every path, and no store code writes to the database outside a batch; (R2) in prune all deletes and the size record go to one batch committed with Sync=true; (R3) on open: the radius is initialised to the maximum before anything is read, the usage counter is restored from the size record, size > capacity leads to prune (C05.R2), the radius is replaced only under size > 95% of capacity by a value decoded from Iterator.Last's key, and every failing database call returns its error (no half-initialised store); the reserved size record lives under the all-zero 32-byte key (below every content key); (R4) Get returns only (a copy of) bytes read from the database (no cache layer). (R5) the counter update whose result a put persists, the batch commits and prune() run under one mutex of the store on every call path, so size records reach the log in the order their figures were computed (shared with C05.R1). Not decided: the enumeration of crash points and file-system semantics, and pebble's WAL atomicity itself."
	r.Assumptions = []string{"pebble: a batch commit is atomic in the WAL; Sync=true makes it durable before returning"}
	r.Floor("R1.put-batch", 4)
	r.Floor("R2.prune-batch", 3)
	r.Floor("R3.open", 6)
	r.Floor("R4.get", 1)
	r.Floor("R5.size-record-ordered", 4)
	m, why := newStoreModel(c)
	if m == nil {
		r.Fail("R1.put-batch", "radius-store", "-", why)
		return
	}
	pkg := m.typ.Obj().Pkg().Path()

	// ---- R5: the size record a put commits carries the figure computed by its own counter update; two puts
	// write their records in the order the figures were computed only if update and commit share one critical
	// section (otherwise the put with the smaller figure can commit last and a crash then restores a usage
	// below the bytes present). Same rule as C05.R1.
	accountingLockRule(c, m, "R5.size-record-ordered")

	// ---- R1
	batchOf := func(ci ssa.CallInstruction) ssa.Value { return ci.Common().Args[0] }
	sets := core.CallsTo(m.put, batchSet)
	commits := core.CallsTo(m.put, batchCommit)
	var sizeSet, itemSet ssa.CallInstruction
	for _, s := range sets {
		if isSizeKey(s.Common().Args[1]) {
			sizeSet = s
		} else {
			itemSet = s
		}
	}
	if sizeSet == nil || itemSet == nil || len(sets) != 2 || len(commits) != 1 {
		r.Fail("R1.put-batch", core.FuncName(m.put)+" shape", p.Pos(m.put.Pos()), fmt.Sprintf("expected one size-record set, one item set and one commit on a batch, found %d sets / %d commits", len(sets), len(commits)))
	} else {
		same := core.SameValue(batchOf(sizeSet), batchOf(itemSet)) && core.SameValue(batchOf(sizeSet), batchOf(commits[0]))
		isNew := core.IsCallTo(batchOf(sizeSet), pebbleNewBatch)
		r.Check(same && isNew, "R1.put-batch", core.FuncName(m.put)+" same-batch", p.Pos(commits[0].Pos()),
			"the size record and the item are written to, and committed with, one batch", "the size record and the item are not in one atomic batch: a crash between the two writes leaves the usage figure and the contents inconsistent")
		for _, s := range []ssa.CallInstruction{sizeSet, itemSet} {
			w := core.MustPassBefore(commits[0], func(in ssa.Instruction) bool { return in == s })
			r.Check(w == nil, "R1.put-batch", core.FuncName(m.put)+" commit-after-"+map[bool]string{true: "size-record", false: "item"}[s == sizeSet], p.Pos(s.Pos()),
				"the commit is reached only after this write", "the batch can be committed without this write: "+p.PathString(w))
		}
		// commit error propagates
		if call, ok := commits[0].(*ssa.Call); ok {
			g := core.ErrNilGate("commit", func(c2 *ssa.Call) bool { return c2 == call })
			w := core.AllSuccessPass(m.put, g, call.Block())
			r.Check(w == nil, "R1.put-batch", core.FuncName(m.put)+" commit-error", p.Pos(call.Pos()), "a failed commit is reported", "Put can report success although the commit failed: "+p.PathString(w))
		}
	}
	// the usage figure written with the item counts the item: what Put adds to the counter is
	// len(id)+len(value) of what it writes, on every path (a smaller amount makes the persisted
	// figure under-report for good: no prune at runtime, none on open)
	if adds := m.sizeOps(m.put, "Add"); len(adds) == 1 {
		arg := adds[0].Common().Args[1]
		ok, note := sumOfLens(arg, func(v ssa.Value) bool { return v == ssa.Value(m.put.Params[2]) }, func(v ssa.Value) bool { return v == ssa.Value(m.put.Params[3]) })
		r.Check(ok, "R1.put-batch", core.FuncName(m.put)+" figure-counts-the-item", p.Pos(adds[0].Pos()), "the usage figure grows by len(content id)+len(content)"+note, "the usage figure persisted with an item does not grow by the item's bytes on every path: it can under-report what is on disk, and neither the running store nor the next open prunes")
	} else {
		r.Fail("R1.put-batch", core.FuncName(m.put)+" figure-counts-the-item", p.Pos(m.put.Pos()), fmt.Sprintf("expected one addition to the usage counter in Put, found %d", len(adds)))
	}
	// no direct DB writes in the store's package
	ndirect := 0
	for _, fn := range p.ModuleFuncs() {
		if fn.Pkg == nil && fn.Parent() == nil {
			continue
		}
		root := fn
		for root.Parent() != nil {
			root = root.Parent()
		}
		if root.Pkg == nil || root.Pkg.Pkg.Path() != pkg {
			continue
		}
		for _, ci := range core.CallsTo(fn, pebbleDBSet, pebbleDBDelete, "github.com/cockroachdb/pebble.(*DB).DeleteRange", "github.com/cockroachdb/pebble.(*DB).Merge", "github.com/cockroachdb/pebble.(*DB).SingleDelete") {
			ndirect++
			r.Fail("R1.put-batch", fmt.Sprintf("%s direct-db-write #%d", core.FuncName(fn), ndirect), p.Pos(ci.Pos()), "the store writes to the database outside a batch: this write is not atomic with the batch it belongs to (a crash between them leaves the size record and the contents inconsistent)")
		}
	}
	if ndirect == 0 {
		r.Pass("R1.put-batch", "no direct DB.Set/Delete in "+strings.TrimPrefix(pkg, core.ModPath+"/"), "-", "every write of the store goes through a batch")
	}

	// ---- R2
	pdel := core.CallsTo(m.prune, batchDelete)
	pset := core.CallsTo(m.prune, batchSet)
	pcom := core.CallsTo(m.prune, batchCommit)
	if len(pdel) == 0 || len(pset) != 1 || len(pcom) != 1 {
		r.Fail("R2.prune-batch", core.FuncName(m.prune)+" shape", p.Pos(m.prune.Pos()), fmt.Sprintf("expected deletes, one size-record set and one commit, found %d/%d/%d", len(pdel), len(pset), len(pcom)))
	} else {
		same := core.SameValue(batchOf(pset[0]), batchOf(pcom[0])) && isSizeKey(pset[0].Common().Args[1])
		for _, d := range pdel {
			same = same && core.SameValue(batchOf(d), batchOf(pcom[0]))
		}
		r.Check(same, "R2.prune-batch", core.FuncName(m.prune)+" same-batch", p.Pos(pcom[0].Pos()), "deletes and the size record are committed in one batch", "prune's deletes and its size record are not in one atomic batch")
		// Sync: true
		opt := pcom[0].Common().Args[1]
		synced := false
		if al, ok := opt.(*ssa.Alloc); ok {
			if refs := al.Referrers(); refs != nil {
				for _, rf := range *refs {
					if fa, ok := rf.(*ssa.FieldAddr); ok {
						if _, f, _, _ := core.FieldRef(fa); f == "Sync" {
							for _, r2 := range *fa.Referrers() {
								if st, ok := r2.(*ssa.Store); ok {
									if b, isC := core.ConstBool(st.Val); isC && b {
										synced = true
									}
								}
							}
						}
					}
				}
			}
		}
		if u, ok := opt.(*ssa.UnOp); ok {
			if g, ok := u.X.(*ssa.Global); ok && g.Name() == "Sync" {
				synced = true
			}
		}
		r.Check(synced, "R2.prune-batch", core.FuncName(m.prune)+" synced-commit", p.Pos(pcom[0].Pos()), "the prune batch is committed with Sync=true", "the prune batch is not synced: after a crash deleted items may reappear while the persisted usage figure was already reduced by a later write")
		w := core.MustPassBefore(pcom[0], func(in ssa.Instruction) bool { return in == ssa.Instruction(pset[0]) })
		r.Check(w == nil, "R2.prune-batch", core.FuncName(m.prune)+" commit-after-size-record", p.Pos(pset[0].Pos()), "the commit is reached only after the size record was added", "prune can commit its deletes without the reduced size record: "+p.PathString(w))
	}

	// ---- R3 open
	ctor := m.ctor
	var firstGet ssa.CallInstruction
	for _, ci := range core.CallsTo(ctor, pebbleGet) {
		if firstGet == nil {
			firstGet = ci
		}
	}
	var maxStore ssa.CallInstruction
	core.Calls(ctor, func(ci ssa.CallInstruction) {
		if isAtomicCell(core.CalleeID(ci), "Store") && m.isField(ci.Common().Args[0], m.radFld) {
			if core.Derives(ci.Common().Args[1], func(v ssa.Value) bool { g, ok := v.(*ssa.Global); return ok && g.Name() == "MaxDistance" }, core.DeriveOpts{}) {
				maxStore = ci
			}
		}
	})
	if firstGet == nil || maxStore == nil {
		r.Fail("R3.open", core.FuncName(ctor)+" shape", p.Pos(ctor.Pos()), "constructor no longer initialises the radius to the maximum and reads the size record")
	} else {
		// the maximum is in place before anything reads or narrows the radius: every call of
		// prune, every other store to the radius cell and every exit that hands the store out
		// lies after it (reading the size record first is harmless: that read does not look at
		// the radius)
		isMax := func(in ssa.Instruction) bool { return in == ssa.Instruction(maxStore) }
		var w []*ssa.BasicBlock
		core.Calls(ctor, func(ci ssa.CallInstruction) {
			if w != nil || ci == maxStore {
				return
			}
			reads := core.StaticCalleeFn(ci) == m.prune && m.prune != nil
			if isAtomicCell(core.CalleeID(ci), "Store") && m.isField(ci.Common().Args[0], m.radFld) {
				reads = true
			}
			if isAtomicCell(core.CalleeID(ci), "Load") && m.isField(ci.Common().Args[0], m.radFld) {
				reads = true
			}
			if reads {
				if in, ok := ci.(ssa.Instruction); ok {
					w = core.MustPassBefore(in, isMax)
				}
			}
		})
		if w == nil {
			for _, ret := range core.Returns(ctor) {
				if len(ret.Results) > 0 && !core.IsNilConst(core.ResolveSpill(ret.Results[0])) {
					if w2 := core.MustPassBefore(ret, isMax); w2 != nil {
						w = w2
					}
				}
			}
		}
		r.Check(w == nil, "R3.open", core.FuncName(ctor)+" radius-max-first", p.Pos(maxStore.Pos()), "the radius is the maximum before anything reads or narrows it", "the store can be used/read before its radius is initialised: "+p.PathString(w))
		r.Check(isSizeKey(firstGet.Common().Args[1]), "R3.open", core.FuncName(ctor)+" reads-size-record", p.Pos(firstGet.Pos()), "reads the reserved size record", "the constructor does not read the size record")
	}
	// the usage counter is restored before anything that reads it runs (prune takes its starting
	// figure from the counter, not from an argument)
	restores := m.sizeOps(ctor, "Store")
	readsCounter := func(f *ssa.Function) bool {
		return f != nil && core.InModule(f) && core.ReachesInstr(f, 2, func(in ssa.Instruction) bool {
			ci, ok := in.(ssa.CallInstruction)
			if !ok {
				return false
			}
			id := core.CalleeID(ci)
			return strings.HasPrefix(id, atomicU64) && (strings.HasSuffix(id, ".Load") || strings.HasSuffix(id, ".Add")) && len(ci.Common().Args) > 0 && m.isField(ci.Common().Args[0], m.sizeFld)
		})
	}
	nreaders := 0
	core.Calls(ctor, func(ci ssa.CallInstruction) {
		f := core.StaticCalleeFn(ci)
		if f == nil || !readsCounter(f) {
			return
		}
		nreaders++
		w := core.MustPassBefore(ci, func(in ssa.Instruction) bool {
			for _, s := range restores {
				if in == ssa.Instruction(s) {
					return true
				}
			}
			return false
		})
		r.Check(w == nil, "R3.open", fmt.Sprintf("%s counter-restored-before %s", core.FuncName(ctor), core.FuncName(f)), p.Pos(ci.Pos()),
			"the usage counter holds the persisted figure before this reader of the counter runs", "on open this call reads the usage counter before it was restored from the size record (it sees 0): "+p.PathString(w))
	})
	r.Count("ctor_counter_readers", nreaders)
	// radius replaced only under size > 0.95 capacity
	core.Calls(ctor, func(ci ssa.CallInstruction) {
		if !isAtomicCell(core.CalleeID(ci), "Store") || !m.isField(ci.Common().Args[0], m.radFld) || ci == maxStore {
			return
		}
		frac := -1.0
		g := core.AnyFact(func(f core.Fact) bool {
			return core.CmpFact(f, func(op token.Token, x, y ssa.Value) bool {
				if op != token.GTR {
					return false
				}
				okY := false
				core.Derives(y, func(v ssa.Value) bool {
					if bo, ok := v.(*ssa.BinOp); ok && bo.Op == token.MUL {
						for _, pr := range [][2]ssa.Value{{bo.X, bo.Y}, {bo.Y, bo.X}} {
							if fl, isC := core.ConstFloat(pr[1]); isC && core.Derives(pr[0], func(z ssa.Value) bool { return m.isLoadField(z, m.capField) }, core.DeriveOpts{}) {
								frac = fl
								okY = true
							}
						}
					}
					return false
				}, core.DeriveOpts{})
				return okY
			})
		})
		w := core.InstrGuarded(ci, g, nil)
		r.Check(w == nil && frac > 0.949 && frac < 0.951, "R3.open", core.FuncName(ctor)+" radius-from-db-guard", p.Pos(ci.Pos()),
			"the radius is replaced only under size > 95% of capacity", fmt.Sprintf("the radius re-derivation on open is not guarded by size > 0.95*capacity (guard fraction %.3g): %s", frac, p.PathString(w)))
		okLast := decodedFromIterKey(ctor, ci.Common().Args[1])
		g2 := core.BoolCallGate("Last", true, func(c2 *ssa.Call) bool { return core.CalleeID(c2) == iterPfx+"Last" })
		w2 := core.InstrGuarded(ci, g2.Edge, nil)
		r.Check(okLast && w2 == nil, "R3.open", core.FuncName(ctor)+" radius-from-farthest-key", p.Pos(ci.Pos()), "the value is decoded from the key at Iterator.Last()", "the radius restored on open is not the farthest retained key")
	})
	// every failing call returns its error
	nerr := 0
	core.Calls(ctor, func(ci ssa.CallInstruction) {
		call, ok := ci.(*ssa.Call)
		if !ok || core.ErrResultIndex(call.Call.Signature()) < 0 {
			return
		}
		id := core.CalleeID(call)
		if id == "" || strings.HasPrefix(id, "builtin.") || id == "errors.Is" {
			return
		}
		if _, isDefer := ci.(*ssa.Defer); isDefer {
			return
		}
		if id == iterPfx+"Close" {
			// releasing the read-only iterator (explicitly instead of by defer): its error says
			// nothing about what was read through it
			return
		}
		nerr++
		g := core.ErrNilGate("err", func(c2 *ssa.Call) bool { return c2 == call })
		notFound := core.AnyFact(func(f core.Fact) bool {
			if f.Op != token.ILLEGAL || !f.Truth {
				return false
			}
			cc, ok := f.V.(*ssa.Call)
			return ok && core.CalleeID(cc) == "errors.Is" && id == pebbleGet
		})
		w := core.CutReach(core.CutSpec{Fn: ctor, From: call.Block(),
			Cut:    func(b *ssa.BasicBlock, i int) bool { fs := core.EdgeFacts(b, i); return g.Edge(fs) || notFound(fs) },
			Target: core.SuccessTarget(ctor, g.ErrOK)})
		r.Check(w == nil, "R3.open", fmt.Sprintf("%s error-of %s", core.FuncName(ctor), shortID(id)), p.Pos(call.Pos()),
			"opening succeeds only if this call succeeded (or the size record is simply absent)", "the constructor can return a store although this call failed: "+p.PathString(w))
	})
	r.Count("ctor_fallible_calls", nerr)

	// ---- R4
	okGet := true
	for _, ret := range core.Returns(m.get) {
		v := core.ResolveSpill(ret.Results[0])
		if core.IsNilConst(v) {
			continue
		}
		srcs := dbBufferSources(m.get)
		isSrc := func(x ssa.Value) bool {
			for _, s := range srcs {
				if aliasesOf(s)[x] {
					return true
				}
			}
			return false
		}
		if !(copiedFrom(v, isSrc) || isSrc(v)) {
			okGet = false
		}
	}
	r.Check(okGet, "R4.get", core.FuncName(m.get), p.Pos(m.get.Pos()), "returns only bytes read from the database", "Get can return bytes that were not read from the database (cache layer or other source)")
	errorsExamined(c, "R5.errors-examined", "content store", []string{"storage/pebble"}, "(*storage/pebble.ContentStorage).", "storage/pebble.NewStorage")
	sizeKeyIsSmallest(c, "R3.open")
}

// sameLoopAsHelper: block b lies in a loop of fn that also contains a call of helper.
func sameLoopAsHelper(fn *ssa.Function, b *ssa.BasicBlock, helper *ssa.Function) bool {
	for _, hb := range fn.Blocks {
		has := false
		for _, in := range hb.Instrs {
			if c, ok := in.(ssa.CallInstruction); ok && core.StaticCalleeFn(c) == helper {
				has = true
			}
		}
		if !has {
			continue
		}
		// b and hb are in the same cycle: each reaches the other
		if reachesBlock(hb, b) && reachesBlock(b, hb) {
			return true
		}
	}
	return false
}

func reachesBlock(from, to *ssa.BasicBlock) bool {
	seen := map[*ssa.BasicBlock]bool{}
	work := append([]*ssa.BasicBlock{}, from.Succs...)
	for len(work) > 0 {
		x := work[len(work)-1]
		work = work[:len(work)-1]
		if x == to {
			return true
		}
		if seen[x] {
			continue
		}
		seen[x] = true
		work = append(work, x.Succs...)
	}
	return false
}
