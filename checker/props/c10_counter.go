package props

import (
	"go/token"
	"go/types"

	"golang.org/x/tools/go/ssa"

	"verifchk/core"
)

// lookupCounterExact: the lookup's in-flight counter is the number of query goroutines that have
// not reported back, and everything that waits for "no query in flight" (shutdown before run()
// returns, and with it the close of the content lookup's result channel) relies on that. So the
// counter changes only by +1 next to a spawn (checked by R2.alpha-bound) and by -1 after a reply
// was taken off the reply channel; no other value is ever stored into it. A store of a constant
// ("give up on the rest") lets run() return while workers are alive: the next one to answer
// sends on the closed result channel.
func lookupCounterExact(c *Ctx, rule string) {
	p, r := c.P, c.R
	isRecv := func(in ssa.Instruction) bool {
		switch x := in.(type) {
		case *ssa.UnOp:
			return x.Op == token.ARROW && isLookupField(x.X, "replyCh")
		case *ssa.Select:
			for _, st := range x.States {
				if st.Dir == types.RecvOnly && isLookupField(st.Chan, "replyCh") {
					return true
				}
			}
		}
		return false
	}
	n := 0
	for _, fn := range p.ModuleFuncs() {
		for i, st := range storesToLookupField(fn, "queries") {
			n++
			key := core.FuncName(fn) + " counter-store #" + itoa(int64(i+1))
			if _, fresh := core.Unwrap(baseOfStore(st)).(*ssa.Alloc); fresh {
				if _, isC := core.ConstInt(st.Val); isC {
					r.Pass(rule, key, p.Pos(st.Pos()), "initial value of a lookup allocated here (no query exists yet)")
					continue
				}
			}
			if k, isC := core.ConstInt(st.Val); isC && k == 1 {
				// the seeding step: the table's own answer is queued on the reply channel as the
				// one reply in flight, before any query was spawned (counter still at its initial
				// sentinel)
				isSeed := func(in ssa.Instruction) bool {
					sd, ok := in.(*ssa.Send)
					return ok && isLookupField(sd.Chan, "replyCh")
				}
				unstarted := core.AnyFact(func(f core.Fact) bool {
					return core.CmpFact(f, func(op token.Token, x, y ssa.Value) bool {
						kk, isK := core.ConstInt(y)
						return isK && kk < 0 && op == token.EQL && isLookupField(x, "queries")
					})
				})
				if core.MustPassAfter(st, isSeed) == nil && core.InstrGuarded(st, unstarted, nil) == nil {
					r.Pass(rule, key, p.Pos(st.Pos()), "set to one together with the one seeded reply, before any query was spawned")
					continue
				}
			}
			bo, isBo := st.Val.(*ssa.BinOp)
			one := false
			if isBo {
				k, isC := core.ConstInt(bo.Y)
				one = isC && k == 1 && isLookupField(bo.X, "queries")
			}
			switch {
			case one && bo.Op == token.ADD:
				r.Pass(rule, key, p.Pos(st.Pos()), "increment by one (paired with the spawn by R2)")
			case one && bo.Op == token.SUB:
				w := core.MustPassBefore(st, isRecv)
				r.Check(w == nil, rule, key, p.Pos(st.Pos()), "decrement by one after a reply was received", "the in-flight counter is decremented without a reply having been received (a query is written off while its goroutine is alive): "+p.PathString(w))
			default:
				r.Fail(rule, key, p.Pos(st.Pos()), "the in-flight counter is overwritten instead of counted down by received replies: the lookup's run() can return while query goroutines are alive, and the caller then closes the channel they report into (send on closed channel)")
			}
		}
	}
	r.Check(n >= 3, rule, "in-flight counter stores", "-", itoa(int64(n))+" store(s) to lookup.queries classified", "fewer than 3 stores to lookup.queries found: the counter is gone or renamed")
}

func baseOfStore(st *ssa.Store) ssa.Value {
	if _, _, base, ok := core.FieldRef(st.Addr); ok {
		return base
	}
	return st.Addr
}
