package props

import (
	"fmt"
	"go/token"
	"go/types"
	"os"
	"sort"

	"golang.org/x/tools/go/ssa"

	"verifchk/core"
)

// c01NilSentinel (R8): a pointer field that the code itself sets to nil to mean "gone" (a table
// entry's revalidation list after removal) must not be dereferenced on peer-driven code unless
// the path established that it is not nil. The fields are discovered (explicit `x.f = nil` stores
// outside constructors), not listed.
func c01NilSentinel(c *Ctx, reach map[*ssa.Function]bool) {
	p, r := c.P, c.R
	type fld struct{ t, f string }
	sentinel := map[fld]bool{}
	for _, fn := range p.ModuleFuncs() {
		for _, b := range fn.Blocks {
			for _, in := range b.Instrs {
				st, ok := in.(*ssa.Store)
				if !ok || !core.IsNilConst(st.Val) {
					continue
				}
				if _, isPtr := st.Val.Type().Underlying().(*types.Pointer); !isPtr {
					continue
				}
				t, f, base, ok := core.FieldRef(st.Addr)
				if !ok {
					continue
				}
				// initialisation of a fresh object does not make the field a sentinel
				if _, fresh := core.Unwrap(base).(*ssa.Alloc); fresh {
					continue
				}
				sentinel[fld{t, f}] = true
			}
		}
	}
	// the routing-table loop consumes what peers answer (PONGs, NODES) on its own goroutine: a
	// panic there is not recovered either
	all := map[*ssa.Function]bool{}
	for f := range reach {
		all[f] = true
	}
	if loop := p.Func("portalwire", "Table", "loop"); loop != nil {
		for f := range p.Reachable([]*ssa.Function{loop}) {
			all[f] = true
		}
	}
	var fns []*ssa.Function
	for f := range all {
		fns = append(fns, f)
	}
	sort.Slice(fns, func(i, j int) bool { return fns[i].String() < fns[j].String() })
	n := 0
	for _, fn := range fns {
		perFn := map[string]int{}
		for _, b := range fn.Blocks {
			for _, in := range b.Instrs {
				// a dereference: a field selected through the pointer, or a pointer-receiver method
				// of the module called on it
				var fa ssa.Instruction
				var base ssa.Value
				switch x := in.(type) {
				case *ssa.FieldAddr:
					fa, base = x, x.X
				case ssa.CallInstruction:
					if cf := core.StaticCalleeFn(x); cf != nil && core.InModule(cf) && cf.Signature.Recv() != nil && len(x.Common().Args) > 0 {
						if _, isPtr := cf.Signature.Recv().Type().Underlying().(*types.Pointer); isPtr {
							fa, base = x, x.Common().Args[0]
						}
					}
				}
				if fa == nil {
					continue
				}
				ld, ok := base.(*ssa.UnOp)
				if !ok || ld.Op != token.MUL {
					continue
				}
				t, f, _, ok := core.FieldRef(ld.X)
				if !ok || !sentinel[fld{t, f}] {
					continue
				}
				n++
				path := core.AccessPath(ld)
				nonNil := core.AnyFact(func(fc core.Fact) bool {
					if fc.Op != token.NEQ {
						return false
					}
					for _, pr := range [][2]ssa.Value{{fc.X, fc.Y}, {fc.Y, fc.X}} {
						if core.IsNilConst(pr[1]) && (pr[0] == ssa.Value(ld) || (path != "" && core.AccessPath(pr[0]) == path)) {
							return true
						}
					}
					return false
				})
				w := core.InstrGuarded(fa, nonNil, nil)
				// assigned non-nil on the way (x.f = &y; x.f.g)
				if w != nil {
					w = core.MustPassBefore(fa, func(i2 ssa.Instruction) bool {
						st, ok := i2.(*ssa.Store)
						if !ok || core.IsNilConst(st.Val) {
							return false
						}
						t2, f2, _, ok2 := core.FieldRef(st.Addr)
						return ok2 && t2 == t && f2 == f && core.AccessPath(st.Addr) == core.AccessPath(ld.X)
					})
				}
				k := fmt.Sprintf("%s %s.%s", core.FuncName(fn), t, f)
				perFn[k]++
				key := fmt.Sprintf("%s #%d", k, perFn[k])
				if os.Getenv("VERIF_C01_NILDUMP") != "" {
					fmt.Fprintf(os.Stderr, "nil-sentinel %s guarded=%v @%s\n", key, w == nil, p.Pos(core.InstrPos(fa)))
				}
				r.Check(w == nil, "R8.nil-sentinel", key, p.Pos(core.InstrPos(fa)), "dereferenced only after a non-nil test (or assignment) of the same field on every path", "this field is set to nil elsewhere to mean 'gone' and is dereferenced here without a non-nil test on every path: a reply that arrives after the object was dropped (and re-added) panics the loop: "+p.PathString(w))
			}
		}
	}
	r.Count("nil_sentinel_fields", len(sentinel))
	r.Count("nil_sentinel_derefs", n)
}

// c01NilReturn (R9): a module function with a single pointer result that returns nil on some path
// and a real object on another ("no such thing") hands its caller a value that must be tested.
// On peer-driven code every use of such a result that dereferences it, calls a method on it or
// boxes it into an interface (the callee will call a method on it) must be behind a non-nil test
// of that result, or be listed in the triage table with the reason why nil cannot arrive there.
func c01NilReturn(c *Ctx, reach map[*ssa.Function]bool, tab *triageTable) {
	p, r := c.P, c.R
	want := map[string]*triageEntry{}
	for i := range tab.Sites {
		e := &tab.Sites[i]
		if e.Kind == "NilResult" {
			want[e.Func+" NilResult "+e.Expr] = e
		}
	}
	maybeNil := map[*ssa.Function]bool{}
	for _, fn := range p.ModuleFuncs() {
		rs := fn.Signature.Results()
		if rs.Len() != 1 {
			continue
		}
		if _, isPtr := rs.At(0).Type().Underlying().(*types.Pointer); !isPtr {
			continue
		}
		nilRet, objRet := false, false
		for _, ret := range core.Returns(fn) {
			v := core.ResolveSpill(ret.Results[0])
			if core.IsNilConst(v) {
				nilRet = true
			} else {
				objRet = true
			}
		}
		if nilRet && objRet {
			maybeNil[fn] = true
		}
	}
	var fns []*ssa.Function
	for f := range reach {
		fns = append(fns, f)
	}
	sort.Slice(fns, func(i, j int) bool { return fns[i].String() < fns[j].String() })
	n := 0
	for _, fn := range fns {
		perFn := map[string]int{}
		core.Calls(fn, func(ci ssa.CallInstruction) {
			call, ok := ci.(*ssa.Call)
			cf := core.StaticCalleeFn(ci)
			if !ok || cf == nil || !maybeNil[cf] {
				return
			}
			// uses that need the object
			var needs []ssa.Instruction
			var walk func(v ssa.Value, depth int)
			seen := map[ssa.Value]bool{}
			walk = func(v ssa.Value, depth int) {
				if seen[v] || depth > 3 || v.Referrers() == nil {
					return
				}
				seen[v] = true
				for _, rf := range *v.Referrers() {
					switch x := rf.(type) {
					case *ssa.FieldAddr:
						if x.X == v {
							needs = append(needs, x)
						}
					case *ssa.MakeInterface:
						needs = append(needs, x)
					case *ssa.Phi:
						walk(x, depth+1)
					case ssa.CallInstruction:
						if f2 := core.StaticCalleeFn(x); f2 != nil && f2.Signature.Recv() != nil && len(x.Common().Args) > 0 && x.Common().Args[0] == v {
							if _, isPtr := f2.Signature.Recv().Type().Underlying().(*types.Pointer); isPtr && derefsReceiver(f2) {
								needs = append(needs, x)
							}
						}
					}
				}
			}
			walk(call, 0)
			if len(needs) == 0 {
				return
			}
			nonNil := core.AnyFact(func(fc core.Fact) bool {
				if fc.Op != token.NEQ {
					return false
				}
				for _, pr := range [][2]ssa.Value{{fc.X, fc.Y}, {fc.Y, fc.X}} {
					if core.IsNilConst(pr[1]) && core.FlowsFrom(pr[0], map[ssa.Value]bool{call: true}) {
						return true
					}
				}
				return false
			})
			var w []*ssa.BasicBlock
			for _, use := range needs {
				if w2 := core.InstrGuarded(use, nonNil, nil); w2 != nil {
					w = w2
				}
			}
			n++
			k := fmt.Sprintf("%s NilResult %s", core.FuncName(fn), core.FuncName(cf))
			perFn[k]++
			key := k
			if perFn[k] > 1 {
				key = fmt.Sprintf("%s #%d", k, perFn[k])
			}
			if os.Getenv("VERIF_C01_NILDUMP") != "" {
				fmt.Fprintf(os.Stderr, "nil-result %s guarded=%v @%s\n", key, w == nil, p.Pos(call.Pos()))
			}
			if w == nil {
				r.Pass("R9.nil-result", key, p.Pos(call.Pos()), "used only after a non-nil test")
				return
			}
			if e, ok := want[k]; ok {
				r.Pass("R9.nil-result", key, p.Pos(call.Pos()), "triaged: "+e.Reason)
				return
			}
			r.Fail("R9.nil-result", key, p.Pos(call.Pos()), "the callee returns nil for 'no such thing' and its result is dereferenced (or boxed into an interface whose methods are then called) here without a nil test, and the site is not in the triage table: with a suitable sender or record the handler panics: "+p.PathString(w))
		})
	}
	r.Count("maybe_nil_functions", len(maybeNil))
	r.Count("nil_result_sites", n)
}

// derefsReceiver: the method reads a field through its receiver somewhere (a nil receiver panics).
func derefsReceiver(f *ssa.Function) bool {
	if len(f.Params) == 0 {
		return false
	}
	for _, b := range f.Blocks {
		for _, in := range b.Instrs {
			if fa, ok := in.(*ssa.FieldAddr); ok && fa.X == ssa.Value(f.Params[0]) {
				return true
			}
		}
	}
	return false
}
