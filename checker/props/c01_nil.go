package props

import (
	"fmt"
	"go/token"
	"go/types"
	"os"
	"sort"

	"golang.org/x/tools/go/ssa"

	"verifchk/core"
)

// c01NilSentinel (R8): a pointer field that the code itself sets to nil to mean "gone" (a table
// entry's revalidation list after removal) must not be dereferenced on peer-driven code unless
// the path established that it is not nil. The fields are discovered (explicit `x.f = nil` stores
// outside constructors), not listed.
func c01NilSentinel(c *Ctx, reach map[*ssa.Function]bool) {
	p, r := c.P, c.R
	type fld struct{ t, f string }
	sentinel := map[fld]bool{}
	for _, fn := range p.ModuleFuncs() {
		for _, b := range fn.Blocks {
			for _, in := range b.Instrs {
				st, ok := in.(*ssa.Store)
				if !ok || !core.IsNilConst(st.Val) {
					continue
				}
				if _, isPtr := st.Val.Type().Underlying().(*types.Pointer); !isPtr {
					continue
				}
				t, f, base, ok := core.FieldRef(st.Addr)
				if !ok {
					continue
				}
				// initialisation of a fresh object does not make the field a sentinel
				if _, fresh := core.Unwrap(base).(*ssa.Alloc); fresh {
					continue
				}
				sentinel[fld{t, f}] = true
			}
		}
	}
	// the routing-table loop consumes what peers answer (PONGs, NODES) on its own goroutine: a
	// panic there is not recovered either
	all := map[*ssa.Function]bool{}
	for f := range reach {
		all[f] = true
	}
	if loop := p.Func("portalwire", "Table", "loop"); loop != nil {
		for f := range p.Reachable([]*ssa.Function{loop}) {
			all[f] = true
		}
	}
	var fns []*ssa.Function
	for f := range all {
		fns = append(fns, f)
	}
	sort.Slice(fns, func(i, j int) bool { return fns[i].String() < fns[j].String() })
	n := 0
	for _, fn := range fns {
		perFn := map[string]int{}
		for _, b := range fn.Blocks {
			for _, in := range b.Instrs {
				// a dereference: a field selected through the pointer, or a pointer-receiver method
				// of the module called on it
				var fa ssa.Instruction
				var base ssa.Value
				switch x := in.(type) {
				case *ssa.FieldAddr:
					fa, base = x, x.X
				case ssa.CallInstruction:
					if cf := core.StaticCalleeFn(x); cf != nil && core.InModule(cf) && cf.Signature.Recv() != nil && len(x.Common().Args) > 0 {
						if _, isPtr := cf.Signature.Recv().Type().Underlying().(*types.Pointer); isPtr {
							fa, base = x, x.Common().Args[0]
						}
					}
				}
				if fa == nil {
					continue
				}
				ld, ok := base.(*ssa.UnOp)
				if !ok || ld.Op != token.MUL {
					continue
				}
				t, f, _, ok := core.FieldRef(ld.X)
				if !ok || !sentinel[fld{t, f}] {
					continue
				}
				n++
				path := core.AccessPath(ld)
				nonNil := core.AnyFact(func(fc core.Fact) bool {
					if fc.Op != token.NEQ {
						return false
					}
					for _, pr := range [][2]ssa.Value{{fc.X, fc.Y}, {fc.Y, fc.X}} {
						if core.IsNilConst(pr[1]) && (pr[0] == ssa.Value(ld) || (path != "" && core.AccessPath(pr[0]) == path)) {
							return true
						}
					}
					return false
				})
				w := core.InstrGuarded(fa, nonNil, nil)
				// assigned non-nil on the way (x.f = &y; x.f.g)
				if w != nil {
					w = core.MustPassBefore(fa, func(i2 ssa.Instruction) bool {
						st, ok := i2.(*ssa.Store)
						if !ok || core.IsNilConst(st.Val) {
							return false
						}
						t2, f2, _, ok2 := core.FieldRef(st.Addr)
						return ok2 && t2 == t && f2 == f && core.AccessPath(st.Addr) == core.AccessPath(ld.X)
					})
				}
				k := fmt.Sprintf("%s %s.%s", core.FuncName(fn), t, f)
				perFn[k]++
				key := fmt.Sprintf("%s #%d", k, perFn[k])
				if os.Getenv("VERIF_C01_NILDUMP") != "" {
					fmt.Fprintf(os.Stderr, "nil-sentinel %s guarded=%v @%s\n", key, w == nil, p.Pos(core.InstrPos(fa)))
				}
				r.Check(w == nil, "R8.nil-sentinel", key, p.Pos(core.InstrPos(fa)), "dereferenced only after a non-nil test (or assignment) of the same field on every path", "this field is set to nil elsewhere to mean 'gone' and is dereferenced here without a non-nil test on every path: a reply that arrives after the object was dropped (and re-added) panics the loop: "+p.PathString(w))
			}
		}
	}
	r.Count("nil_sentinel_fields", len(sentinel))
	r.Count("nil_sentinel_derefs", n)
}
