package props

import (
	"fmt"
	"go/token"
	"go/types"
	"sort"
	"strings"

	"golang.org/x/tools/go/ssa"

	"verifchk/core"
)

func init() { Registry["C09"] = c09 }

const (
	utpAcceptWithCid = "(*UtpTransportService).AcceptWithCid"
)

// acceptFilters: module functions returning (CommonAccept, [][]byte, error) that construct a
// concrete accept value (the per-version filters).
func acceptFilters(p *core.Prog) []*ssa.Function {
	var out []*ssa.Function
	for _, fn := range p.ModuleFuncs() {
		rs := fn.Signature.Results()
		if rs.Len() != 3 || core.TypeName(rs.At(0).Type()) != "CommonAccept" {
			continue
		}
		if concreteAcceptBuilt(fn) != "" {
			out = append(out, fn)
		}
	}
	return out
}

func concreteAcceptBuilt(fn *ssa.Function) string {
	for _, b := range fn.Blocks {
		for _, in := range b.Instrs {
			if al, ok := in.(*ssa.Alloc); ok && al.Heap {
				if pt, ok := al.Type().(*types.Pointer); ok {
					n := core.TypeName(pt.Elem())
					if strings.HasPrefix(n, "Accept") {
						return n
					}
				}
			}
		}
	}
	return ""
}

func isRequestKeys(v ssa.Value) bool {
	_, f, ok := core.LoadedField(v)
	return ok && f == "ContentKeys"
}

func c09(c *Ctx) {
	p, r := c.P, c.R
	r.Technique = "must-pass-through (cut) checks of the per-key acceptance gates and of the count gate; correlation analysis of permit / connection id / listening goroutine / verdicts on every path of the OFFER handler; value-flow of queue element fields"
	r.Explanation = "Decides: (R1) the verdict container is created with one slot per offered key in both encodings and the two ACCEPT codecs enforce exactly the limits their tags declare (the schema check of C14.R1, so 0..64 keys encode and decode); (R2) inside the filter loops a key is appended to the accepted list, and marked accepted, only under in-range = true, storage.Get error != nil and (code-list encoding) not in the in-flight cache, and marking and appending happen together; (R3) in the OFFER handler the goroutine that waits on the connection is started only on the edge where a transfer slot was obtained, the connection id announced is the Send id of the very connection that goroutine accepts on and is 0 on every other path, and on the no-slot path the accepted verdicts of every accept encoding the filters can produce are overwritten; once started, the receiving goroutine reaches the wait on the announced connection id on every path except cancellation; (R4) the validation queue receives an element only under len(keys) == len(contents), carrying the accepted-keys value and the decoded contents unmodified; (R5) on the offering side accepted indices are used only after the verdict count equalled the number offered and a non-empty accepted set, and contents are selected by accepted index in order; (R6) keys cached as in-flight by the receiving goroutine are removed by a deferred call on all its exits. Not decided: concurrency of overlapping offers, delivery, the behaviour of the uTP dependency."
	r.Assumptions = []string{"go-bitfield Bitlist semantics", "uTP AcceptWithCid waits on exactly the given connection id"}
	r.Floor("R1.verdict-length", 3)
	r.Floor("R2.accept-gates", 6)
	r.Floor("R3.handler-correlation", 4)
	r.Floor("R4.enqueue", 3)
	r.Floor("R5.offering-side", 3)
	r.Floor("R6.inflight-cleanup", 1)

	// the verdicts reach the offerer through the ACCEPT codecs: their limits are the ones the
	// statement gives (0..64 keys in both encodings). The schema check of C14.R1 is run for the two
	// accept containers; an encoder that refuses a full-size offer leaves the offerer without any
	// verdict while a slot is held and a connection id was generated
	{
		sub := &Ctx{P: c.P, R: core.NewReport("C14", c.Tier, 0), Tier: c.Tier, Verif: c.Verif}
		c14(sub)
		n := 0
		for _, o := range sub.R.Obs {
			if !strings.HasPrefix(o.Rule, "C14.R1.") && !strings.HasPrefix(o.Rule, "C14.R2.") {
				continue
			}
			if !strings.HasPrefix(o.Construct, "portalwire.Accept ") && !strings.HasPrefix(o.Construct, "portalwire.AcceptV1 ") && !strings.Contains(o.Construct, "Accept.ContentKeys") && !strings.Contains(o.Construct, "AcceptV1.ContentKeys") {
				continue
			}
			n++
			switch o.Verdict {
			case core.Pass:
				r.Pass("R1.verdict-encoding", o.Construct+" ("+strings.TrimPrefix(o.Rule, "C14.")+")", o.Pos, o.Detail)
			case core.Violation:
				r.Fail("R1.verdict-encoding", o.Construct+" ("+strings.TrimPrefix(o.Rule, "C14.")+")", o.Pos, "the ACCEPT codec does not carry one verdict for each of 0..64 keys: "+o.Detail)
			}
		}
		r.Check(n >= 4, "R1.verdict-encoding", "accept codecs inspected", "-", fmt.Sprintf("%d schema obligations of Accept / AcceptV1", n), fmt.Sprintf("only %d schema obligations of the accept containers found", n))
	}
	filters := acceptFilters(p)
	acceptTypes := map[string]bool{}
	for _, f := range filters {
		name := core.FuncName(f)
		at := concreteAcceptBuilt(f)
		acceptTypes[at] = true
		// ---- R1
		okLen := false
		for _, b := range f.Blocks {
			for _, in := range b.Instrs {
				switch x := in.(type) {
				case *ssa.MakeSlice:
					if core.IsLenOf(x.Len, isRequestKeys) {
						if st := storedInto(x); st == "ContentKeys" {
							okLen = true
						}
					}
				case *ssa.Call:
					if strings.HasSuffix(core.CalleeID(x), "go-bitfield.NewBitlist") && core.IsLenOf(x.Call.Args[0], isRequestKeys) {
						okLen = true
					}
				}
			}
		}
		// the other way of getting one verdict per key: start empty and append exactly one per key
		var av *appendVerdicts
		if !okLen {
			if av = findAppendVerdicts(f); av != nil {
				okLen = true
			}
		}
		r.Check(okLen, "R1.verdict-length", name, p.Pos(f.Pos()), "verdict container sized len(request.ContentKeys)", "the verdict container is not created with one slot per offered key")

		// ---- R1b (code-list encoding): the zero value of a verdict is Accepted, so a slot nobody
		// wrote reads "accepted". Every success exit passes the loop over the offered keys, and
		// every pass through the loop body writes that key's slot before moving on.
		if at == "AcceptV1" {
			// the loop: a block that loads request.ContentKeys[i] with an induction variable
			var header *ssa.BasicBlock
			isVerdictStore := func(in ssa.Instruction) bool {
				st, ok := in.(*ssa.Store)
				if !ok {
					return false
				}
				ia, ok := st.Addr.(*ssa.IndexAddr)
				return ok && isRequestKeysOrVerdicts(ia.X) && isInductionVar(ia.Index)
			}
			if av != nil {
				header = av.header
				isVerdictStore = func(in ssa.Instruction) bool {
					cc, ok := in.(*ssa.Call)
					return ok && av.appends[cc]
				}
			}
			for _, b := range f.Blocks {
				for _, in := range b.Instrs {
					if ph, ok := in.(*ssa.Phi); ok && av == nil && isInductionVar(ph) && core.InLoop(b) {
						// the induction variable used to index the verdicts
						used := false
						for _, b2 := range f.Blocks {
							for _, i2 := range b2.Instrs {
								if st, ok := i2.(*ssa.Store); ok {
									if ia, ok := st.Addr.(*ssa.IndexAddr); ok && isRequestKeysOrVerdicts(ia.X) && core.Derives(ia.Index, func(v ssa.Value) bool { return v == ssa.Value(ph) }, core.DeriveOpts{}) {
										used = true
									}
								}
							}
						}
						if used {
							header = b
						}
					}
				}
			}
			if header == nil {
				r.Fail("R1.verdict-length", name+" every-slot-written", p.Pos(f.Pos()), "the loop that writes one verdict per offered key was not found")
			} else {
				// (a) success exits are reached only through the loop header
				w := core.CutReach(core.CutSpec{Fn: f, NoEnter: func(b *ssa.BasicBlock) bool { return b == header },
					Cut:    func(b *ssa.BasicBlock, i int) bool { return b.Succs[i] == header },
					Target: core.SuccessTarget(f, nil)})
				// (b) from the loop body, the header is re-entered only after a verdict store
				stores := core.BlocksWith(f, isVerdictStore)
				var w2 []*ssa.BasicBlock
				for _, body := range header.Succs {
					if !core.InLoop(body) || !reaches(body, header) {
						continue
					}
					if stores[body] {
						continue
					}
					w2 = core.CutReach(core.CutSpec{Fn: f, From: body,
						Cut:    func(b *ssa.BasicBlock, i int) bool { return stores[b.Succs[i]] },
						Target: func(prev, b *ssa.BasicBlock) bool { return b == header && prev != nil }})
				}
				if av != nil && w2 == nil {
					// appended form: and not more than one per pass through the body
					w2 = av.secondAppend(f)
				}
				r.Check(w == nil && w2 == nil, "R1.verdict-length", name+" every-slot-written", p.Pos(f.Pos()),
					"every success exit passed the loop over the offered keys and every iteration wrote its key's verdict", "a reply can leave a verdict slot unwritten, and an unwritten slot reads Accepted (0): keys are reported accepted although no gate was evaluated and nothing will be received: "+p.PathString(w)+p.PathString(w2))
			}
		}

		// ---- R2: appends to the accepted list
		var appends []*ssa.Call
		for _, b := range f.Blocks {
			for _, in := range b.Instrs {
				if cc, ok := in.(*ssa.Call); ok && core.CalleeID(cc) == "builtin.append" {
					if _, isBytes2 := cc.Type().Underlying().(*types.Slice); isBytes2 && strings.HasPrefix(cc.Type().String(), "[][]") {
						appends = append(appends, cc)
					}
				}
			}
		}
		if len(appends) == 0 {
			r.Fail("R2.accept-gates", name+" accepted-list", p.Pos(f.Pos()), "no accepted-keys list is built")
			continue
		}
		for ai, ap := range appends {
			pfx := fmt.Sprintf("%s accept #%d ", name, ai+1)
			inRangeGate := core.BoolCallGate("inRange", true, func(c2 *ssa.Call) bool {
				f2 := core.StaticCalleeFn(c2)
				return f2 != nil && (containsFn(inRangeFns(p), f2) || containsFn(inRangeWrappers(p), f2))
			})
			w := core.InstrGuarded(ap, inRangeGate.Edge, nil)
			r.Check(w == nil, "R2.accept-gates", pfx+"in-range", p.Pos(ap.Pos()), "only under in-range == true", "a key outside the radius can be accepted: "+p.PathString(w))
			notStored := core.AnyFact(func(fc core.Fact) bool {
				if fc.Op != token.NEQ {
					return false
				}
				isGetErr := func(v ssa.Value) bool {
					ex, ok := v.(*ssa.Extract)
					if !ok || ex.Index != 1 {
						return false
					}
					cc, ok := ex.Tuple.(*ssa.Call)
					return ok && cc.Call.IsInvoke() && cc.Call.Method.Name() == "Get" && core.TypeName(cc.Call.Value.Type()) == "ContentStorage"
				}
				return (isGetErr(fc.X) && core.IsNilConst(fc.Y)) || (isGetErr(fc.Y) && core.IsNilConst(fc.X))
			})
			w = core.InstrGuarded(ap, notStored, nil)
			r.Check(w == nil, "R2.accept-gates", pfx+"not-stored", p.Pos(ap.Pos()), "only when storage.Get failed", "a key that is already stored can be accepted: "+p.PathString(w))
			if at == "AcceptV1" {
				notInflight := core.AnyFact(func(fc core.Fact) bool {
					if fc.Op != token.ILLEGAL || fc.Truth {
						return false
					}
					cc, ok := fc.V.(*ssa.Call)
					if !ok || !strings.HasSuffix(core.CalleeID(cc), ".Has") {
						return false
					}
					_, fld, ok := core.LoadedField(cc.Call.Args[0])
					return ok && fld == "transferringKeyCache"
				})
				w = core.InstrGuarded(ap, notInflight, nil)
				r.Check(w == nil, "R2.accept-gates", pfx+"not-in-flight", p.Pos(ap.Pos()), "only when the key is not already being received", "a key that is already being received can be accepted again: "+p.PathString(w))
			}
			// marking happens together with appending: same block has the mark
			marked := false
			for _, in := range ap.Block().Instrs {
				switch x := in.(type) {
				case *ssa.Call:
					if av != nil && av.appends[x] {
						if k, isC := core.ConstInt(av.elem(x)); isC && k == 0 {
							marked = true
						}
					}
					if strings.HasSuffix(core.CalleeID(x), "go-bitfield.(Bitlist).SetBitAt") {
						if bv, isC := core.ConstBool(x.Call.Args[2]); isC && bv {
							marked = true
						}
					}
				case *ssa.Store:
					if ia, ok := x.Addr.(*ssa.IndexAddr); ok && isRequestKeysOrVerdicts(ia.X) {
						if k, isC := core.ConstInt(x.Val); isC && k == 0 {
							marked = true
						}
					}
				}
			}
			if !marked {
				// the verdict is computed first and stored once: verdicts[i] = code; if code == Accepted { append }
				for _, b := range f.Blocks {
					for _, in := range b.Instrs {
						st, ok := in.(*ssa.Store)
						if !ok {
							continue
						}
						ia, ok := st.Addr.(*ssa.IndexAddr)
						if !ok || !isRequestKeysOrVerdicts(ia.X) {
							continue
						}
						src := core.Unwrap(st.Val)
						if cv, ok := src.(*ssa.Convert); ok {
							src = cv.X
						}
						isAccepted := core.AnyFact(func(fc core.Fact) bool {
							return core.CmpFact(fc, func(op token.Token, x, y ssa.Value) bool {
								k, isC := core.ConstInt(y)
								return op == token.EQL && x == src && isC && k == 0
							})
						})
						if core.InstrGuarded(ap, isAccepted, nil) == nil && core.MustPassBefore(ap, func(i2 ssa.Instruction) bool { return i2 == ssa.Instruction(st) }) == nil {
							marked = true
						}
						// the code is chosen in an if/else chain and stored once after it:
						// code = phi(..., Accepted from the block that appends, ...); verdicts[i] = code
						if ph, isPhi := src.(*ssa.Phi); isPhi {
							okPhi, fromAppend := true, false
							for ei, e := range ph.Edges {
								k, isC := core.ConstInt(core.Unwrap(e))
								if !isC {
									okPhi = false
									break
								}
								if ph.Block().Preds[ei] == ap.Block() {
									fromAppend = k == 0
									if k != 0 {
										okPhi = false
									}
								} else if k == 0 {
									okPhi = false // accepted without the append
								}
							}
							if okPhi && fromAppend && core.MustPassAfter(ap, func(i2 ssa.Instruction) bool { return i2 == ssa.Instruction(st) }) == nil {
								marked = true
							}
						}
					}
				}
			}
			r.Check(marked, "R2.accept-gates", pfx+"marked-with-append", p.Pos(ap.Pos()), "the key is marked accepted in the same step as it is appended", "marking a key accepted and appending it to the accepted list are not done together")
		}
		// every other place that marks accepted must be an append block
		for _, b := range f.Blocks {
			for _, in := range b.Instrs {
				isMark := false
				switch x := in.(type) {
				case *ssa.Call:
					if av != nil && av.appends[x] {
						if k, isC := core.ConstInt(av.elem(x)); isC && k == 0 {
							isMark = true
						}
					}
					if strings.HasSuffix(core.CalleeID(x), "go-bitfield.(Bitlist).SetBitAt") {
						if bv, isC := core.ConstBool(x.Call.Args[2]); !isC || bv {
							isMark = true
						}
					}
				case *ssa.Store:
					if ia, ok := x.Addr.(*ssa.IndexAddr); ok && isRequestKeysOrVerdicts(ia.X) {
						if k, isC := core.ConstInt(x.Val); isC && k == 0 {
							isMark = true
						}
					}
				}
				if !isMark {
					continue
				}
				has := false
				for _, ap := range appends {
					if ap.Block() == b {
						has = true
					}
				}
				if !has {
					r.Fail("R2.accept-gates", name+" stray-accept-mark", p.Pos(core.InstrPos(in)), "a key is marked accepted without being appended to the accepted list")
				}
			}
		}
	}

	// ---- R3: the OFFER handler = the function that calls an inbound acquire wrapper and starts a goroutine calling AcceptWithCid
	var handler *ssa.Function
	var acceptGo *ssa.Go
	for _, fn := range p.ModuleFuncs() {
		for _, b := range fn.Blocks {
			for _, in := range b.Instrs {
				g, ok := in.(*ssa.Go)
				if !ok {
					continue
				}
				cf := core.StaticCalleeFn(g)
				if cf == nil {
					continue
				}
				found := false
				core.Calls(cf, func(ci ssa.CallInstruction) {
					if strings.HasSuffix(core.CalleeID(ci), utpAcceptWithCid) {
						found = true
					}
				})
				if found && core.TypeName(fn.Signature.Params().At(fn.Signature.Params().Len()-1).Type()) == "Offer" {
					handler, acceptGo = fn, g
				}
			}
		}
	}
	if handler == nil {
		r.Fail("R3.handler-correlation", "offer handler", "-", "anchor-unresolved: no function handling *Offer that starts a goroutine accepting a uTP connection")
	} else {
		name := core.FuncName(handler)
		// permit ok edge
		var okv ssa.Value
		core.Calls(handler, func(ci ssa.CallInstruction) {
			call, ok := ci.(*ssa.Call)
			if !ok {
				return
			}
			rs := call.Call.Signature().Results()
			if rs.Len() == 2 && isPermitType(rs.At(0).Type()) {
				for _, rf := range *call.Referrers() {
					if ex, ok := rf.(*ssa.Extract); ok && ex.Index == 1 {
						okv = ex
					}
				}
			}
		})
		if okv == nil {
			r.Fail("R3.handler-correlation", name+" slot", p.Pos(handler.Pos()), "the handler does not obtain a transfer slot")
		} else {
			gotSlot := core.AnyFact(func(f core.Fact) bool { return f.Op == token.ILLEGAL && f.V == okv && f.Truth })
			w := core.InstrGuarded(acceptGo, gotSlot, nil)
			r.Check(w == nil, "R3.handler-correlation", name+" listen-only-with-slot", p.Pos(acceptGo.Pos()), "the receiving goroutine starts only on the slot-obtained edge", "a receiving goroutine can start without a transfer slot: "+p.PathString(w))
			// at least one accepted key
			someKeys := core.AnyFact(func(f core.Fact) bool {
				return core.CmpFact(f, func(op token.Token, x, y ssa.Value) bool {
					k, isC := core.ConstInt(y)
					return isC && core.IsLenOf(x, func(v ssa.Value) bool { return true }) && ((op == token.GTR && k == 0) || (op == token.GEQ && k == 1) || (op == token.NEQ && k == 0))
				})
			})
			w = core.InstrGuarded(acceptGo, someKeys, nil)
			r.Check(w == nil, "R3.handler-correlation", name+" listen-only-with-keys", p.Pos(acceptGo.Pos()), "the goroutine starts only when at least one key was accepted", "a receiving goroutine can start although no key was accepted: "+p.PathString(w))
			// ... and once started it does wait: the reply already announces the connection id, so
			// every way out of the goroutine passes the wait on that id - except being cancelled
			if gf := core.StaticCalleeFn(acceptGo); gf != nil {
				waitBlocks := core.BlocksWith(gf, func(in ssa.Instruction) bool {
					ci, ok := in.(ssa.CallInstruction)
					return ok && strings.HasSuffix(core.CalleeID(ci), utpAcceptWithCid)
				})
				cancelled := core.AnyFact(func(f core.Fact) bool {
					if f.Op != token.EQL {
						return false
					}
					for _, pr := range [][2]ssa.Value{{f.X, f.Y}, {f.Y, f.X}} {
						ex, ok := pr[0].(*ssa.Extract)
						if !ok || ex.Index != 0 {
							continue
						}
						sel, ok := ex.Tuple.(*ssa.Select)
						k, isC := core.ConstInt(pr[1])
						if !ok || !isC || int(k) >= len(sel.States) || k < 0 {
							continue
						}
						if cc, isCall := sel.States[k].Chan.(*ssa.Call); isCall && cc.Call.IsInvoke() && cc.Call.Method.Name() == "Done" {
							return true
						}
					}
					return false
				})
				wq := core.CutReach(core.CutSpec{Fn: gf,
					Cut: func(b *ssa.BasicBlock, i int) bool { return waitBlocks[b.Succs[i]] || cancelled(core.EdgeFacts(b, i)) },
					Target: func(prev, b *ssa.BasicBlock) bool {
						if waitBlocks[b] || len(b.Instrs) == 0 {
							return false
						}
						_, isRet := b.Instrs[len(b.Instrs)-1].(*ssa.Return)
						return isRet
					}})
				if waitBlocks[gf.Blocks[0]] {
					wq = nil
				}
				r.Check(wq == nil && len(waitBlocks) > 0, "R3.handler-correlation", name+" started-goroutine-waits", p.Pos(acceptGo.Pos()), "every exit of the receiving goroutine passes the wait on the announced connection id (or its cancellation)", "the receiving goroutine can return without ever waiting on the connection id the reply announces: the offerer dials a connection nobody accepts, and the accepted contents never reach validation: "+p.PathString(wq))
			}
			// announced id: the value given to PutUint16 is phi(0..., load connId.Send in the go block)
			var idv ssa.Value
			core.Calls(handler, func(ci ssa.CallInstruction) {
				if strings.HasSuffix(core.CalleeID(ci), ".PutUint16") || strings.HasSuffix(core.CalleeID(ci), ".AppendUint16") {
					a := ci.Common().Args
					idv = a[len(a)-1]
				}
			})
			okID := false
			detail := "connection id is not selected by the slot outcome"
			if ph, ok := idv.(*ssa.Phi); ok {
				okID = true
				nSend := 0
				for i, e := range ph.Edges {
					pred := ph.Block().Preds[i]
					if k, isC := core.ConstInt(e); isC && k == 0 {
						// must not come from the goroutine block
						if pred == acceptGo.Block() {
							okID = false
							detail = "the path that starts the goroutine announces id 0"
						}
						continue
					}
					_, fld, isLoad := core.LoadedField(e)
					if isLoad && fld == "Send" && pred == acceptGo.Block() {
						nSend++
						// the same connection id object is passed to the goroutine
						passed := false
						u := e.(*ssa.UnOp)
						base := u.X.(*ssa.FieldAddr).X
						for _, a := range acceptGo.Call.Args {
							if a == base {
								passed = true
							}
						}
						if mc, ok := acceptGo.Call.Value.(*ssa.MakeClosure); ok {
							for _, bnd := range mc.Bindings {
								if core.SameValue(bnd, base) || bnd == cellOfValue(base) {
									passed = true
								}
							}
						}
						if !passed {
							okID = false
							detail = "the announced id is the Send id of a connection other than the one the goroutine accepts on"
						}
					} else {
						okID = false
						detail = "a non-zero connection id is announced on a path that does not start the receiving goroutine"
					}
				}
				if nSend != 1 {
					okID = false
				}
			}
			r.Check(okID, "R3.handler-correlation", name+" announced-id", p.Pos(acceptGo.Pos()), "id = Send id of the accepted-on connection exactly on the goroutine path, 0 elsewhere", detail)
			// in the goroutine: AcceptWithCid is called with the connection id that was passed in
			cf := core.StaticCalleeFn(acceptGo)
			okAcc := false
			core.Calls(cf, func(ci ssa.CallInstruction) {
				if strings.HasSuffix(core.CalleeID(ci), utpAcceptWithCid) {
					a := ci.Common().Args
					cid := a[len(a)-1]
					if _, isP := cid.(*ssa.Parameter); isP {
						okAcc = true
					}
					if _, isFV := core.Unwrap(cid).(*ssa.FreeVar); isFV {
						okAcc = true
					}
					if u, ok := cid.(*ssa.UnOp); ok {
						if _, isFV := u.X.(*ssa.FreeVar); isFV {
							okAcc = true
						}
					}
				}
			})
			r.Check(okAcc, "R3.handler-correlation", name+" goroutine-accepts-on-it", p.Pos(acceptGo.Pos()), "the goroutine accepts on the connection id it was given", "the goroutine accepts on a connection id other than the one handed to it")
			// no-slot path: every accept encoding has its accepted verdicts overwritten
			noSlotBlocks := blocksUnder(handler, func(fs []core.Fact) bool {
				for _, f := range fs {
					if f.Op == token.ILLEGAL && f.V == okv && !f.Truth {
						return true
					}
				}
				return false
			})
			covered := map[string]bool{}
			ifaceReset := false
			for b := range noSlotBlocks {
				for _, in := range b.Instrs {
					switch x := in.(type) {
					case *ssa.Store:
						if t, fld, _, ok := core.FieldRef(x.Addr); ok && fld == "ContentKeys" {
							covered[t] = true
						}
					case *ssa.Call:
						if x.Call.IsInvoke() && x.Call.Method.Name() == "SetContentKeys" {
							ifaceReset = true
						}
					}
				}
			}
			var ats []string
			for t := range acceptTypes {
				ats = append(ats, t)
			}
			sort.Strings(ats)
			for _, t := range ats {
				r.Check(ifaceReset || covered[t], "R3.rate-limited-verdicts", name+" no-slot path, encoding "+t, p.Pos(handler.Pos()),
					"accepted verdicts are overwritten when no slot is available", "when no transfer slot is available the reply keeps the accepted verdicts of the "+t+" encoding while announcing connection id 0 and nobody listens (the offerer dials a connection that is never accepted)")
			}
		}
	}

	// ---- R4: enqueue for validation
	for _, fn := range p.ModuleFuncs() {
		for _, b := range fn.Blocks {
			for _, in := range b.Instrs {
				sel, ok := in.(*ssa.Select)
				if !ok {
					continue
				}
				for _, st := range sel.States {
					if st.Dir != types.SendOnly {
						continue
					}
					_, fld, ok := core.LoadedField(st.Chan)
					if !ok || fld != "contentQueue" {
						continue
					}
					name := core.FuncName(fn)
					elem := core.Unwrap(st.Send)
					var keysV, contV ssa.Value
					if refs := elem.Referrers(); refs != nil {
						for _, rf := range *refs {
							if fa, ok := rf.(*ssa.FieldAddr); ok {
								_, f2, _, _ := core.FieldRef(fa)
								for _, r2 := range *fa.Referrers() {
									if s2, ok := r2.(*ssa.Store); ok {
										if f2 == "ContentKeys" {
											keysV = s2.Val
										}
										if f2 == "Contents" {
											contV = s2.Val
										}
									}
								}
							}
						}
					}
					okVals := keysV != nil && contV != nil
					var itemCall *ssa.Call // the stream decoding loop written out in fn itself
					if okVals {
						_, kp := keysV.(*ssa.Parameter)
						ex, isEx := contV.(*ssa.Extract)
						okVals = kp && isEx && ex.Index == 0
						if okVals {
							cc, _ := ex.Tuple.(*ssa.Call)
							okVals = cc != nil && core.StaticCalleeFn(cc) != nil && decodesStream(core.StaticCalleeFn(cc))
						}
						if ph, isPhi := contV.(*ssa.Phi); kp && isPhi && core.InLoop(ph.Block()) {
							// contents = nothing, then one append of the item decoder's item per pass
							okAcc := true
							for _, e := range ph.Edges {
								if core.IsEmptySlice(e) {
									continue
								}
								switch x := core.Unwrap(e).(type) {
								case *ssa.Call:
									el := []ssa.Value(nil)
									if core.CalleeID(x) == "builtin.append" && x.Call.Args[0] == ssa.Value(ph) {
										el = core.VariadicElems(x.Call.Args[1])
									}
									ic := (*ssa.Call)(nil)
									if len(el) == 1 {
										if ex2, isEx2 := el[0].(*ssa.Extract); isEx2 && ex2.Index == 0 {
											ic, _ = ex2.Tuple.(*ssa.Call)
										}
									}
									if ic != nil && core.StaticCalleeFn(ic) != nil && len(core.CallsTo(core.StaticCalleeFn(ic), lebDecode32)) > 0 && core.InLoop(ic.Block()) {
										itemCall = ic
									} else {
										okAcc = false
									}
								default:
									okAcc = false
								}
							}
							okVals = okAcc && itemCall != nil
						}
					}
					r.Check(okVals, "R4.enqueue", name+" element-fields", p.Pos(sel.Pos()), "the element carries the keys parameter and the decoded contents unmodified", "the queue element does not carry exactly the accepted keys and the decoded contents")
					if keysV != nil && contV != nil {
						g := core.AnyFact(func(f core.Fact) bool {
							return core.CmpFact(f, func(op token.Token, x, y ssa.Value) bool {
								return op == token.EQL && core.IsLenOf(x, func(v ssa.Value) bool { return v == keysV }) && core.IsLenOf(y, func(v ssa.Value) bool { return v == contV })
							})
						})
						w := core.InstrGuarded(sel, g, nil)
						r.Check(w == nil, "R4.enqueue", name+" count-gate", p.Pos(sel.Pos()), "enqueue only under len(keys) == len(contents)", "a stream with a different item count can be paired with the keys and enqueued: "+p.PathString(w))
						if itemCall != nil {
							arg := itemCall.Call.Args[0]
							lenZero := core.AnyFact(func(f core.Fact) bool {
								return core.CmpFact(f, func(op token.Token, x, y ssa.Value) bool {
									n, isC := core.ConstInt(y)
									if !isC || !core.IsLenOf(x, func(v ssa.Value) bool { return v == arg }) {
										return false
									}
									return (op == token.LEQ && n == 0) || (op == token.EQL && n == 0) || (op == token.LSS && n == 1)
								})
							})
							wd := core.InstrGuarded(sel, lenZero, nil)
							r.Check(wd == nil, "R4.enqueue", name+" decoder-consumes-whole-stream", p.Pos(itemCall.Pos()), "the contents compared with the keys are ALL items of the stream", "the stream decoder can stop before the end of the stream, so a stream with more items than keys passes the count gate and its first items are paired with the accepted keys: "+p.PathString(wd))
							g2 := core.ErrNilGate("decode", func(c2 *ssa.Call) bool { return c2 == itemCall })
							w2 := core.CutReach(core.CutSpec{Fn: fn, From: itemCall.Block(),
								Cut:    func(b2 *ssa.BasicBlock, i int) bool { return g2.Edge(core.EdgeFacts(b2, i)) },
								Target: func(prev, b2 *ssa.BasicBlock) bool { return prev != nil && b2 == sel.Block() }})
							r.Check(w2 == nil, "R4.enqueue", name+" decode-gate", p.Pos(sel.Pos()), "enqueue only after the stream decoded without error", "an undecodable stream can be enqueued: "+p.PathString(w2))
						}
						// the decoder must consume the whole stream, otherwise surplus items are silently cut off and the count gate is vacuous
						if ex, ok := contV.(*ssa.Extract); ok {
							if cc, ok := ex.Tuple.(*ssa.Call); ok {
								if df := core.StaticCalleeFn(cc); df != nil {
									okDrain, why := multiDecoderDrains(p, df)
									r.Check(okDrain, "R4.enqueue", name+" decoder-consumes-whole-stream", p.Pos(cc.Pos()), "the contents compared with the keys are ALL items of the stream", "the stream decoder can stop before the end of the stream, so a stream with more items than keys passes the count gate and its first items are paired with the accepted keys: "+why)
								}
							}
						}
						// decode error gate
						if ex, ok := contV.(*ssa.Extract); ok {
							if cc, ok := ex.Tuple.(*ssa.Call); ok {
								g2 := core.ErrNilGate("decode", func(c2 *ssa.Call) bool { return c2 == cc })
								w2 := core.InstrGuarded(sel, g2.Edge, nil)
								r.Check(w2 == nil, "R4.enqueue", name+" decode-gate", p.Pos(sel.Pos()), "enqueue only after the stream decoded without error", "an undecodable stream can be enqueued: "+p.PathString(w2))
							}
						}
					}
				}
			}
		}
	}

	// ---- R5: offering side: the goroutine dialling with the accepted connection id
	for _, fn := range p.ModuleFuncs() {
		for _, b := range fn.Blocks {
			for _, in := range b.Instrs {
				g, ok := in.(*ssa.Go)
				if !ok {
					continue
				}
				cf := core.StaticCalleeFn(g)
				if cf == nil {
					continue
				}
				dials := false
				core.Calls(cf, func(ci ssa.CallInstruction) {
					if strings.HasSuffix(core.CalleeID(ci), "(*UtpTransportService).DialWithCid") {
						dials = true
					}
				})
				if !dials {
					continue
				}
				// only in functions that parsed an accept (the offering side)
				hasAccept := false
				core.Calls(fn, func(ci ssa.CallInstruction) {
					if ci.Common().IsInvoke() && ci.Common().Method.Name() == "GetAcceptIndices" {
						hasAccept = true
					}
				})
				if !hasAccept {
					continue
				}
				name := core.FuncName(fn)
				var idxCall ssa.Value
				core.Calls(fn, func(ci ssa.CallInstruction) {
					if ci.Common().IsInvoke() && ci.Common().Method.Name() == "GetAcceptIndices" {
						idxCall = ci.Value()
					}
				})
				countOK := core.AnyFact(func(f core.Fact) bool {
					if f.Op != token.EQL {
						return false
					}
					isLen := func(v ssa.Value) bool {
						cc, ok := v.(*ssa.Call)
						return ok && cc.Call.IsInvoke() && cc.Call.Method.Name() == "GetKeyLength"
					}
					return isLen(f.X) || isLen(f.Y)
				})
				w := core.InstrGuarded(g, countOK, nil)
				r.Check(w == nil, "R5.offering-side", name+" verdict-count", p.Pos(g.Pos()), "the transfer starts only after the verdict count equalled the number of keys offered", "accepted indices are used although the verdict count differs from the number offered: "+p.PathString(w))
				nonEmpty := core.AnyFact(func(f core.Fact) bool {
					return core.CmpFact(f, func(op token.Token, x, y ssa.Value) bool {
						k, isC := core.ConstInt(y)
						isIdx := core.IsLenOf(x, func(v ssa.Value) bool {
							if cc, ok := v.(*ssa.Call); ok && cc.Call.IsInvoke() && cc.Call.Method.Name() == "GetAcceptIndices" {
								return true
							}
							return idxCall != nil && core.SameValue(v, idxCall)
						})
						return isC && isIdx && ((op == token.NEQ && k == 0) || (op == token.GTR && k == 0))
					})
				})
				w = core.InstrGuarded(g, nonEmpty, nil)
				r.Check(w == nil, "R5.offering-side", name+" some-accepted", p.Pos(g.Pos()), "the transfer starts only with a non-empty accepted set", "a transfer is started although nothing was accepted: "+p.PathString(w))
				// the id dialled is the accept's connection id
				okCid := false
				core.Calls(cf, func(ci ssa.CallInstruction) {
					if strings.HasSuffix(core.CalleeID(ci), "(*UtpTransportService).DialWithCid") {
						okCid = true
					}
				})
				var cidSrc bool
				core.Calls(fn, func(ci ssa.CallInstruction) {
					if strings.HasSuffix(core.CalleeID(ci), ".Uint16") {
						a := ci.Common().Args
						if cc, ok := a[len(a)-1].(*ssa.Call); ok && cc.Call.IsInvoke() && cc.Call.Method.Name() == "GetConnectionId" {
							cidSrc = true
						}
					}
				})
				r.Check(okCid && cidSrc, "R5.offering-side", name+" dials-announced-id", p.Pos(g.Pos()), "dials the connection id taken from the ACCEPT reply", "the connection dialled is not the one the ACCEPT reply announced")
				// selection by accepted index, in order: every Index into the offered contents inside a range over acceptIndices uses the range element
				okSel := true
				nSel := 0
				for _, b2 := range cf.Blocks {
					for _, in2 := range b2.Instrs {
						ia, ok := in2.(*ssa.IndexAddr)
						if !ok {
							continue
						}
						_, fld, isF := core.LoadedField(ia.X)
						if !isF || (fld != "Contents" && fld != "ContentKeys") {
							continue
						}
						nSel++
						// index = element of the accepted-indices slice at the loop's induction variable
						fromIdx := core.Derives(ia.Index, func(v ssa.Value) bool {
							i2, ok := v.(*ssa.IndexAddr)
							return ok && isInductionVar(i2.Index)
						}, core.DeriveOpts{})
						if !fromIdx {
							okSel = false
						}
					}
				}
				r.Check(okSel && nSel >= 2, "R5.offering-side", name+" select-by-accepted-index", p.Pos(g.Pos()), fmt.Sprintf("%d content selections indexed by the accepted indices in order", nSel), "contents sent are not selected by accepted index in order")
			}
		}
	}

	// ---- R6 in-flight cleanup
	for _, fn := range p.ModuleFuncs() {
		for _, cs := range inflightOps(fn, "Set") {
			if fn.Parent() == nil && cs.direct {
				// the helper that marks one key set is itself such a site; its callers are checked
				if len(p.CallersOfFn(fn)) > 0 {
					continue
				}
			}
			name := core.FuncName(fn)
			okDefer := false
			for _, b := range fn.Blocks {
				for _, in := range b.Instrs {
					d, ok := in.(*ssa.Defer)
					if !ok || !d.Block().Dominates(cs.at.Block()) {
						continue
					}
					if f := core.StaticCalleeFn(d); f != nil && touchesInflight(f, "Del") && len(d.Call.Args) > 0 {
						// same key set
						if core.SameValue(d.Call.Args[len(d.Call.Args)-1], cs.keys) {
							okDefer = true
						}
					}
					// the removal written out in the deferred function
					if mc, isMc := d.Call.Value.(*ssa.MakeClosure); isMc {
						for _, del := range inflightOps(mc.Fn.(*ssa.Function), "Del") {
							if core.SameValue(del.keys, cs.keys) && core.Dominates(del.hdrOrBlock(), mc.Fn.(*ssa.Function)) {
								okDefer = true
							}
						}
					}
				}
			}
			r.Check(okDefer, "R6.inflight-cleanup", name, p.Pos(core.InstrPos(cs.at)), "keys marked in-flight are removed by a deferred call registered before they are marked", "keys marked as being received can stay marked after the goroutine exits (later offers of them are declined forever)")
			// every path to the wait for the connection marks the keys first (whatever the version of the offering peer)
			core.Calls(fn, func(c3 ssa.CallInstruction) {
				if !strings.HasSuffix(core.CalleeID(c3), utpAcceptWithCid) {
					return
				}
				w := core.MustPassBefore(c3, cs.passes)
				r.Check(w == nil, "R6.inflight-cleanup", name+" marked-before-waiting", p.Pos(c3.Pos()), "the keys are marked in flight on every path before the goroutine waits for the transfer", "a transfer can be awaited without its keys having been marked as being received (a concurrent offer of the same key is accepted a second time): "+p.PathString(w))
			})
		}
	}
	errorsExamined(c, "R7.errors-examined", "OFFER / ACCEPT paths", []string{"portalwire"}, ".handleOffer", ".handleOfferedContents", ".processOffer", ".filterContentKeys", ".handleV0Offer", ".handleV1Offer", ".parseOfferResp", ".offer", "decodeContents")
}

// inflightOp: a place where a whole key set is put into (Set) or taken out of (Del) the cache of
// keys being received: a call of a module helper doing it for its last argument, or the loop
// over the set written out.
type inflightOp struct {
	at     ssa.Instruction
	keys   ssa.Value
	direct bool
	hdr    *ssa.BasicBlock // direct form: the header of the loop over keys
}

func (o inflightOp) hdrOrBlock() *ssa.BasicBlock {
	if o.hdr != nil {
		return o.hdr
	}
	return o.at.Block()
}

// passes: the instruction is (part of) the operation; for the written-out loop, reaching the
// loop header is what every path must do (an empty key set runs no iteration).
func (o inflightOp) passes(in ssa.Instruction) bool {
	if o.direct {
		return in.Block() == o.hdr
	}
	return in == o.at
}

func inflightOps(fn *ssa.Function, method string) []inflightOp {
	var out []inflightOp
	core.Calls(fn, func(ci ssa.CallInstruction) {
		if _, isDefer := ci.(*ssa.Defer); isDefer {
			return
		}
		args := ci.Common().Args
		if _, isGo := ci.(*ssa.Go); isGo {
			return
		}
		if f := core.StaticCalleeFn(ci); f != nil && f.Parent() == nil && core.InModule(f) && touchesInflight(f, method) && len(args) > 0 {
			out = append(out, inflightOp{at: ci, keys: args[len(args)-1]})
			return
		}
		if !strings.HasSuffix(core.CalleeID(ci), "."+method) || len(args) < 2 {
			return
		}
		if _, fld, ok := core.LoadedField(args[0]); !ok || fld != "transferringKeyCache" {
			return
		}
		u, ok := core.Unwrap(args[1]).(*ssa.UnOp)
		if !ok || u.Op != token.MUL {
			return
		}
		ia, ok := u.X.(*ssa.IndexAddr)
		if !ok || !core.InLoop(ci.Block()) {
			return
		}
		var hdr *ssa.BasicBlock
		core.Derives(ia.Index, func(v ssa.Value) bool {
			if ph, isPhi := v.(*ssa.Phi); isPhi && isInductionVar(ph) {
				hdr = ph.Block()
				return true
			}
			return false
		}, core.DeriveOpts{})
		if hdr == nil {
			return
		}
		out = append(out, inflightOp{at: ci, keys: ia.X, direct: true, hdr: hdr})
	})
	return out
}

func touchesInflight(f *ssa.Function, method string) bool {
	found := false
	core.Calls(f, func(ci ssa.CallInstruction) {
		if strings.HasSuffix(core.CalleeID(ci), "."+method) && len(ci.Common().Args) > 0 {
			if _, fld, ok := core.LoadedField(ci.Common().Args[0]); ok && fld == "transferringKeyCache" {
				found = true
			}
		}
	})
	return found
}

func decodesStream(f *ssa.Function) bool {
	// the multi-item decoder: calls (in a loop) a function using the LEB128 decoder
	ok := false
	core.Calls(f, func(ci ssa.CallInstruction) {
		if g := core.StaticCalleeFn(ci); g != nil && len(core.CallsTo(g, lebDecode32)) > 0 {
			ok = true
		}
	})
	return ok
}

func storedInto(v ssa.Value) string {
	if refs := v.Referrers(); refs != nil {
		for _, rf := range *refs {
			if st, ok := rf.(*ssa.Store); ok && st.Val == v {
				if _, f, _, ok := core.FieldRef(st.Addr); ok {
					return f
				}
			}
		}
	}
	return ""
}

func isRequestKeysOrVerdicts(v ssa.Value) bool {
	_, f, ok := core.LoadedField(v)
	return ok && f == "ContentKeys"
}

func cellOfValue(v ssa.Value) ssa.Value {
	if refs := v.Referrers(); refs != nil {
		for _, r := range *refs {
			if st, ok := r.(*ssa.Store); ok && st.Val == v {
				if a, ok := st.Addr.(*ssa.Alloc); ok {
					return a
				}
			}
		}
	}
	return nil
}

// blocksUnder returns the blocks reachable only through an edge satisfying pred (dominated by it).
func blocksUnder(fn *ssa.Function, pred func(fs []core.Fact) bool) map[*ssa.BasicBlock]bool {
	out := map[*ssa.BasicBlock]bool{}
	for _, b := range fn.Blocks {
		for i, s := range b.Succs {
			if pred(core.EdgeFacts(b, i)) && len(s.Preds) == 1 {
				for _, d := range fn.Blocks {
					if s.Dominates(d) {
						out[d] = true
					}
				}
			}
		}
	}
	return out
}

// appendVerdicts describes the code-list verdicts built by appending: an empty list before the
// loop over the offered keys, one append per pass, the list handed to the reply afterwards.
type appendVerdicts struct {
	header  *ssa.BasicBlock
	phi     *ssa.Phi
	appends map[*ssa.Call]bool
}

func (av *appendVerdicts) elem(c *ssa.Call) ssa.Value {
	el := core.VariadicElems(c.Call.Args[1])
	if len(el) != 1 {
		return nil
	}
	v := core.Unwrap(el[0])
	if cv, ok := v.(*ssa.Convert); ok {
		v = cv.X
	}
	return v
}

func findAppendVerdicts(f *ssa.Function) *appendVerdicts {
	for _, b := range f.Blocks {
		if !core.InLoop(b) {
			continue
		}
		for _, in := range b.Instrs {
			ph, ok := in.(*ssa.Phi)
			if !ok {
				continue
			}
			st, isSl := ph.Type().Underlying().(*types.Slice)
			if !isSl {
				continue
			}
			if bt, isB := st.Elem().Underlying().(*types.Basic); !isB || bt.Kind() != types.Uint8 {
				continue
			}
			// starts empty
			empty := false
			for _, e := range ph.Edges {
				if core.IsEmptySlice(e) {
					empty = true
				}
			}
			if !empty {
				continue
			}
			av := &appendVerdicts{header: b, phi: ph, appends: map[*ssa.Call]bool{}}
			fromPhi := func(v ssa.Value) bool {
				return core.Derives(v, func(x ssa.Value) bool { return x == ssa.Value(ph) }, core.DeriveOpts{})
			}
			for _, b2 := range f.Blocks {
				for _, i2 := range b2.Instrs {
					cc, isC := i2.(*ssa.Call)
					if !isC || core.CalleeID(cc) != "builtin.append" || !types.Identical(cc.Type(), ph.Type()) {
						continue
					}
					if fromPhi(cc.Call.Args[0]) && len(core.VariadicElems(cc.Call.Args[1])) == 1 {
						av.appends[cc] = true
					}
				}
			}
			if len(av.appends) == 0 {
				continue
			}
			// the loop walks the offered keys with an induction variable, and the list as it stands
			// when the loop ends is what the reply carries
			walks, handed := false, false
			for _, b2 := range f.Blocks {
				for _, i2 := range b2.Instrs {
					switch x := i2.(type) {
					case *ssa.IndexAddr:
						if isRequestKeys(x.X) && core.InLoop(b2) && core.Derives(x.Index, isInductionVar, core.DeriveOpts{}) {
							walks = true
						}
					case *ssa.Store:
						if _, fld, _, ok := core.FieldRef(x.Addr); ok && fld == "ContentKeys" && core.Unwrap(x.Val) == ssa.Value(ph) {
							handed = true
						}
					}
				}
			}
			if walks && handed {
				return av
			}
		}
	}
	return nil
}

// secondAppend: a path that appends a second verdict before the loop header is reached again.
func (av *appendVerdicts) secondAppend(f *ssa.Function) []*ssa.BasicBlock {
	blocks := map[*ssa.BasicBlock]int{}
	for c := range av.appends {
		blocks[c.Block()]++
	}
	for b, n := range blocks {
		if n > 1 {
			return []*ssa.BasicBlock{b}
		}
		for _, s := range b.Succs {
			if s == av.header {
				continue
			}
			if blocks[s] > 0 {
				return []*ssa.BasicBlock{b, s}
			}
			w := core.CutReach(core.CutSpec{Fn: f, From: s,
				Cut:    func(x *ssa.BasicBlock, i int) bool { return x.Succs[i] == av.header },
				Target: func(prev, x *ssa.BasicBlock) bool { return prev != nil && blocks[x] > 0 }})
			if w != nil {
				return append([]*ssa.BasicBlock{b}, w...)
			}
		}
	}
	return nil
}
