package props

import (
	"fmt"
	"go/token"
	"go/types"

	"golang.org/x/tools/go/ssa"

	"verifchk/core"
)

const (
	lebDecode32 = "github.com/tetratelabs/wabin/leb128.DecodeUint32"
	lebEncode32 = "github.com/tetratelabs/wabin/leb128.EncodeUint32"
)

func init() { Registry["C15"] = c15 }

// C15: content stream framing. Decides the rejection structure of the decoders and the pairing
// of the codec, not the inverse law itself.
func c15(c *Ctx) {
	p, r := c.P, c.R
	r.Technique = "SSA must-pass-through (cut) checks on the framing decoders; codec pairing by callee identity; structural SSA equality of guard and slice bounds"
	r.Explanation = "Decides, for the uTP content framing in package portalwire: (R1) encoder and decoder use the 32-bit unsigned LEB128 pair and the encoder's operand is uint32(len(item)) with the item appended unmodified; (R2) every slice of the decoder's input with a length-derived bound is reached only through the failing-returns-error comparison len(input) >= that same bound; (R3) every error of the varint decoder and of the single-item decoder gates every success exit, the multi-item loop feeds exactly the returned remainder back and appends exactly the returned item; (R4) the single-item stream decoder succeeds only under len(remaining)==0. Not decided: decode(encode(xs))==xs as a value-level law, total rejection of the non-image."
	r.Assumptions = []string{
		"leb128.DecodeUint32 rejects varints that overflow 32 bits and reports the bytes consumed (read in the dependency, not re-verified)",
		"64-bit int: int(uint32) is non-negative (GOARCH=386 is a configuration observation, not covered)",
	}
	r.Floor("R1.encoder", 1)
	r.Floor("R1.decoder", 1)
	r.Floor("R2.slice-guard", 4)
	r.Floor("R3.varint-error", 1)
	r.Floor("R3.item-error", 2)
	r.Floor("R3.loop-remainder", 1)
	r.Floor("R4.trailing", 1)

	// ---- R1 encoder: functions in the module calling leb128.EncodeUint32
	// (the standard library's uvarint is the same encoding: binary.AppendUvarint(empty buffer, n))
	encs := p.CallersOf(lebEncode32)
	for fn, cs := range p.CallersOf("encoding/binary.AppendUvarint") {
		if fn.Pkg == p.SSAPkg("portalwire") {
			encs[fn] = append(encs[fn], cs...)
		}
	}
	for _, fn := range core.SortedFuncs(encs) {
		for _, call := range encs[fn] {
			name := core.FuncName(fn)
			arg := call.Common().Args[0]
			isStd := core.CalleeID(call) == "encoding/binary.AppendUvarint"
			if isStd {
				arg = call.Common().Args[1]
			}
			// operand must be uint32(len(param))
			var item ssa.Value
			okOperand := false
			if cv, ok := arg.(*ssa.Convert); ok {
				if bt, ok := cv.Type().Underlying().(*types.Basic); ok && bt.Kind() == types.Uint32 {
					if core.IsLenOf(cv.X, func(v ssa.Value) bool { item = v; return true }) {
						okOperand = true
					}
				}
				// uint64(uint32(len(item))) / uint64(len(item)) for the 64-bit uvarint encoder
				if bt, ok := cv.Type().Underlying().(*types.Basic); ok && bt.Kind() == types.Uint64 && isStd {
					inner := cv.X
					if c2, ok := inner.(*ssa.Convert); ok {
						if b2, ok := c2.Type().Underlying().(*types.Basic); ok && b2.Kind() == types.Uint32 {
							inner = c2.X
						}
					}
					if core.IsLenOf(inner, func(v ssa.Value) bool { item = v; return true }) {
						okOperand = true
					}
				}
			}
			if isStd && okOperand && !core.IsEmptySlice(call.Common().Args[0]) {
				// the prefix must start the frame: appended to an empty buffer
				okOperand = false
			}
			r.Check(okOperand, "R1.encoder", name+" prefix-operand", p.Pos(call.Pos()),
				"length prefix is uint32(len(item))", "the operand of the LEB128 encoder is not uint32(len(item))")
			// the function must return append(prefix, item...) : result derives from both the call and the item
			if okOperand {
				good := false
				for _, ret := range core.Returns(fn) {
					if len(ret.Results) != 1 {
						continue
					}
					if ap, ok := ret.Results[0].(*ssa.Call); ok && core.CalleeID(ap) == "builtin.append" {
						a0, a1 := ap.Call.Args[0], ap.Call.Args[1]
						if a0 == call.Value() && a1 == item {
							good = true
						}
					}
					// library form: slices.Concat(prefix, item) (a fresh slice holding both, in order)
					if cc, ok := ret.Results[0].(*ssa.Call); ok && core.CalleeID(cc) == "slices.Concat" && len(cc.Call.Args) == 1 {
						el := core.VariadicElems(cc.Call.Args[0])
						if len(el) == 2 && el[0] == call.Value() && el[1] == item {
							good = true
						}
					}
				}
				// or the streaming form: buf = append(buf, prefix...); buf = append(buf, item...) with
				// nothing appended in between, and the buffer is what is returned
				if !good {
					for _, b := range fn.Blocks {
						for _, in := range b.Instrs {
							a2, ok := in.(*ssa.Call)
							if !ok || core.CalleeID(a2) != "builtin.append" || a2.Call.Args[1] != item {
								continue
							}
							a1, ok := a2.Call.Args[0].(*ssa.Call)
							if !ok || core.CalleeID(a1) != "builtin.append" || a1.Call.Args[1] != call.Value() {
								continue
							}
							for _, ret := range core.Returns(fn) {
								if len(ret.Results) == 1 && core.Derives(ret.Results[0], func(v ssa.Value) bool { return v == ssa.Value(a2) }, core.DeriveOpts{}) {
									good = true
								}
							}
						}
					}
				}
				// or the copying form: out := make([]byte, len(prefix)+len(item)); copy(out, prefix);
				// copy(out[len(prefix):], item); return out
				if !good {
					for _, ret := range core.Returns(fn) {
						if len(ret.Results) != 1 {
							continue
						}
						mk, ok := core.Unwrap(ret.Results[0]).(*ssa.MakeSlice)
						if !ok {
							continue
						}
						sum, ok := mk.Len.(*ssa.BinOp)
						if !ok || sum.Op != token.ADD {
							continue
						}
						lenOf := func(v, of ssa.Value) bool { return core.IsLenOf(v, func(y ssa.Value) bool { return y == of }) }
						if !((lenOf(sum.X, call.Value()) && lenOf(sum.Y, item)) || (lenOf(sum.Y, call.Value()) && lenOf(sum.X, item))) {
							continue
						}
						head, tail := false, false
						core.Calls(fn, func(ci ssa.CallInstruction) {
							if core.CalleeID(ci) != "builtin.copy" {
								return
							}
							a := ci.Common().Args
							if a[0] == ssa.Value(mk) && a[1] == call.Value() {
								head = true
							}
							if sl, ok := a[0].(*ssa.Slice); ok && sl.X == ssa.Value(mk) && sl.High == nil && lenOf(sl.Low, call.Value()) && a[1] == item {
								tail = true
							}
						})
						if head && tail {
							good = true
						}
					}
				}
				r.Check(good, "R1.encoder", name+" frame", p.Pos(fn.Pos()),
					"returns append(prefix, item...) with the item itself", "the encoder does not return prefix followed by the unmodified item")
			}
		}
	}

	// ---- decoders: functions calling leb128.DecodeUint32
	decs := p.CallersOf(lebDecode32)
	var singleDecoders []*ssa.Function
	for _, fn := range core.SortedFuncs(decs) {
		name := core.FuncName(fn)
		for _, ci := range decs[fn] {
			call, ok := ci.(*ssa.Call)
			if !ok {
				r.Fail("R1.decoder", name, p.Pos(ci.Pos()), "varint decoder invoked via go/defer")
				continue
			}
			// the reader argument must be built over an input parameter
			var input *ssa.Parameter
			okIn := core.Derives(call.Call.Args[0], func(v ssa.Value) bool {
				if pa, ok := v.(*ssa.Parameter); ok {
					if _, isSlice := pa.Type().Underlying().(*types.Slice); isSlice {
						input = pa
						return true
					}
				}
				return false
			}, core.DeriveOpts{ThroughCalls: true})
			r.Check(okIn, "R1.decoder", name+" reads-input", p.Pos(call.Pos()),
				"32-bit LEB128 decoder reads from the input parameter", "the varint decoder does not read the function's input")
			if !okIn {
				continue
			}
			singleDecoders = append(singleDecoders, fn)
			// R3 varint error gates success
			g := core.ErrNilGate("varint-err", func(c2 *ssa.Call) bool { return c2 == call })
			if w := core.AllSuccessPass(fn, g, call.Block()); w != nil {
				r.Fail("R3.varint-error", name, p.Pos(call.Pos()), "a success return is reachable without the varint decoder's error being nil: "+p.PathString(w))
			} else {
				r.Pass("R3.varint-error", name, p.Pos(call.Pos()), "every success exit passes err==nil of the varint decoder")
			}
			// R2: every slice of the input with a non-constant bound is guarded by len(input) >= bound
			nSlices := 0
			for _, b := range fn.Blocks {
				for _, in := range b.Instrs {
					sl, ok := in.(*ssa.Slice)
					if !ok || sl.X != ssa.Value(input) {
						continue
					}
					var bounds []ssa.Value
					for _, bd := range []ssa.Value{sl.Low, sl.High} {
						if bd == nil {
							continue
						}
						if _, isC := core.ConstInt(bd); isC {
							continue
						}
						bounds = append(bounds, bd)
					}
					if len(bounds) == 0 {
						continue
					}
					nSlices++
					// the largest bound is High if present else Low
					bound := bounds[len(bounds)-1]
					edge := core.AnyFact(func(f core.Fact) bool {
						return core.CmpFact(f, func(op token.Token, x, y ssa.Value) bool {
							return op == token.GEQ && core.IsLenOf(x, func(v ssa.Value) bool { return v == ssa.Value(input) }) && core.SameExpr(y, bound)
						})
					})
					key := fmt.Sprintf("%s input[%s:%s]", name, boundStr(sl.Low), boundStr(sl.High))
					if w := core.InstrGuarded(sl, edge, nil); w != nil {
						r.Fail("R2.slice-guard", key, p.Pos(sl.Pos()), "slice of the input is reachable without len(input) >= the same bound expression: "+p.PathString(w))
					} else {
						r.Pass("R2.slice-guard", key, p.Pos(sl.Pos()), "dominated on all paths by len(input) >= bound (same expression)")
					}
					// the bound is computed without wrap-around: additions in a >= 64-bit integer type
					wide := true
					var chk func(v ssa.Value, d int)
					chk = func(v ssa.Value, d int) {
						if d > 6 {
							return
						}
						if bo, ok := v.(*ssa.BinOp); ok && (bo.Op == token.ADD || bo.Op == token.MUL) {
							if bt, ok := bo.Type().Underlying().(*types.Basic); ok {
								switch bt.Kind() {
								case types.Int, types.Int64, types.Uint64, types.Uint, types.Uintptr:
								default:
									wide = false
								}
							}
							chk(bo.X, d+1)
							chk(bo.Y, d+1)
						}
					}
					chk(bound, 0)
					r.Check(wide, "R2.slice-guard", key+" no-wrap", p.Pos(sl.Pos()), "header + length is added in a 64-bit integer type (a 32-bit prefix cannot wrap it)", "the bound header+length is computed in a 32-bit (or narrower) type: a length prefix close to 2^32 wraps around, passes the length check and the slice panics")
					// bound must be header + length decoded
					okB := core.Derives(bound, func(v ssa.Value) bool { return v == ssa.Value(call) }, core.DeriveOpts{})
					r.Check(okB, "R2.slice-guard", key+" bound-provenance", p.Pos(sl.Pos()), "bound derives from the varint decoder's results", "slice bound does not derive from the decoded length")
				}
			}
			if nSlices < 2 {
				r.Fail("R2.slice-guard", name+" item/remainder slices", p.Pos(fn.Pos()), fmt.Sprintf("expected the item and the remainder to be length-bounded slices of the input, found %d", nSlices))
			}
		}
	}

	// ---- callers of the single-item decoder
	for _, dec := range singleDecoders {
		callers := p.CallersOfFn(dec)
		for _, fn := range core.SortedFuncs(callers) {
			name := core.FuncName(fn)
			for _, ci := range callers[fn] {
				call, ok := ci.(*ssa.Call)
				if !ok {
					continue
				}
				g := core.ErrNilGate("item-err", func(c2 *ssa.Call) bool { return c2 == call })
				if w := core.AllSuccessPass(fn, g, call.Block()); w != nil {
					r.Fail("R3.item-error", name, p.Pos(call.Pos()), "a success return is reachable after the item decoder without its error being nil: "+p.PathString(w))
				} else {
					r.Pass("R3.item-error", name, p.Pos(call.Pos()), "every success exit after the call passes err==nil")
				}
				// loop continuation must also pass err==nil
				if core.InLoop(call.Block()) {
					w := core.CutReach(core.CutSpec{Fn: fn, From: call.Block(),
						Cut:    func(b *ssa.BasicBlock, i int) bool { return g.Edge(core.EdgeFacts(b, i)) },
						Target: func(prev, b *ssa.BasicBlock) bool { return prev != nil && b == call.Block() }})
					r.Check(w == nil, "R3.item-error", name+" loop-continue", p.Pos(call.Pos()),
						"the loop continues only after err==nil", "the loop can continue after a failed item decode: "+p.PathString(w))
					// next input is exactly the remainder
					arg := call.Call.Args[0]
					okRem := false
					if ph, ok := arg.(*ssa.Phi); ok {
						okRem = true
						sawRem, sawParam := false, false
						for _, e := range ph.Edges {
							switch {
							case core.ResultOf(e, call, 1):
								sawRem = true
							case isParamValue(e, fn):
								sawParam = true
							default:
								okRem = false
							}
						}
						okRem = okRem && sawRem && sawParam
					}
					r.Check(okRem, "R3.loop-remainder", name, p.Pos(call.Pos()),
						"decoder input is phi(input parameter, remainder returned by the previous call)", "the loop does not feed exactly the returned remainder back into the item decoder")
					// appended element is exactly result #0
					okApp := false
					core.Calls(fn, func(c3 ssa.CallInstruction) {
						if core.CalleeID(c3) == "builtin.append" {
							if core.Derives(c3.Common().Args[1], func(v ssa.Value) bool { return core.ResultOf(v, call, 0) }, core.DeriveOpts{}) {
								okApp = true
							}
						}
					})
					r.Check(okApp, "R3.loop-remainder", name+" appends-item", p.Pos(call.Pos()), "the decoded item itself is appended", "the decoded item is not what is appended to the result")
					// loop condition: continues while len(remaining) > 0 ; exits to success only when == 0
					lenZero := core.AnyFact(func(f core.Fact) bool {
						return core.CmpFact(f, func(op token.Token, x, y ssa.Value) bool {
							n, isC := core.ConstInt(y)
							if !isC || !core.IsLenOf(x, func(v ssa.Value) bool { return v == arg }) {
								return false
							}
							return (op == token.LEQ && n == 0) || (op == token.EQL && n == 0) || (op == token.LSS && n == 1)
						})
					})
					w2 := core.CutReach(core.CutSpec{Fn: fn, Cut: func(b *ssa.BasicBlock, i int) bool { return lenZero(core.EdgeFacts(b, i)) }, Target: core.SuccessTarget(fn, nil)})
					r.Check(w2 == nil, "R3.loop-remainder", name+" drains-input", p.Pos(fn.Pos()),
						"success only once the remaining input is empty", "the multi-item decoder can succeed with input left over: "+p.PathString(w2))
				} else {
					// single-item stream decoder: success only if len(remaining) == 0
					trailing := core.AnyFact(func(f core.Fact) bool {
						return core.CmpFact(f, func(op token.Token, x, y ssa.Value) bool {
							n, isC := core.ConstInt(y)
							if !isC || !core.IsLenOf(x, func(v ssa.Value) bool { return core.ResultOf(v, call, 1) }) {
								return false
							}
							return (op == token.LEQ && n == 0) || (op == token.EQL && n == 0) || (op == token.LSS && n == 1)
						})
					})
					w := core.CutReach(core.CutSpec{Fn: fn, From: call.Block(),
						Cut:    func(b *ssa.BasicBlock, i int) bool { return trailing(core.EdgeFacts(b, i)) },
						Target: core.SuccessTarget(fn, nil)})
					r.Check(w == nil, "R4.trailing", name, p.Pos(call.Pos()),
						"success after the single-item decoder only under len(remaining)==0", "a single-item stream with trailing bytes can be accepted: "+p.PathString(w))
					// and what is returned is the decoded item
					okRet := false
					for _, ret := range core.Returns(fn) {
						if len(ret.Results) > 0 && core.ResultOf(ret.Results[0], call, 0) {
							okRet = true
						}
						// the version dispatch written out around the decoder: the value returned is
						// the item on the framed branch (merged with the unframed bytes on the other)
						for _, rv := range ret.Results {
							item := map[ssa.Value]bool{}
							for _, rf := range *call.Referrers() {
								if ex, isEx := rf.(*ssa.Extract); isEx && ex.Index == 0 {
									item[ex] = true
								}
							}
							if core.FlowsFrom(rv, item) {
								okRet = true
							}
						}
					}
					r.Check(okRet, "R4.trailing", name+" returns-item", p.Pos(call.Pos()), "returns the decoded item", "the single-item decoder's item is not what is returned")
				}
			}
		}
	}
	if c.Tier == "thorough" {
		// second configuration: 32-bit target. There int is 32 bits, so int(uint32) can be negative and
		// header+length can wrap: the rejection structure above is established for 64-bit targets only.
		if p32, err := core.LoadPatterns(p.Repo, []string{"./portalwire"}, 1, false, "GOARCH=386", "CGO_ENABLED=0"); err != nil {
			r.Note("R2.slice-guard", "GOARCH=386 configuration", "-", "could not be loaded: "+err.Error())
		} else {
			sz := p32.Pkgs[0].TypesSizes.Sizeof(types.Typ[types.Int])
			r.Note("R2.slice-guard", "GOARCH=386 configuration", "-", fmt.Sprintf("type-checks; int is %d bytes there: a length prefix >= 2^31 makes int(length) negative - the 64-bit argument of R2 (no-wrap) does not carry over; configuration observation, the supported targets are 64-bit", sz))
			r.Count("second_configuration_functions", len(p32.ModuleFuncs()))
		}
	}
	r.Count("framing_decoders", len(singleDecoders))
	r.Count("framing_encoders", len(encs))
	errorsExamined(c, "R5.errors-examined", "content framing", []string{"portalwire"}, "portalwire.encodeSingleContent", "portalwire.decodeSingleContent", "portalwire.encodeContents", "portalwire.decodeContents", ".decodeUtpContent", ".encodeUtpContent", ".handleOfferedContents")
}

func boundStr(v ssa.Value) string {
	if v == nil {
		return ""
	}
	if n, ok := core.ConstInt(v); ok {
		return fmt.Sprint(n)
	}
	return exprStr(v, 0)
}

// exprStr renders an SSA expression in a line-free, name-light way for construct keys.
func exprStr(v ssa.Value, d int) string {
	if d > 6 {
		return "…"
	}
	switch x := v.(type) {
	case *ssa.Const:
		return x.Value.String()
	case *ssa.BinOp:
		return "(" + exprStr(x.X, d+1) + x.Op.String() + exprStr(x.Y, d+1) + ")"
	case *ssa.Convert:
		return types.TypeString(x.Type(), nil) + "(" + exprStr(x.X, d+1) + ")"
	case *ssa.Extract:
		return fmt.Sprintf("%s#%d", exprStr(x.Tuple, d+1), x.Index)
	case *ssa.Call:
		id := core.CalleeID(x)
		if id == "builtin.len" {
			return "len(" + exprStr(x.Call.Args[0], d+1) + ")"
		}
		return shortID(id) + "()"
	case *ssa.Parameter:
		return "param"
	case *ssa.Phi:
		return "phi"
	}
	return "v"
}

func shortID(id string) string {
	for i := len(id) - 1; i >= 0; i-- {
		if id[i] == '/' {
			return id[i+1:]
		}
	}
	return id
}

func isParamValue(v ssa.Value, fn *ssa.Function) bool {
	pa, ok := v.(*ssa.Parameter)
	return ok && pa.Parent() == fn
}

// multiDecoderDrains checks that a multi-item stream decoder (a function calling the single
// item decoder in a loop) reports success only once the remaining input is empty.
func multiDecoderDrains(p *core.Prog, fn *ssa.Function) (bool, string) {
	var call *ssa.Call
	core.Calls(fn, func(ci ssa.CallInstruction) {
		if g := core.StaticCalleeFn(ci); g != nil && len(core.CallsTo(g, lebDecode32)) > 0 {
			if cc, ok := ci.(*ssa.Call); ok && core.InLoop(cc.Block()) {
				call = cc
			}
		}
	})
	if call == nil {
		return false, "no item decoder call in a loop"
	}
	arg := call.Call.Args[0]
	lenZero := core.AnyFact(func(f core.Fact) bool {
		return core.CmpFact(f, func(op token.Token, x, y ssa.Value) bool {
			n, isC := core.ConstInt(y)
			if !isC || !core.IsLenOf(x, func(v ssa.Value) bool { return v == arg }) {
				return false
			}
			return (op == token.LEQ && n == 0) || (op == token.EQL && n == 0) || (op == token.LSS && n == 1)
		})
	})
	w := core.CutReach(core.CutSpec{Fn: fn, Cut: func(b *ssa.BasicBlock, i int) bool { return lenZero(core.EdgeFacts(b, i)) }, Target: core.SuccessTarget(fn, nil)})
	if w != nil {
		return false, p.PathString(w)
	}
	return true, ""
}
