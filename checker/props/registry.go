// Package props holds the per-property rule sets.
package props

import (
	"verifchk/core"
)

// Ctx is what a property's rule set gets.
type Ctx struct {
	P     *core.Prog
	R     *core.Report
	Tier  string
	Verif string
}

// Registry maps property ids to rule sets.
var Registry = map[string]func(*Ctx){}

// NeedsWholeProgram lists the properties whose thorough tier loads dependencies with bodies
// (whole-program SSA) to refine reachability with a VTA call graph.
var NeedsWholeProgram = map[string]bool{"C01": true}
