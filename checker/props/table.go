package props

import (
	"fmt"
	"go/token"
	"go/types"

	"golang.org/x/tools/go/ssa"

	"verifchk/core"
)

// Shared model of the routing table's mutation sites (C07, C18). Everything is discovered
// from data: the fields of bucket / Table / tableNode / revalidationList and who stores to them.

const (
	netsetAdd    = "github.com/ethereum/go-ethereum/p2p/netutil.(*DistinctNetSet).AddAddr"
	netsetRemove = "github.com/ethereum/go-ethereum/p2p/netutil.(*DistinctNetSet).RemoveAddr"
	enodeLogDist = "github.com/ethereum/go-ethereum/p2p/enode.LogDist"
	enodeID      = "github.com/ethereum/go-ethereum/p2p/enode.(*Node).ID"
	enodeSeq     = "github.com/ethereum/go-ethereum/p2p/enode.(*Node).Seq"
	enodeIPAddr  = "github.com/ethereum/go-ethereum/p2p/enode.(*Node).IPAddr"
	enodeUDP     = "github.com/ethereum/go-ethereum/p2p/enode.(*Node).UDP"
)

type tableModel struct {
	c *Ctx
	// classified writes
	entries, repl, nodeW []core.FieldWrite
	// derived function roles
	ipAdders   map[*ssa.Function]bool // functions that call DistinctNetSet.AddAddr on table/bucket sets (addIP)
	ipRemovers map[*ssa.Function]bool
	revalAdd   map[*ssa.Function]bool // functions reaching an append to revalidationList.nodes
	revalDel   map[*ssa.Function]bool
	removers   map[*ssa.Function]bool // functions with a shrinking store to bucket.entries
	updaters   map[*ssa.Function]bool // functions with a non-init store to tableNode.Node
	clearLive  map[*ssa.Function]bool // functions storing false to tableNode.isValidatedLive
}

type writeShape int

const (
	shapeUnknown writeShape = iota
	shapeAppend
	shapeShrink
	shapeBoundedPush
	shapeEmpty
)

func isShrinkCall(v ssa.Value) bool {
	c, ok := v.(*ssa.Call)
	if !ok {
		return false
	}
	id := core.CalleeID(c)
	if id == "slices.Delete" || id == "slices.DeleteFunc" {
		return true
	}
	// a module wrapper whose every return is a shrink call on its parameter (deleteNode[N])
	if f := core.StaticCalleeFn(c); f != nil && core.InModule(f) {
		rets := core.Returns(f)
		if len(rets) == 0 {
			return false
		}
		for _, r := range rets {
			if len(r.Results) != 1 {
				return false
			}
			rc, ok := r.Results[0].(*ssa.Call)
			if !ok {
				return false
			}
			rid := core.CalleeID(rc)
			if rid != "slices.Delete" && rid != "slices.DeleteFunc" {
				return false
			}
		}
		return true
	}
	return false
}

// boundedPushInfo: v is result #0 of a call to a module function in which every growth of
// the list parameter is guarded by len(list) < maxParam; returns the call.
func boundedPush(v ssa.Value) (*ssa.Call, bool) {
	ex, ok := v.(*ssa.Extract)
	if !ok || ex.Index != 0 {
		return nil, false
	}
	c, ok := ex.Tuple.(*ssa.Call)
	if !ok {
		return nil, false
	}
	f := core.StaticCalleeFn(c)
	if f == nil || !core.InModule(f) || len(f.Params) < 3 {
		return nil, false
	}
	list, max := f.Params[0], f.Params[len(f.Params)-1]
	if _, ok := list.Type().Underlying().(*types.Slice); !ok {
		return nil, false
	}
	grow := 0
	for _, b := range f.Blocks {
		for _, in := range b.Instrs {
			ac, ok := in.(*ssa.Call)
			if !ok || core.CalleeID(ac) != "builtin.append" {
				continue
			}
			grow++
			edge := core.AnyFact(func(fc core.Fact) bool {
				return core.CmpFact(fc, func(op token.Token, x, y ssa.Value) bool {
					return op == token.LSS && core.IsLenOf(x, func(v ssa.Value) bool { return v == ssa.Value(list) }) && y == ssa.Value(max)
				})
			})
			if w := core.InstrGuarded(ac, edge, nil); w != nil {
				return c, false
			}
			if ac.Call.Args[0] != ssa.Value(list) {
				return c, false
			}
		}
	}
	if grow == 0 {
		// insertion form: if len(list) >= max { list = list[:len(list)-1] }; slices.Insert(list, 0, n):
		// every path to the insert either saw len(list) < max or dropped the last element
		for _, b := range f.Blocks {
			for _, in := range b.Instrs {
				ic, ok := in.(*ssa.Call)
				if !ok || core.CalleeID(ic) != "slices.Insert" || len(ic.Call.Args) < 2 {
					continue
				}
				if k, isC := core.ConstInt(ic.Call.Args[1]); !isC || k != 0 {
					return c, false
				}
				if !core.Derives(ic.Call.Args[0], func(v ssa.Value) bool { return v == ssa.Value(list) }, core.DeriveOpts{}) {
					return c, false
				}
				room := core.AnyFact(func(fc core.Fact) bool {
					return core.CmpFact(fc, func(op token.Token, x, y ssa.Value) bool {
						return op == token.LSS && core.IsLenOf(x, func(v ssa.Value) bool { return v == ssa.Value(list) }) && y == ssa.Value(max)
					})
				})
				trimmed := core.BlocksWith(f, func(i2 ssa.Instruction) bool {
					sl, ok := i2.(*ssa.Slice)
					if !ok || sl.X != ssa.Value(list) || sl.Low != nil || sl.High == nil {
						return false
					}
					bo, ok := sl.High.(*ssa.BinOp)
					if !ok || bo.Op != token.SUB || !core.IsLenOf(bo.X, func(v ssa.Value) bool { return v == ssa.Value(list) }) {
						return false
					}
					k, isC := core.ConstInt(bo.Y)
					return isC && k == 1
				})
				tb := ic.Block()
				if trimmed[tb] {
					return c, true
				}
				w := core.CutReach(core.CutSpec{Fn: f,
					Cut:    func(b2 *ssa.BasicBlock, i int) bool { return room(core.EdgeFacts(b2, i)) || trimmed[b2.Succs[i]] },
					Target: func(prev, b2 *ssa.BasicBlock) bool { return b2 == tb }})
				if tb == f.Blocks[0] {
					return c, false
				}
				return c, w == nil
			}
		}
	}
	return c, grow > 0
}

func (m *tableModel) shape(w core.FieldWrite, typ, field string) writeShape {
	if sl, _, ok := core.AppendOf(w.Val); ok && core.IsLoadOfField(sl, typ, field) {
		return shapeAppend
	}
	if isShrinkCall(w.Val) {
		return shapeShrink
	}
	if _, ok := boundedPush(w.Val); ok {
		return shapeBoundedPush
	}
	if ip := inlinePush(w.Val); ip != nil && core.IsLoadOfField(ip.list, typ, field) {
		return shapeBoundedPush
	}
	if ip := inPlacePush(w, typ, field); ip != nil {
		return shapeBoundedPush
	}
	if core.IsNilConst(w.Val) {
		return shapeEmpty
	}
	return shapeUnknown
}

func newTableModel(c *Ctx) *tableModel {
	p := c.P
	m := &tableModel{c: c, ipAdders: map[*ssa.Function]bool{}, ipRemovers: map[*ssa.Function]bool{}, revalAdd: map[*ssa.Function]bool{},
		revalDel: map[*ssa.Function]bool{}, removers: map[*ssa.Function]bool{}, updaters: map[*ssa.Function]bool{}, clearLive: map[*ssa.Function]bool{}}
	m.entries = p.FieldWrites("bucket", "entries")
	m.repl = p.FieldWrites("bucket", "replacements")
	m.nodeW = p.FieldWrites("tableNode", "Node")
	pw := p.SSAPkg("portalwire")
	for _, fn := range p.ModuleFuncs() {
		if fn.Pkg != pw && (fn.Parent() == nil || fn.Parent().Pkg != pw) {
			continue
		}
		for _, ci := range core.CallsTo(fn, netsetAdd) {
			if onTableSet(ci.Common().Args[0]) {
				m.ipAdders[fn] = true
			}
		}
		for _, ci := range core.CallsTo(fn, netsetRemove) {
			if onTableSet(ci.Common().Args[0]) {
				m.ipRemovers[fn] = true
			}
		}
	}
	// an adder that also removes (rollback) stays an adder; a remover must not add
	for f := range m.ipAdders {
		delete(m.ipRemovers, f)
	}
	for _, w := range p.FieldWrites("revalidationList", "nodes") {
		switch m.shape(w, "revalidationList", "nodes") {
		case shapeAppend:
			m.revalAdd[w.Fn] = true
		case shapeShrink:
			m.revalDel[w.Fn] = true
		}
	}
	for _, w := range m.entries {
		if !w.Element && m.shape(w, "bucket", "entries") == shapeShrink {
			m.removers[w.Fn] = true
		}
	}
	for _, w := range m.nodeW {
		if !w.Init {
			m.updaters[w.Fn] = true
		}
	}
	for _, w := range p.FieldWrites("tableNode", "isValidatedLive") {
		if b, ok := core.ConstBool(w.Val); ok && !b && !w.Init {
			m.clearLive[w.Fn] = true
		}
	}
	return m
}

func onTableSet(recv ssa.Value) bool {
	t, f, _, ok := core.FieldRef(recv)
	return ok && f == "ips" && (t == "Table" || t == "bucket")
}

// callReaches: instruction is a call to a module function that (transitively, depth<=3)
// is in / reaches a function of the given role set.
func callReaches(in ssa.Instruction, role map[*ssa.Function]bool) bool {
	c, ok := in.(ssa.CallInstruction)
	if !ok {
		return false
	}
	f := core.StaticCalleeFn(c)
	if f == nil || !core.InModule(f) {
		return false
	}
	if role[f] {
		return true
	}
	return core.ReachesInstr(f, 3, func(i2 ssa.Instruction) bool {
		if c2, ok := i2.(ssa.CallInstruction); ok {
			if f2 := core.StaticCalleeFn(c2); f2 != nil && role[f2] {
				return true
			}
		}
		return false
	})
}

func isLenOfField(v ssa.Value, typ, field string) bool {
	return core.IsLenOf(v, func(x ssa.Value) bool { return core.IsLoadOfField(x, typ, field) })
}

// factLenLess: fact "len(typ.field) < n".
func factLenLess(typ, field string, n int64) func(fs []core.Fact) bool {
	return core.AnyFact(func(f core.Fact) bool {
		return core.CmpFact(f, func(op token.Token, x, y ssa.Value) bool {
			k, isC := core.ConstInt(y)
			return isC && isLenOfField(x, typ, field) && ((op == token.LSS && k == n) || (op == token.LEQ && k == n-1))
		})
	})
}

func (m *tableModel) key(w core.FieldWrite, what string) string {
	return fmt.Sprintf("%s %s", core.FuncName(w.Fn), what)
}

// pushSite is the bounded push-front written out where the list is stored back:
//
//	list := b.replacements
//	if len(list) < K { list = append(list, nil) }
//	removed := list[len(list)-1]; copy(list[1:], list); list[0] = n
//
// v (the value stored back) is the phi of list and append(list, nil).
type pushSite struct {
	list     ssa.Value // the list before the push
	max      ssa.Value // K
	removed  ssa.Value // the element read from the last slot (what falls out)
	newcomer ssa.Value // what is stored at index 0
}

// inPlacePush recognises the same bounded push-front when it edits the field in place (the
// shape a method on the owner has): the element store `F[0] = n` (w) is the push when, in the
// same function, F grows only by `F = append(F, nil)` under len(F) < max, every path to the
// element store passes the shift `copy(F[1:], F)`, and the last slot is read before. All F are
// loads of the one field.
func inPlacePush(w core.FieldWrite, typ, field string) *pushSite {
	if !w.Element || w.Store == nil {
		return nil
	}
	ia, ok := w.Store.Addr.(*ssa.IndexAddr)
	if !ok || !core.IsLoadOfField(ia.X, typ, field) {
		return nil
	}
	if k, isK := core.ConstInt(ia.Index); !isK || k != 0 {
		return nil
	}
	isF := func(v ssa.Value) bool { return core.IsLoadOfField(v, typ, field) }
	ps := &pushSite{newcomer: w.Store.Val}
	var shift ssa.Instruction
	grows := 0
	for _, b := range w.Fn.Blocks {
		for _, in := range b.Instrs {
			switch x := in.(type) {
			case *ssa.Store:
				if t, f, _, okF := core.FieldRef(x.Addr); okF && t == typ && f == field {
					sl, el, isApp := core.AppendOf(x.Val)
					if !isApp || !isF(sl) {
						if isShrinkCall(x.Val) || core.IsNilConst(x.Val) {
							continue
						}
						return nil // some other write to the field in this function
					}
					els := core.VariadicElems(el)
					if len(els) != 1 || !core.IsNilConst(els[0]) {
						return nil
					}
					grows++
					room := core.AnyFact(func(fc core.Fact) bool {
						return core.CmpFact(fc, func(op token.Token, a, c ssa.Value) bool {
							if op == token.LSS && core.IsLenOf(a, isF) {
								ps.max = c
								return true
							}
							return false
						})
					})
					if core.InstrGuarded(x, room, nil) != nil {
						return nil
					}
				}
			case *ssa.Call:
				if core.CalleeID(x) == "builtin.copy" {
					if sl, isSl := x.Call.Args[0].(*ssa.Slice); isSl && isF(sl.X) && isF(x.Call.Args[1]) {
						if k, isK := core.ConstInt(sl.Low); isK && k == 1 && sl.High == nil {
							shift = x
						}
					}
				}
			case *ssa.UnOp:
				if ia2, isIa := x.X.(*ssa.IndexAddr); isIa && x.Op == token.MUL && isF(ia2.X) {
					if bo, isBo := ia2.Index.(*ssa.BinOp); isBo && bo.Op == token.SUB && core.IsLenOf(bo.X, isF) {
						if k, isK := core.ConstInt(bo.Y); isK && k == 1 {
							ps.removed = x
						}
					}
				}
			}
		}
	}
	if shift == nil || grows != 1 || ps.max == nil || ps.removed == nil {
		return nil
	}
	if core.MustPassBefore(w.Store, func(in ssa.Instruction) bool { return in == shift }) != nil {
		return nil
	}
	// the last slot is read before the shift overwrites it
	if ri, ok := ps.removed.(ssa.Instruction); !ok || core.MustPassBefore(shift, func(in ssa.Instruction) bool { return in == ri }) != nil {
		return nil
	}
	return ps
}

func inlinePush(v ssa.Value) *pushSite {
	ph, ok := v.(*ssa.Phi)
	if !ok || len(ph.Edges) != 2 {
		return nil
	}
	var list ssa.Value
	var app *ssa.Call
	for i, e := range ph.Edges {
		if ac, isC := e.(*ssa.Call); isC && core.CalleeID(ac) == "builtin.append" && ac.Call.Args[0] == ph.Edges[1-i] {
			app, list = ac, ph.Edges[1-i]
		}
	}
	if app == nil {
		return nil
	}
	// the appended element is one nil slot
	el := core.VariadicElems(app.Call.Args[1])
	if len(el) != 1 || !core.IsNilConst(el[0]) {
		return nil
	}
	ps := &pushSite{list: list}
	room := core.AnyFact(func(fc core.Fact) bool {
		return core.CmpFact(fc, func(op token.Token, x, y ssa.Value) bool {
			if op == token.LSS && core.IsLenOf(x, func(v ssa.Value) bool { return v == list }) {
				ps.max = y
				return true
			}
			return false
		})
	})
	if w := core.InstrGuarded(app, room, nil); w != nil || ps.max == nil {
		return nil
	}
	// shift right by one, newcomer at index 0, last slot read before
	shifted := false
	for _, b := range ph.Parent().Blocks {
		for _, in := range b.Instrs {
			switch x := in.(type) {
			case *ssa.Call:
				if core.CalleeID(x) == "builtin.copy" {
					if sl, isSl := x.Call.Args[0].(*ssa.Slice); isSl && sl.X == ssa.Value(ph) && x.Call.Args[1] == ssa.Value(ph) {
						if k, isK := core.ConstInt(sl.Low); isK && k == 1 && sl.High == nil {
							shifted = true
						}
					}
				}
			case *ssa.Store:
				if ia, isIa := x.Addr.(*ssa.IndexAddr); isIa && ia.X == ssa.Value(ph) {
					if k, isK := core.ConstInt(ia.Index); isK && k == 0 {
						ps.newcomer = x.Val
					}
				}
			case *ssa.UnOp:
				if ia, isIa := x.X.(*ssa.IndexAddr); isIa && x.Op == token.MUL && ia.X == ssa.Value(ph) {
					if bo, isBo := ia.Index.(*ssa.BinOp); isBo && bo.Op == token.SUB && core.IsLenOf(bo.X, func(v ssa.Value) bool { return v == ssa.Value(ph) }) {
						if k, isK := core.ConstInt(bo.Y); isK && k == 1 {
							ps.removed = x
						}
					}
				}
			}
		}
	}
	if !shifted || ps.newcomer == nil {
		return nil
	}
	return ps
}
