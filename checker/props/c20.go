package props

import (
	"fmt"
	"go/token"
	"go/types"
	"sort"
	"strings"

	"golang.org/x/tools/go/ssa"

	"verifchk/core"
)

func init() { Registry["C20"] = c20 }

func isCacheCall(ci ssa.CallInstruction, field string, methods ...string) bool {
	id := core.CalleeID(ci)
	ok := false
	for _, m := range methods {
		if strings.HasSuffix(id, "fastcache.(*Cache)."+m) {
			ok = true
		}
	}
	if !ok {
		return false
	}
	_, f, isF := core.LoadedField(ci.Common().Args[0])
	return isF && f == field
}

func c20(c *Ctx) {
	p, r := c.P, c.R
	r.Technique = "constant and slice-bound extraction of the target selection; must-pass-through (cut) checks of the candidate gates; writer/reader agreement of the radius cache key and per-payload-type coverage of ping and pong paths; outcome-independence check (no exit that depends on the ENR refresh result before the radius is recorded)"
	r.Explanation = "Decides: (R1) gossip draws its candidates from the 32 table nodes nearest the content id and offers to candidates[:4] plus at most min(4, rest) of the shuffled rest (so at most 8); (R2) a node becomes a candidate only when its radius was found in the cache, the in-range helper applied to (that node's id, that decoded radius, the content id) is true, and - when a source is given - its id differs from the source; the loop that collects candidates runs over the whole nearest-nodes list (no early exit towards a success return); a candidate's id is compared with the source only where a source is present; the cached radius is decoded little-endian (wire value; shared with C06.R1); (R3) every request enqueued carries the full list built from all key/content pairs; (R4) radius bookkeeping: the radius cache is written only by the one update helper (with the radius taken from the payload) and by manual AddEnr (maximum); the cache key is the node id's string form at every reader and writer; for every ping-extension payload type that carries a data radius both the ping path and the pong path dispatch to a processor that feeds that radius to the update helper; on neither path does an exit depend on the outcome of the ENR refresh that precedes the dispatch (a failed refresh must not drop the reported radius); (R5) pong builders answer with the store's current radius. The call that records a reported radius is not control-dependent on a read of the radius cache. Permit handling is C16. Not decided: randomness quality, 'most recently reported' across concurrent interleavings of pings and pongs."
	r.Assumptions = []string{"fastcache is a faithful map", "findNodesCloseToContent returns nodes ordered by distance (C08.R3)"}
	r.Floor("R1.selection-bounds", 5)
	r.Floor("R2.candidate-gates", 3)
	r.Floor("R3.whole-batch", 1)
	r.Floor("R4.cache-writers", 2)
	r.Floor("R4.cache-key", 4)
	r.Floor("R4.payload-coverage", 6)
	r.Floor("R4.refresh-independence", 2)
	r.Floor("R5.pong-radius", 3)

	// the gossip function: reads the radius cache with HasGet and sends to the offer queue
	var gossip *ssa.Function
	gossipActs := false
	for _, fn := range p.ModuleFuncs() {
		has := false
		core.Calls(fn, func(ci ssa.CallInstruction) {
			if isCacheCall(ci, "radiusCache", "HasGet") {
				has = true
			}
		})
		if has {
			// the gossip function also takes transfer slots / queues offers; a read-only accessor
			// that looks up a radius does not
			acts := core.ReachesInstr(fn, 2, func(in ssa.Instruction) bool {
				switch x := in.(type) {
				case *ssa.Select:
					for _, st := range x.States {
						if _, f, ok := core.LoadedField(st.Chan); ok && f == "offerQueue" {
							return true
						}
					}
				case *ssa.Send:
					if _, f, ok := core.LoadedField(x.Chan); ok && f == "offerQueue" {
						return true
					}
				}
				return false
			})
			if acts || gossip == nil {
				if acts || !gossipActs {
					gossip = fn
				}
				gossipActs = gossipActs || acts
			}
		}
	}
	if gossip == nil {
		r.Fail("R1.selection-bounds", "gossip", "-", "anchor-unresolved: no function reading the radius cache for target selection")
		return
	}
	gname := core.FuncName(gossip)
	// ---- R1
	var candCall *ssa.Call
	core.Calls(gossip, func(ci ssa.CallInstruction) {
		call, ok := ci.(*ssa.Call)
		if !ok {
			return
		}
		f := core.StaticCalleeFn(call)
		if f == nil || !core.InModule(f) {
			return
		}
		rs := f.Signature.Results()
		if rs.Len() == 1 && strings.HasSuffix(rs.At(0).Type().String(), "enode.Node") && strings.HasPrefix(rs.At(0).Type().String(), "[]") {
			if k, isC := core.ConstInt(call.Call.Args[len(call.Call.Args)-1]); isC && k > 0 {
				candCall = call
			}
		}
	})
	if candCall == nil {
		r.Fail("R1.selection-bounds", gname+" candidates", p.Pos(gossip.Pos()), "candidate query not found")
	} else {
		k, _ := core.ConstInt(candCall.Call.Args[len(candCall.Call.Args)-1])
		r.Check(k == 32, "R1.selection-bounds", gname+" nearest-count", p.Pos(candCall.Pos()), "candidates = 32 nearest table nodes", fmt.Sprintf("candidates are drawn from the %d nearest nodes, the property states 32", k))
		if cf := core.StaticCalleeFn(candCall); cf != nil {
			w := unsortedReturn(cf)
			r.Check(w == nil, "R1.selection-bounds", gname+" candidates-ordered", p.Pos(cf.Pos()), "every candidate list passed the sort by distance to the content id (its first four are the closest)", "the candidate list can be returned unsorted, so candidates[:4] are not the closest: "+p.PathString(w))
		}
	}
	// final list: append(gossip[:4], farther[:min(4,len)]...) where farther = gossip[4:]
	okFinal, detail := false, "final target list is not candidates[:4] + at most 4 of the rest"
	for _, b := range gossip.Blocks {
		for _, in := range b.Instrs {
			ap, ok := in.(*ssa.Call)
			if !ok || core.CalleeID(ap) != "builtin.append" {
				continue
			}
			s0, ok0 := ap.Call.Args[0].(*ssa.Slice)
			s1, ok1 := ap.Call.Args[1].(*ssa.Slice)
			if !ok0 || !ok1 {
				continue
			}
			h0, c0 := core.ConstInt(s0.High)
			if s0.High == nil || !c0 || s0.Low != nil {
				continue
			}
			// s1 high = min(K, len(rest))
			mc, isMin := s1.High.(*ssa.Call)
			if !isMin || core.CalleeID(mc) != "builtin.min" {
				detail = "the random part is not bounded by min(4, len(rest))"
				continue
			}
			var k1 int64 = -1
			for _, a := range mc.Call.Args {
				if kk, isC := core.ConstInt(a); isC {
					k1 = kk
				}
			}
			if k1 < 0 {
				// the number of random targets as a setting: whatever it holds is within 0..4
				for _, a := range mc.Call.Args {
					if core.IsLenOf(a, func(ssa.Value) bool { return true }) {
						continue
					}
					if rg := p.RangeOf(a, ap.Block()); rg.HasHi && rg.Hi <= 4 && rg.HasLo && rg.Lo >= 0 {
						k1 = 4
					}
				}
			}
			// rest = gossip[h0:]
			restOK := false
			core.Derives(s1.X, func(v ssa.Value) bool {
				if sl, ok := v.(*ssa.Slice); ok && sl.High == nil {
					if lo, isC := core.ConstInt(sl.Low); isC && lo == h0 && core.SameValue(sl.X, s0.X) {
						restOK = true
					}
				}
				return false
			}, core.DeriveOpts{})
			if h0 == 4 && k1 == 4 && restOK {
				okFinal = true
			} else {
				detail = fmt.Sprintf("targets = candidates[:%d] + min(%d, ...) of the rest (rest starts at the same index: %v); the property states 4 + at most 4", h0, k1, restOK)
			}
			// guard: only when len(gossip) > 4, else the list itself
		}
	}
	r.Check(okFinal, "R1.selection-bounds", gname+" four-plus-four", p.Pos(gossip.Pos()), "targets = candidates[:4] + candidates[4:][:min(4, len)] after shuffling the rest", detail)
	// the alternative branch: len(candidates) <= 4 => all of them
	{
		g := core.AnyFact(func(f core.Fact) bool {
			return core.CmpFact(f, func(op token.Token, x, y ssa.Value) bool {
				k, isC := core.ConstInt(y)
				return isC && core.IsLenOf(x, func(ssa.Value) bool { return true }) && ((op == token.GTR && k == 4) || (op == token.GEQ && k == 5))
			})
		})
		found := false
		for _, b := range gossip.Blocks {
			for i := range b.Succs {
				if g(core.EdgeFacts(b, i)) {
					found = true
				}
			}
		}
		r.Check(found, "R1.selection-bounds", gname+" split-threshold", p.Pos(gossip.Pos()), "the 4+4 split applies when more than 4 candidates exist", "the threshold for splitting closest/random targets is not 4")
	}
	// shuffle applied to the rest
	{
		sh := false
		core.Calls(gossip, func(ci ssa.CallInstruction) {
			if strings.HasSuffix(core.CalleeID(ci), ".Shuffle") {
				sh = true
			}
		})
		r.Check(sh, "R1.selection-bounds", gname+" random-rest", p.Pos(gossip.Pos()), "the rest is shuffled before taking up to 4", "the farther targets are no longer chosen at random")
	}

	// ---- R2: candidate appends
	helpers := inRangeFns(p)
	var candAppends []*ssa.Call
	for _, b := range gossip.Blocks {
		for _, in := range b.Instrs {
			ap, ok := in.(*ssa.Call)
			if !ok || core.CalleeID(ap) != "builtin.append" {
				continue
			}
			if _, isSl := ap.Call.Args[1].(*ssa.Slice); !isSl {
				continue
			}
			if !strings.HasSuffix(ap.Type().String(), "enode.Node") {
				continue
			}
			if len(core.VariadicElems(ap.Call.Args[1])) == 1 {
				candAppends = append(candAppends, ap)
			}
		}
	}
	if len(candAppends) == 0 {
		r.Fail("R2.candidate-gates", gname+" candidate-list", p.Pos(gossip.Pos()), "no candidate list is built")
	}
	// every one of the nearest nodes is considered: the loop that collects the covered nodes runs
	// to the end of the list; leaving it early (e.g. once 8 were found) turns "4 at random among the
	// other covered ones" into "the 5th to 8th nearest, always"
	if len(candAppends) > 0 {
		if loop, header := core.LoopOf(candAppends[0].Block()); header != nil {
			anyExit := func(prev, b *ssa.BasicBlock) bool {
				_, isRet := b.Instrs[len(b.Instrs)-1].(*ssa.Return)
				return isRet && core.SuccessTarget(gossip, nil)(prev, b)
			}
			w := core.LoopEarlyExit(gossip, loop, header, anyExit)
			r.Check(w == nil, "R2.candidate-gates", gname+" all-nearest-considered", p.Pos(candAppends[0].Pos()), "the candidate loop runs over the whole nearest-nodes list", "the candidate loop can stop before the end of the nearest-nodes list and gossip goes on with what was collected: covered nodes farther down the list can never be chosen as random targets: "+p.PathString(w))
		} else {
			r.Fail("R2.candidate-gates", gname+" all-nearest-considered", p.Pos(candAppends[0].Pos()), "the candidate list is not built in a loop over the nearest nodes")
		}
	}
	for i, ap := range candAppends {
		node := core.VariadicElems(ap.Call.Args[1])[0]
		pfx := fmt.Sprintf("%s candidate #%d ", gname, i+1)
		found := core.AnyFact(func(f core.Fact) bool {
			if f.Op != token.ILLEGAL || !f.Truth {
				return false
			}
			ex, ok := f.V.(*ssa.Extract)
			if !ok || ex.Index != 1 {
				return false
			}
			cc, ok := ex.Tuple.(*ssa.Call)
			return ok && isCacheCall(cc, "radiusCache", "HasGet") && keyOfNode(cc.Call.Args[2], node)
		})
		w := core.InstrGuarded(ap, found, nil)
		r.Check(w == nil, "R2.candidate-gates", pfx+"radius-known", p.Pos(ap.Pos()), "only when this node's radius is in the cache", "a node whose radius is unknown can be offered content: "+p.PathString(w))
		inr := core.BoolCallGate("inRange", true, func(c2 *ssa.Call) bool {
			f := core.StaticCalleeFn(c2)
			if f == nil || !containsFn(helpers, f) {
				return false
			}
			a := c2.Call.Args
			idOK := core.Derives(a[0], func(v ssa.Value) bool {
				cc, ok := v.(*ssa.Call)
				return ok && core.CalleeID(cc) == enodeID && core.SameValue(cc.Call.Args[0], node)
			}, core.DeriveOpts{})
			// the radius operand was decoded from the cache hit
			radOK := false
			core.Calls(gossip, func(ci ssa.CallInstruction) {
				if strings.HasPrefix(core.CalleeID(ci), u256Pfx) && core.SameValue(ci.Common().Args[0], a[1]) {
					if core.Derives(ci.Common().Args[1], func(v ssa.Value) bool {
						ex, ok := v.(*ssa.Extract)
						if !ok {
							return false
						}
						cc, ok := ex.Tuple.(*ssa.Call)
						return ok && isCacheCall(cc, "radiusCache", "HasGet")
					}, core.DeriveOpts{}) {
						radOK = true
					}
				}
			})
			return idOK && radOK
		})
		w = core.InstrGuarded(ap, inr.Edge, nil)
		r.Check(w == nil, "R2.candidate-gates", pfx+"covered", p.Pos(ap.Pos()), "only when in-range(node id, its cached radius, content id)", "a node whose reported radius does not cover the content (or another node's radius was used) can be offered it: "+p.PathString(w))
		src := core.AnyFact(func(f core.Fact) bool {
			isSrc := func(v ssa.Value) bool {
				return core.Derives(v, func(x ssa.Value) bool {
					pa, ok := x.(*ssa.Parameter)
					return ok && pa.Parent() == gossip && isPtrToID(pa.Type())
				}, core.DeriveOpts{})
			}
			if f.Op == token.EQL && ((isSrc(f.X) && core.IsNilConst(f.Y)) || (isSrc(f.Y) && core.IsNilConst(f.X))) {
				return true
			}
			if f.Op == token.NEQ {
				isNodeID := func(v ssa.Value) bool {
					cc, ok := v.(*ssa.Call)
					return ok && core.CalleeID(cc) == enodeID && core.SameValue(cc.Call.Args[0], node)
				}
				return (isNodeID(f.X) && isSrc(f.Y)) || (isNodeID(f.Y) && isSrc(f.X))
			}
			return false
		})
		w = core.InstrGuarded(ap, src, nil)
		r.Check(w == nil, "R2.candidate-gates", pfx+"not-source", p.Pos(ap.Pos()), "only when no source is given or the node is not the source", "content can be gossiped back to the node it came from: "+p.PathString(w))
		// an absent source excludes nobody: a candidate's id is compared with the source only where
		// a source is known to be present. Folding "no source" into a zero id makes the node whose
		// id is all zeros (a legal id) unreachable for gossip without a source.
		{
			var srcP *ssa.Parameter
			for _, pa := range gossip.Params {
				if isPtrToID(pa.Type()) {
					srcP = pa
				}
			}
			present := core.AnyFact(func(f core.Fact) bool {
				return srcP != nil && f.Op == token.NEQ && ((f.X == ssa.Value(srcP) && core.IsNilConst(f.Y)) || (f.Y == ssa.Value(srcP) && core.IsNilConst(f.X)))
			})
			var wAbs []*ssa.BasicBlock
			for _, b := range gossip.Blocks {
				for _, in := range b.Instrs {
					bo, ok := in.(*ssa.BinOp)
					if !ok || (bo.Op != token.NEQ && bo.Op != token.EQL) {
						continue
					}
					isNodeID := func(v ssa.Value) bool {
						cc, ok := v.(*ssa.Call)
						return ok && core.CalleeID(cc) == enodeID && core.SameValue(cc.Call.Args[0], node)
					}
					var other ssa.Value
					switch {
					case isNodeID(bo.X):
						other = bo.Y
					case isNodeID(bo.Y):
						other = bo.X
					default:
						continue
					}
					if cc, isCall := core.Unwrap(other).(*ssa.Call); isCall && core.CalleeID(cc) == enodeID {
						continue // compared with another node's id (not a stand-in for the source)
					}
					if w2 := core.InstrGuarded(bo, present, nil); w2 != nil && srcP != nil {
						wAbs = w2
					}
				}
			}
			r.Check(wAbs == nil, "R2.candidate-gates", pfx+"absent-source-excludes-nobody", p.Pos(ap.Pos()), "a candidate's id is compared with the source only where the source is present", "a candidate's id is compared with a stand-in for the source although no source was given: with no source the node whose id equals the stand-in (e.g. the zero id) is never offered the content: "+p.PathString(wAbs))
		}
	}

	// ---- R3 whole batch
	{
		ok := false
		for _, b := range gossip.Blocks {
			for _, in := range b.Instrs {
				st, isSt := in.(*ssa.Store)
				if !isSt {
					continue
				}
				t, f, _, isF := core.FieldRef(st.Addr)
				if !isF || f != "Contents" || t != "TransientOfferRequest" {
					continue
				}
				// the list is built by a loop over len(content) appending entries made of contentKeys[i], content[i]
				list := st.Val
				built := core.Derives(list, func(v ssa.Value) bool {
					ap, isAp := v.(*ssa.Call)
					if !isAp || core.CalleeID(ap) != "builtin.append" {
						return false
					}
					el := core.VariadicElems(ap.Call.Args[1])
					if len(el) != 1 {
						return false
					}
					ent, isAl := el[0].(*ssa.Alloc)
					if !isAl {
						return false
					}
					var kIdx, cIdx ssa.Value
					for _, rf := range *ent.Referrers() {
						fa, isFA := rf.(*ssa.FieldAddr)
						if !isFA {
							continue
						}
						_, fn2, _, _ := core.FieldRef(fa)
						for _, r2 := range *fa.Referrers() {
							if s2, isS := r2.(*ssa.Store); isS {
								if u, isU := s2.Val.(*ssa.UnOp); isU {
									if ia, isIA := u.X.(*ssa.IndexAddr); isIA {
										if _, isP := ia.X.(*ssa.Parameter); isP {
											if fn2 == "ContentKey" {
												kIdx = ia.Index
											} else if fn2 == "Content" {
												cIdx = ia.Index
											}
										}
									}
								}
							}
						}
					}
					return kIdx != nil && kIdx == cIdx
				}, core.DeriveOpts{})
				if built {
					ok = true
				}
			}
		}
		r.Check(ok, "R3.whole-batch", gname, p.Pos(gossip.Pos()), "each offer carries the list of all (key[i], content[i]) pairs", "the offers enqueued do not carry the whole key/content batch paired by index")
	}

	// ---- R4 radius cache writers and key
	var updater *ssa.Function
	for _, fn := range p.ModuleFuncs() {
		n := 0
		core.Calls(fn, func(ci ssa.CallInstruction) {
			if !isCacheCall(ci, "radiusCache", "Set") {
				return
			}
			n++
			key := fmt.Sprintf("%s radius-cache-set #%d", core.FuncName(fn), n)
			val := ci.Common().Args[2]
			fromParam := core.Derives(val, func(v ssa.Value) bool {
				pa, ok := v.(*ssa.Parameter)
				return ok && pa.Parent() == fn && strings.HasSuffix(pa.Type().String(), "Root")
			}, core.DeriveOpts{})
			isMax := core.Derives(val, func(v ssa.Value) bool { g, ok := v.(*ssa.Global); return ok && g.Name() == "MaxDistance" }, core.DeriveOpts{})
			switch {
			case fromParam:
				updater = fn
				r.Pass("R4.cache-writers", key, p.Pos(ci.Pos()), "the update helper stores the radius it was given")
			case isMax:
				r.Pass("R4.cache-writers", key, p.Pos(ci.Pos()), "manual add assumes the maximum radius")
			default:
				r.Fail("R4.cache-writers", key, p.Pos(ci.Pos()), "the radius cache is written with a value that is neither a reported radius nor the maximum")
			}
		})
	}
	if updater == nil {
		r.Fail("R4.cache-writers", "update helper", "-", "no function stores a reported radius in the radius cache")
		return
	}
	// key agreement: every reader/writer key derives from enode.ID.String()
	for _, fn := range p.ModuleFuncs() {
		n := 0
		core.Calls(fn, func(ci ssa.CallInstruction) {
			var keyArg ssa.Value
			switch {
			case isCacheCall(ci, "radiusCache", "Set"):
				keyArg = ci.Common().Args[1]
			case isCacheCall(ci, "radiusCache", "Get", "HasGet"):
				keyArg = ci.Common().Args[2]
			default:
				return
			}
			n++
			ok := derivesFromIDString(keyArg)
			if !ok {
				// a parameter: check the callers
				if pa, isP := keyArg.(*ssa.Parameter); isP {
					ok = true
					idx := -1
					for j, q := range fn.Params {
						if q == pa {
							idx = j
						}
					}
					for _, cs := range p.CallersOfFn(fn) {
						for _, c2 := range cs {
							if !derivesFromIDString(c2.Common().Args[idx]) {
								ok = false
							}
						}
					}
				}
			}
			r.Check(ok, "R4.cache-key", fmt.Sprintf("%s radius-cache-key #%d", core.FuncName(fn), n), p.Pos(ci.Pos()), "key = []byte(node id String())", "the radius cache is keyed differently here than elsewhere (reader and writer disagree)")
		})
	}
	// processors: functions calling the updater with payload.DataRadius
	procByType := map[string]*ssa.Function{}
	direct := map[*ssa.Function]map[string]bool{} // function -> payload types whose radius it feeds to the updater itself
	for fn, cs := range p.CallersOfFn(updater) {
		for _, ci := range cs {
			a := ci.Common().Args
			rad := a[len(a)-1]
			var ptype string
			core.Derives(rad, func(v ssa.Value) bool {
				if t, f, ok := core.LoadedField(v); ok && f == "DataRadius" {
					ptype = t
				}
				return false
			}, core.DeriveOpts{})
			if ptype != "" {
				// the report is recorded whatever the cache holds: "most recently reported" means a
				// later report replaces an earlier one of any payload type, so whether the helper
				// is called must not depend on what is cached for the node already
				stale := ""
				for _, f := range core.DomFacts(ci.Block()) {
					for _, v := range []ssa.Value{f.V, f.X, f.Y} {
						if v != nil && core.Derives(v, func(x ssa.Value) bool {
							cc, ok := x.(*ssa.Call)
							return ok && isCacheCall(cc, "radiusCache", "Has", "Get", "HasGet", "GetBig")
						}, core.DeriveOpts{}) {
							stale = f.String()
						}
					}
				}
				r.Check(stale == "", "R4.payload-coverage", core.FuncName(fn)+" "+ptype+" recorded-whatever-is-cached", p.Pos(ci.Pos()), "the reported radius reaches the update helper independently of the cache's content", "whether this report is recorded depends on what the radius cache already holds ("+stale+"): a later report through this payload type is ignored once any radius is cached, and gossip goes on deciding coverage from the stale value")
				procByType[ptype] = fn
				if direct[fn] == nil {
					direct[fn] = map[string]bool{}
				}
				direct[fn][ptype] = true
			} else {
				r.Fail("R4.payload-coverage", core.FuncName(fn)+" radius-operand", p.Pos(ci.Pos()), "the radius given to the update helper is not the payload's data radius")
			}
		}
	}
	// payload types carrying a radius
	var radTypes []string
	if pk := p.Pkg("portalwire/ping_ext"); pk != nil {
		sc := pk.Types.Scope()
		for _, n := range sc.Names() {
			tn, ok := sc.Lookup(n).(*types.TypeName)
			if !ok {
				continue
			}
			st, ok := tn.Type().Underlying().(*types.Struct)
			if !ok {
				continue
			}
			// wire payloads only (they have an SSZ decoder); the *Json mirrors are RPC views
			if ms := types.NewMethodSet(types.NewPointer(tn.Type())); ms.Lookup(pk.Types, "UnmarshalSSZ") == nil {
				continue
			}
			for i := 0; i < st.NumFields(); i++ {
				if st.Field(i).Name() == "DataRadius" {
					radTypes = append(radTypes, n)
				}
			}
		}
	}
	sort.Strings(radTypes)
	r.Count("radius_payload_types", len(radTypes))
	// dispatchers: functions calling >= 2 processors
	// covered(fn): payload types whose radius is recorded by fn itself (a processor written out in
	// the dispatcher) or by a processor fn hands a payload of that type to
	covered := func(fn *ssa.Function) map[string]bool {
		out := map[string]bool{}
		for t := range direct[fn] {
			out[t] = true
		}
		core.Calls(fn, func(ci ssa.CallInstruction) {
			f := core.StaticCalleeFn(ci)
			if f == nil || f == fn || len(direct[f]) == 0 {
				return
			}
			a := ci.Common().Args
			if len(a) == 0 {
				return
			}
			if pt, isP := a[len(a)-1].Type().(*types.Pointer); isP && direct[f][core.TypeName(pt.Elem())] {
				out[core.TypeName(pt.Elem())] = true
			}
		})
		return out
	}
	var dispatchers []*ssa.Function
	for _, fn := range p.ModuleFuncs() {
		if len(covered(fn)) >= 2 {
			dispatchers = append(dispatchers, fn)
		}
	}
	if len(dispatchers) < 2 {
		r.Fail("R4.payload-coverage", "ping/pong dispatchers", "-", fmt.Sprintf("expected a ping path and a pong path dispatching to the per-payload processors, found %d", len(dispatchers)))
	}
	for _, d := range dispatchers {
		dname := core.FuncName(d)
		cov := covered(d)
		for _, t := range radTypes {
			ok := cov[t]
			r.Check(ok, "R4.payload-coverage", dname+" payload "+t, p.Pos(d.Pos()), "this payload type's radius reaches the radius cache on this path", "a radius reported in a "+t+" payload is not recorded on this path (gossip keeps using an older radius)")
		}
		// refresh independence: no exit depends on the ENR refresh outcome
		core.Calls(d, func(ci ssa.CallInstruction) {
			call, ok := ci.(*ssa.Call)
			if !ok || !strings.HasSuffix(core.CalleeID(call), ").RequestENR") {
				return
			}
			errVals := map[ssa.Value]bool{}
			for _, e := range core.ErrValuesOfCall(call) {
				errVals[e] = true
			}
			for _, b := range d.Blocks {
				ifi, isIf := b.Instrs[len(b.Instrs)-1].(*ssa.If)
				if !isIf {
					continue
				}
				dep := false
				for _, f := range core.Facts(ifi.Cond, true) {
					if f.Op != token.ILLEGAL && (errVals[f.X] || errVals[f.Y]) {
						dep = true
					}
				}
				if !dep {
					continue
				}
				// returns reachable from one side only
				for side := 0; side < 2; side++ {
					other := reachableFrom(b.Succs[1-side])
					w := core.CutReach(core.CutSpec{Fn: d, From: b.Succs[side],
						Target: func(prev, bb *ssa.BasicBlock) bool {
							_, isRet := bb.Instrs[len(bb.Instrs)-1].(*ssa.Return)
							return isRet && !other[bb]
						},
						NoEnter: func(bb *ssa.BasicBlock) bool { return other[bb] }})
					if other[b.Succs[side]] {
						w = nil
					}
					r.Check(w == nil, "R4.refresh-independence", fmt.Sprintf("%s after-ENR-refresh side %d", dname, side), p.Pos(call.Pos()),
						"no exit depends on whether the ENR refresh succeeded", "the payload (and the radius it reports) is dropped depending on the outcome of the ENR refresh: "+p.PathString(w))
				}
			}
		})
	}

	// ---- R5 pong builders use the store's radius
	for _, fn := range p.ModuleFuncs() {
		rs := fn.Signature.Results()
		if rs.Len() != 2 || core.TypeName(rs.At(0).Type()) != "Pong" {
			continue
		}
		ok := false
		core.Calls(fn, func(ci ssa.CallInstruction) {
			if core.CalleeID(ci) == u256Pfx+"MarshalSSZ" {
				if core.Derives(ci.Common().Args[0], func(v ssa.Value) bool {
					cc, isC := v.(*ssa.Call)
					if !isC {
						return false
					}
					if cc.Call.IsInvoke() && cc.Call.Method.Name() == "Radius" {
						return true
					}
					return strings.HasSuffix(core.CalleeID(cc), ").Radius")
				}, core.DeriveOpts{}) {
					ok = true
				}
			}
		})
		r.Check(ok, "R5.pong-radius", core.FuncName(fn), p.Pos(fn.Pos()), "answers with the SSZ (little-endian) encoding of the store's current radius", "the pong does not carry the store's current radius")
	}
	errorsExamined(c, "R6.errors-examined", "gossip and radius bookkeeping", []string{"portalwire"}, ".GossipAndReturnPeers", ".processPing", ".processPongPayload", ".processBasicRadius", ".processClientInfo", ".processHistoryRadius", ".updateRadiusCacheIfNeeded", ".handlePing")
}

func reachableFrom(b *ssa.BasicBlock) map[*ssa.BasicBlock]bool {
	seen := map[*ssa.BasicBlock]bool{}
	st := []*ssa.BasicBlock{b}
	for len(st) > 0 {
		x := st[len(st)-1]
		st = st[:len(st)-1]
		if seen[x] {
			continue
		}
		seen[x] = true
		st = append(st, x.Succs...)
	}
	return seen
}

func isPtrToID(t types.Type) bool {
	pt, ok := t.(*types.Pointer)
	return ok && core.QualTypeName(pt.Elem()) == "github.com/ethereum/go-ethereum/p2p/enode.ID"
}

func derivesFromIDString(v ssa.Value) bool {
	return core.Derives(v, func(x ssa.Value) bool {
		cc, ok := x.(*ssa.Call)
		return ok && core.CalleeID(cc) == "github.com/ethereum/go-ethereum/p2p/enode.(ID).String"
	}, core.DeriveOpts{})
}

// keyOfNode: key derives from node.ID().String()
func keyOfNode(key, node ssa.Value) bool {
	return core.Derives(key, func(x ssa.Value) bool {
		cc, ok := x.(*ssa.Call)
		if !ok || core.CalleeID(cc) != "github.com/ethereum/go-ethereum/p2p/enode.(ID).String" {
			return false
		}
		return core.Derives(cc.Call.Args[0], func(y ssa.Value) bool {
			c2, ok := y.(*ssa.Call)
			return ok && core.CalleeID(c2) == enodeID && core.SameValue(c2.Call.Args[0], node)
		}, core.DeriveOpts{})
	}, core.DeriveOpts{})
}
