package props

import (
	"fmt"
	"go/token"
	"go/types"
	"sort"
	"strings"

	"golang.org/x/tools/go/ssa"

	"verifchk/core"
)

func init() { Registry["C10"] = c10 }

func isLookupField(v ssa.Value, field string) bool {
	return core.IsLoadOfField(v, "lookup", field)
}

func storesToLookupField(fn *ssa.Function, field string) []*ssa.Store {
	var out []*ssa.Store
	for _, b := range fn.Blocks {
		for _, in := range b.Instrs {
			if st, ok := in.(*ssa.Store); ok {
				if t, f, _, ok := core.FieldRef(st.Addr); ok && t == "lookup" && f == field {
					out = append(out, st)
				}
			}
		}
	}
	return out
}

func c10(c *Ctx) {
	p, r := c.P, c.R
	r.Technique = "must-pass-through (cut) checks around the only query-spawn site and around every lookup-ending exit; pairing of the in-flight counter's increments/decrements with spawns/consumed replies; exactly-one-reply path check of the query goroutine; bounded sorted insertion check; CAS-gated result and close-after-drain ordering of the content lookup"
	r.Explanation = "Decides: (R1) the only site that spawns a query is reached only under !asked[id] of the node it queries and marks asked[id] = true first; the constructor marks the local id asked; (R2) the spawn loop is guarded by queries < alpha with alpha = 3 (strict), every spawn increments the in-flight counter in the same step, every reply consumed (in advance and in shutdown) decrements it, and the reply channel's capacity is alpha; (R3) the query goroutine sends exactly one reply on every path; (R4) results enter only through the sorted push whose growth is bounded by len < max with max = 16 and whose position comes from DistCmp against the target; nodes are pushed only when not seen (and marked seen); (R5) content lookup: the result send and cancel() happen only after a successful compare-and-swap 0->1 of the shared flag, the workers touch that flag through their pointer only with CompareAndSwap or Load (it stays a 0/1 flag for the owner's test), close(resultChannel) comes after run() has returned, and the result is read only after the collector goroutine was joined; (R6) a lookup step reports 'ended' only when no query is in flight: a constant false from the spawn step is returned only after shutdown cleared the query function, shutdown clears it only after draining one reply per in-flight query, and advance ends only when the spawn step said so; the timer pause for an empty table is not taken inside a loop. The in-flight counter is exact (every store is the initial value, the seeding step, +1, or -1 after a received reply); the loop that pushes a reply's nodes has no exit but the end of the reply. Not decided: termination and 'no closer seen node omitted' over all peer graphs and reply orders."
	r.Assumptions = []string{"enode.DistCmp orders by XOR distance", "sort.Search returns the insertion point", "atomic.CompareAndSwapInt32"}
	r.Floor("R1.ask-once", 3)
	r.Floor("R2.alpha-bound", 5)
	r.Floor("R2.counter-exact", 4)
	r.Floor("R3.one-reply", 2)
	r.Floor("R4.bounded-result", 4)
	r.Floor("R5.content-lookup", 4)
	r.Floor("R6.ends-when-drained", 3)

	// the spawn site: `go <method of lookup>(...)`
	var SQ *ssa.Function
	var spawn *ssa.Go
	for _, fn := range p.ModuleFuncs() {
		if fn.Signature.Recv() == nil || core.TypeName(fn.Signature.Recv().Type()) != "lookup" {
			continue
		}
		for _, b := range fn.Blocks {
			for _, in := range b.Instrs {
				if g, ok := in.(*ssa.Go); ok {
					if cf := core.StaticCalleeFn(g); cf != nil && cf.Signature.Recv() != nil && core.TypeName(cf.Signature.Recv().Type()) == "lookup" {
						if spawn != nil {
							r.Fail("R1.ask-once", "second spawn site in "+core.FuncName(fn), p.Pos(g.Pos()), "queries are spawned at more than one site")
						}
						SQ, spawn = fn, g
					}
				}
			}
		}
	}
	if SQ == nil {
		r.Fail("R1.ask-once", "spawn site", "-", "anchor-unresolved: no goroutine spawn of a lookup method")
		return
	}
	sname := core.FuncName(SQ)
	queryFn := core.StaticCalleeFn(spawn)
	node := spawn.Call.Args[1]
	// ---- R1
	idOfNode := func(v ssa.Value) bool {
		cc, ok := v.(*ssa.Call)
		return ok && core.CalleeID(cc) == enodeID && cc.Call.Args[0] == node
	}
	notAsked := core.AnyFact(func(f core.Fact) bool {
		set, key, ok := core.SetAbsent(f)
		return ok && isLookupField(set, "asked") && idOfNode(key)
	})
	w := core.InstrGuarded(spawn, notAsked, nil)
	r.Check(w == nil, "R1.ask-once", sname+" not-asked-before", p.Pos(spawn.Pos()), "a query is spawned only for a node with asked[id] == false", "a peer can be queried twice: "+p.PathString(w))
	w = core.MustPassBefore(spawn, func(in ssa.Instruction) bool {
		set, key, ok := core.SetAdd(in)
		return ok && isLookupField(set, "asked") && idOfNode(key)
	})
	r.Check(w == nil, "R1.ask-once", sname+" marks-asked", p.Pos(spawn.Pos()), "asked[id] = true precedes the spawn", "a node is queried without being marked as asked: "+p.PathString(w))
	// constructor marks self
	{
		ok := false
		for _, fn := range p.ModuleFuncs() {
			for _, b := range fn.Blocks {
				for _, in := range b.Instrs {
					set, key, isAdd := core.SetAdd(in)
					if !isAdd {
						continue
					}
					if !isLookupField(set, "asked") {
						// map literal form: asked: map[ID]bool{self: true} - the fresh map that
						// receives the entry is the one stored into the field
						mm, isMM := set.(*ssa.MakeMap)
						if !isMM || storedInto(mm) != "asked" {
							continue
						}
					}
					if core.Derives(key, func(v ssa.Value) bool {
						cc, ok := v.(*ssa.Call)
						return ok && (strings.HasSuffix(core.CalleeID(cc), ").self") || strings.HasSuffix(core.CalleeID(cc), ".Self"))
					}, core.DeriveOpts{ThroughCalls: true}) {
						if fn != SQ {
							ok = true
						}
					}
				}
			}
		}
		r.Check(ok, "R1.ask-once", "constructor marks-local-id", "-", "the local id is marked asked when the lookup is created", "the local node is not excluded from being queried")
	}
	// the node queried is an element of the result list
	{
		ok := core.Derives(node, func(v ssa.Value) bool { return core.IsLoadOfField(v, "nodesByDistance", "entries") }, core.DeriveOpts{})
		r.Check(ok, "R1.ask-once", sname+" queries-result-entries", p.Pos(spawn.Pos()), "the node queried is taken from the sorted result list (closest first)", "the node queried does not come from the sorted result list")
	}

	// ---- R2
	alpha := int64(3)
	lt := core.AnyFact(func(f core.Fact) bool {
		return core.CmpFact(f, func(op token.Token, x, y ssa.Value) bool {
			k, isC := core.ConstInt(y)
			if !isC && isLookupField(x, "queries") && (op == token.LSS || op == token.LEQ) {
				// the bound as a setting: every value it can take is within 1..3
				if rg := p.RangeOf(y, nil); rg.HasHi && rg.HasLo && rg.Lo >= 1 && ((op == token.LSS && rg.Hi <= float64(alpha)) || (op == token.LEQ && rg.Hi <= float64(alpha-1))) {
					return true
				}
			}
			return isC && isLookupField(x, "queries") && ((op == token.LSS && k == alpha) || (op == token.LEQ && k == alpha-1))
		})
	})
	w = core.InstrGuarded(spawn, lt, nil)
	r.Check(w == nil, "R2.alpha-bound", sname+" spawn-under-alpha", p.Pos(spawn.Pos()), "a query is spawned only under queries < 3", "more than 3 queries can be in flight: "+p.PathString(w))
	// increment in the same block as the spawn
	{
		ok := false
		// paired with the spawn: in its block, or such that the one is never executed without the
		// other (a metrics block may sit between the two)
		paired := func(st *ssa.Store) bool {
			if st.Block() == spawn.Block() {
				return true
			}
			isSpawn := func(in ssa.Instruction) bool { return in == ssa.Instruction(spawn) }
			isInc := func(in ssa.Instruction) bool { return in == ssa.Instruction(st) }
			if st.Parent() != spawn.Parent() {
				return false
			}
			return (core.MustPassAfter(st, isSpawn) == nil && core.MustPassBefore(spawn, isInc) == nil) ||
				(core.MustPassAfter(spawn, isInc) == nil && core.MustPassBefore(st, isSpawn) == nil)
		}
		for _, st := range storesToLookupField(SQ, "queries") {
			if !paired(st) {
				continue
			}
			if bo, isBo := st.Val.(*ssa.BinOp); isBo && bo.Op == token.ADD && isLookupField(bo.X, "queries") {
				if k, isC := core.ConstInt(bo.Y); isC && k == 1 {
					ok = true
				}
			}
		}
		r.Check(ok, "R2.alpha-bound", sname+" spawn-increments", p.Pos(spawn.Pos()), "each spawn increments the in-flight counter in the same step", "a query is spawned without counting it as in flight")
		// no other increments
		for _, fn := range p.ModuleFuncs() {
			for _, st := range storesToLookupField(fn, "queries") {
				bo, isBo := st.Val.(*ssa.BinOp)
				if isBo && bo.Op == token.ADD && !paired(st) {
					r.Fail("R2.alpha-bound", core.FuncName(fn)+" stray-increment", p.Pos(st.Pos()), "the in-flight counter is incremented away from the spawn")
				}
			}
		}
	}
	// every receive from replyCh in lookup methods is followed by a decrement; every decrement follows a receive
	for _, fn := range p.ModuleFuncs() {
		if fn.Signature.Recv() == nil || core.TypeName(fn.Signature.Recv().Type()) != "lookup" {
			continue
		}
		var recvs []ssa.Instruction
		for _, b := range fn.Blocks {
			for _, in := range b.Instrs {
				switch x := in.(type) {
				case *ssa.UnOp:
					if x.Op == token.ARROW && isLookupField(x.X, "replyCh") {
						recvs = append(recvs, x)
					}
				case *ssa.Select:
					for _, st := range x.States {
						if st.Dir == types.RecvOnly && isLookupField(st.Chan, "replyCh") {
							recvs = append(recvs, x)
						}
					}
				}
			}
		}
		isDec := func(in ssa.Instruction) bool {
			st, ok := in.(*ssa.Store)
			if !ok {
				return false
			}
			if t, f, _, ok := core.FieldRef(st.Addr); !ok || t != "lookup" || f != "queries" {
				return false
			}
			bo, ok := st.Val.(*ssa.BinOp)
			if !ok || bo.Op != token.SUB || !isLookupField(bo.X, "queries") {
				return false
			}
			k, isC := core.ConstInt(bo.Y)
			return isC && k == 1
		}
		for i, rv := range recvs {
			key := fmt.Sprintf("%s reply-consumed #%d", core.FuncName(fn), i+1)
			var w []*ssa.BasicBlock
			if sel, ok := rv.(*ssa.Select); ok {
				// only on the edge where the reply case was taken
				idx := -1
				for si, st := range sel.States {
					if st.Dir == types.RecvOnly && isLookupField(st.Chan, "replyCh") {
						idx = si
					}
				}
				decBlocks := core.BlocksWith(fn, isDec)
				for _, b := range fn.Blocks {
					for si := range b.Succs {
						for _, f := range core.EdgeFacts(b, si) {
							if f.Op == token.EQL {
								if ex, ok := f.X.(*ssa.Extract); ok && ex.Tuple == ssa.Value(sel) && ex.Index == 0 {
									if k, isC := core.ConstInt(f.Y); isC && int(k) == idx {
										start := b.Succs[si]
										if !decBlocks[start] {
											w = core.CutReach(core.CutSpec{Fn: fn, From: start,
												Cut: func(bb *ssa.BasicBlock, j int) bool { return decBlocks[bb.Succs[j]] },
												Target: func(prev, bb *ssa.BasicBlock) bool {
													if prev == nil {
														return false
													}
													_, isRet := bb.Instrs[len(bb.Instrs)-1].(*ssa.Return)
													return isRet || bb == sel.Block()
												}})
										}
									}
								}
							}
						}
					}
				}
			} else {
				w = core.MustPassAfter(rv, isDec)
			}
			r.Check(w == nil, "R2.alpha-bound", key+" decrements", p.Pos(core.InstrPos(rv)), "every reply taken off the channel decrements the in-flight counter before the step ends", "a reply can be consumed without decrementing the in-flight counter (the lookup then waits for a reply that never comes or over-spawns): "+p.PathString(w))
		}
	}
	lookupCounterExact(c, "R2.counter-exact")
	// reply channel capacity
	{
		ok := false
		for _, fn := range p.ModuleFuncs() {
			for _, b := range fn.Blocks {
				for _, in := range b.Instrs {
					mc, isMc := in.(*ssa.MakeChan)
					if !isMc {
						continue
					}
					if storedInto(mc) == "replyCh" {
						if k, isC := core.ConstInt(mc.Size); isC && k >= alpha {
							ok = true
						}
					}
				}
			}
		}
		r.Check(ok, "R2.alpha-bound", "reply channel capacity", "-", "capacity >= 3: no query goroutine blocks on its reply", "the reply channel holds fewer than alpha replies: query goroutines can block after a cancelled lookup")
	}
	if v, ok := p.PkgConstInt("portalwire", "alpha"); ok {
		r.Check(v == alpha, "R2.alpha-bound", "alpha", "-", "= 3", fmt.Sprintf("alpha is %d, the property states 3", v))
	}

	// ---- R1b one request per query: the lookup counts one query per peer; the function that
	// performs it must put at most one request on the wire for that peer (a retry inside the
	// worker asks the peer twice within one counted query)
	{
		sendsRequest := func(f *ssa.Function) bool {
			return f != nil && core.InModule(f) && core.ReachesInstr(f, 3, func(in ssa.Instruction) bool {
				ci, ok := in.(ssa.CallInstruction)
				return ok && strings.HasSuffix(core.CalleeID(ci), ".TalkRequest")
			})
		}
		// workers: module functions handed (directly or wrapped in a closure) to the lookup as its query function
		workers := map[*ssa.Function]bool{}
		for _, fn := range p.ModuleFuncs() {
			for _, b := range fn.Blocks {
				for _, in := range b.Instrs {
					st, ok := in.(*ssa.Store)
					if !ok {
						continue
					}
					if _, f, _, ok := core.FieldRef(st.Addr); !ok || f != "queryfunc" {
						continue
					}
					var q *ssa.Function
					switch v := core.Unwrap(st.Val).(type) {
					case *ssa.MakeClosure:
						q = v.Fn.(*ssa.Function)
					case *ssa.Function:
						q = v
					case *ssa.Parameter:
						// newLookup(..., q queryFunc): the arguments at its call sites
						for cf, sites := range p.CallersOfFn(fn) {
							_ = cf
							for _, cs := range sites {
								for i, pa := range fn.Params {
									if pa == v && i < len(cs.Common().Args) {
										switch a := core.Unwrap(cs.Common().Args[i]).(type) {
										case *ssa.MakeClosure:
											workers[a.Fn.(*ssa.Function)] = true
										case *ssa.Function:
											workers[a] = true
										}
									}
								}
							}
						}
					}
					if q != nil {
						workers[q] = true
					}
				}
			}
		}
		// a closure that only forwards to a method: that method is the worker
		for w := range workers {
			core.Calls(w, func(ci ssa.CallInstruction) {
				if f := core.StaticCalleeFn(ci); f != nil && core.InModule(f) && sendsRequest(f) && !workers[f] {
					direct := false
					core.Calls(f, func(c2 ssa.CallInstruction) {
						if strings.HasSuffix(core.CalleeID(c2), ".TalkRequest") {
							direct = true
						}
					})
					if !direct {
						workers[f] = true
					}
				}
			})
		}
		nw := 0
		for _, w := range core.SortedFuncs(map[*ssa.Function][]ssa.CallInstruction(nil)) {
			_ = w
		}
		var ws []*ssa.Function
		for w := range workers {
			ws = append(ws, w)
		}
		sort.Slice(ws, func(i, j int) bool { return ws[i].String() < ws[j].String() })
		for _, w := range ws {
			var reqs []ssa.CallInstruction
			core.Calls(w, func(ci ssa.CallInstruction) {
				if f := core.StaticCalleeFn(ci); f != nil && !workers[f] && sendsRequest(f) {
					reqs = append(reqs, ci)
				}
			})
			if len(reqs) == 0 {
				continue
			}
			nw++
			bad := ""
			for _, a := range reqs {
				if core.InLoop(a.Block()) {
					bad = "a request is sent inside a loop"
				}
				for _, b := range reqs {
					if a != b && core.MayFollow(a, b) {
						bad = "a second request can follow the first on the same path (" + p.Pos(b.Pos()) + " after " + p.Pos(a.Pos()) + ")"
					}
				}
			}
			r.Check(bad == "", "R1.ask-once", core.FuncName(w)+" one-request-per-query", p.Pos(w.Pos()), "at most one request is put on the wire per counted query", "a peer can be asked more than once within one query of the lookup: "+bad)
		}
		if nw == 0 {
			r.Fail("R1.ask-once", "query workers one-request-per-query", "-", "anchor-unresolved: no query function that sends a request was found")
		}
	}

	// ---- R3 exactly one reply
	{
		qname := core.FuncName(queryFn)
		reply := queryFn.Params[len(queryFn.Params)-1]
		isSend := func(in ssa.Instruction) bool {
			s, ok := in.(*ssa.Send)
			// on the channel it was handed, or on the lookup's reply channel itself (the field
			// is assigned once, in the constructor)
			return ok && (s.Chan == ssa.Value(reply) || isLookupField(s.Chan, "replyCh"))
		}
		sb := core.BlocksWith(queryFn, isSend)
		// deferred form: `defer func() { reply <- r }()` registered in the entry block, before any
		// exit, and no other send: every exit then runs exactly that one send
		deferredOnce := false
		if len(sb) == 0 && len(queryFn.Blocks) > 0 {
			for _, in := range queryFn.Blocks[0].Instrs {
				d, ok := in.(*ssa.Defer)
				if !ok {
					continue
				}
				mc, ok := d.Call.Value.(*ssa.MakeClosure)
				if !ok {
					continue
				}
				cf := mc.Fn.(*ssa.Function)
				nSend, okShape := 0, len(cf.Blocks) == 1
				for _, cb := range cf.Blocks {
					for _, cin := range cb.Instrs {
						sd, ok := cin.(*ssa.Send)
						if !ok {
							continue
						}
						nSend++
						// the channel is the captured reply parameter, the value the captured result cell
						ch := sd.Chan
						if u, isLd := ch.(*ssa.UnOp); isLd && u.Op == token.MUL {
							ch = u.X
						}
						fv, isFv := ch.(*ssa.FreeVar)
						bound := false
						if isFv {
							for bi, v := range cf.FreeVars {
								if v == fv && bi < len(mc.Bindings) {
									b := mc.Bindings[bi]
									if b == ssa.Value(reply) || core.ParamOf(b) == reply {
										bound = true
									}
									if al, isAl := b.(*ssa.Alloc); isAl {
										for _, rf := range *al.Referrers() {
											if st, isSt := rf.(*ssa.Store); isSt && st.Addr == ssa.Value(al) && st.Val == ssa.Value(reply) {
												bound = true
											}
										}
									}
								}
							}
						}
						if !bound {
							okShape = false
						}
					}
				}
				if okShape && nSend == 1 {
					deferredOnce = true
				}
			}
		}
		if deferredOnce {
			r.Pass("R3.one-reply", qname+" at-least-one", p.Pos(queryFn.Pos()), "the reply is sent by a deferred call registered before any exit")
		}
		w := core.CutReach(core.CutSpec{Fn: queryFn, Cut: func(b *ssa.BasicBlock, i int) bool { return sb[b.Succs[i]] },
			Target: func(prev, b *ssa.BasicBlock) bool {
				_, isRet := b.Instrs[len(b.Instrs)-1].(*ssa.Return)
				return isRet && !sb[b]
			}})
		if sb[queryFn.Blocks[0]] {
			w = nil
		}
		if !deferredOnce {
			r.Check(w == nil, "R3.one-reply", qname+" at-least-one", p.Pos(queryFn.Pos()), "every path of the query goroutine sends a reply", "a query can finish without replying (the lookup waits forever): "+p.PathString(w))
		}
		n := 0
		inLoop := false
		for b := range sb {
			for _, in := range b.Instrs {
				if isSend(in) {
					n++
				}
			}
			if core.InLoop(b) {
				inLoop = true
			}
		}
		// two send blocks on one path?
		multi := false
		for b1 := range sb {
			for b2 := range sb {
				if b1 != b2 && reaches(b1, b2) {
					multi = true
				}
			}
		}
		r.Check(deferredOnce || (n >= 1 && !inLoop && !multi && n == len(sb)), "R3.one-reply", qname+" at-most-one", p.Pos(queryFn.Pos()), "no path sends two replies", "a query can reply more than once (the in-flight counter underflows)")
		// the reply is what the query function returned
		okVal := false
		for b := range sb {
			for _, in := range b.Instrs {
				if s, ok := in.(*ssa.Send); ok && isSend(in) {
					if ex, ok := s.X.(*ssa.Extract); ok && ex.Index == 0 {
						okVal = true
					}
				}
			}
		}
		r.Check(okVal || deferredOnce, "R3.one-reply", qname+" replies-result", p.Pos(queryFn.Pos()), "the reply is the node list the query function returned", "the reply is not the query's result")
	}

	// ---- R4 bounded sorted push
	var push *ssa.Function
	for _, fn := range p.ModuleFuncs() {
		if fn.Signature.Recv() != nil && core.TypeName(fn.Signature.Recv().Type()) == "nodesByDistance" && len(fn.Params) == 3 {
			push = fn
		}
	}
	if push == nil {
		r.Fail("R4.bounded-result", "sorted push", "-", "anchor-unresolved")
	} else {
		pname := core.FuncName(push)
		maxP := push.Params[2]
		for _, b := range push.Blocks {
			for _, in := range b.Instrs {
				ap, ok := in.(*ssa.Call)
				if !ok || core.CalleeID(ap) != "builtin.append" {
					continue
				}
				g := core.AnyFact(func(f core.Fact) bool {
					return core.CmpFact(f, func(op token.Token, x, y ssa.Value) bool {
						return op == token.LSS && y == ssa.Value(maxP) && core.IsLenOf(x, func(v ssa.Value) bool { return core.IsLoadOfField(v, "nodesByDistance", "entries") })
					})
				})
				w := core.InstrGuarded(ap, g, nil)
				r.Check(w == nil, "R4.bounded-result", pname+" growth-bounded", p.Pos(ap.Pos()), "the list grows only under len(entries) < max", "the result list can grow beyond its bound: "+p.PathString(w))
			}
		}
		// position from DistCmp(target, entries[i], n) > 0
		okPos := false
		core.Calls(push, func(ci ssa.CallInstruction) {
			if core.CalleeID(ci) != "sort.Search" {
				return
			}
			if mc, ok := ci.Common().Args[1].(*ssa.MakeClosure); ok {
				f := mc.Fn.(*ssa.Function)
				for _, ret := range core.Returns(f) {
					bo, ok := ret.Results[0].(*ssa.BinOp)
					if !ok {
						continue
					}
					cc, ok := bo.X.(*ssa.Call)
					if !ok || !strings.HasSuffix(core.CalleeID(cc), "enode.DistCmp") || len(cc.Call.Args) != 3 {
						continue
					}
					k, isC := core.ConstInt(bo.Y)
					if !isC {
						continue
					}
					isEntry := func(v ssa.Value) bool {
						return core.Derives(v, func(x ssa.Value) bool { return core.IsLoadOfField(x, "nodesByDistance", "entries") }, core.DeriveOpts{ThroughCalls: true})
					}
					a, b := cc.Call.Args[1], cc.Call.Args[2]
					// first entry farther from the target than the new node:
					// DistCmp(t, entry, n) > 0   or   DistCmp(t, n, entry) < 0
					farther := (bo.Op == token.GTR && k == 0) || (bo.Op == token.GEQ && k == 1)
					closer := (bo.Op == token.LSS && k == 0) || (bo.Op == token.LEQ && k == -1)
					if (farther && isEntry(a) && !isEntry(b)) || (closer && isEntry(b) && !isEntry(a)) {
						okPos = true
					}
				}
			}
		})
		// library form: slices.BinarySearchFunc(entries, n, func(e, n) int { +1 iff DistCmp(t, e, n) > 0, else -1 })
		// (never 0, so the position is the first entry strictly farther than the new node)
		core.Calls(push, func(ci ssa.CallInstruction) {
			if core.CalleeID(ci) != "slices.BinarySearchFunc" || len(ci.Common().Args) != 3 {
				return
			}
			if !core.Derives(ci.Common().Args[0], func(x ssa.Value) bool { return core.IsLoadOfField(x, "nodesByDistance", "entries") }, core.DeriveOpts{}) {
				return
			}
			mc, ok := ci.Common().Args[2].(*ssa.MakeClosure)
			if !ok {
				return
			}
			f := mc.Fn.(*ssa.Function)
			if len(f.Params) != 2 {
				return
			}
			from := func(v ssa.Value, pa *ssa.Parameter) bool {
				return core.Derives(v, func(x ssa.Value) bool { return x == ssa.Value(pa) }, core.DeriveOpts{ThroughCalls: true})
			}
			// polarity of a fact about DistCmp(target, a, b): +1 "the entry is farther", -1 "it is not", 0 unrelated
			pol := func(fc core.Fact) int {
				out := 0
				core.CmpFact(fc, func(op token.Token, x, y ssa.Value) bool {
					cc, ok := x.(*ssa.Call)
					k, isC := core.ConstInt(y)
					if !ok || !isC || !strings.HasSuffix(core.CalleeID(cc), "enode.DistCmp") || len(cc.Call.Args) != 3 {
						return false
					}
					a, b := cc.Call.Args[1], cc.Call.Args[2]
					gt := (op == token.GTR && k == 0) || (op == token.GEQ && k == 1)
					le := (op == token.LEQ && k == 0) || (op == token.LSS && k == 1)
					lt := (op == token.LSS && k == 0) || (op == token.LEQ && k == -1)
					ge := (op == token.GEQ && k == 0) || (op == token.GTR && k == -1)
					switch {
					case from(a, f.Params[0]) && from(b, f.Params[1]) && gt, from(a, f.Params[1]) && from(b, f.Params[0]) && lt:
						out = 1
					case from(a, f.Params[0]) && from(b, f.Params[1]) && le, from(a, f.Params[1]) && from(b, f.Params[0]) && ge:
						out = -1
					}
					return false
				})
				return out
			}
			farther := core.AnyFact(func(fc core.Fact) bool { return pol(fc) == 1 })
			notFarther := core.AnyFact(func(fc core.Fact) bool { return pol(fc) == -1 })
			okAll, nPos := true, 0
			for _, ret := range core.Returns(f) {
				k, isC := core.ConstInt(core.ResolveSpill(ret.Results[0]))
				switch {
				case !isC || k == 0:
					okAll = false
				case k > 0:
					nPos++
					if core.InstrGuarded(ret, farther, nil) != nil {
						okAll = false
					}
				default:
					if core.InstrGuarded(ret, notFarther, nil) != nil {
						okAll = false
					}
				}
			}
			if okAll && nPos > 0 {
				okPos = true
			}
		})
		r.Check(okPos, "R4.bounded-result", pname+" sorted-position", p.Pos(push.Pos()), "insertion point = first entry farther from the target than the new node (DistCmp > 0)", "the insertion point is not derived from the XOR distance comparison")
		// call sites in lookup methods pass 16 and only unseen nodes
		for fn, cs := range p.CallersOfFn(push) {
			if fn.Signature.Recv() == nil || core.TypeName(fn.Signature.Recv().Type()) != "lookup" {
				continue
			}
			for _, ci := range cs {
				k, isC := core.ConstInt(ci.Common().Args[2])
				r.Check(isC && k == 16, "R4.bounded-result", core.FuncName(fn)+" push-bound", p.Pos(ci.Pos()), "lookup results are bounded by 16", fmt.Sprintf("lookup results are bounded by %d, the property states 16", k))
				n := ci.Common().Args[1]
				unseen := core.AnyFact(func(f core.Fact) bool {
					set, key, ok := core.SetAbsent(f)
					if !ok || !isLookupField(set, "seen") {
						return false
					}
					cc, ok := key.(*ssa.Call)
					return ok && core.CalleeID(cc) == enodeID && cc.Call.Args[0] == n
				})
				w := core.InstrGuarded(ci, unseen, nil)
				r.Check(w == nil, "R4.bounded-result", core.FuncName(fn)+" push-unseen-only", p.Pos(ci.Pos()), "a node is pushed only when seen[id] == false", "a node can be pushed twice (duplicates in the result): "+p.PathString(w))
				marksSeen := func(in ssa.Instruction) bool {
					set, key, ok := core.SetAdd(in)
					if !ok || !isLookupField(set, "seen") {
						return false
					}
					cc, ok := key.(*ssa.Call)
					return ok && core.CalleeID(cc) == enodeID && cc.Call.Args[0] == n
				}
				if w == nil {
					wb, wa := core.MustPassBefore(ci, marksSeen), core.MustPassAfter(ci, marksSeen)
					okM := wb == nil || wa == nil
					r.Check(okM, "R4.bounded-result", core.FuncName(fn)+" push-marks-seen", p.Pos(ci.Pos()), "a pushed node's id is added to the seen set", "a pushed node is not remembered as seen, so a later reply naming it again pushes it twice: "+p.PathString(wb))
				}
				// every node of a reply is looked at: the scan that pushes them runs to the end of
				// the reply. Replies are in whatever order the peer chose, so leaving the scan at the
				// first node that does not fit drops closer nodes listed after it
				if loop, header := core.LoopOf(ci.Block()); header != nil {
					we := core.LoopEarlyExit(fn, loop, header, func(prev, b *ssa.BasicBlock) bool { return prev != nil && !loop[b] })
					r.Check(we == nil, "R4.bounded-result", core.FuncName(fn)+" whole-reply-scanned", p.Pos(ci.Pos()), "the loop that pushes a reply's nodes has no exit but the end of the reply", "the scan of a reply can stop before its end: a closer node listed after the point where it stops is never seen, pushed or queried (peers order their replies as they like): "+p.PathString(we))
				} else {
					r.Fail("R4.bounded-result", core.FuncName(fn)+" whole-reply-scanned", p.Pos(ci.Pos()), "the nodes of a reply are not pushed in a loop over the reply")
				}
			}
		}
	}

	// ---- R7 a lookup waits a bounded number of times: the pause taken when the table has nothing
	// to offer (a timer wait) is not repeated in a loop - a loop that sleeps until the table
	// fills never ends on a node that knows nobody, and does not see the lookup being cancelled
	{
		nW := 0
		for _, fn := range p.ModuleFuncs() {
			if fn.Signature.Recv() == nil || core.TypeName(fn.Signature.Recv().Type()) != "lookup" {
				continue
			}
			core.Calls(fn, func(ci ssa.CallInstruction) {
				cf := core.StaticCalleeFn(ci)
				waits := false
				switch core.CalleeID(ci) {
				case "time.Sleep", "time.After", "time.NewTimer":
					waits = true
				}
				if cf != nil && core.InModule(cf) && cf != fn && (len(core.CallsTo(cf, "time.NewTimer")) > 0 || len(core.CallsTo(cf, "time.Sleep")) > 0 || len(core.CallsTo(cf, "time.After")) > 0) {
					waits = true
				}
				if !waits {
					return
				}
				nW++
				okOnce := !core.InLoop(ci.Block())
				if !okOnce && cf != nil && core.InModule(cf) {
					// the callee is called in a loop, but its wait belongs to a step that happens once:
					// it is taken only while a lookup field still has its initial constant, and the
					// step overwrites that field with another constant on every path that follows
					// (the seeding step under queries == -1, which then sets queries = 1)
					okOnce = true
					for _, wi := range core.CallsTo(cf, "time.NewTimer", "time.Sleep", "time.After") {
						once := false
						for _, f := range core.DomFacts(wi.Block()) {
							core.CmpFact(f, func(op token.Token, x, y ssa.Value) bool {
								k, isC := core.ConstInt(y)
								t, fld, ok := core.LoadedField(x)
								if !isC || op != token.EQL || !ok || t != "lookup" {
									return false
								}
								if core.MustPassAfter(wi, func(in ssa.Instruction) bool {
									st, isSt := in.(*ssa.Store)
									if !isSt {
										return false
									}
									t2, f2, _, ok2 := core.FieldRef(st.Addr)
									k2, isC2 := core.ConstInt(st.Val)
									return ok2 && t2 == "lookup" && f2 == fld && isC2 && k2 != k
								}) == nil {
									once = true
								}
								return false
							})
						}
						if !once || core.InLoop(wi.Block()) {
							okOnce = false
						}
					}
				}
				r.Check(okOnce, "R6.ends-when-drained", core.FuncName(fn)+" pause-not-repeated", p.Pos(ci.Pos()), "the pause for an empty table is taken at most once per lookup", "the lookup pauses on a timer inside a loop: with an empty table (or peers that never show up) the lookup never finishes and never reports not-found, and cancelling it has no effect while it waits")
			})
		}
		r.Count("lookup_timer_waits", nW)
	}
	// ---- R5 content lookup
	// the winner flag is a flag: the function that owns it tests it against 1 (or 0), so every
	// write through the pointer the workers share must be the claim 0 -> 1; a counter (Add) takes
	// it to 2 when a second holder answers and the owner then reports not-found
	{
		nW := 0
		for _, fn := range p.ModuleFuncs() {
			if fn.Pkg != p.SSAPkg("portalwire") && (fn.Parent() == nil || fn.Parent().Pkg != p.SSAPkg("portalwire")) {
				continue
			}
			for _, pa := range fn.Params {
				pt, ok := pa.Type().(*types.Pointer)
				if !ok {
					continue
				}
				// a plain int32 used through sync/atomic functions, or the typed atomic.Int32
				if bt, ok := pt.Elem().Underlying().(*types.Basic); !ok || bt.Kind() != types.Int32 {
					if core.QualTypeName(pt.Elem()) != "sync/atomic.Int32" {
						continue
					}
				}
				core.Calls(fn, func(ci ssa.CallInstruction) {
					id := core.CalleeID(ci)
					if !strings.HasPrefix(id, "sync/atomic.") || len(ci.Common().Args) == 0 || ci.Common().Args[0] != ssa.Value(pa) {
						return
					}
					nW++
					okOp := id == "sync/atomic.CompareAndSwapInt32" || id == "sync/atomic.LoadInt32" || id == "sync/atomic.(*Int32).CompareAndSwap" || id == "sync/atomic.(*Int32).Load"
					r.Check(okOp, "R5.content-lookup", fmt.Sprintf("%s flag-op %s", core.FuncName(fn), strings.TrimPrefix(id, "sync/atomic.")), p.Pos(ci.Pos()), "the shared winner flag is only claimed (CAS) or read", "the shared winner flag is written with "+strings.TrimPrefix(id, "sync/atomic.")+": it is no longer a 0/1 flag, and the lookup that tests it against a constant reports not-found although a peer supplied the content (two holders in flight)")
				})
			}
		}
		r.Check(nW >= 1, "R5.content-lookup", "winner-flag operations", "-", fmt.Sprintf("%d atomic operations on the shared flag inspected", nW), fmt.Sprintf("only %d atomic operations on a shared *int32 flag found", nW))
	}
	for _, fn := range p.ModuleFuncs() {
		for _, ci := range core.CallsTo(fn, "sync/atomic.CompareAndSwapInt32", "sync/atomic.(*Int32).CompareAndSwap") {
			if fn.Pkg != p.SSAPkg("portalwire") {
				continue
			}
			call := ci.(*ssa.Call)
			// the winner flag is shared through a pointer the worker is handed (parameter or
			// captured variable); a CAS on a struct's own field is some other latch
			switch core.Unwrap(call.Call.Args[0]).(type) {
			case *ssa.Parameter, *ssa.FreeVar, *ssa.Alloc:
			default:
				continue
			}
			name := core.FuncName(fn)
			o, c1 := core.ConstInt(call.Call.Args[1])
			n, c2 := core.ConstInt(call.Call.Args[2])
			r.Check(c1 && c2 && o == 0 && n == 1, "R5.content-lookup", name+" cas-0-1", p.Pos(call.Pos()), "first content wins through CAS 0 -> 1", "the winner flag is not claimed with CAS 0 -> 1")
			won := core.BoolCallGate("cas", true, func(c2 *ssa.Call) bool { return c2 == call })
			// the cancel call and the content send on that branch
			nCancel := 0
			for _, b := range fn.Blocks {
				for _, in := range b.Instrs {
					cc, ok := in.(*ssa.Call)
					if !ok {
						continue
					}
					if pa, ok := cc.Call.Value.(*ssa.Parameter); ok && strings.HasSuffix(pa.Type().String(), "CancelFunc") {
						nCancel++
						w := core.InstrGuarded(cc, won.Edge, nil)
						r.Check(w == nil, "R5.content-lookup", name+" cancel-after-win", p.Pos(cc.Pos()), "the lookup is cancelled only by the worker that won the CAS", "the lookup can be cancelled by a worker that did not deliver the content: "+p.PathString(w))
					}
				}
			}
			r.Check(nCancel >= 1, "R5.content-lookup", name+" cancels", p.Pos(fn.Pos()), "the winner cancels the remaining queries", "the remaining queries are not cancelled once content was found")
			// content sends (flag != ENRs) only after winning: sends in blocks dominated by a type assertion to []byte
			for _, b := range fn.Blocks {
				for _, in := range b.Instrs {
					s, ok := in.(*ssa.Send)
					if !ok {
						continue
					}
					// the element's Content field value type
					isBytes := false
					if al, ok := s.X.(*ssa.Alloc); ok {
						for _, rf := range *al.Referrers() {
							if fa, ok := rf.(*ssa.FieldAddr); ok {
								if _, f, _, _ := core.FieldRef(fa); f == "Content" {
									for _, r2 := range *fa.Referrers() {
										if st, ok := r2.(*ssa.Store); ok {
											if mi, ok := st.Val.(*ssa.MakeInterface); ok && mi.X.Type().String() == "[]byte" {
												isBytes = true
											}
										}
									}
								}
							}
						}
					}
					if isBytes {
						w := core.InstrGuarded(s, won.Edge, nil)
						r.Check(w == nil, "R5.content-lookup", name+" content-send-after-win", p.Pos(s.Pos()), "content is reported only by the worker that won the CAS", "two workers can both report content: "+p.PathString(w))
					}
				}
			}
		}
	}
	// close(resChan) after run(); result read after wg.Wait
	runFn := p.Func("portalwire", "lookup", "run")
	for _, fn := range p.ModuleFuncs() {
		if fn.Pkg != p.SSAPkg("portalwire") {
			continue
		}
		var closes []*ssa.Call
		core.Calls(fn, func(ci ssa.CallInstruction) {
			if core.CalleeID(ci) == "builtin.close" {
				isMc := core.Derives(ci.Common().Args[0], func(v ssa.Value) bool { _, ok := v.(*ssa.MakeChan); return ok }, core.DeriveOpts{})
				if isMc {
					if cc, ok := ci.(*ssa.Call); ok {
						closes = append(closes, cc)
					}
				}
			}
		})
		if len(closes) == 0 || runFn == nil {
			continue
		}
		runs := p.CallersOfFn(runFn)[fn]
		if len(runs) == 0 {
			continue
		}
		name := core.FuncName(fn)
		for _, cl := range closes {
			w := core.MustPassBefore(cl, func(in ssa.Instruction) bool { return in == runs[0].(ssa.Instruction) })
			r.Check(w == nil, "R5.content-lookup", name+" close-after-run", p.Pos(cl.Pos()), "the result channel is closed only after the lookup's run() returned", "the result channel can be closed while the lookup is still running (a worker then sends on a closed channel): "+p.PathString(w))
			// wg.Wait after close and before any return of a result
			// the collector is the goroutine that drains the channel being closed; its join is a
			// WaitGroup wait or a receive from a completion channel it closes on exit
			okWait := false
			for _, j := range core.GoroutineJoins(fn) {
				drains := false
				for _, jb := range j.Closure.Blocks {
					for _, jin := range jb.Instrs {
						var ch ssa.Value
						switch x := jin.(type) {
						case *ssa.UnOp:
							if x.Op == token.ARROW {
								ch = x.X
							}
						case *ssa.Next:
							if rg, isR := x.Iter.(*ssa.Range); isR {
								ch = rg.X
							}
						}
						if ch != nil && core.SameCaptured(ch, j.Closure, j.Go, cl.Call.Args[0]) {
							drains = true
						}
					}
				}
				if !drains || core.MustPassBefore(j.At, func(in ssa.Instruction) bool { return in == ssa.Instruction(cl) }) != nil {
					continue
				}
				okJ := true
				for _, ret := range core.Returns(fn) {
					if core.MustPassBefore(ret, func(in ssa.Instruction) bool { return in == j.At }) != nil {
						okJ = false
					}
				}
				if okJ {
					okWait = true
				}
			}
			r.Check(okWait, "R5.content-lookup", name+" join-before-result", p.Pos(cl.Pos()), "the collector goroutine is joined before the result is read", "the result can be read while the collector goroutine is still writing it")
		}
	}

	// ---- R6 ends only when drained
	{
		cleared := core.AnyFact(func(f core.Fact) bool {
			return f.Op == token.EQL && ((isLookupField(f.X, "queryfunc") && core.IsNilConst(f.Y)) || (isLookupField(f.Y, "queryfunc") && core.IsNilConst(f.X)))
		})
		w := core.CutReach(core.CutSpec{Fn: SQ, Cut: func(b *ssa.BasicBlock, i int) bool { return cleared(core.EdgeFacts(b, i)) },
			Target: func(prev, b *ssa.BasicBlock) bool {
				ret, ok := b.Instrs[len(b.Instrs)-1].(*ssa.Return)
				if !ok {
					return false
				}
				v := ret.Results[0]
				if ph, ok := v.(*ssa.Phi); ok && ph.Block() == b && prev != nil {
					for i, pr := range b.Preds {
						if pr == prev {
							v = ph.Edges[i]
						}
					}
				}
				bv, isC := core.ConstBool(v)
				return isC && !bv
			}})
		r.Check(w == nil, "R6.ends-when-drained", sname+" constant-end-only-after-shutdown", p.Pos(SQ.Pos()), "the spawn step reports 'ended' unconditionally only after shutdown cleared the query function", "the lookup can be declared ended while queries are still in flight (a later reply hits a closed result channel): "+p.PathString(w))
		// non-constant result is queries > 0
		okExpr := false
		for _, ret := range core.Returns(SQ) {
			if bo, ok := ret.Results[0].(*ssa.BinOp); ok && bo.Op == token.GTR && isLookupField(bo.X, "queries") {
				if k, isC := core.ConstInt(bo.Y); isC && k == 0 {
					okExpr = true
				}
			}
		}
		r.Check(okExpr, "R6.ends-when-drained", sname+" continues-while-in-flight", p.Pos(SQ.Pos()), "otherwise the step reports queries > 0", "the lookup does not continue while queries are in flight")
		// shutdown: queryfunc = nil only under queries <= 0
		for _, fn := range p.ModuleFuncs() {
			for _, st := range storesToLookupField(fn, "queryfunc") {
				if !core.IsNilConst(st.Val) {
					continue
				}
				drained := core.AnyFact(func(f core.Fact) bool {
					return core.CmpFact(f, func(op token.Token, x, y ssa.Value) bool {
						k, isC := core.ConstInt(y)
						return isC && isLookupField(x, "queries") && ((op == token.LEQ && k == 0) || (op == token.LSS && k == 1))
					})
				})
				w := core.InstrGuarded(st, drained, nil)
				r.Check(w == nil, "R6.ends-when-drained", core.FuncName(fn)+" clears-after-drain", p.Pos(st.Pos()), "the query function is cleared only once queries <= 0", "the lookup is shut down without waiting for the replies of in-flight queries: "+p.PathString(w))
			}
		}
		// advance ends only when the spawn step said so
		for fn, cs := range p.CallersOfFn(SQ) {
			if len(cs) == 0 || fn.Signature.Results().Len() != 1 {
				continue
			}
			call, ok := cs[0].(*ssa.Call)
			if !ok {
				continue
			}
			said := core.AnyFact(func(f core.Fact) bool { return f.Op == token.ILLEGAL && !f.Truth && f.V == ssa.Value(call) })
			w := core.CutReach(core.CutSpec{Fn: fn, Cut: func(b *ssa.BasicBlock, i int) bool { return said(core.EdgeFacts(b, i)) },
				Target: func(prev, b *ssa.BasicBlock) bool {
					ret, ok := b.Instrs[len(b.Instrs)-1].(*ssa.Return)
					if !ok {
						return false
					}
					bv, isC := core.ConstBool(ret.Results[0])
					return isC && !bv
				}})
			r.Check(w == nil, "R6.ends-when-drained", core.FuncName(fn)+" ends-only-when-step-ended", p.Pos(fn.Pos()), "the lookup ends only when the spawn step reported no queries in flight", "advance can end the lookup although the spawn step did not: "+p.PathString(w))
		}
	}
	errorsExamined(c, "R7.errors-examined", "lookups", []string{"portalwire"}, "(*portalwire.lookup).", ".ContentLookup", ".contentLookupWorker", ".lookupWorker", ".lookupDistances")
}
