package props

import (
	"fmt"
	"go/types"
	"os"
	"sort"
	"strings"

	"golang.org/x/tools/go/ssa"

	"verifchk/core"
)

// c01SharedMaps (R10): talk handlers run concurrently (discv5 starts one goroutine per request).
// A plain Go map kept in a struct field and written on that code must be written with a mutex of
// the same struct held: an unsynchronised map write makes the runtime abort the process
// ("concurrent map writes"), which no recover() can stop.
func c01SharedMaps(c *Ctx, roots []*ssa.Function, desc map[*ssa.Function]string) {
	p, r := c.P, c.R
	var hroots []*ssa.Function
	for _, f := range roots {
		if desc[f] == "talk handler" {
			hroots = append(hroots, f)
		}
	}
	reach := p.Reachable(hroots)
	var fns []*ssa.Function
	for f := range reach {
		fns = append(fns, f)
	}
	sort.Slice(fns, func(i, j int) bool { return fns[i].String() < fns[j].String() })
	n := 0
	for _, fn := range fns {
		per := map[string]int{}
		for _, b := range fn.Blocks {
			for _, in := range b.Instrs {
				mu, ok := in.(*ssa.MapUpdate)
				if !ok {
					continue
				}
				t, f, base, ok := core.LoadedFieldBase(mu.Map)
				if !ok {
					continue
				}
				n++
				// mutexes of the same struct
				held := false
				var st *types.Struct
				bt := base.Type()
				if pt, isP := bt.Underlying().(*types.Pointer); isP {
					bt = pt.Elem()
				}
				st, _ = bt.Underlying().(*types.Struct)
				if st != nil {
					for i := 0; i < st.NumFields(); i++ {
						ft := st.Field(i).Type().String()
						if ft == "sync.Mutex" || ft == "sync.RWMutex" {
							if (core.LockSpec{Type: t, Field: st.Field(i).Name()}).HeldMap(fn, false)[in] {
								held = true
							}
						}
					}
				}
				k := fmt.Sprintf("%s writes %s.%s", core.FuncName(fn), t, f)
				per[k]++
				key := k
				if per[k] > 1 {
					key = fmt.Sprintf("%s #%d", k, per[k])
				}
				if os.Getenv("VERIF_C01_NILDUMP") != "" {
					fmt.Fprintf(os.Stderr, "shared-map %s held=%v @%s\n", key, held, p.Pos(mu.Pos()))
				}
				r.Check(held, "R10.shared-map", key, p.Pos(mu.Pos()), "written with a mutex of the same struct held", "a map kept in a struct field is written on code that discv5 runs concurrently (one goroutine per TALKREQ) without a mutex of that struct held: two requests arriving together make the runtime abort the process with 'concurrent map writes'")
			}
		}
	}
	r.Count("handler_map_writes", n)
	_ = strings.TrimSpace
}
