package props

import (
	"fmt"
	"go/token"
	"go/types"
	"strings"

	"golang.org/x/tools/go/ssa"

	"verifchk/core"
)

func init() { Registry["C18"] = c18 }

const (
	dbFindFails       = "github.com/ethereum/go-ethereum/p2p/enode.(*DB).FindFails"
	dbUpdateFindFails = "github.com/ethereum/go-ethereum/p2p/enode.(*DB).UpdateFindFails"
)

func c18(c *Ctx) {
	p, r := c.P, c.R
	r.Technique = "who-may-remove / who-may-replace inventory over SSA field stores; must-pass-through (cut) checks of the guards at every removal and record-replacement site; value-flow check of the failure counter"
	r.Explanation = "Decides which code paths may remove or replace a table entry and under which guards: (R1) from the bucket-full branch of the add path no removal from entries is reachable, only the bounded front-push into replacements; (R2) every call site of the function that shrinks bucket.entries is guarded as one of {liveness failure: !didRespond and credit/3 <= 0; fruitless queries: counter >= 5 and len(entries) >= 16/4, where the counter is 0 on the success path and stored-count+1 on the failure path and is reset on success; explicit deletion: an otherwise mutation-free function deleting its own argument}; liveness credit is divided by 3 on failure and incremented on success, and the flag that tells the two apart is exactly 'the liveness ping returned no error'; (R3) the remover appends a replacement iff the replacement list is non-empty, takes it out of that list, and registers it; (R4) a stored record is replaced only under seq(new) > seq(old) or the inbound flag, the inbound flag can be true only for the sender parameter of a talk-request entry point (followed through parameters and operation-record fields), an endpoint change clears the verified flag on every path, the IP change is re-checked against the limits; (R5) replacements are pushed at the front. A constant credit is written only into an entry allocated at that site. Not decided: equivalence with a reference model over operation histories."
	r.Assumptions = []string{"enode.DB FindFails/UpdateFindFails persist the counter faithfully", "slices.Delete / slices.DeleteFunc remove exactly the selected elements"}
	m := newTableModel(c)
	r.Floor("R1.full-bucket", 2)
	r.Floor("R2.removal-site", 3)
	r.Floor("R2.credit", 4)
	r.Floor("R3.promotion", 3)
	r.Floor("R4.record-update", 3)
	r.Floor("R5.push-front", 1)

	callsRemover := func(in ssa.Instruction) bool { return callReaches(in, m.removers) }

	// ---------- R1: the full-bucket branch of the add path
	for _, w := range m.entries {
		if w.Init || w.Element || m.shape(w, "bucket", "entries") != shapeAppend {
			continue
		}
		_, el, _ := core.AppendOf(w.Val)
		elems := core.VariadicElems(el)
		if len(elems) != 1 {
			continue
		}
		if _, fresh := elems[0].(*ssa.Alloc); !fresh {
			continue
		}
		fn := w.Fn
		name := core.FuncName(fn)
		// blocks entered through the edge len(entries) >= 16
		nfull := 0
		for _, b := range fn.Blocks {
			for i := range b.Succs {
				fs := core.EdgeFacts(b, i)
				isFull := core.AnyFact(func(f core.Fact) bool {
					return core.CmpFact(f, func(op token.Token, x, y ssa.Value) bool {
						k, isC := core.ConstInt(y)
						return isC && isLenOfField(x, "bucket", "entries") && ((op == token.GEQ && k == 16) || (op == token.GTR && k == 15))
					})
				})(fs)
				if !isFull {
					continue
				}
				nfull++
				start := b.Succs[i]
				// no removal, no growth of entries reachable
				bad := func(in ssa.Instruction) bool {
					if callsRemover(in) {
						return true
					}
					if st, ok := in.(*ssa.Store); ok {
						if t, f, _, ok := core.FieldRef(st.Addr); ok && t == "bucket" && f == "entries" {
							return true
						}
					}
					return false
				}
				badBlocks := core.BlocksWith(fn, bad)
				wp := core.CutReach(core.CutSpec{Fn: fn, From: start, Target: func(prev, bb *ssa.BasicBlock) bool { return badBlocks[bb] }})
				r.Check(wp == nil, "R1.full-bucket", name+" no-eviction", p.Pos(w.Store.Pos()),
					"from the bucket-full edge no store to entries and no remover call is reachable", "a full bucket can lose or gain an entry on the add path: "+p.PathString(wp))
				// the only table mutation reachable is the bounded replacement push
				pushes := core.BlocksWith(fn, func(in ssa.Instruction) bool {
					// the push written out in the add path itself
					if st, isSt := in.(*ssa.Store); isSt {
						for _, rw := range m.repl {
							if rw.Store == st && m.shape(rw, "bucket", "replacements") == shapeBoundedPush {
								return true
							}
						}
					}
					ci, ok := in.(ssa.CallInstruction)
					if !ok {
						return false
					}
					f := core.StaticCalleeFn(ci)
					if f == nil {
						return false
					}
					for _, rw := range m.repl {
						if rw.Fn == f && m.shape(rw, "bucket", "replacements") == shapeBoundedPush {
							return true
						}
					}
					return false
				})
				wp2 := core.CutReach(core.CutSpec{Fn: fn, From: start, Target: func(prev, bb *ssa.BasicBlock) bool { return pushes[bb] }})
				r.Check(wp2 != nil, "R1.full-bucket", name+" goes-to-replacements", p.Pos(w.Store.Pos()),
					"the bucket-full branch hands the newcomer to the bounded replacement push", "the bucket-full branch does not reach a BOUNDED replacement push: either nothing is pushed, or the push can leave more than the allowed number of replacements (growth not under len(list) < max, or an insertion not preceded by dropping the last element when len(list) >= max)")
			}
		}
		if nfull == 0 {
			r.Fail("R1.full-bucket", name+" full-test", p.Pos(w.Store.Pos()), "no len(entries) >= 16 branch found on the add path")
		}
	}

	// ---------- R2: who may remove
	for rem := range m.removers {
		callers := p.CallersOfFn(rem)
		for _, fn := range core.SortedFuncs(callers) {
			for i, ci := range callers[fn] {
				key := fmt.Sprintf("%s→%s #%d", core.FuncName(fn), core.FuncName(rem), i+1)
				class, detail := classifyRemoval(c, m, fn, ci)
				if class == "" {
					r.Fail("R2.removal-site", key, p.Pos(ci.Pos()), "an entry can be removed here without any of the three permitted reasons (failed liveness with exhausted credit; >=5 consecutive fruitless queries with >=4 entries; explicit deletion): "+detail)
				} else {
					r.Pass("R2.removal-site", key, p.Pos(ci.Pos()), class+": "+detail)
				}
			}
		}
	}
	// liveness credit arithmetic
	for _, w := range p.FieldWrites("tableNode", "livenessChecks") {
		if w.Init {
			if n, ok := core.ConstInt(w.Val); ok && n <= 1 {
				continue
			}
		}
		bo, ok := w.Val.(*ssa.BinOp)
		key := m.key(w, "credit-update")
		if !ok || !core.IsLoadOfField(bo.X, "tableNode", "livenessChecks") {
			if n, isC := core.ConstInt(w.Val); isC && n <= 1 {
				// an initial value, so of an entry made right here: an entry that is already in the
				// table keeps the credit it has earned (an endpoint change clears the verified
				// flag, not the credit)
				fresh := false
				if _, _, base, okB := core.FieldRef(w.Store.Addr); okB {
					_, fresh = core.Unwrap(base).(*ssa.Alloc)
				}
				r.Check(fresh, "R2.credit", key+" const", p.Pos(w.Store.Pos()), "constant initial credit of an entry allocated here", "the liveness credit of an existing entry is overwritten with a constant outside the liveness check: one unanswered ping then removes an entry that had credit left")
				continue
			}
			r.Fail("R2.credit", key, p.Pos(w.Store.Pos()), "liveness credit written with an unrecognised value")
			continue
		}
		// the entry credited or debited is the one the check was made for (the response's own
		// node object), never an entry looked up again by id: a stale answer must not land on a
		// re-admitted entry
		if _, _, base, okB := core.FieldRef(w.Store.Addr); okB {
			fromResp := func(v ssa.Value) bool {
				return core.Derives(v, func(x ssa.Value) bool { return core.IsLoadOfField(x, "revalidationResponse", "n") }, core.DeriveOpts{}) &&
					!core.Derives(v, func(x ssa.Value) bool { return core.IsLoadOfField(x, "bucket", "entries") }, core.DeriveOpts{})
			}
			okT := false
			if u, isLoad := core.Unwrap(base).(*ssa.UnOp); isLoad && u.Op == token.MUL {
				if cell, isCell := u.X.(*ssa.Alloc); isCell {
					okT = true
					n := 0
					if refs := cell.Referrers(); refs != nil {
						for _, rf := range *refs {
							if st, isSt := rf.(*ssa.Store); isSt && st.Addr == ssa.Value(cell) {
								n++
								if !fromResp(st.Val) {
									okT = false
								}
							}
						}
					}
					if n == 0 {
						okT = false
					}
				}
			}
			if !okT {
				okT = fromResp(base)
			}
			if _, isParam := core.Unwrap(base).(*ssa.Parameter); !isParam || w.Fn.Name() == "handleResponse" {
				if core.ReachesInstr(w.Fn, 0, func(in ssa.Instruction) bool {
					u, ok := in.(*ssa.UnOp)
					return ok && core.IsLoadOfField(u, "revalidationResponse", "n")
				}) {
					r.Check(okT, "R2.credit", key+" target-is-checked-node", p.Pos(w.Store.Pos()), "the credit of the node object the response belongs to is updated", "the liveness result is applied to an entry looked up again (by id) instead of the node object that was checked: a late answer for a removed entry lands on a re-admitted entry with the same id")
				}
			}
		}
		k, _ := core.ConstInt(bo.Y)
		respFact := func(truth bool) func(fs []core.Fact) bool {
			return core.AnyFact(func(f core.Fact) bool {
				return f.Op == token.ILLEGAL && f.Truth == truth && core.IsLoadOfField(f.V, "revalidationResponse", "didRespond")
			})
		}
		switch {
		case bo.Op == token.QUO && k == 3:
			wp := core.InstrGuarded(w.Store, respFact(false), nil)
			r.Check(wp == nil, "R2.credit", key+" /3", p.Pos(w.Store.Pos()), "credit divided by 3 only when the node did not respond", "credit is divided without the !didRespond guard: "+p.PathString(wp))
		case bo.Op == token.ADD && k == 1:
			wp := core.InstrGuarded(w.Store, respFact(true), nil)
			r.Check(wp == nil, "R2.credit", key+" +1", p.Pos(w.Store.Pos()), "credit incremented only when the node responded", "credit is incremented without the didRespond guard: "+p.PathString(wp))
		default:
			r.Fail("R2.credit", key, p.Pos(w.Store.Pos()), fmt.Sprintf("liveness credit update %s %d is neither /3 nor +1", bo.Op, k))
		}
	}

	// ---------- R3: promotion inside the remover
	for rem := range m.removers {
		name := core.FuncName(rem)
		var shrinkE, appendE, shrinkR *ssa.Store
		for _, w := range m.entries {
			if w.Fn != rem || w.Element {
				continue
			}
			switch m.shape(w, "bucket", "entries") {
			case shapeShrink:
				shrinkE = w.Store
			case shapeAppend:
				appendE = w.Store
			}
		}
		for _, w := range m.repl {
			if w.Fn == rem && !w.Element && m.shape(w, "bucket", "replacements") == shapeShrink {
				shrinkR = w.Store
			}
		}
		if shrinkE == nil || appendE == nil || shrinkR == nil {
			r.Fail("R3.promotion", name, p.Pos(rem.Pos()), "the remover does not have the shape remove / take replacement / append")
			continue
		}
		nonEmpty := core.AnyFact(func(f core.Fact) bool {
			return core.CmpFact(f, func(op token.Token, x, y ssa.Value) bool {
				k, isC := core.ConstInt(y)
				return isC && isLenOfField(x, "bucket", "replacements") && ((op == token.NEQ && k == 0) || (op == token.GTR && k == 0) || (op == token.GEQ && k == 1))
			})
		})
		// after the removal: every exit passes either the append or the fact len(replacements)==0
		empty := core.AnyFact(func(f core.Fact) bool {
			return core.CmpFact(f, func(op token.Token, x, y ssa.Value) bool {
				k, isC := core.ConstInt(y)
				return isC && isLenOfField(x, "bucket", "replacements") && ((op == token.EQL && k == 0) || (op == token.LEQ && k == 0) || (op == token.LSS && k == 1))
			})
		})
		appBlock := appendE.Block()
		wp := core.CutReach(core.CutSpec{Fn: rem, From: shrinkE.Block(),
			Cut: func(b *ssa.BasicBlock, i int) bool { return empty(core.EdgeFacts(b, i)) || b.Succs[i] == appBlock },
			Target: func(prev, b *ssa.BasicBlock) bool {
				_, isRet := b.Instrs[len(b.Instrs)-1].(*ssa.Return)
				return isRet && b != appBlock && prev != nil
			}})
		r.Check(wp == nil, "R3.promotion", name+" succeeded-if-available", p.Pos(appendE.Pos()),
			"after a removal every exit either saw an empty replacement list or appended a replacement", "an entry can be removed without promoting an available replacement: "+p.PathString(wp))
		wp2 := core.InstrGuarded(appendE, nonEmpty, nil)
		r.Check(wp2 == nil, "R3.promotion", name+" only-if-available", p.Pos(appendE.Pos()), "promotion only under len(replacements) != 0", "promotion without the non-empty test: "+p.PathString(wp2))
		// the promoted node is an element of replacements and is removed from it on the same path
		_, el, _ := core.AppendOf(appendE.Val)
		elems := core.VariadicElems(el)
		okEl := len(elems) == 1 && core.Derives(elems[0], func(v ssa.Value) bool { return core.IsLoadOfField(v, "bucket", "replacements") }, core.DeriveOpts{})
		r.Check(okEl, "R3.promotion", name+" promoted-is-replacement", p.Pos(appendE.Pos()), "the appended node is read from the replacement list", "the promoted node is not taken from the replacement list")
		// ... on the same path, in either order (both happen under the table mutex with nothing
		// in between that could observe the intermediate state)
		isShrink := func(in ssa.Instruction) bool { return in == ssa.Instruction(shrinkR) }
		wp3 := core.MustPassBefore(appendE, isShrink)
		if wp3 != nil && core.MustPassAfter(appendE, isShrink) == nil {
			wp3 = nil
		}
		r.Check(wp3 == nil, "R3.promotion", name+" taken-out", p.Pos(shrinkR.Pos()), "the promoted node is deleted from replacements on every path that appends it", "a promoted node can stay in the replacement list: "+p.PathString(wp3))
	}

	// ---------- R4: record update
	for _, w := range m.nodeW {
		if w.Init {
			continue
		}
		key := m.key(w, "record-replaced")
		newRec := w.Val
		fn := w.Fn
		isSeqOf := func(v ssa.Value, ofNew bool) bool {
			cc, ok := v.(*ssa.Call)
			if !ok || core.CalleeID(cc) != enodeSeq {
				return false
			}
			return core.Derives(cc.Call.Args[0], core.Is(newRec), core.DeriveOpts{}) == ofNew
		}
		seqGate := core.AnyFact(func(f core.Fact) bool {
			if core.CmpFact(f, func(op token.Token, x, y ssa.Value) bool {
				return op == token.GTR && isSeqOf(x, true) && isSeqOf(y, false)
			}) {
				return true
			}
			// the inbound flag: a bool parameter of the function being true
			if f.Op == token.ILLEGAL && f.Truth {
				if pa, ok := f.V.(*ssa.Parameter); ok && pa.Parent() == fn {
					return true
				}
			}
			return false
		})
		wp := core.InstrGuarded(w.Store, seqGate, nil)
		r.Check(wp == nil, "R4.record-update", key+" seq-rule", p.Pos(w.Store.Pos()),
			"record replaced only under seq(new) > seq(old) or the inbound flag", "a stored record can be replaced by one with an equal or lower sequence number from a third party: "+p.PathString(wp))
		// who may raise the inbound flag: "any change only when the node itself contacted us"
		for pi, pa := range fn.Params {
			if bt, ok := pa.Type().Underlying().(*types.Basic); !ok || bt.Kind() != types.Bool {
				continue
			}
			cs := p.CallersOfFn(fn)
			for _, cf := range core.SortedFuncs(cs) {
				for ci, site := range cs[cf] {
					bad := inboundFlagSources(c, site.Common().Args[pi], cf, site, 0)
					r.Check(bad == "", "R4.record-update", fmt.Sprintf("%s inbound-flag %s #%d", key, core.FuncName(cf), ci+1), p.Pos(site.Pos()),
						"the inbound flag is true only for the sender of a talk request being handled", "a record can replace the stored one regardless of its sequence number although the node did not contact us: "+bad)
				}
			}
		}
		endpointChangeClears(c, m, w, "R4.record-update", key)
	}

	// ---------- R2b: what "did respond" means. The flag that decides between credit+1 and
	// credit/3 (and so, at credit 0, removal) is the outcome of the liveness PING alone: a node
	// that answered the ping is alive whatever happens to a follow-up request for its record
	{
		nW := 0
		for _, fn := range p.ModuleFuncs() {
			for _, b := range fn.Blocks {
				for _, in := range b.Instrs {
					st, ok := in.(*ssa.Store)
					if !ok {
						continue
					}
					t, f, _, ok := core.FieldRef(st.Addr)
					if !ok || t != "revalidationResponse" || f != "didRespond" {
						continue
					}
					nW++
					okPing := false
					if bo, isBo := st.Val.(*ssa.BinOp); isBo && bo.Op == token.EQL {
						for _, pr := range [][2]ssa.Value{{bo.X, bo.Y}, {bo.Y, bo.X}} {
							if !core.IsNilConst(pr[1]) {
								continue
							}
							// exactly the ping's error: an Extract of a call of the transport's ping
							if ex, isEx := pr[0].(*ssa.Extract); isEx {
								if cc, isC := ex.Tuple.(*ssa.Call); isC && cc.Call.IsInvoke() && cc.Call.Method.Name() == "ping" && ex.Index == core.ErrResultIndex(cc.Call.Signature()) {
									okPing = true
								}
							}
						}
					}
					r.Check(okPing, "R2.credit", core.FuncName(fn)+" did-respond-is-the-ping", p.Pos(st.Pos()), "didRespond = (the ping's error == nil)", "didRespond is not exactly 'the liveness ping returned no error' (e.g. it also reflects a later record request): a node that answers pings can lose credit and be removed from its bucket")
				}
			}
		}
		r.Check(nW >= 1, "R2.credit", "did-respond writers", "-", fmt.Sprintf("%d write(s) of didRespond inspected", nW), "no write of revalidationResponse.didRespond found")
	}

	// ---------- R5: push-front
	seenPush := map[*ssa.Function]bool{}
	for _, w := range m.repl {
		if _, isCall := boundedPush(w.Val); !isCall {
			if ip := inPlacePush(w, "bucket", "replacements"); ip != nil && !seenPush[w.Fn] {
				seenPush[w.Fn] = true
				r.Pass("R5.push-front", core.FuncName(w.Fn), p.Pos(w.Store.Pos()), "the new replacement is stored at index 0 after the shift (most recent first)")
				continue
			}
			if ip := inlinePush(w.Val); ip != nil && !seenPush[w.Fn] {
				seenPush[w.Fn] = true
				// inlinePush only matches when the newcomer is stored at index 0 after the shift
				r.Check(ip.newcomer != nil, "R5.push-front", core.FuncName(w.Fn), p.Pos(w.Store.Pos()), "the new replacement is stored at index 0 (most recent first)", "the bounded push does not place the newcomer at the front")
			}
			continue
		}
		if call, ok := boundedPush(w.Val); ok {
			f := core.StaticCalleeFn(call)
			if seenPush[f] {
				continue
			}
			seenPush[f] = true
			okFront := false
			for _, b := range f.Blocks {
				for _, in := range b.Instrs {
					st, ok := in.(*ssa.Store)
					if !ok {
						continue
					}
					ia, ok := st.Addr.(*ssa.IndexAddr)
					if !ok {
						continue
					}
					if k, isC := core.ConstInt(ia.Index); isC && k == 0 && st.Val == ssa.Value(f.Params[1]) {
						okFront = true
					}
				}
			}
			r.Check(okFront, "R5.push-front", core.FuncName(f), p.Pos(f.Pos()), "the new replacement is stored at index 0 (most recent first)", "the bounded push does not place the newcomer at the front")
		}
	}
	errorsExamined(c, "R6.errors-examined", "routing table", []string{"portalwire"}, "(*portalwire.Table).", "(*portalwire.tableRevalidation).", "(*portalwire.bucket).", "(*portalwire.revalidationList).")
}

func storesFalseLive(in ssa.Instruction) bool {
	st, ok := in.(*ssa.Store)
	if !ok {
		return false
	}
	t, f, _, ok := core.FieldRef(st.Addr)
	if !ok || t != "tableNode" || f != "isValidatedLive" {
		return false
	}
	b, isC := core.ConstBool(st.Val)
	return isC && !b
}

// classifyRemoval decides which of the permitted reasons guards a call of the remover.
func classifyRemoval(c *Ctx, m *tableModel, fn *ssa.Function, ci ssa.CallInstruction) (class, detail string) {
	p := c.P
	// (a) liveness: !didRespond and credit (after /3) <= 0
	noResp := core.AnyFact(func(f core.Fact) bool {
		return f.Op == token.ILLEGAL && !f.Truth && core.IsLoadOfField(f.V, "revalidationResponse", "didRespond")
	})
	exhausted := core.AnyFact(func(f core.Fact) bool {
		return core.CmpFact(f, func(op token.Token, x, y ssa.Value) bool {
			k, isC := core.ConstInt(y)
			if !isC || !((op == token.LEQ && k == 0) || (op == token.EQL && k == 0) || (op == token.LSS && k == 1)) {
				return false
			}
			// x is the credit after division: a load of livenessChecks following the /3 store, or the quotient itself
			if bo, ok := x.(*ssa.BinOp); ok && bo.Op == token.QUO {
				return core.IsLoadOfField(bo.X, "tableNode", "livenessChecks")
			}
			return core.IsLoadOfField(x, "tableNode", "livenessChecks")
		})
	})
	if core.InstrGuarded(ci, noResp, nil) == nil && core.InstrGuarded(ci, exhausted, nil) == nil {
		// the division must precede
		wq := core.MustPassBefore(ci, func(in ssa.Instruction) bool {
			st, ok := in.(*ssa.Store)
			if !ok {
				return false
			}
			t, f, _, ok := core.FieldRef(st.Addr)
			if !ok || t != "tableNode" || f != "livenessChecks" {
				return false
			}
			bo, ok := st.Val.(*ssa.BinOp)
			return ok && bo.Op == token.QUO
		})
		if wq == nil {
			return "failed-liveness", "guarded by !didRespond and credit/3 <= 0"
		}
		return "", "credit is tested without having been divided: " + p.PathString(wq)
	}
	// (b) fruitless queries
	var counter ssa.Value
	failsGate := core.AnyFact(func(f core.Fact) bool {
		return core.CmpFact(f, func(op token.Token, x, y ssa.Value) bool {
			k, isC := core.ConstInt(y)
			if isC && ((op == token.GEQ && k == 5) || (op == token.GTR && k == 4)) && !isLenOfField(x, "bucket", "entries") {
				if core.Derives(x, func(v ssa.Value) bool { return core.IsCallTo(v, dbFindFails) }, core.DeriveOpts{}) {
					counter = x
					return true
				}
			}
			return false
		})
	})
	quarter := core.AnyFact(func(f core.Fact) bool {
		return core.CmpFact(f, func(op token.Token, x, y ssa.Value) bool {
			k, isC := core.ConstInt(y)
			return isC && isLenOfField(x, "bucket", "entries") && ((op == token.GEQ && k == 4) || (op == token.GTR && k == 3))
		})
	})
	g1, g2 := core.InstrGuarded(ci, failsGate, nil), core.InstrGuarded(ci, quarter, nil)
	if g1 == nil && g2 == nil && counter != nil {
		if why := checkFailCounter(c, fn, counter); why != "" {
			return "", why
		}
		return "fruitless-queries", "guarded by counter >= 5 and len(entries) >= 4; counter is 0 on success and stored+1 on failure"
	}
	// (c) explicit deletion: the function does nothing else to the table and deletes its own argument
	args := ci.Common().Args
	idArg := args[len(args)-1]
	fromParam := core.Derives(idArg, func(v ssa.Value) bool { _, ok := v.(*ssa.Parameter); return ok }, core.DeriveOpts{ThroughCalls: true})
	fromTable := core.Derives(idArg, func(v ssa.Value) bool {
		return core.IsLoadOfField(v, "bucket", "entries") || core.IsLoadOfField(v, "bucket", "replacements")
	}, core.DeriveOpts{ThroughCalls: true})
	other := 0
	core.Calls(fn, func(c2 ssa.CallInstruction) {
		if c2 == ci {
			return
		}
		if callReaches(c2, m.removers) || callReaches(c2, m.updaters) || callReaches(c2, m.ipAdders) {
			other++
		}
	})
	stores := 0
	for _, b := range fn.Blocks {
		for _, in := range b.Instrs {
			if _, ok := in.(*ssa.Store); ok {
				stores++
			}
		}
	}
	guards := 0
	for _, b := range fn.Blocks {
		if ifi, ok := b.Instrs[len(b.Instrs)-1].(*ssa.If); ok {
			// a nil test of the function's own argument is not a reason to delete something else
			if bo, isBo := ifi.Cond.(*ssa.BinOp); isBo && (bo.Op == token.EQL || bo.Op == token.NEQ) {
				_, px := bo.X.(*ssa.Parameter)
				_, py := bo.Y.(*ssa.Parameter)
				if (px && core.IsNilConst(bo.Y)) || (py && core.IsNilConst(bo.X)) {
					continue
				}
			}
			guards++
		}
	}
	if fromParam && !fromTable && other == 0 && stores == 0 && guards == 0 {
		return "explicit-deletion", "an otherwise mutation-free function deleting the node it was given"
	}
	var why []string
	if g1 != nil {
		why = append(why, "no counter>=5 gate ("+p.PathString(g1)+")")
	}
	if g2 != nil {
		why = append(why, "no len(entries)>=4 gate ("+p.PathString(g2)+")")
	}
	return "", strings.Join(why, "; ")
}

// checkFailCounter: the value compared with the failure limit must be phi(0 on the success
// path, FindFails()+1 on the failure path); the success path must reset the stored counter to 0
// and the failure path must store the incremented counter.
func checkFailCounter(c *Ctx, fn *ssa.Function, counter ssa.Value) string {
	ph, ok := counter.(*ssa.Phi)
	if !ok {
		return "the failure counter compared with the limit is not selected by the query outcome (expected 0 after a success, stored count + 1 after a failure)"
	}
	isSuccessLoad := func(v ssa.Value) bool {
		_, f, ok := core.LoadedField(v)
		return ok && f == "success"
	}
	// one unconditional store of the selected value covers both outcomes (0 after a success,
	// count + 1 after a failure)
	merged := false
	for _, ci := range core.CallsTo(fn, dbUpdateFindFails) {
		a := ci.Common().Args
		if a[len(a)-1] == ssa.Value(ph) && len(core.DomFacts(ci.Block())) == 0 {
			merged = true
		}
	}
	for i, e := range ph.Edges {
		pred := ph.Block().Preds[i]
		var succ *bool
		fs := append(core.DomFacts(pred), edgeFactsPub(pred, ph.Block())...)
		for _, f := range fs {
			if f.Op == token.ILLEGAL && isSuccessLoad(f.V) {
				t := f.Truth
				succ = &t
			}
		}
		if succ == nil {
			return "cannot correlate the failure counter with the query outcome"
		}
		if *succ {
			if k, isC := core.ConstInt(e); !isC || k != 0 {
				return "after a SUCCESSFUL query the counter compared with the removal limit is not 0 (it carries the stored history), so a node answering a query can be evicted"
			}
			// reset stored
			okReset := false
			for _, ci := range core.CallsTo(fn, dbUpdateFindFails) {
				a := ci.Common().Args
				if k, isC := core.ConstInt(a[len(a)-1]); isC && k == 0 {
					// must be unconditional on the success path: dominated only by success==true
					okReset = true
					for _, f := range core.DomFacts(ci.Block()) {
						if !(f.Op == token.ILLEGAL && isSuccessLoad(f.V)) {
							okReset = false
						}
					}
				}
			}
			if !okReset && !merged {
				return "the stored failure counter is not unconditionally reset to 0 on success"
			}
		} else {
			bo, ok := e.(*ssa.BinOp)
			if !ok || bo.Op != token.ADD || !core.IsCallTo(bo.X, dbFindFails) {
				return "after a failed query the counter is not stored count + 1"
			}
			if k, isC := core.ConstInt(bo.Y); !isC || k != 1 {
				return "after a failed query the counter is not stored count + 1"
			}
			okStore := false
			for _, ci := range core.CallsTo(fn, dbUpdateFindFails) {
				a := ci.Common().Args
				if a[len(a)-1] == e {
					okStore = true
				}
			}
			if !okStore && !merged {
				return "the incremented failure counter is not persisted"
			}
		}
	}
	return ""
}

func edgeFactsPub(from, to *ssa.BasicBlock) []core.Fact {
	for i, s := range from.Succs {
		if s == to {
			return core.EdgeFacts(from, i)
		}
	}
	return nil
}

// inboundFlagSources follows the value given as the "inbound" flag back to the places that can
// make it true; each such place must be a call made by a talk-request entry point with that
// entry point's own sender parameter as the node. Returns "" when all sources are fine.
func inboundFlagSources(c *Ctx, v ssa.Value, in *ssa.Function, site ssa.CallInstruction, depth int) string {
	p := c.P
	if depth > 3 {
		return "flag provenance deeper than 3 calls"
	}
	v = core.Unwrap(v)
	if b, isC := core.ConstBool(v); isC {
		if !b {
			return ""
		}
		return inboundTrueSite(c, in, site)
	}
	// a field of an operation record: every store to that field, anywhere
	if t, f, ok := core.LoadedField(v); ok {
		for _, fn := range p.ModuleFuncs() {
			for _, b := range fn.Blocks {
				for _, i2 := range b.Instrs {
					st, isSt := i2.(*ssa.Store)
					if !isSt {
						continue
					}
					if t2, f2, _, ok2 := core.FieldRef(st.Addr); !ok2 || t2 != t || f2 != f {
						continue
					}
					bv, isC := core.ConstBool(st.Val)
					if !isC {
						if pa, isP := st.Val.(*ssa.Parameter); isP {
							idx := -1
							for j, q := range fn.Params {
								if q == pa {
									idx = j
								}
							}
							for cf, css := range p.CallersOfFn(fn) {
								for _, s2 := range css {
									if bad := inboundFlagSources(c, s2.Common().Args[idx], cf, s2, depth+1); bad != "" {
										return bad
									}
								}
							}
							continue
						}
						return "the flag stored in " + t + "." + f + " at " + p.Pos(st.Pos()) + " is not a constant"
					}
					if bv {
						// the function that builds an inbound operation: all of its callers
						if bad := inboundBuilder(c, fn, depth); bad != "" {
							return bad
						}
					}
				}
			}
		}
		return ""
	}
	if pa, isP := v.(*ssa.Parameter); isP {
		idx := -1
		for j, q := range in.Params {
			if q == pa {
				idx = j
			}
		}
		for cf, css := range p.CallersOfFn(in) {
			for _, s2 := range css {
				if bad := inboundFlagSources(c, s2.Common().Args[idx], cf, s2, depth+1); bad != "" {
					return bad
				}
			}
		}
		return ""
	}
	return "the flag passed at " + p.Pos(site.Pos()) + " has an unrecognised source"
}

// inboundBuilder: fn sets the inbound flag for the node it is given; every caller must be a
// talk-request entry point passing its own sender.
func inboundBuilder(c *Ctx, fn *ssa.Function, depth int) string {
	p := c.P
	cs := p.CallersOfFn(fn)
	if len(cs) == 0 {
		return ""
	}
	for cf, css := range cs {
		for _, s2 := range css {
			if bad := inboundTrueSite(c, cf, s2); bad != "" {
				return bad
			}
		}
	}
	return ""
}

// inboundTrueSite: the call at `site` (in function `in`) marks a node as having contacted us.
func inboundTrueSite(c *Ctx, in *ssa.Function, site ssa.CallInstruction) string {
	p := c.P
	_, desc := c01Roots(p)
	if desc[in] != "talk handler" {
		return core.FuncName(in) + " (" + p.Pos(site.Pos()) + ") is not a talk-request entry point"
	}
	for _, a := range site.Common().Args {
		if pa, isP := core.Unwrap(a).(*ssa.Parameter); isP && pa.Parent() == in && strings.HasSuffix(pa.Type().String(), "enode.Node") {
			return ""
		}
	}
	return "the node marked inbound at " + p.Pos(site.Pos()) + " is not the sender parameter of the entry point"
}

// endpointChangeClears: after the stored record of a table entry is replaced (write w), every
// exit either cleared isValidatedLive or established that ip and port are unchanged. Shared by
// C18 (displacement / record update) and C11 (only liveness-checked endpoints are offered).
func endpointChangeClears(c *Ctx, m *tableModel, w core.FieldWrite, rule, key string) {
	p, r := c.P, c.R
	fn := w.Fn
	newRec := w.Val
	// endpoint change clears the verified flag: after the store, every exit either cleared it or saw ip-equal and port-equal
	clears := func(in ssa.Instruction) bool { return callReaches(in, m.clearLive) || storesFalseLive(in) }
	eqFact := func(callee string) func(fs []core.Fact) bool {
		return core.AnyFact(func(f core.Fact) bool {
			if f.Op != token.EQL {
				return false
			}
			is := func(v ssa.Value) *ssa.Call {
				if cc, ok := v.(*ssa.Call); ok && core.CalleeID(cc) == callee && len(cc.Call.Args) > 0 {
					return cc
				}
				return nil
			}
			cx, cy := is(f.X), is(f.Y)
			if cx == nil || cy == nil {
				return false
			}
			// one side is the new record, the other the record that was stored BEFORE the
			// replacement: a stored-record operand read after the replacement is the new record
			// compared with itself
			ofNew := func(c *ssa.Call) bool { return core.Derives(c.Call.Args[0], core.Is(newRec), core.DeriveOpts{}) }
			var old *ssa.Call
			switch {
			case ofNew(cx) && !ofNew(cy):
				old = cy
			case ofNew(cy) && !ofNew(cx):
				old = cx
			default:
				return false
			}
			var evalAt ssa.Instruction = old
			core.Derives(old.Call.Args[0], func(v ssa.Value) bool {
				if u, ok := v.(*ssa.UnOp); ok && u.Op == token.MUL {
					if t, fld, _, ok := core.FieldRef(u.X); ok && t == "tableNode" && fld == "Node" {
						evalAt = u
					}
				}
				return false
			}, core.DeriveOpts{})
			return !core.MayFollow(w.Store, evalAt)
		})
	}
	clearBlocks := core.BlocksWith(fn, clears)
	for _, pair := range []struct{ what, callee string }{{"ip", enodeIPAddr}, {"port", enodeUDP}} {
		g := eqFact(pair.callee)
		// facts established before the store also count (ipchanged is tested before and after)
		pre := core.InstrGuarded(w.Store, g, nil) == nil
		var wpp []*ssa.BasicBlock
		if !pre {
			wpp = core.CutReach(core.CutSpec{Fn: fn, From: w.Store.Block(),
				Cut: func(b *ssa.BasicBlock, i int) bool { return g(core.EdgeFacts(b, i)) || clearBlocks[b.Succs[i]] },
				Target: func(prev, b *ssa.BasicBlock) bool {
					_, isRet := b.Instrs[len(b.Instrs)-1].(*ssa.Return)
					return isRet && !clearBlocks[b]
				}})
		}
		r.Check(wpp == nil, rule, key+" "+pair.what+"-change-clears-verified", p.Pos(w.Store.Pos()),
			"every exit after the replacement either cleared isValidatedLive or established that the "+pair.what+" is unchanged", "a changed "+pair.what+" can leave the node marked as verified: "+p.PathString(wpp))
	}
}
