package props

import (
	"fmt"
	"go/token"
	"go/types"
	"sort"
	"strings"

	"golang.org/x/tools/go/ssa"

	"verifchk/core"
)

func init() { Registry["C02"] = c02 }

const (
	gethHeaderHash = "github.com/ethereum/go-ethereum/core/types.(*Header).Hash"
	gethCalcUncle  = "github.com/ethereum/go-ethereum/core/types.CalcUncleHash"
	gethDeriveSha  = "github.com/ethereum/go-ethereum/core/types.DeriveSha"
	rpcCallContext = "github.com/ethereum/go-ethereum/rpc.(*Client).CallContext"
)

// implementersOf returns the named types of the module implementing the interface pkgrel.Name.
func implementersOf(p *core.Prog, pkgrel, name string) []*types.Named {
	pk := p.Pkg(pkgrel)
	if pk == nil {
		return nil
	}
	obj := pk.Types.Scope().Lookup(name)
	if obj == nil {
		return nil
	}
	iface, ok := obj.Type().Underlying().(*types.Interface)
	if !ok {
		return nil
	}
	var out []*types.Named
	for _, q := range p.Pkgs {
		sc := q.Types.Scope()
		for _, n := range sc.Names() {
			tn, ok := sc.Lookup(n).(*types.TypeName)
			if !ok {
				continue
			}
			nt, ok := tn.Type().(*types.Named)
			if !ok {
				continue
			}
			if _, isI := nt.Underlying().(*types.Interface); isI {
				continue
			}
			if types.Implements(types.NewPointer(nt), iface) || types.Implements(nt, iface) {
				out = append(out, nt)
			}
		}
	}
	return out
}

// caseStarts finds, in a function that switches on key[0], the block each case constant leads to.
func caseStarts(fn *ssa.Function, key *ssa.Parameter) map[int64]*ssa.BasicBlock {
	out := map[int64]*ssa.BasicBlock{}
	for _, b := range fn.Blocks {
		for i := range b.Succs {
			for _, f := range core.EdgeFacts(b, i) {
				if f.Op != token.EQL {
					continue
				}
				for _, pr := range [][2]ssa.Value{{f.X, f.Y}, {f.Y, f.X}} {
					k, isC := core.ConstInt(pr[1])
					if !isC {
						continue
					}
					isSel := core.Derives(pr[0], func(v ssa.Value) bool {
						ia, ok := v.(*ssa.IndexAddr)
						if !ok || ia.X != ssa.Value(key) {
							return false
						}
						z, isZ := core.ConstInt(ia.Index)
						return isZ && z == 0
					}, core.DeriveOpts{})
					if isSel {
						out[k] = b.Succs[i]
					}
				}
			}
		}
	}
	return out
}

func derivesFromParam(v ssa.Value, pa *ssa.Parameter) bool {
	return core.Derives(v, func(x ssa.Value) bool { return x == ssa.Value(pa) }, core.DeriveOpts{ThroughCalls: true})
}

// bytesEqualFact: fact bytes.Equal(a, b) == true (or array ==) with predicates on the operands in either order.
func bytesEqualFact(pa, pb func(ssa.Value) bool) func(fs []core.Fact) bool {
	return core.AnyFact(func(f core.Fact) bool {
		if f.Op == token.ILLEGAL && f.Truth {
			if cc, ok := f.V.(*ssa.Call); ok && core.CalleeID(cc) == "bytes.Equal" {
				a, b := cc.Call.Args[0], cc.Call.Args[1]
				return (pa(a) && pb(b)) || (pa(b) && pb(a))
			}
		}
		if f.Op == token.EQL {
			return (pa(f.X) && pb(f.Y)) || (pa(f.Y) && pb(f.X))
		}
		return false
	})
}

func derivesFromCall(v ssa.Value, id string, argOK func(c *ssa.Call) bool) bool {
	return core.Derives(v, func(x ssa.Value) bool {
		cc, ok := x.(*ssa.Call)
		if !ok || core.CalleeID(cc) != id {
			return false
		}
		return argOK == nil || argOK(cc)
	}, core.DeriveOpts{ThroughCalls: true})
}

func derivesFromHeaderField(v ssa.Value, field string) bool {
	return core.Derives(v, func(x ssa.Value) bool {
		t, f, ok := core.LoadedField(x)
		if ok && t == "Header" && f == field {
			return true
		}
		t2, f2, _, ok2 := core.FieldRef(x)
		return ok2 && t2 == "Header" && f2 == field
	}, core.DeriveOpts{ThroughCalls: true})
}

// deriveShaOf: v derives from DeriveSha(<listType>(...)).
func deriveShaOf(v ssa.Value, listType string) bool {
	return derivesFromCall(v, gethDeriveSha, func(c *ssa.Call) bool {
		return core.Derives(c.Call.Args[0], func(x ssa.Value) bool { return core.TypeName(x.Type()) == listType }, core.DeriveOpts{})
	})
}

func c02(c *Ctx) {
	p, r := c.P, c.R
	r.Technique = "per-content-type must-pass-through (cut) checks on the history validator (cases enumerated from the switch on the key's selector), comparison-pair table for body/receipt roots, binding check of every network-sourced oracle result, and validation-before-store/return gating in the history network"
	r.Explanation = "Decides: (R1) for each content-type case of the history validator (every case found must have a rule; unknown selectors must fail): header-by-hash - the proof validator is reached only after hash(decoded header) == key[1:] and success is exactly the proof validator's verdict for that header and that proof; header-by-number - likewise with header.Number == number decoded from the key; body - the header comes from the oracle for key[1:] and success is exactly the body validator's verdict for (content, that header); receipts - success is the receipt validator's verdict for (content, that header's ReceiptHash), the empty shortcut only under ReceiptHash == empty root and len(content) == 0; (R2) the body validator returns nil only after CalcUncleHash(uncles) == header.UncleHash, DeriveSha(transactions) == header.TxHash and DeriveSha(withdrawals) == header.WithdrawalsHash, the last skipped only when header.WithdrawalsHash == nil; the receipt validator only after DeriveSha(receipts) == the root it was given; (R3) every Oracle implementation that obtains its answer over the in-process RPC (network look-ups return unvalidated bytes) binds it before returning: header-by-hash results to the requested hash, summaries to a trusted root; the header is compared with the requested hash as it was given (a copy made by a length-normalising helper counts only under a length check); (R4) in the history network every store Put and every success return that follows a network ContentLookup is reached only after ValidateContent(same key, same content) returned nil, and the offered-content loop stores only validated items; outside the history network no store write anywhere in the module takes its content from a network look-up without a ValidateContent gate (the store is trusted by the block getters and the offer filter); the function that cuts a raw pre-merge proof into branches succeeds only for lengths that are a multiple of 32 (no padding of a truncated item). Not decided: collision resistance, correctness of DeriveSha/RLP/SSZ decoders, trailing or non-canonical bytes accepted by decoders, the whole rejected set."
	r.Assumptions = []string{"go-ethereum types.Header.Hash, CalcUncleHash, DeriveSha", "a hash equal to the key's hash identifies the header (collision resistance)"}
	r.Floor("R1.case", 8)
	r.Floor("R2.body-roots", 3)
	r.Floor("R2.receipt-root", 1)
	r.Floor("R3.oracle-binding", 2)
	r.Floor("R4.validate-before-store", 7)

	// ---- the history validator
	var HV *ssa.Function
	for _, nt := range implementersOf(p, "validation", "Validator") {
		if nt.Obj().Pkg().Path() == core.ModPath+"/history" {
			HV = methodOf(p, nt, "ValidateContent")
		}
	}
	if HV == nil {
		r.Fail("R1.case", "history validator", "-", "anchor-unresolved: no validation.Validator implementation in package history")
		return
	}
	hv := core.FuncName(HV)
	key, content := HV.Params[1], HV.Params[2]
	cases := caseStarts(HV, key)
	var ks []int64
	for k := range cases {
		ks = append(ks, k)
	}
	sort.Slice(ks, func(i, j int) bool { return ks[i] < ks[j] })
	isProofValidatorCall := func(c2 *ssa.Call) bool {
		cc := c2.Call
		if cc.IsInvoke() {
			return false
		}
		f := core.StaticCalleeFn(c2)
		return f != nil && f.Signature.Recv() != nil && core.TypeName(f.Signature.Recv().Type()) == "HeaderValidator" && f.Signature.Params().Len() == 2
	}
	isOracleHeader := func(c2 *ssa.Call) bool {
		return c2.Call.IsInvoke() && c2.Call.Method.Name() == "GetBlockHeaderByHash" && derivesFromParam(c2.Call.Args[0], key)
	}
	var bodyValidators, receiptValidators []*ssa.Function
	for _, fn := range p.ModuleFuncs() {
		if fn.Pkg != p.SSAPkg("history") {
			continue
		}
		if len(core.CallsTo(fn, gethCalcUncle)) > 0 {
			bodyValidators = append(bodyValidators, fn)
		}
		hasRc := false
		core.Calls(fn, func(ci ssa.CallInstruction) {
			if cc, ok := ci.(*ssa.Call); ok && core.CalleeID(cc) == gethDeriveSha {
				if core.Derives(cc.Call.Args[0], func(x ssa.Value) bool { return core.TypeName(x.Type()) == "Receipts" }, core.DeriveOpts{}) {
					hasRc = true
				}
			}
		})
		if hasRc {
			receiptValidators = append(receiptValidators, fn)
		}
	}
	reachesAny := func(f *ssa.Function, set []*ssa.Function) bool {
		if f == nil {
			return false
		}
		if containsFn(set, f) {
			return true
		}
		return core.ReachesInstr(f, 2, func(in ssa.Instruction) bool {
			if ci, ok := in.(ssa.CallInstruction); ok {
				return containsFn(set, core.StaticCalleeFn(ci))
			}
			return false
		})
	}
	for _, k := range ks {
		start := cases[k]
		ckey := fmt.Sprintf("%s case 0x%02x ", hv, k)
		pos := p.Pos(core.InstrPos(start.Instrs[0]))
		switch k {
		case 0x00, 0x03:
			// the only success exits are the proof validator's verdict
			var pv *ssa.Call
			for _, b := range HV.Blocks {
				if !start.Dominates(b) {
					continue
				}
				for _, in := range b.Instrs {
					if cc, ok := in.(*ssa.Call); ok && isProofValidatorCall(cc) {
						pv = cc
					}
				}
			}
			if pv == nil {
				r.Fail("R1.case", ckey+"proof-validator", pos, "this header case does not call the header proof validator")
				continue
			}
			g := core.ErrNilGate("proof", func(c2 *ssa.Call) bool { return c2 == pv })
			w := core.CutReach(core.CutSpec{Fn: HV, From: start, Cut: func(b *ssa.BasicBlock, i int) bool { return g.Edge(core.EdgeFacts(b, i)) }, Target: core.SuccessTarget(HV, g.ErrOK)})
			r.Check(w == nil, "R1.case", ckey+"success-is-proof-verdict", pos, "the case succeeds only with the proof validator's verdict", "a header can be accepted without its proof having been validated: "+p.PathString(w))
			hdr := pv.Call.Args[len(pv.Call.Args)-2]
			prf := pv.Call.Args[len(pv.Call.Args)-1]
			r.Check(derivesFromParam(hdr, content) && derivesFromParam(prf, content), "R1.case", ckey+"operands", p.Pos(pv.Pos()), "header and proof both come from the offered content", "the proof validator is not applied to the header and proof decoded from the content")
			var bind func(fs []core.Fact) bool
			if k == 0x00 {
				bind = bytesEqualFact(
					func(v ssa.Value) bool {
						return derivesFromCall(v, gethHeaderHash, func(c *ssa.Call) bool { return core.SameValue(c.Call.Args[0], hdr) || derivesSame(c.Call.Args[0], hdr) })
					},
					func(v ssa.Value) bool { return derivesFromParam(v, key) && !derivesFromParam(v, content) })
			} else {
				bind = core.AnyFact(func(f core.Fact) bool {
					if f.Op != token.EQL {
						return false
					}
					isNum := func(v ssa.Value) bool {
						return derivesFromHeaderField(v, "Number") && derivesFromParam(v, content)
					}
					isKeyNum := func(v ssa.Value) bool { return derivesFromParam(v, key) && !derivesFromParam(v, content) }
					return (isNum(f.X) && isKeyNum(f.Y)) || (isNum(f.Y) && isKeyNum(f.X))
				})
			}
			w = core.InstrGuarded(pv, bind, start)
			what := map[int64]string{0: "hash(header) == key[1:]", 3: "header.Number == number in the key"}[k]
			r.Check(w == nil, "R1.case", ckey+"key-binding", p.Pos(pv.Pos()), "validated only after "+what, "a header that is not bound to the key ("+what+") can be accepted: "+p.PathString(w))
		case 0x01, 0x02:
			var oc *ssa.Call
			for _, b := range HV.Blocks {
				if !start.Dominates(b) {
					continue
				}
				for _, in := range b.Instrs {
					if cc, ok := in.(*ssa.Call); ok && isOracleHeader(cc) {
						oc = cc
					}
				}
			}
			if oc == nil {
				r.Fail("R1.case", ckey+"header-source", pos, "the header this item is checked against does not come from the oracle for the key's block hash")
				continue
			}
			var hdr ssa.Value
			for _, rf := range *oc.Referrers() {
				if ex, ok := rf.(*ssa.Extract); ok && ex.Index == 0 {
					hdr = ex
				}
			}
			set := bodyValidators
			if k == 0x02 {
				set = receiptValidators
			}
			var vc *ssa.Call
			for _, b := range HV.Blocks {
				if !start.Dominates(b) {
					continue
				}
				for _, in := range b.Instrs {
					if cc, ok := in.(*ssa.Call); ok && reachesAny(core.StaticCalleeFn(cc), set) {
						vc = cc
					}
				}
			}
			if vc == nil {
				r.Fail("R1.case", ckey+"root-validator", pos, "this case does not call the root-recomputing validator")
				continue
			}
			g := core.ErrNilGate("roots", func(c2 *ssa.Call) bool { return c2 == vc })
			og := core.ErrNilGate("oracle", func(c2 *ssa.Call) bool { return c2 == oc })
			// success exits: the validator's verdict, or (receipts) the empty shortcut
			shortcut := func(fs []core.Fact) bool { return false }
			if k == 0x02 {
				emptyRoot := bytesEqualFact(func(v ssa.Value) bool {
					return derivesFromHeaderField(v, "ReceiptHash") && core.Derives(v, func(x ssa.Value) bool { return x == hdr }, core.DeriveOpts{ThroughCalls: true})
				},
					func(v ssa.Value) bool {
						return core.Derives(v, func(x ssa.Value) bool {
							g, ok := x.(*ssa.Global)
							return ok && strings.Contains(strings.ToLower(g.Name()), "empty")
						}, core.DeriveOpts{})
					})
				noContent := core.AnyFact(func(f core.Fact) bool {
					return core.CmpFact(f, func(op token.Token, x, y ssa.Value) bool {
						n, isC := core.ConstInt(y)
						return isC && core.IsLenOf(x, func(v ssa.Value) bool { return v == ssa.Value(content) }) && ((op == token.LEQ && n == 0) || (op == token.EQL && n == 0) || (op == token.LSS && n == 1))
					})
				})
				// both must be passed: two cut checks
				w1 := core.CutReach(core.CutSpec{Fn: HV, From: start, Cut: func(b *ssa.BasicBlock, i int) bool {
					fs := core.EdgeFacts(b, i)
					return g.Edge(fs) || emptyRoot(fs)
				}, Target: core.SuccessTarget(HV, g.ErrOK)})
				w2 := core.CutReach(core.CutSpec{Fn: HV, From: start, Cut: func(b *ssa.BasicBlock, i int) bool {
					fs := core.EdgeFacts(b, i)
					return g.Edge(fs) || noContent(fs)
				}, Target: core.SuccessTarget(HV, g.ErrOK)})
				r.Check(w1 == nil && w2 == nil, "R1.case", ckey+"success-is-root-verdict-or-empty", pos, "succeeds only with the receipt validator's verdict, or with empty content for a header whose receipt root is the empty root", "receipts can be accepted without their root having been recomputed (outside the empty-root/empty-content shortcut): "+p.PathString(w1)+p.PathString(w2))
				_ = shortcut
				// a block without receipts has exactly one valid encoding, the empty string: when the
				// header's root is the empty root, success requires len(content) == 0 (the list decoder
				// also takes 0x00000000 for an empty list, so the root comparison alone does not say so)
				isRoot := func(v ssa.Value) bool {
					return derivesFromHeaderField(v, "ReceiptHash") && core.Derives(v, func(x ssa.Value) bool { return x == hdr }, core.DeriveOpts{ThroughCalls: true})
				}
				isEmptyConst := func(v ssa.Value) bool {
					return core.Derives(v, func(x ssa.Value) bool {
						g, ok := x.(*ssa.Global)
						return ok && strings.Contains(strings.ToLower(g.Name()), "empty")
					}, core.DeriveOpts{})
				}
				rootNotEmpty := core.AnyFact(func(f core.Fact) bool {
					if f.Op == token.ILLEGAL && !f.Truth {
						if cc, ok := f.V.(*ssa.Call); ok && core.CalleeID(cc) == "bytes.Equal" {
							a, b := cc.Call.Args[0], cc.Call.Args[1]
							return (isRoot(a) && isEmptyConst(b)) || (isRoot(b) && isEmptyConst(a))
						}
					}
					if f.Op == token.NEQ {
						return (isRoot(f.X) && isEmptyConst(f.Y)) || (isRoot(f.Y) && isEmptyConst(f.X))
					}
					return false
				})
				w3 := core.CutReach(core.CutSpec{Fn: HV, From: start, Cut: func(b *ssa.BasicBlock, i int) bool {
					fs := core.EdgeFacts(b, i)
					return rootNotEmpty(fs) || noContent(fs)
				}, Target: core.SuccessTarget(HV, nil)})
				r.Check(w3 == nil, "R1.case", ckey+"empty-root-needs-empty-content", pos, "for a header whose receipt root is the empty root only the empty string is accepted", "non-empty content can be accepted under the key of a block without receipts (e.g. 0x00000000, which the list decoder takes for an empty list): "+p.PathString(w3))
			} else {
				w := core.CutReach(core.CutSpec{Fn: HV, From: start, Cut: func(b *ssa.BasicBlock, i int) bool { return g.Edge(core.EdgeFacts(b, i)) }, Target: core.SuccessTarget(HV, g.ErrOK)})
				r.Check(w == nil, "R1.case", ckey+"success-is-root-verdict", pos, "succeeds only with the body validator's verdict", "a body can be accepted without its roots having been recomputed: "+p.PathString(w))
			}
			w := core.InstrGuarded(vc, og.Edge, start)
			r.Check(w == nil, "R1.case", ckey+"oracle-error", p.Pos(oc.Pos()), "validated only when the oracle returned a header", "validation proceeds although the oracle failed: "+p.PathString(w))
			// operands
			okContent, okHdr := false, false
			for _, a := range vc.Call.Args {
				if a == ssa.Value(content) {
					okContent = true
				}
				if hdr != nil && core.Derives(a, func(x ssa.Value) bool { return x == hdr }, core.DeriveOpts{ThroughCalls: true}) {
					if k == 0x01 || derivesFromHeaderField(a, "ReceiptHash") {
						okHdr = true
					}
				}
			}
			r.Check(okContent && okHdr, "R1.case", ckey+"operands", p.Pos(vc.Pos()), "the validator is given the content and the oracle's header (its receipt root)", "the root validator is not applied to the offered content and the header for the key's hash")
		default:
			r.Fail("R1.case", ckey+"unknown-case", pos, "the history validator has a content-type case for which no binding rule exists (content of this type would be accepted on unknown grounds)")
		}
	}
	for _, want := range []int64{0, 1, 2, 3} {
		if _, ok := cases[want]; !ok {
			r.Fail("R1.case", fmt.Sprintf("%s case 0x%02x missing", hv, want), p.Pos(HV.Pos()), "the validator no longer distinguishes this content type")
		}
	}
	// default: error
	{
		// the path on which every selector comparison is false must not succeed
		isSelCmp := func(f core.Fact) bool {
			if f.Op != token.EQL {
				return false
			}
			_, isC := core.ConstInt(f.Y)
			return isC
		}
		w := core.CutReach(core.CutSpec{Fn: HV, Cut: func(b *ssa.BasicBlock, i int) bool { return core.AnyFact(isSelCmp)(core.EdgeFacts(b, i)) }, Target: core.SuccessTarget(HV, nil)})
		r.Check(w == nil, "R1.case", hv+" default-rejects", p.Pos(HV.Pos()), "unknown selectors yield an error", "content with an unknown selector can be accepted: "+p.PathString(w))
	}

	// ---- R2 body roots
	for _, bv := range bodyValidators {
		name := core.FuncName(bv)
		var hdrP *ssa.Parameter
		for _, pa := range bv.Params {
			if pt, ok := pa.Type().(*types.Pointer); ok && core.TypeName(pt.Elem()) == "Header" {
				hdrP = pa
			}
		}
		if hdrP == nil {
			r.Fail("R2.body-roots", name+" header-operand", p.Pos(bv.Pos()), "the body validator does not take the header")
			continue
		}
		fromHdr := func(field string) func(ssa.Value) bool {
			return func(v ssa.Value) bool { return derivesFromHeaderField(v, field) && derivesFromParam(v, hdrP) }
		}
		pairs := []struct {
			key, what string
			lhs       func(ssa.Value) bool
			field     string
		}{
			{"uncles", "CalcUncleHash(uncles) == header.UncleHash", func(v ssa.Value) bool { return derivesFromCall(v, gethCalcUncle, nil) }, "UncleHash"},
			{"transactions", "DeriveSha(transactions) == header.TxHash", func(v ssa.Value) bool { return deriveShaOf(v, "Transactions") }, "TxHash"},
		}
		for _, pr := range pairs {
			g := bytesEqualFact(pr.lhs, fromHdr(pr.field))
			w := core.CutReach(core.CutSpec{Fn: bv, Cut: func(b *ssa.BasicBlock, i int) bool { return g(core.EdgeFacts(b, i)) }, Target: core.SuccessTarget(bv, nil)})
			r.Check(w == nil, "R2.body-roots", name+" "+pr.key, p.Pos(bv.Pos()), "nil only after "+pr.what, "a body can be accepted without "+pr.what+": "+p.PathString(w))
		}
		// withdrawals: compared, or the header has no withdrawals root
		g := bytesEqualFact(func(v ssa.Value) bool { return deriveShaOf(v, "Withdrawals") }, fromHdr("WithdrawalsHash"))
		noRoot := core.AnyFact(func(f core.Fact) bool {
			if f.Op != token.EQL {
				return false
			}
			isWH := func(v ssa.Value) bool { _, fl, ok := core.LoadedField(v); return ok && fl == "WithdrawalsHash" }
			return (isWH(f.X) && core.IsNilConst(f.Y)) || (isWH(f.Y) && core.IsNilConst(f.X))
		})
		w := core.CutReach(core.CutSpec{Fn: bv, Cut: func(b *ssa.BasicBlock, i int) bool { fs := core.EdgeFacts(b, i); return g(fs) || noRoot(fs) }, Target: core.SuccessTarget(bv, nil)})
		r.Check(w == nil, "R2.body-roots", name+" withdrawals", p.Pos(bv.Pos()), "nil only after DeriveSha(withdrawals) == header.WithdrawalsHash, skipped only when the header has no withdrawals root", "a body can be accepted without its withdrawals matching the header's withdrawals root (e.g. a legacy-encoded body for a post-Shanghai header): "+p.PathString(w))
	}
	for _, rv := range receiptValidators {
		name := core.FuncName(rv)
		var rootP *ssa.Parameter
		for _, pa := range rv.Params {
			if pa.Type().String() == "[]byte" {
				rootP = pa // the last []byte parameter is the root
			}
		}
		if rootP == nil {
			r.Fail("R2.receipt-root", name, p.Pos(rv.Pos()), "receipt validator without a root operand")
			continue
		}
		g := bytesEqualFact(func(v ssa.Value) bool { return deriveShaOf(v, "Receipts") }, func(v ssa.Value) bool { return v == ssa.Value(rootP) })
		w := core.CutReach(core.CutSpec{Fn: rv, Cut: func(b *ssa.BasicBlock, i int) bool { return g(core.EdgeFacts(b, i)) }, Target: core.SuccessTarget(rv, nil)})
		r.Check(w == nil, "R2.receipt-root", name, p.Pos(rv.Pos()), "nil only after DeriveSha(receipts) == the given root", "receipts can be accepted without their root matching: "+p.PathString(w))
	}

	// ---- R3 oracle binding
	for _, nt := range implementersOf(p, "validation", "Oracle") {
		for _, mname := range []string{"GetBlockHeaderByHash", "GetHistoricalSummaries"} {
			m := methodOf(p, nt, mname)
			if m == nil || len(core.CallsTo(m, rpcCallContext)) == 0 {
				continue
			}
			name := core.FuncName(m)
			if mname == "GetBlockHeaderByHash" {
				oracleHeaderBinding(c, "R3.oracle-binding", m)
			} else {
				// summaries must be verified against a trusted root before being trusted
				ver := func(fs []core.Fact) bool {
					for _, f := range fs {
						if f.Op == token.ILLEGAL && f.Truth {
							if cc, ok := f.V.(*ssa.Call); ok && (core.CalleeID(cc) == merkleVerify || strings.Contains(core.CalleeID(cc), "Validat")) {
								return true
							}
						}
						if core.FactIsErrNil(f, func(v ssa.Value) bool {
							return core.Derives(v, func(x ssa.Value) bool {
								cc, ok := x.(*ssa.Call)
								return ok && strings.Contains(core.CalleeID(cc), "Validat")
							}, core.DeriveOpts{})
						}) {
							return true
						}
					}
					return false
				}
				w := core.CutReach(core.CutSpec{Fn: m, Cut: func(b *ssa.BasicBlock, i int) bool { return ver(core.EdgeFacts(b, i)) }, Target: core.SuccessTarget(m, nil)})
				r.Check(w == nil, "R3.oracle-binding", name, p.Pos(m.Pos()), "looked-up summaries are verified before being trusted", "historical summaries obtained by a network look-up are used as the trusted accumulator for post-Capella proofs without being verified against a trusted state root (forged summaries make forged headers verify): "+p.PathString(w))
			}
		}
	}

	// ---- R5 no decode/validation error is overwritten or lost before it is examined
	{
		roots := []*ssa.Function{HV}
		for _, fn := range p.ModuleFuncs() {
			if fn.Pkg == p.SSAPkg("history") && fn.Signature.Recv() != nil && core.TypeName(fn.Signature.Recv().Type()) == "Network" {
				roots = append(roots, fn)
			}
		}
		lostErrorRule(c, "R5.error-not-lost", "history validation path", roots, []string{"history", "validation", "types/history"})
	}

	c02NoUnvalidatedStore(c)
	proofChunkerWholeWords(c, "R1.case")
	// ---- R4 history network gating
	hist := p.SSAPkg("history")
	for _, fn := range p.ModuleFuncs() {
		if fn.Pkg != hist || fn.Signature.Recv() == nil || core.TypeName(fn.Signature.Recv().Type()) != "Network" {
			continue
		}
		name := core.FuncName(fn)
		var validates []*ssa.Call
		core.Calls(fn, func(ci ssa.CallInstruction) {
			cc := ci.Common()
			if cc.IsInvoke() && cc.Method.Name() == "ValidateContent" {
				if call, ok := ci.(*ssa.Call); ok {
					validates = append(validates, call)
				}
			}
		})
		validated := func(keyV, contentV ssa.Value) core.Gate {
			return core.ErrNilGate("validate", func(c2 *ssa.Call) bool {
				for _, v := range validates {
					if c2 == v && core.SameValue(v.Call.Args[0], keyV) && core.SameValue(v.Call.Args[1], contentV) {
						return true
					}
				}
				return false
			})
		}
		nput := 0
		core.Calls(fn, func(ci ssa.CallInstruction) {
			if !strings.HasSuffix(core.CalleeID(ci), "portalwire.(*PortalProtocol).Put") {
				return
			}
			nput++
			a := ci.Common().Args
			g := validated(a[1], a[3])
			w := core.InstrGuarded(ci, g.Edge, nil)
			r.Check(w == nil, "R4.validate-before-store", fmt.Sprintf("%s put #%d", name, nput), p.Pos(ci.Pos()), "stored only after ValidateContent(same key, same content) returned nil", "content can be stored without having been validated under its key: "+p.PathString(w))
		})
		for i, ci := range core.CallsTo(fn, core.ModPath+"/portalwire.(*PortalProtocol).ContentLookup") {
			call, ok := ci.(*ssa.Call)
			if !ok {
				continue
			}
			var looked ssa.Value
			for _, rf := range *call.Referrers() {
				if ex, ok := rf.(*ssa.Extract); ok && ex.Index == 0 {
					looked = ex
				}
			}
			if looked == nil {
				continue
			}
			g := validated(call.Call.Args[1], looked)
			w := core.CutReach(core.CutSpec{Fn: fn, From: call.Block(), Cut: func(b *ssa.BasicBlock, i int) bool { return g.Edge(core.EdgeFacts(b, i)) }, Target: core.SuccessTarget(fn, nil)})
			r.Check(w == nil, "R4.validate-before-store", fmt.Sprintf("%s lookup #%d result", name, i+1), p.Pos(call.Pos()), "a looked-up item is returned only after it validated under the requested key", "content obtained from the network can be returned without validation: "+p.PathString(w))
		}
	}
}

// c02NoUnvalidatedStore: outside the history network's own (validated) paths, nothing obtained
// from a network look-up is written to a content store. The store is what the block getters and
// the offer filter trust without re-validating ("already have it").
func c02NoUnvalidatedStore(c *Ctx) {
	p, r := c.P, c.R
	hist := p.SSAPkg("history")
	isFetch := func(v ssa.Value) bool {
		ex, ok := v.(*ssa.Extract)
		if !ok {
			return false
		}
		cc, ok := ex.Tuple.(*ssa.Call)
		if !ok {
			return false
		}
		f := core.StaticCalleeFn(cc)
		if f == nil || f.Signature.Recv() == nil || core.TypeName(f.Signature.Recv().Type()) != "PortalProtocol" {
			return false
		}
		n := core.FuncName(f)
		return strings.HasSuffix(n, "ContentLookup") || strings.HasSuffix(n, ").FindContent") || strings.HasSuffix(n, ").processContent")
	}
	nSites := 0
	for _, fn := range p.ModuleFuncs() {
		if fn.Pkg == hist && fn.Signature.Recv() != nil && core.TypeName(fn.Signature.Recv().Type()) == "Network" {
			continue // R4 above demands ValidateContent(same key, same content) for these
		}
		if fn.Signature.Recv() != nil && core.TypeName(fn.Signature.Recv().Type()) == "PortalProtocol" && (fn.Name() == "Put" || fn.Name() == "ShouldStore") {
			continue // the store-write wrappers themselves
		}
		nput := 0
		core.Calls(fn, func(ci ssa.CallInstruction) {
			cc := ci.Common()
			isWrite := strings.HasSuffix(core.CalleeID(ci), "portalwire.(*PortalProtocol).Put") || strings.HasSuffix(core.CalleeID(ci), "portalwire.(*PortalProtocol).ShouldStore") ||
				(cc.IsInvoke() && cc.Method.Name() == "Put" && core.TypeName(cc.Value.Type()) == "ContentStorage")
			if !isWrite || len(cc.Args) == 0 {
				return
			}
			nSites++
			nput++
			content := cc.Args[len(cc.Args)-1]
			fetched := core.Derives(content, isFetch, core.DeriveOpts{})
			if !fetched {
				return
			}
			// validated first?
			g := core.ErrNilGate("validate", func(c2 *ssa.Call) bool {
				k := c2.Call
				return k.IsInvoke() && k.Method.Name() == "ValidateContent" && len(k.Args) == 2 && derivesSame(k.Args[1], content)
			})
			w := core.InstrGuarded(ci, g.Edge, nil)
			r.Check(w == nil, "R4.validate-before-store", fmt.Sprintf("%s stores-lookup-result #%d", core.FuncName(fn), nput), p.Pos(ci.Pos()), "a looked-up item is stored only after it validated under its key", "bytes a peer returned for a look-up are written to the content store without validation; the block getters and the offer filter then trust the stored item (whatever it is) as the content of that key: "+p.PathString(w))
		})
	}
	r.Check(nSites >= 5, "R4.validate-before-store", "store-write sites outside the history network", "-", fmt.Sprintf("%d store-write call sites inspected: none writes the result of a network look-up unvalidated", nSites), fmt.Sprintf("only %d store-write call sites found", nSites))
}

// proofChunkerWholeWords: the function that cuts a raw proof ([]byte) into 32-byte branches
// succeeds only when the length is a multiple of 32. Padding a short last chunk makes a
// truncated item decode to the genuine proof whenever the cut bytes were zero (the last branch
// of every pre-merge proof is the length mix-in word, 30 zero bytes at its end).
func proofChunkerWholeWords(c *Ctx, rule string) {
	p, r := c.P, c.R
	n := 0
	for _, fn := range p.ModuleFuncs() {
		if fn.Pkg != p.SSAPkg("validation") || fn.Parent() != nil || len(fn.Params) != 1 {
			continue
		}
		sig := fn.Signature
		if sig.Results().Len() != 2 || core.ErrResultIndex(sig) != 1 || sig.Results().At(0).Type().String() != "[][]byte" || sig.Params().At(0).Type().String() != "[]byte" {
			continue
		}
		n++
		in := fn.Params[0]
		whole := core.AnyFact(func(f core.Fact) bool {
			return core.CmpFact(f, func(op token.Token, x, y ssa.Value) bool {
				k, isC := core.ConstInt(y)
				bo, isBo := x.(*ssa.BinOp)
				if !isC || !isBo || op != token.EQL || k != 0 || bo.Op != token.REM {
					return false
				}
				m, isM := core.ConstInt(bo.Y)
				return isM && m == 32 && core.IsLenOf(bo.X, func(v ssa.Value) bool { return v == ssa.Value(in) })
			})
		})
		w := core.CutReach(core.CutSpec{Fn: fn, Cut: func(b *ssa.BasicBlock, i int) bool { return whole(core.EdgeFacts(b, i)) }, Target: core.SuccessTarget(fn, nil)})
		r.Check(w == nil, rule, core.FuncName(fn)+" whole-words-only", p.Pos(fn.Pos()), "a raw proof is cut into branches only when its length is a multiple of 32", "a raw proof whose length is not a multiple of 32 is cut into branches all the same (a short last chunk is padded or dropped): an item with bytes cut off its end can decode to the genuine proof and is accepted under the key: "+p.PathString(w))
	}
	r.Check(n >= 1, rule, "raw-proof chunker", "-", fmt.Sprintf("%d chunker(s) inspected", n), "anchor-unresolved: the function cutting a raw proof into 32-byte branches")
}

// derivesSame: a derives from the same underlying value as b (e.g. both from one decode call).
func derivesSame(a, b ssa.Value) bool {
	return core.Derives(a, func(x ssa.Value) bool { return x == b || core.SameValue(x, b) }, core.DeriveOpts{})
}

// lostErrorRule: on the functions reachable from roots inside the given packages no bound error
// value may be overwritten or dropped on a path that goes on to succeed.
func lostErrorRule(c *Ctx, rule, what string, roots []*ssa.Function, pkgs []string) {
	p, r := c.P, c.R
	reach := p.Reachable(roots)
	in := map[string]bool{}
	for _, k := range pkgs {
		in[core.ModPath+"/"+k] = true
	}
	var fns []*ssa.Function
	for f := range reach {
		root := f
		for root.Parent() != nil {
			root = root.Parent()
		}
		if root.Pkg != nil && in[root.Pkg.Pkg.Path()] {
			fns = append(fns, f)
		}
	}
	sort.Slice(fns, func(i, j int) bool { return fns[i].String() < fns[j].String() })
	n := 0
	for _, f := range fns {
		ds := core.DroppedErrors(f)
		seenK := map[string]int{}
		for _, d := range ds {
			callee := "call"
			switch x := d.Def.(type) {
			case *ssa.Call:
				callee = shortID(core.CalleeID(x))
			case *ssa.Extract:
				if cc, ok := x.Tuple.(*ssa.Call); ok {
					callee = shortID(core.CalleeID(cc))
				}
			}
			k := core.FuncName(f) + " error-of " + callee
			seenK[k]++
			if seenK[k] > 1 {
				k = fmt.Sprintf("%s #%d", k, seenK[k])
			}
			r.Fail(rule, k, p.Pos(core.InstrPos(d.Def.(ssa.Instruction))), "an error on the validation path can be lost: "+d.How+" ("+p.PathString(d.Path)+"): malformed content that made this call fail is treated as valid")
		}
		// an error assigned to a named variable whose value is never read (shadowing)
		dead := 0
		if pk, _ := p.FileOf(f.Pos()); pk != nil {
			for _, in := range core.DeadErrorStores(f, pk.TypesInfo) {
				dead++
				callee := "call"
				if cc, ok := in.(*ssa.Call); ok {
					callee = shortID(core.CalleeID(cc))
				}
				k := core.FuncName(f) + " dead-error-of " + callee
				seenK[k]++
				if seenK[k] > 1 {
					k = fmt.Sprintf("%s #%d", k, seenK[k])
				}
				r.Fail(rule, k, p.Pos(core.InstrPos(in)), "the error of this call is assigned to a variable but that value is never read (a shadowed variable of the same name is what is checked or returned): a failure of this step is silently ignored")
			}
		}
		if len(ds) == 0 && dead == 0 {
			n++
		}
	}
	r.Pass(rule, what, "-", fmt.Sprintf("%d functions checked: no bound error value is overwritten or dropped before being examined on a path that can succeed", n))
	r.Count("functions_checked_for_lost_errors", len(fns))
}

// oracleHeaderBinding: a header-by-hash oracle method that asks the network returns a header
// with nil error only after header.Hash() compared equal to the requested hash.
func oracleHeaderBinding(c *Ctx, rule string, m *ssa.Function) {
	p, r := c.P, c.R
	hashP := m.Params[1]
	// the requested hash as it was given: a copy made by a length-normalising helper
	// (common.BytesToHash crops an over-long argument to its last 32 bytes and pads a short one)
	// is not the request - a key with extra or missing bytes would be bound to another block
	asGiven := func(v ssa.Value) bool {
		if !derivesFromParam(v, hashP) {
			return false
		}
		lossy := false
		core.Derives(v, func(x ssa.Value) bool {
			if cc, ok := x.(*ssa.Call); ok {
				id := core.CalleeID(cc)
				if strings.HasSuffix(id, "common.BytesToHash") || strings.HasSuffix(id, ").SetBytes") || strings.HasSuffix(id, "common.BytesToAddress") || strings.HasSuffix(id, "common.LeftPadBytes") || strings.HasSuffix(id, "common.RightPadBytes") {
					lossy = true
				}
			}
			return false
		}, core.DeriveOpts{ThroughCalls: true})
		if !lossy {
			return true
		}
		// fine when the length was checked to be the hash length on every path
		exact := core.AnyFact(func(f core.Fact) bool {
			return core.CmpFact(f, func(op token.Token, x, y ssa.Value) bool {
				k, isC := core.ConstInt(y)
				return op == token.EQL && isC && k == 32 && core.IsLenOf(x, func(z ssa.Value) bool { return z == ssa.Value(hashP) })
			})
		})
		return core.CutReach(core.CutSpec{Fn: m, Cut: func(b *ssa.BasicBlock, i int) bool { return exact(core.EdgeFacts(b, i)) }, Target: core.SuccessTarget(m, nil)}) == nil
	}
	g := bytesEqualFact(func(v ssa.Value) bool { return derivesFromCall(v, gethHeaderHash, nil) }, asGiven)
	w := core.CutReach(core.CutSpec{Fn: m, Cut: func(b *ssa.BasicBlock, i int) bool { return g(core.EdgeFacts(b, i)) }, Target: core.SuccessTarget(m, nil)})
	r.Check(w == nil, rule, core.FuncName(m), p.Pos(m.Pos()), "the looked-up header is returned only if its hash equals the requested hash", "the oracle can return a header whose hash was not compared with the requested one (a lying peer, or a cache filled before the comparison, chooses the header that bodies, receipts and state proofs are checked against): "+p.PathString(w))
}

// networkStoresOnlyValidated: in the sub-network type `Network` of package pkg, every write to the
// content store is reached only after ValidateContent(this key, this content) returned nil. The
// gate is per item: a verdict kept in a variable that a later item of the batch overwrites, or a
// second loop that stores what a first loop "validated", is not a gate for the item stored.
func networkStoresOnlyValidated(c *Ctx, rule, pkg string) int {
	p, r := c.P, c.R
	sp := p.SSAPkg(pkg)
	nput := 0
	for _, fn := range p.ModuleFuncs() {
		if sp == nil || fn.Pkg != sp || fn.Signature.Recv() == nil || core.TypeName(fn.Signature.Recv().Type()) != "Network" {
			continue
		}
		name := core.FuncName(fn)
		var validates []*ssa.Call
		core.Calls(fn, func(ci ssa.CallInstruction) {
			cc := ci.Common()
			if cc.IsInvoke() && cc.Method.Name() == "ValidateContent" {
				if call, ok := ci.(*ssa.Call); ok {
					validates = append(validates, call)
				}
			}
		})
		n := 0
		core.Calls(fn, func(ci ssa.CallInstruction) {
			if !strings.HasSuffix(core.CalleeID(ci), "portalwire.(*PortalProtocol).Put") {
				return
			}
			n++
			nput++
			a := ci.Common().Args
			g := core.ErrNilGate("validate", func(c2 *ssa.Call) bool {
				for _, v := range validates {
					if c2 == v && core.SameValue(v.Call.Args[0], a[1]) && core.SameValue(v.Call.Args[1], a[3]) {
						return true
					}
				}
				return false
			})
			w := core.InstrGuarded(ci, g.Edge, nil)
			r.Check(w == nil, rule, fmt.Sprintf("%s put #%d", name, n), p.Pos(ci.Pos()), "stored only after ValidateContent(same key, same content) returned nil", "content can be stored without having been validated under its key (the verdict that guards the write is not this item's own): "+p.PathString(w))
		})
	}
	return nput
}
