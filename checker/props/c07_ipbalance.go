package props

import (
	"fmt"
	"go/token"
	"sort"

	"golang.org/x/tools/go/ssa"

	"verifchk/core"
)

// c07IPBalance: the /24 limits are kept by two counters (table-wide and per bucket) that must
// count exactly the nodes held. The reserving function (addIP) is all-or-nothing: on every path on
// which it answers "no" each counter is back where it started - what was added on the way is
// removed again, and nothing is removed that was not added (removing an address whose add was
// REFUSED takes away the reservation of a node that is still in the bucket, and the next node
// from that /24 is let in above the limit). On a path on which it answers "yes" no counter went
// down and all counters it touched went up by one.
func c07IPBalance(c *Ctx, m *tableModel) {
	p, r := c.P, c.R
	setKey := func(recv ssa.Value) string {
		t, f, _, ok := core.FieldRef(recv)
		if !ok {
			return ""
		}
		return t + "." + f
	}
	// what a called remover takes away (per counter), conditions inside it ignored
	removes := func(f *ssa.Function) map[string]int {
		out := map[string]int{}
		for _, ci := range core.CallsTo(f, netsetRemove) {
			if k := setKey(ci.Common().Args[0]); k != "" && onTableSet(ci.Common().Args[0]) {
				out[k]++
			}
		}
		return out
	}
	var adders []*ssa.Function
	for f := range m.ipAdders {
		if f.Signature.Results().Len() == 1 {
			adders = append(adders, f)
		}
	}
	sort.Slice(adders, func(i, j int) bool { return adders[i].String() < adders[j].String() })
	n := 0
	for _, fn := range adders {
		name := core.FuncName(fn)
		type verdict struct {
			bad  string
			path []*ssa.BasicBlock
		}
		var found *verdict
		nPaths := 0
		type deferred struct{ mc *ssa.MakeClosure }
		var defers []deferred         // deferred closures registered on the current path (path-local: restored on backtracking)
		cells := map[ssa.Value]bool{} // last boolean constant stored into a local cell on the current path
		cellKnown := map[ssa.Value]bool{}
		var walk func(b *ssa.BasicBlock, path []*ssa.BasicBlock, bal map[string]int, pending map[*ssa.Call]string, onPath map[*ssa.BasicBlock]bool)
		walk = func(b *ssa.BasicBlock, path []*ssa.BasicBlock, bal map[string]int, pending map[*ssa.Call]string, onPath map[*ssa.BasicBlock]bool) {
			nDef := len(defers)
			type saved struct {
				v        ssa.Value
				val, had bool
			}
			var undo []saved
			defer func() {
				defers = defers[:nDef]
				for i := len(undo) - 1; i >= 0; i-- {
					if undo[i].had {
						cells[undo[i].v], cellKnown[undo[i].v] = undo[i].val, true
					} else {
						delete(cells, undo[i].v)
						delete(cellKnown, undo[i].v)
					}
				}
			}()
			if found != nil || nPaths > 4096 || onPath[b] {
				return
			}
			onPath[b] = true
			defer delete(onPath, b)
			path = append(path, b)
			bal = cloneBal(bal)
			pending = clonePending(pending)
			for _, in := range b.Instrs {
				switch x := in.(type) {
				case *ssa.Call:
					id := core.CalleeID(x)
					switch {
					case id == netsetAdd && onTableSet(x.Call.Args[0]):
						pending[x] = setKey(x.Call.Args[0])
					case id == netsetRemove && onTableSet(x.Call.Args[0]):
						k := setKey(x.Call.Args[0])
						bal[k]--
						if bal[k] < 0 {
							found = &verdict{fmt.Sprintf("%s is decremented although nothing was added to it on this path (%s)", k, p.Pos(x.Pos())), append([]*ssa.BasicBlock(nil), path...)}
							return
						}
					default:
						if f := core.StaticCalleeFn(x); f != nil && m.ipRemovers[f] {
							for k, d := range removes(f) {
								bal[k] -= d
								if bal[k] < 0 {
									found = &verdict{fmt.Sprintf("%s is decremented by %s although nothing was added to it on this path (%s)", k, core.FuncName(f), p.Pos(x.Pos())), append([]*ssa.BasicBlock(nil), path...)}
									return
								}
							}
						}
					}
				case *ssa.Defer:
					if mc, ok := x.Call.Value.(*ssa.MakeClosure); ok {
						defers = append(defers, deferred{mc})
					}
				case *ssa.Store:
					if _, isCell := x.Addr.(*ssa.Alloc); isCell {
						if cst, isC := x.Val.(*ssa.Const); isC && cst.Value != nil && (cst.Value.String() == "true" || cst.Value.String() == "false") {
							undo = append(undo, saved{x.Addr, cells[x.Addr], cellKnown[x.Addr]})
							cells[x.Addr], cellKnown[x.Addr] = cst.Value.String() == "true", true
						}
					}
				case *ssa.RunDefers:
					// clean-up registered with defer: a removal in a deferred closure counts when
					// the closure's guard (a test of a captured result cell) holds for the value the
					// cell has at this exit
					for i := len(defers) - 1; i >= 0; i-- {
						mc := defers[i].mc
						cf, _ := mc.Fn.(*ssa.Function)
						if cf == nil {
							continue
						}
						for _, rc := range core.CallsTo(cf, netsetRemove) {
							if !onTableSet(rc.Common().Args[0]) {
								continue
							}
							applies := true
							for _, f := range core.DomFacts(rc.Block()) {
								if f.Op != token.ILLEGAL {
									continue
								}
								ld, isLd := core.Unwrap(f.V).(*ssa.UnOp)
								if !isLd || ld.Op != token.MUL {
									continue
								}
								fv, isFv := ld.X.(*ssa.FreeVar)
								if !isFv {
									continue
								}
								for bi, v := range cf.FreeVars {
									if v == fv && bi < len(mc.Bindings) {
										if known := cellKnown[mc.Bindings[bi]]; known && cells[mc.Bindings[bi]] != f.Truth {
											applies = false
										}
									}
								}
							}
							if !applies {
								continue
							}
							k := setKey(rc.Common().Args[0])
							bal[k]--
							if bal[k] < 0 {
								found = &verdict{fmt.Sprintf("%s is decremented by a deferred clean-up although nothing was added to it on this path (%s)", k, p.Pos(rc.Pos())), append([]*ssa.BasicBlock(nil), path...)}
								return
							}
						}
					}
				case *ssa.Return:
					nPaths++
					if len(pending) > 0 {
						found = &verdict{"the answer of an AddAddr is not examined before returning", append([]*ssa.BasicBlock(nil), path...)}
						return
					}
					res := core.ResolveSpill(x.Results[0])
					cst, isC := res.(*ssa.Const)
					answer := ""
					if isC && cst.Value != nil {
						answer = cst.Value.String()
					} else if ld, isLd := x.Results[0].(*ssa.UnOp); isLd && ld.Op == token.MUL && cellKnown[ld.X] {
						answer = fmt.Sprint(cells[ld.X])
					}
					if answer == "" {
						return // a computed answer: not classified
					}
					if answer == "false" {
						for k, v := range bal {
							if v != 0 {
								found = &verdict{fmt.Sprintf("answers 'no' with %s still %+d", k, v), append([]*ssa.BasicBlock(nil), path...)}
								return
							}
						}
					} else {
						lo, hi := 1<<30, -(1 << 30)
						for _, v := range bal {
							if v < lo {
								lo = v
							}
							if v > hi {
								hi = v
							}
						}
						if len(bal) > 0 && (lo != hi || lo < 0 || lo > 1) {
							found = &verdict{fmt.Sprintf("answers 'yes' with the counters changed unevenly (%v)", bal), append([]*ssa.BasicBlock(nil), path...)}
							return
						}
					}
					return
				}
			}
			for i, s := range b.Succs {
				bal2 := bal
				pend2 := pending
				copied := false
				for _, f := range core.EdgeFacts(b, i) {
					if f.Op != token.ILLEGAL {
						continue
					}
					cc, ok := core.Unwrap(f.V).(*ssa.Call)
					if !ok {
						continue
					}
					if k, isP := pending[cc]; isP {
						if !copied {
							bal2, pend2, copied = cloneBal(bal), clonePending(pending), true
						}
						delete(pend2, cc)
						if f.Truth {
							bal2[k]++
						} else if _, seen := bal2[k]; !seen {
							bal2[k] = 0
						}
					}
				}
				walk(s, path, bal2, pend2, onPath)
			}
		}
		if len(fn.Blocks) == 0 {
			continue
		}
		walk(fn.Blocks[0], nil, map[string]int{}, map[*ssa.Call]string{}, map[*ssa.BasicBlock]bool{})
		n++
		if found != nil {
			r.Fail("R5.pairing", name+" ip-reservation-all-or-nothing", p.Pos(fn.Pos()), "the /24 counters do not stay exact: "+found.bad+": "+p.PathString(found.path))
		} else {
			r.Pass("R5.pairing", name+" ip-reservation-all-or-nothing", p.Pos(fn.Pos()), fmt.Sprintf("%d path(s): a refusal leaves every counter as it was, an admission raises each by one, nothing is removed that was not added", nPaths))
		}
	}
	r.Check(n >= 1, "R5.pairing", "ip reservation function", "-", fmt.Sprintf("%d reserving function(s) analysed", n), "no function reserving an address in the table/bucket /24 sets found")
}

func cloneBal(m map[string]int) map[string]int {
	o := make(map[string]int, len(m))
	for k, v := range m {
		o[k] = v
	}
	return o
}

func clonePending(m map[*ssa.Call]string) map[*ssa.Call]string {
	o := make(map[*ssa.Call]string, len(m))
	for k, v := range m {
		o[k] = v
	}
	return o
}
