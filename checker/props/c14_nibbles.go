package props

import (
	"fmt"
	"go/token"
	"go/types"

	"golang.org/x/tools/go/ssa"

	"verifchk/core"
)

// c14Nibbles: canonical decode of the packed trie path inside the state content keys. The
// encoder writes a first byte 0x00 (even length) or 0x1N (odd length, N the first nibble); the
// decoder must accept exactly those: a success exit is reachable only when the high nibble was
// compared equal to 0 or 1 (never a masked or ranged test that admits other flag values), and
// on the even path only when the low nibble was compared equal to 0. Otherwise two byte strings
// decode to one value and re-encoding changes the bytes.
func c14Nibbles(c *Ctx) {
	p, r := c.P, c.R
	dec := p.Func("state", "Nibbles", "Deserialize")
	enc := p.Func("state", "Nibbles", "Serialize")
	if dec == nil || enc == nil {
		r.Fail("R5.path-prefix", "state.Nibbles codec", "-", "anchor-unresolved: Nibbles.Serialize / Deserialize")
		return
	}
	// ---- writer: constants of the first byte on each branch
	var firstWrites []ssa.Value
	for _, b := range enc.Blocks {
		for _, in := range b.Instrs {
			ci, ok := in.(ssa.CallInstruction)
			if !ok || len(ci.Common().Args) == 0 {
				continue
			}
			if ci.Common().IsInvoke() || core.StaticCalleeFn(ci) == nil || core.StaticCalleeFn(ci).Name() != "WriteByte" {
				continue
			}
			// a first-byte write is one not inside a loop: its block does not reach itself
			if !core.MayFollow(in, in) && !blockInCycle(b) {
				firstWrites = append(firstWrites, ci.Common().Args[len(ci.Common().Args)-1])
			}
		}
	}
	flags := map[int64]bool{}
	okW := len(firstWrites) >= 1
	// a first byte chosen before one write: every value the variable can hold
	var flat []ssa.Value
	for _, v := range firstWrites {
		if ph, ok := core.Unwrap(v).(*ssa.Phi); ok {
			flat = append(flat, ph.Edges...)
		} else {
			flat = append(flat, v)
		}
	}
	for _, v := range flat {
		if k, isC := core.ConstInt(v); isC {
			flags[k>>4] = true
			if k&0xf != 0 {
				okW = false
			}
			continue
		}
		bo, ok := core.Unwrap(v).(*ssa.BinOp)
		if !ok || bo.Op != token.OR {
			okW = false
			continue
		}
		found := false
		for _, o := range []ssa.Value{bo.X, bo.Y} {
			if k, isC := core.ConstInt(o); isC && k&0xf == 0 {
				flags[k>>4] = true
				found = true
			}
		}
		if !found {
			okW = false
		}
	}
	r.Check(okW && len(flags) == 2 && flags[0] && flags[1], "R5.path-prefix", core.FuncName(enc)+" flags-written", p.Pos(enc.Pos()),
		"the encoder writes flag 0 (even, low nibble 0) or flag 1 (odd)", fmt.Sprintf("the encoder's first-byte flags are %v (expected exactly {0,1} in the high nibble)", flags))
	// ---- reader
	isNibbleOf := func(v ssa.Value, high bool) bool {
		v = core.Unwrap(v)
		match := func(bo *ssa.BinOp) bool {
			k, isC := core.ConstInt(bo.Y)
			if !isC {
				return false
			}
			if high {
				return bo.Op == token.SHR && k == 4
			}
			return bo.Op == token.AND && k == 0xf
		}
		if bo, ok := v.(*ssa.BinOp); ok {
			return match(bo)
		}
		if ex, ok := v.(*ssa.Extract); ok {
			if call, ok := ex.Tuple.(*ssa.Call); ok {
				if f := core.StaticCalleeFn(call); f != nil && core.InModule(f) && len(f.Blocks) == 1 {
					for _, ret := range core.Returns(f) {
						if ex.Index < len(ret.Results) {
							if bo, ok := core.Unwrap(ret.Results[ex.Index]).(*ssa.BinOp); ok {
								if _, isP := core.Unwrap(bo.X).(*ssa.Parameter); isP && match(bo) {
									return true
								}
							}
						}
					}
				}
			}
		}
		return false
	}
	eqConst := func(f core.Fact, high bool, want int64) bool {
		return core.CmpFact(f, func(op token.Token, x, y ssa.Value) bool {
			k, isC := core.ConstInt(y)
			return op == token.EQL && isC && k == want && isNibbleOf(x, high)
		})
	}
	// the nibble is unsigned, so `flag <= 1` / `flag < 2` say the same as the two equalities
	atMostOne := func(f core.Fact) bool {
		return core.CmpFact(f, func(op token.Token, x, y ssa.Value) bool {
			k, isC := core.ConstInt(y)
			return isC && isNibbleOf(x, true) && ((op == token.LEQ && k == 1) || (op == token.LSS && k == 2))
		})
	}
	flagOK := core.AnyFact(func(f core.Fact) bool { return eqConst(f, true, 0) || eqConst(f, true, 1) || atMostOne(f) })
	w := core.CutReach(core.CutSpec{Fn: dec, Cut: func(b *ssa.BasicBlock, i int) bool { return flagOK(core.EdgeFacts(b, i)) }, Target: core.SuccessTarget(dec, nil)})
	r.Check(w == nil, "R5.path-prefix", core.FuncName(dec)+" flag-in-{0,1}", p.Pos(dec.Pos()),
		"decoding succeeds only after the high nibble of the first byte compared equal to 0 or to 1", "a first byte whose high nibble is neither 0 nor 1 can decode (several encodings of one path; re-encoding changes the bytes): "+p.PathString(w))
	lowOK := core.AnyFact(func(f core.Fact) bool { return eqConst(f, true, 1) || eqConst(f, false, 0) })
	w2 := core.CutReach(core.CutSpec{Fn: dec, Cut: func(b *ssa.BasicBlock, i int) bool { return lowOK(core.EdgeFacts(b, i)) }, Target: core.SuccessTarget(dec, nil)})
	r.Check(w2 == nil, "R5.path-prefix", core.FuncName(dec)+" even-low-nibble-zero", p.Pos(dec.Pos()),
		"an even-length path decodes only when the low nibble of the first byte is 0", "an even-length path with a non-zero padding nibble can decode (non-canonical encoding accepted): "+p.PathString(w2))
	_ = types.Typ
}

func blockInCycle(b *ssa.BasicBlock) bool {
	seen := map[*ssa.BasicBlock]bool{}
	work := append([]*ssa.BasicBlock{}, b.Succs...)
	for len(work) > 0 {
		x := work[len(work)-1]
		work = work[:len(work)-1]
		if x == b {
			return true
		}
		if seen[x] {
			continue
		}
		seen[x] = true
		work = append(work, x.Succs...)
	}
	return false
}
