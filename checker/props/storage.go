package props

import (
	"fmt"
	"go/token"
	"go/types"
	"strings"

	"golang.org/x/tools/go/ssa"

	"verifchk/core"
)

// Shared model of the radius-limited pebble content store (C04, C05, C06, C17).

const (
	pebbleGet      = "github.com/cockroachdb/pebble.(*DB).Get"
	pebbleDBSet    = "github.com/cockroachdb/pebble.(*DB).Set"
	pebbleDBDelete = "github.com/cockroachdb/pebble.(*DB).Delete"
	pebbleNewBatch = "github.com/cockroachdb/pebble.(*DB).NewBatch"
	pebbleNewIter  = "github.com/cockroachdb/pebble.(*DB).NewIter"
	batchSet       = "github.com/cockroachdb/pebble.(*Batch).Set"
	batchDelete    = "github.com/cockroachdb/pebble.(*Batch).Delete"
	batchCommit    = "github.com/cockroachdb/pebble.(*Batch).Commit"
	iterKey        = "github.com/cockroachdb/pebble.(*Iterator).Key"
	iterValue      = "github.com/cockroachdb/pebble.(*Iterator).Value"
	iterPfx        = "github.com/cockroachdb/pebble.(*Iterator)."
	atomicU64      = "sync/atomic.(*Uint64)."
	atomicValStore = "sync/atomic.(*Value).Store"
	atomicValLoad  = "sync/atomic.(*Value).Load"
	u256Pfx        = "github.com/holiman/uint256.(*Int)."
)

type storeModel struct {
	c          *Ctx
	typ        *types.Named // the radius store struct
	typName    string
	get, put   *ssa.Function
	ctor       *ssa.Function
	prune      *ssa.Function
	inRadius   *ssa.Function
	keyFn      *ssa.Function // distance derivation (xor helper)
	capField   string
	sizeFld    string
	inlineTest bool // the radius test is written out in Put (no helper)
	radFld     string
	idFld      string
	mutexes    []string
}

func implementsContentStorage(p *core.Prog, t types.Type) bool {
	sp := p.Pkg("storage")
	if sp == nil {
		return false
	}
	obj := sp.Types.Scope().Lookup("ContentStorage")
	if obj == nil {
		return false
	}
	iface, ok := obj.Type().Underlying().(*types.Interface)
	if !ok {
		return false
	}
	return types.Implements(types.NewPointer(t), iface) || types.Implements(t, iface)
}

// contentStores lists named struct types in the module implementing storage.ContentStorage.
func contentStores(p *core.Prog) []*types.Named {
	var out []*types.Named
	for _, pk := range p.Pkgs {
		sc := pk.Types.Scope()
		for _, n := range sc.Names() {
			tn, ok := sc.Lookup(n).(*types.TypeName)
			if !ok {
				continue
			}
			nt, ok := tn.Type().(*types.Named)
			if !ok {
				continue
			}
			if _, isStruct := nt.Underlying().(*types.Struct); !isStruct {
				continue
			}
			if implementsContentStorage(p, nt) {
				out = append(out, nt)
			}
		}
	}
	return out
}

func methodOf(p *core.Prog, nt *types.Named, name string) *ssa.Function {
	for _, t := range []types.Type{types.NewPointer(nt), nt} {
		if sel := p.SSA.MethodSets.MethodSet(t).Lookup(nt.Obj().Pkg(), name); sel != nil {
			return p.SSA.MethodValue(sel)
		}
	}
	return nil
}

func newStoreModel(c *Ctx) (*storeModel, string) {
	p := c.P
	m := &storeModel{c: c}
	for _, nt := range contentStores(p) {
		st := nt.Underlying().(*types.Struct)
		hasDB, rad := false, ""
		for i := 0; i < st.NumFields(); i++ {
			f := st.Field(i)
			if core.QualTypeName(f.Type()) == "github.com/cockroachdb/pebble.DB" {
				hasDB = true
			}
			if qn := core.QualTypeName(f.Type()); (qn == "sync/atomic.Value" || strings.HasPrefix(qn, "sync/atomic.Pointer")) && strings.Contains(strings.ToLower(f.Name()), "radius") {
				rad = core.FieldDisplayName(nt, f)
			}
		}
		if hasDB && rad != "" {
			if m.typ != nil {
				return nil, "more than one radius-limited pebble store type found"
			}
			m.typ, m.typName, m.radFld = nt, nt.Obj().Name(), rad
			classify := func(f *types.Var, display string) {
				qt := core.QualTypeName(f.Type())
				switch {
				case qt == "sync/atomic.Uint64":
					m.sizeFld = display
				case qt == "sync.Mutex" || qt == "sync.RWMutex":
					m.mutexes = append(m.mutexes, display)
				case qt == "github.com/ethereum/go-ethereum/p2p/enode.ID":
					m.idFld = display
				default:
					if b, ok := f.Type().Underlying().(*types.Basic); ok && b.Kind() == types.Uint64 && strings.Contains(strings.ToLower(f.Name()+display), "capacity") {
						m.capField = display
					}
				}
			}
			for i := 0; i < st.NumFields(); i++ {
				f := st.Field(i)
				classify(f, core.FieldDisplayName(nt, f))
				// fields moved into a sub-struct held by value are known under their old names
				if sub, ok := f.Type().Underlying().(*types.Struct); ok {
					for j := 0; j < sub.NumFields(); j++ {
						if old, ok := core.NestedFieldAlias(nt, f.Name(), sub.Field(j).Name()); ok {
							classify(sub.Field(j), old)
						}
					}
				}
			}
		}
	}
	if m.typ == nil {
		return nil, "anchor-unresolved: no ContentStorage implementation with a *pebble.DB and an atomic radius field"
	}
	if m.sizeFld == "" || m.capField == "" || m.idFld == "" {
		return nil, "anchor-unresolved: usage counter / capacity / node id field of the radius store not found"
	}
	m.get, m.put = methodOf(p, m.typ, "Get"), methodOf(p, m.typ, "Put")
	if m.get == nil || m.put == nil {
		return nil, "anchor-unresolved: Get/Put of the radius store"
	}
	// constructor: the function that allocates the store struct
	pkgPath := m.typ.Obj().Pkg().Path()
	for _, fn := range p.ModuleFuncs() {
		if fn.Pkg == nil || fn.Pkg.Pkg.Path() != pkgPath {
			continue
		}
		for _, b := range fn.Blocks {
			for _, in := range b.Instrs {
				if al, ok := in.(*ssa.Alloc); ok {
					if pt, ok := al.Type().(*types.Pointer); ok && types.Identical(pt.Elem(), m.typ) {
						m.ctor = fn
					}
				}
			}
		}
		// prune: the store method that walks the database with an iterator and rewrites the usage counter
		if fn.Signature.Recv() != nil && core.TypeName(fn.Signature.Recv().Type()) == m.typName && len(core.CallsTo(fn, iterPfx+"Valid")) > 0 {
			if len(m.sizeOps(fn, "Store")) > 0 || len(core.CallsTo(fn, batchDelete)) > 0 {
				m.prune = fn
			}
		}
	}
	// inRadius: the module function called by Put whose bool result gates it and that loads the radius
	core.Calls(m.put, func(ci ssa.CallInstruction) {
		f := core.StaticCalleeFn(ci)
		if f == nil || !core.InModule(f) {
			return
		}
		// its verdict is a bool (an accessor of the radius used in a log line, or prune, is not it)
		rs := f.Signature.Results()
		if rs.Len() == 0 {
			return
		}
		if bt, ok := rs.At(0).Type().Underlying().(*types.Basic); !ok || bt.Kind() != types.Bool {
			return
		}
		if m.loadsRadius(f) {
			m.inRadius = f
		}
	})
	// key derivation: the module function whose result is the key of db.Get in Get
	for _, ci := range core.CallsTo(m.get, pebbleGet) {
		if call, ok := core.Unwrap(ci.Common().Args[1]).(*ssa.Call); ok {
			if f := core.StaticCalleeFn(call); f != nil && core.InModule(f) {
				m.keyFn = f
			}
		}
	}
	if m.inRadius == nil && m.loadsRadius(m.put) {
		// the admission test is written out in Put itself
		m.inRadius = m.put
		m.inlineTest = true
	}
	if m.ctor == nil || m.prune == nil || m.inRadius == nil || m.keyFn == nil {
		return nil, fmt.Sprintf("anchor-unresolved: ctor=%v prune=%v inRadius=%v key=%v", m.ctor != nil, m.prune != nil, m.inRadius != nil, m.keyFn != nil)
	}
	return m, ""
}

// radiusCmpCall: c is radius.Gt(x) / x.Lt(radius) (strict) with radius loaded from the store's
// radius field; returns whether it is such a comparison.
func (m *storeModel) radiusCmpCall(c *ssa.Call) bool {
	fromRadius := func(v ssa.Value) bool {
		return core.Derives(v, func(x ssa.Value) bool {
			c2, ok := x.(*ssa.Call)
			if !ok {
				return false
			}
			if isAtomicCell(core.CalleeID(c2), "Load") && len(c2.Call.Args) > 0 && m.isField(c2.Call.Args[0], m.radFld) {
				return true
			}
			// the store's own accessor of the radius
			if f := core.StaticCalleeFn(c2); f != nil && core.InModule(f) && f != m.put && len(f.Params) == 1 && m.loadsRadius(f) && f.Signature.Results().Len() == 1 {
				return true
			}
			return false
		}, core.DeriveOpts{})
	}
	if len(c.Call.Args) != 2 {
		return false
	}
	switch core.CalleeID(c) {
	case u256Pfx + "Gt":
		return fromRadius(c.Call.Args[0]) && !fromRadius(c.Call.Args[1])
	case u256Pfx + "Lt":
		return fromRadius(c.Call.Args[1]) && !fromRadius(c.Call.Args[0])
	}
	return false
}

// radiusGate: the edge on which Put's admission test came out `passed`.
func (m *storeModel) radiusGate(passed bool) func(fs []core.Fact) bool {
	return core.AnyFact(func(f core.Fact) bool {
		if f.Op != token.ILLEGAL || f.Truth != passed {
			return false
		}
		if !m.inlineTest {
			var cc *ssa.Call
			switch x := f.V.(type) {
			case *ssa.Extract:
				cc, _ = x.Tuple.(*ssa.Call)
			case *ssa.Call:
				cc = x
			}
			return cc != nil && core.StaticCalleeFn(cc) == m.inRadius
		}
		cc, ok := f.V.(*ssa.Call)
		return ok && m.radiusCmpCall(cc)
	})
}

func (m *storeModel) loadsRadius(f *ssa.Function) bool {
	found := false
	core.Calls(f, func(ci ssa.CallInstruction) {
		if isAtomicCell(core.CalleeID(ci), "Load") && m.isField(ci.Common().Args[0], m.radFld) {
			found = true
		}
		// through the store's own accessor of the radius (a one-parameter method returning it)
		if g := core.StaticCalleeFn(ci); g != nil && g != f && core.InModule(g) && len(g.Params) == 1 && g.Signature.Results().Len() == 1 && g.Signature.Recv() != nil {
			core.Calls(g, func(c2 ssa.CallInstruction) {
				if isAtomicCell(core.CalleeID(c2), "Load") && m.isField(c2.Common().Args[0], m.radFld) {
					found = true
				}
			})
		}
	})
	return found
}

// isField: v is &store.field
func (m *storeModel) isField(v ssa.Value, field string) bool {
	_, f, base, ok := core.FieldRef(v)
	if !ok || f != field {
		return false
	}
	bt := base.Type()
	if pt, ok := bt.Underlying().(*types.Pointer); ok {
		bt = pt.Elem()
	}
	return types.Identical(bt, m.typ)
}

func (m *storeModel) isLoadField(v ssa.Value, field string) bool {
	if u, ok := v.(*ssa.UnOp); ok && u.Op == token.MUL {
		return m.isField(u.X, field)
	}
	return m.isField(v, field)
}

// sizeOps lists atomic operations on the usage counter in fn.
func (m *storeModel) sizeOps(fn *ssa.Function, op string) []ssa.CallInstruction {
	var out []ssa.CallInstruction
	core.Calls(fn, func(ci ssa.CallInstruction) {
		id := core.CalleeID(ci)
		if strings.HasPrefix(id, atomicU64) && strings.HasSuffix(id, "."+op) && m.isField(ci.Common().Args[0], m.sizeFld) {
			out = append(out, ci)
		}
	})
	return out
}

// ---- buffer aliasing (C04.R1)

// dbBufferSources lists values in fn that alias memory owned by pebble.
func dbBufferSources(fn *ssa.Function) []ssa.Value {
	var out []ssa.Value
	core.Calls(fn, func(ci ssa.CallInstruction) {
		call, ok := ci.(*ssa.Call)
		if !ok {
			return
		}
		switch core.CalleeID(ci) {
		case pebbleGet:
			if refs := call.Referrers(); refs != nil {
				for _, r := range *refs {
					if ex, ok := r.(*ssa.Extract); ok && ex.Index == 0 {
						out = append(out, ex)
					}
				}
			}
		case iterKey, iterValue:
			out = append(out, call)
		}
	})
	return out
}

// aliasesOf computes the forward alias closure of src within its function: slices of it,
// type changes, phis, and local cells it is stored into.
func aliasesOf(src ssa.Value) map[ssa.Value]bool {
	set := map[ssa.Value]bool{src: true}
	work := []ssa.Value{src}
	for len(work) > 0 {
		v := work[len(work)-1]
		work = work[:len(work)-1]
		refs := v.Referrers()
		if refs == nil {
			continue
		}
		for _, r := range *refs {
			var nv ssa.Value
			switch x := r.(type) {
			case *ssa.Slice:
				if x.X == v {
					nv = x
				}
			case *ssa.ChangeType:
				nv = x
			case *ssa.Phi:
				nv = x
			case *ssa.MakeInterface:
				nv = x
			case *ssa.Call:
				// append(alias[:n], ...) writes into and returns the same backing array while it fits
				if core.CalleeID(x) == "builtin.append" && len(x.Call.Args) > 0 && x.Call.Args[0] == v {
					nv = x
				}
			case *ssa.Store:
				if x.Val == v {
					if a, ok := x.Addr.(*ssa.Alloc); ok {
						// loads of the cell alias too
						if rr := a.Referrers(); rr != nil {
							for _, r2 := range *rr {
								if u, ok := r2.(*ssa.UnOp); ok && u.Op == token.MUL && !set[u] {
									set[u] = true
									work = append(work, u)
								}
							}
						}
					}
				}
			}
			if nv != nil && !set[nv] {
				set[nv] = true
				work = append(work, nv)
			}
		}
	}
	return set
}

// copiedFrom: v is a fresh buffer filled from src: make+copy, append(nil/empty, src...),
// bytes.Clone / slices.Clone.
func copiedFrom(v ssa.Value, isSrc func(ssa.Value) bool) bool {
	v = core.Unwrap(v)
	switch x := v.(type) {
	case *ssa.MakeSlice:
		if refs := x.Referrers(); refs != nil {
			for _, r := range *refs {
				if c, ok := r.(*ssa.Call); ok && core.CalleeID(c) == "builtin.copy" && c.Call.Args[0] == ssa.Value(x) && isSrc(c.Call.Args[1]) {
					return true
				}
			}
		}
	case *ssa.Call:
		id := core.CalleeID(x)
		if id == "bytes.Clone" || id == "slices.Clone" {
			return isSrc(x.Call.Args[0])
		}
		if id == "builtin.append" {
			if isSrc(x.Call.Args[0]) {
				return false // appending onto (a prefix of) the source re-uses its memory
			}
			if isSrc(x.Call.Args[1]) {
				return freshOrNil(x.Call.Args[0])
			}
			return copiedFrom(x.Call.Args[0], isSrc)
		}
	case *ssa.Phi:
		for _, e := range x.Edges {
			if copiedFrom(e, isSrc) {
				return true
			}
		}
	}
	return false
}

// freshOrNil: v is nil, a slice made in this function, or an empty literal: append on it
// allocates (or fills function-owned memory).
func freshOrNil(v ssa.Value) bool {
	v = core.Unwrap(v)
	if core.IsNilConst(v) {
		return true
	}
	switch x := v.(type) {
	case *ssa.MakeSlice:
		return true
	case *ssa.Slice:
		if _, ok := x.X.(*ssa.Alloc); ok {
			return true // slice of a local array literal
		}
		return freshOrNil(x.X)
	case *ssa.Call:
		if core.CalleeID(x) == "builtin.append" {
			return freshOrNil(x.Call.Args[0])
		}
	}
	return false
}

// pruneScansWholeKeyspace: the iterator the prune loop walks sees every key: it is created with
// no options or with options that set no bounds. A bound taken from the radius hides the item
// that sits exactly at it (pebble's upper bound is exclusive); the radius is then lowered past an
// item that is never visited again.
func pruneScansWholeKeyspace(c *Ctx, m *storeModel, rule string) {
	p, r := c.P, c.R
	n := 0
	for _, fn := range []*ssa.Function{m.prune, m.ctor} {
		if fn == nil {
			continue
		}
		for i, ci := range core.CallsTo(fn, pebbleNewIter) {
			n++
			args := ci.Common().Args
			opt := args[len(args)-1]
			bounded := ""
			if !core.IsNilConst(opt) {
				if al, ok := core.Unwrap(opt).(*ssa.Alloc); ok {
					for _, rf := range *al.Referrers() {
						if fa, isFa := rf.(*ssa.FieldAddr); isFa {
							if _, f, _, okF := core.FieldRef(fa); okF && (f == "UpperBound" || f == "LowerBound") {
								for _, r2 := range *fa.Referrers() {
									if st, isSt := r2.(*ssa.Store); isSt && !core.IsNilConst(st.Val) {
										bounded = f
									}
								}
							}
						}
					}
				} else {
					bounded = "options of unknown origin"
				}
			}
			r.Check(bounded == "", rule, fmt.Sprintf("%s scan-unbounded #%d", core.FuncName(fn), i+1), p.Pos(ci.Pos()), "the database iterator is created without key bounds", "the iterator is created with "+bounded+" set: keys outside the bound are invisible to the scan (an exclusive upper bound at the radius hides the retained item that sits exactly at the radius; once the radius is lowered that item lies beyond it for good)")
		}
	}
	r.Check(n >= 1, rule, "store iterators", "-", fmt.Sprintf("%d iterator creation(s) inspected", n), "no database iterator found in prune / the constructor")
}

// sizeKeyIsSmallest: the reserved key of the usage record is the all-zero key of full key
// length, i.e. it sorts before every content key. The store relies on that: the open-time radius
// is read from Iterator.Last(), and the farthest-first prune walks down from the top.
func sizeKeyIsSmallest(c *Ctx, rule string) {
	p, r := c.P, c.R
	sp := p.SSAPkg("storage")
	if sp == nil {
		r.Fail(rule, "size-record key", "-", "anchor-unresolved: package storage")
		return
	}
	g, _ := sp.Members["SizeKey"].(*ssa.Global)
	init := sp.Func("init")
	if g == nil || init == nil {
		r.Fail(rule, "size-record key", "-", "anchor-unresolved: storage.SizeKey")
		return
	}
	zero32 := func(v ssa.Value) bool {
		// uint256.NewInt(0).Bytes32(), [32]byte{}, make([]byte, 32)
		ok := false
		core.Derives(v, func(x ssa.Value) bool {
			switch y := x.(type) {
			case *ssa.Call:
				if strings.HasSuffix(core.CalleeID(y), "uint256.(*Int).Bytes32") {
					if nc, isC := y.Call.Args[0].(*ssa.Call); isC && strings.HasSuffix(core.CalleeID(nc), "uint256.NewInt") {
						if k, isK := core.ConstInt(nc.Call.Args[0]); isK && k == 0 {
							ok = true
						}
					}
				}
			case *ssa.MakeSlice:
				if k, isK := core.ConstInt(y.Len); isK && k == 32 {
					ok = true
				}
			}
			return false
		}, core.DeriveOpts{})
		return ok
	}
	okKey := false
	for _, b := range init.Blocks {
		for _, in := range b.Instrs {
			st, isSt := in.(*ssa.Store)
			if !isSt || st.Addr != ssa.Value(g) {
				continue
			}
			// a slice of another package-level value: follow that value's initialiser
			if sl, isSl := st.Val.(*ssa.Slice); isSl {
				if g2, isG := sl.X.(*ssa.Global); isG {
					for _, b2 := range init.Blocks {
						for _, i2 := range b2.Instrs {
							if s2, isS2 := i2.(*ssa.Store); isS2 && s2.Addr == ssa.Value(g2) && zero32(s2.Val) {
								okKey = true
							}
						}
					}
					continue
				}
			}
			if zero32(st.Val) {
				okKey = true
			}
		}
	}
	r.Check(okKey, rule, "size-record key", p.Pos(g.Pos()), "the usage record lives under the 32-byte all-zero key, below every content key", "the usage record's key is not the all-zero key of full length: it no longer sorts below every content key, so Iterator.Last() on open (the radius re-derivation) and the top-down prune can land on the record instead of an item (a store that is nearly full then fails to reopen)")
}

// keyFnLeavesArgumentsAlone: the function that derives the database key from (content id, node
// id) does not write into its arguments. Writing the result into the caller's id changes which
// key the caller's next Get/Put of "the same id" addresses.
func keyFnLeavesArgumentsAlone(c *Ctx, m *storeModel, rule string) {
	p, r := c.P, c.R
	if m.keyFn == nil {
		return
	}
	var bad *ssa.Store
	for _, b := range m.keyFn.Blocks {
		for _, in := range b.Instrs {
			st, ok := in.(*ssa.Store)
			if !ok {
				continue
			}
			ia, ok := st.Addr.(*ssa.IndexAddr)
			if !ok {
				continue
			}
			for _, leaf := range sliceOrigins(ia.X) {
				if _, isP := leaf.(*ssa.Parameter); isP {
					bad = st
				}
			}
		}
	}
	pos := p.Pos(m.keyFn.Pos())
	if bad != nil {
		pos = p.Pos(bad.Pos())
	}
	r.Check(bad == nil, rule, core.FuncName(m.keyFn)+" leaves-arguments-alone", pos, "the key derivation writes only into memory of its own", "the key derivation writes into a slice that can be its argument: the caller's content id is overwritten with the key, and the caller's next Get/Put with the same slice addresses another item's key (a put is not found again; bytes are returned for an id they were never put under)")
}

// sliceOrigins: the slices v can be (through phis, re-slicing, type changes).
func sliceOrigins(v ssa.Value) []ssa.Value {
	var out []ssa.Value
	seen := map[ssa.Value]bool{}
	var rec func(v ssa.Value)
	rec = func(v ssa.Value) {
		if v == nil || seen[v] {
			return
		}
		seen[v] = true
		switch x := v.(type) {
		case *ssa.Phi:
			for _, e := range x.Edges {
				rec(e)
			}
		case *ssa.Slice:
			rec(x.X)
		case *ssa.ChangeType:
			rec(x.X)
		default:
			out = append(out, v)
		}
	}
	rec(v)
	return out
}

// isAtomicCell: a Load / Store on the cell that holds the radius, whether it is an untyped
// atomic.Value (read back through a type assertion) or a typed atomic.Pointer[uint256.Int].
func isAtomicCell(id, op string) bool {
	return id == "sync/atomic.(*Value)."+op || id == "sync/atomic.(*Pointer)."+op
}
