package props

import (
	"fmt"
	"go/types"
	"strings"

	"golang.org/x/tools/go/ssa"

	"verifchk/core"
)

// advertisedRadiusRule: what a node tells its peers about its radius (ping and pong payloads of
// every extension type) is the radius it admits content under, in the encoding every receiver
// decodes it with: the SSZ (little-endian) form of the store's uint256. Each site that puts a
// radius into a payload - a ping_ext payload constructor, or a pong whose payload is the bare
// radius - must take it from (*uint256.Int).MarshalSSZ applied to the store's Radius().
func advertisedRadiusRule(c *Ctx, rule string, floor int) {
	p, r := c.P, c.R
	fromRadius := func(v ssa.Value) bool {
		return core.Derives(v, func(x ssa.Value) bool {
			cc, isC := x.(*ssa.Call)
			if !isC {
				return false
			}
			if cc.Call.IsInvoke() && cc.Call.Method.Name() == "Radius" {
				return true
			}
			return strings.HasSuffix(core.CalleeID(cc), ").Radius")
		}, core.DeriveOpts{})
	}
	isRadiusSSZ := func(v ssa.Value) bool {
		return core.Derives(v, func(x ssa.Value) bool {
			ex, ok := x.(*ssa.Extract)
			if !ok || ex.Index != 0 {
				return false
			}
			cc, ok := ex.Tuple.(*ssa.Call)
			return ok && core.CalleeID(cc) == u256Pfx+"MarshalSSZ" && fromRadius(cc.Call.Args[0])
		}, core.DeriveOpts{})
	}
	isBytes := func(t types.Type) bool { return t.String() == "[]byte" }
	n := 0
	pw := p.SSAPkg("portalwire")
	for _, fn := range p.ModuleFuncs() {
		if fn.Pkg != pw && (fn.Parent() == nil || fn.Parent().Pkg != pw) {
			continue
		}
		k := 0
		core.Calls(fn, func(ci ssa.CallInstruction) {
			f := core.StaticCalleeFn(ci)
			if f == nil || f.Pkg == nil {
				return
			}
			a := ci.Common().Args
			var rad ssa.Value
			what := ""
			switch {
			case strings.HasSuffix(f.Pkg.Pkg.Path(), "portalwire/ping_ext") && strings.HasPrefix(f.Name(), "New") && strings.HasSuffix(f.Name(), "Payload") && len(a) > 0 && isBytes(a[0].Type()):
				rad, what = a[0], f.Name()
			case f.Name() == "createPong" && len(a) > 0 && isBytes(a[len(a)-1].Type()):
				// a pong whose payload is not the encoding of a payload container is the bare radius
				pl := a[len(a)-1]
				ofContainer := core.Derives(pl, func(x ssa.Value) bool {
					if ex, ok := x.(*ssa.Extract); ok {
						x = ex.Tuple
					}
					cc, ok := x.(*ssa.Call)
					return ok && strings.Contains(core.CalleeID(cc), "ping_ext.") // a payload container's encoding, or the error payload
				}, core.DeriveOpts{})
				if ofContainer {
					return
				}
				rad, what = pl, "bare-radius pong"
			default:
				return
			}
			k++
			n++
			r.Check(isRadiusSSZ(rad), rule, fmt.Sprintf("%s %s #%d", core.FuncName(fn), what, k), p.Pos(ci.Pos()), "carries (*uint256.Int).MarshalSSZ of the store's Radius()", "the radius put into this payload is not the SSZ (little-endian) encoding of the store's current radius: peers decode it with UnmarshalSSZ and learn another radius than the one this node admits content under (its retained items are then not all within the advertised radius, and peers pick gossip targets by a wrong radius)")
		})
	}
	r.Check(n >= floor, rule, "radius advertisement sites", "-", fmt.Sprintf("%d site(s) putting a radius into a ping/pong payload inspected", n), fmt.Sprintf("only %d radius advertisement site(s) found, %d confirmed on the audited tree", n, floor))
}
