package props

import (
	"fmt"
	"go/token"
	"go/types"
	"sort"
	"strings"

	"golang.org/x/tools/go/ssa"

	"verifchk/core"
)

func init() { Registry["C19"] = c19 }

const enodeLoad = "github.com/ethereum/go-ethereum/p2p/enode.(*Node).Load"

// negotiationHelper finds the method returning (uint8, error) that loads the peer's version
// list from its record.
func negotiationHelper(p *core.Prog) *ssa.Function {
	var out *ssa.Function
	for _, fn := range p.ModuleFuncs() {
		sig := fn.Signature
		if sig.Results().Len() != 2 || sig.Params().Len() != 1 {
			continue
		}
		if b, ok := sig.Results().At(0).Type().Underlying().(*types.Basic); !ok || b.Kind() != types.Uint8 {
			continue
		}
		if len(core.CallsTo(fn, enodeLoad)) == 0 {
			continue
		}
		out = fn
	}
	return out
}

// versionCases collects, for value v in fn, the constants it is compared with (== k) on If edges.
func versionCases(fn *ssa.Function, isV func(ssa.Value) bool) (cases []int64, hasDefaultErr bool) {
	set := map[int64]bool{}
	for _, b := range fn.Blocks {
		for i := range b.Succs {
			for _, f := range core.EdgeFacts(b, i) {
				if f.Op != token.EQL {
					continue
				}
				for _, pr := range [][2]ssa.Value{{f.X, f.Y}, {f.Y, f.X}} {
					if k, isC := core.ConstInt(pr[1]); isC && isV(core.Unwrap(pr[0])) {
						set[k] = true
					}
				}
			}
		}
	}
	for k := range set {
		cases = append(cases, k)
	}
	sort.Slice(cases, func(i, j int) bool { return cases[i] < cases[j] })
	// default: a return of the unsupported-version error reachable when all comparisons are false
	for _, ret := range core.Returns(fn) {
		if len(ret.Results) == 0 {
			continue
		}
		ev := core.ResolveSpill(ret.Results[len(ret.Results)-1])
		if u, ok := ev.(*ssa.UnOp); ok {
			if g, ok := u.X.(*ssa.Global); ok && strings.Contains(g.Name(), "Unsupported") {
				hasDefaultErr = true
			}
		}
		// the sentinel wrapped with context (fmt.Errorf("%w: ...", ErrUnsupportedVersion, v))
		if cc, ok := ev.(*ssa.Call); ok && core.CalleeID(cc) == "fmt.Errorf" {
			if core.Derives(cc, func(x ssa.Value) bool {
				g, isG := x.(*ssa.Global)
				return isG && strings.Contains(g.Name(), "Unsupported")
			}, core.DeriveOpts{ThroughCalls: true}) {
				hasDefaultErr = true
			}
		}
	}
	return
}

func c19(c *Ctx) {
	p, r := c.P, c.R
	r.Technique = "single-source value-flow check of every version-dependent branch; sibling agreement of the version sets handled by accept building, accept parsing and the advertised default; must-pass-through (cut) checks for error propagation and error-gated caching in the negotiation helper"
	r.Explanation = "Decides: (R1) every version-dependent branch (accept building, accept parsing, uTP framing in both directions, the RPC's bit-list conversion) takes its operand from the one negotiation helper applied to a peer record, and every caller of the helper returns without transfer when it reports an error; the record given to the helper is the one the exchange came with (followed through parameters and captured variables to the talk handler), never one looked up in the routing table; the local version list is the local record's entry (or the default) as it is, not a part or rearrangement of it; (R2) the version sets handled by accept building and accept parsing are equal to each other and to the advertised default set, both reject other versions with the unsupported-version error, and the uTP encoder and decoder dispatch on the same version constant to the inverse pair of framing functions, which are called only under a comparison of the negotiated version with a constant; (R3) in the helper: a cached value is returned as is, an absent record key yields the first local version, the computed error is returned, the result is the highest-common-version function applied to (local versions, peer versions), and the cache is written only on paths where the error is nil. The highest-common-version function keeps no version number in a word used as a bit set (no shift by a count that can reach the word's width). Not decided: the max-of-intersection computation over all subsets (value level), live transfers."
	r.Assumptions = []string{"enr.IsNotFound identifies an absent key", "the versions cache is a faithful map"}
	r.Floor("R1.single-source", 5)
	r.Floor("R1.error-stops", 5)
	r.Floor("R2.version-sets", 4)
	r.Floor("R3.helper", 6)
	r.Floor("R1.local-versions-immutable", 1)

	N := negotiationHelper(p)
	if N == nil {
		r.Fail("R1.single-source", "negotiation helper", "-", "anchor-unresolved: no (peer record) -> (uint8, error) function loading the version list")
		return
	}
	// ---- R1
	callers := p.CallersOfFn(N)
	type consumer struct {
		fn    *ssa.Function
		value ssa.Value
	}
	var consumers []consumer
	for _, fn := range core.SortedFuncs(callers) {
		for i, ci := range callers[fn] {
			call, ok := ci.(*ssa.Call)
			if !ok {
				continue
			}
			key := fmt.Sprintf("%s→negotiate #%d", core.FuncName(fn), i+1)
			var ver ssa.Value
			if refs := call.Referrers(); refs != nil {
				for _, rf := range *refs {
					if ex, ok := rf.(*ssa.Extract); ok && ex.Index == 0 {
						ver = ex
					}
				}
			}
			g := core.ErrNilGate("negotiate", func(c2 *ssa.Call) bool { return c2 == call })
			var w []*ssa.BasicBlock
			if core.ErrResultIndex(fn.Signature) >= 0 {
				w = core.AllSuccessPass(fn, g, call.Block())
			} else {
				// no error result: every use of the version must be behind err == nil
				if ver != nil {
					for _, rf := range *ver.Referrers() {
						if w2 := core.InstrGuarded(rf, g.Edge, nil); w2 != nil {
							w = w2
						}
					}
				}
			}
			r.Check(w == nil, "R1.error-stops", key, p.Pos(call.Pos()), "nothing proceeds unless negotiation succeeded", "the exchange can proceed although no common version was found: "+p.PathString(w))
			// the argument is a peer record (an *enode.Node parameter or derived from one / from an ENR)
			r.Check(ver != nil, "R1.single-source", key+" result-used", p.Pos(call.Pos()), "the negotiated version is bound", "the negotiated version is discarded")
			// ... the record of this exchange: what the peer advertises now is in the record the
			// session (or the caller) supplied; a copy looked up in the routing table can be an older
			// version of it (inbound traffic does not refresh table entries), and the two ends would
			// then compute the common version from different sets
			if len(call.Call.Args) > 0 {
				bad := staleRecordSource(p, call.Call.Args[len(call.Call.Args)-1], fn, 0, map[ssa.Value]bool{})
				r.Check(bad == "", "R1.single-source", key+" peer-record", p.Pos(call.Pos()), "negotiates on the record supplied with the exchange", "the version is negotiated on a record taken from the routing table instead of the one the exchange came with ("+bad+"): after the peer changed its advertised versions the two ends settle on different versions until revalidation refreshes the entry")
			}
			if ver != nil {
				consumers = append(consumers, consumer{fn, ver})
			}
		}
	}
	// functions with a version parameter compared against constants: every call site passes a negotiated version
	for _, fn := range p.ModuleFuncs() {
		if fn.Pkg == nil || fn.Pkg != p.SSAPkg("portalwire") {
			continue
		}
		for _, pa := range fn.Params {
			b, ok := pa.Type().Underlying().(*types.Basic)
			if !ok || b.Kind() != types.Uint8 || !strings.Contains(strings.ToLower(pa.Name()), "version") {
				continue
			}
			cs := p.CallersOfFn(fn)
			for _, cf := range core.SortedFuncs(cs) {
				for i, ci := range cs[cf] {
					idx := -1
					for j, q := range fn.Params {
						if q == pa {
							idx = j
						}
					}
					arg := ci.Common().Args[idx]
					ok := core.Derives(arg, func(v ssa.Value) bool {
						ex, ok := v.(*ssa.Extract)
						if !ok || ex.Index != 0 {
							return false
						}
						cc, ok := ex.Tuple.(*ssa.Call)
						return ok && core.StaticCalleeFn(cc) == N
					}, core.DeriveOpts{})
					r.Check(ok, "R1.single-source", fmt.Sprintf("%s→%s #%d version-arg", core.FuncName(cf), core.FuncName(fn), i+1), p.Pos(ci.Pos()),
						"the version passed is the negotiated one", "a version-dependent function is called with a version that does not come from the negotiation helper")
				}
			}
			consumers = append(consumers, consumer{fn, pa})
		}
	}

	// ---- R2 version sets
	type vs struct {
		fn    *ssa.Function
		cases []int64
		def   bool
		kind  string
	}
	var sets []vs
	for _, cn := range consumers {
		v := cn.value
		cases, def := versionCases(cn.fn, func(x ssa.Value) bool { return x == v })
		if len(cases) == 0 {
			continue
		}
		kind := "other"
		res := cn.fn.Signature.Results()
		if res.Len() > 0 && core.TypeName(res.At(0).Type()) == "CommonAccept" {
			kind = "accept"
		}
		// the builder/parser written out in its caller: it makes both ACCEPT encodings itself
		if kind == "other" {
			made := map[string]bool{}
			for _, b := range cn.fn.Blocks {
				for _, in := range b.Instrs {
					if al, ok := in.(*ssa.Alloc); ok && al.Heap {
						if pt, ok := al.Type().(*types.Pointer); ok {
							if tn := core.TypeName(pt.Elem()); tn == "Accept" || tn == "AcceptV1" {
								made[tn] = true
							}
						}
					}
				}
			}
			if len(made) == 2 {
				kind = "accept"
			}
		}
		sets = append(sets, vs{cn.fn, cases, def, kind})
	}
	// every function that can build both ACCEPT encodings chooses between them by the negotiated
	// version (not by what the local node supports, nor by the shape of another object)
	{
		dispatching := map[*ssa.Function]bool{}
		for _, s := range sets {
			dispatching[s.fn] = true
		}
		for _, fn := range p.ModuleFuncs() {
			if fn.Pkg == nil || fn.Pkg != p.SSAPkg("portalwire") {
				continue
			}
			made := map[string]ssa.Instruction{}
			for _, b := range fn.Blocks {
				for _, in := range b.Instrs {
					if al, ok := in.(*ssa.Alloc); ok && al.Heap {
						if pt, ok := al.Type().(*types.Pointer); ok {
							if tn := core.TypeName(pt.Elem()); tn == "Accept" || tn == "AcceptV1" {
								made[tn] = al
							}
						}
					}
				}
			}
			if len(made) < 2 {
				continue
			}
			r.Check(dispatching[fn], "R2.version-sets", core.FuncName(fn)+" encoding-choice", p.Pos(made["AcceptV1"].Pos()),
				"both ACCEPT encodings are built here and the choice is a dispatch on the negotiated version", "this function builds either ACCEPT encoding without dispatching on the negotiated version: a peer whose common version differs from the local maximum receives an encoding it does not decode")
		}
	}
	// advertised default set
	var advertised []int64
	if g := p.SSAPkg("portalwire").Members["Versions"]; g != nil {
		if init := p.SSAPkg("portalwire").Func("init"); init != nil {
			for _, b := range init.Blocks {
				for _, in := range b.Instrs {
					st, ok := in.(*ssa.Store)
					if !ok {
						continue
					}
					ia, ok := st.Addr.(*ssa.IndexAddr)
					if !ok {
						continue
					}
					al, ok := ia.X.(*ssa.Alloc)
					if !ok {
						continue
					}
					// the array behind the Versions literal
					isVers := false
					if refs := al.Referrers(); refs != nil {
						for _, rf := range *refs {
							if sl, ok := rf.(*ssa.Slice); ok {
								for _, r2 := range *sl.Referrers() {
									switch y := r2.(type) {
									case *ssa.Store:
										if y.Addr == ssa.Value(g.(*ssa.Global)) {
											isVers = true
										}
									case *ssa.ChangeType:
										for _, r3 := range *y.Referrers() {
											if st3, ok := r3.(*ssa.Store); ok && st3.Addr == ssa.Value(g.(*ssa.Global)) {
												isVers = true
											}
										}
									}
								}
							}
						}
					}
					if isVers {
						if k, isC := core.ConstInt(st.Val); isC {
							advertised = append(advertised, k)
						}
					}
				}
			}
		}
	}
	sort.Slice(advertised, func(i, j int) bool { return advertised[i] < advertised[j] })
	r.Check(len(advertised) > 0, "R2.version-sets", "advertised default set", "-", fmt.Sprintf("advertised %v", advertised), "cannot read the advertised default version set")
	nAccept := 0
	for _, s := range sets {
		if s.kind != "accept" {
			continue
		}
		nAccept++
		r.Check(fmt.Sprint(s.cases) == fmt.Sprint(advertised) && s.def, "R2.version-sets", core.FuncName(s.fn)+" handled-versions", p.Pos(s.fn.Pos()),
			fmt.Sprintf("handles %v with an unsupported-version default", s.cases), fmt.Sprintf("handles %v (default error: %v) but the node advertises %v: a negotiated version can be unhandled or an unadvertised one accepted", s.cases, s.def, advertised))
	}
	if nAccept < 2 {
		r.Fail("R2.version-sets", "accept build/parse siblings", "-", fmt.Sprintf("expected the accept builder and the accept parser to dispatch on the version, found %d", nAccept))
	}
	// uTP framing: encoder and decoder dispatch on the same constant to the inverse pair
	var encF, decF *ssa.Function
	var encCase, decCase []int64
	for _, s := range sets {
		if s.kind == "accept" {
			continue
		}
		if len(core.CallsTo(s.fn, core.ModPath+"/portalwire.encodeSingleContent")) > 0 {
			encF, encCase = s.fn, s.cases
		}
		if len(core.CallsTo(s.fn, core.ModPath+"/portalwire.decodeSingleContent")) > 0 {
			decF, decCase = s.fn, s.cases
		}
	}
	if encF == nil || decF == nil {
		// resolve by callee identity of the framing codec instead of by name
		for _, s := range sets {
			if s.kind == "accept" {
				continue
			}
			core.Calls(s.fn, func(ci ssa.CallInstruction) {
				f := core.StaticCalleeFn(ci)
				if f == nil {
					return
				}
				if len(core.CallsTo(f, lebEncode32)) > 0 {
					encF, encCase = s.fn, s.cases
				}
				if len(core.CallsTo(f, lebDecode32)) > 0 {
					decF, decCase = s.fn, s.cases
				}
			})
		}
	}
	if encF == nil || decF == nil {
		r.Fail("R2.version-sets", "uTP framing siblings", "-", "the version-dependent uTP encoder/decoder pair was not found")
	} else {
		r.Check(fmt.Sprint(encCase) == fmt.Sprint(decCase), "R2.version-sets", "uTP framing encode/decode", p.Pos(encF.Pos()),
			fmt.Sprintf("both dispatch on version %v", encCase), fmt.Sprintf("encoder dispatches on %v but decoder on %v: the two ends of a transfer frame differently", encCase, decCase))
		// the raw branch returns the data unchanged in both
		for _, f := range []*ssa.Function{encF, decF} {
			raw := false
			for _, ret := range core.Returns(f) {
				if len(ret.Results) == 0 {
					continue
				}
				if pa, ok := core.ResolveSpill(ret.Results[0]).(*ssa.Parameter); ok && pa.Parent() == f {
					raw = true
				}
			}
			if !raw {
				// the dispatch written out where the bytes are used: `if version == 1 { data = frame(data) }`
				// leaves data as it was on the other branch when the framed bytes replace their own input
				core.Calls(f, func(ci ssa.CallInstruction) {
					fc, isCall := ci.(*ssa.Call)
					cf := core.StaticCalleeFn(ci)
					if !isCall || cf == nil || (len(core.CallsTo(cf, lebEncode32)) == 0 && len(core.CallsTo(cf, lebDecode32)) == 0) || len(fc.Call.Args) == 0 {
						return
					}
					in := fc.Call.Args[len(fc.Call.Args)-1]
					outs := []ssa.Value{fc}
					for _, rf := range *fc.Referrers() {
						if ex, isEx := rf.(*ssa.Extract); isEx && ex.Index == 0 {
							outs = append(outs, ex)
						}
					}
					for _, out := range outs {
						for _, rf := range *out.Referrers() {
							switch x := rf.(type) {
							case *ssa.Store:
								if ld, isLd := in.(*ssa.UnOp); isLd && x.Val == out && ld.Op == token.MUL && ld.X == x.Addr {
									raw = true
								}
							case *ssa.Phi:
								for _, e := range x.Edges {
									if e == in {
										raw = true
									}
								}
							}
						}
					}
				})
			}
			r.Check(raw, "R2.version-sets", core.FuncName(f)+" raw-branch", p.Pos(f.Pos()), "other versions pass the bytes through unchanged", "the non-prefixed branch does not return its input unchanged")
			// framing is decided by the negotiated version, not by what the bytes look like: every
			// call of the length-prefix codec sits behind a comparison of the version with a constant
			{
				var vers []ssa.Value
				for _, cn := range consumers {
					if cn.fn == f {
						vers = append(vers, cn.value)
					}
				}
				byVersion := core.AnyFact(func(fc core.Fact) bool {
					if fc.Op != token.EQL {
						return false
					}
					for _, pr := range [][2]ssa.Value{{fc.X, fc.Y}, {fc.Y, fc.X}} {
						if _, isC := core.ConstInt(pr[1]); !isC {
							continue
						}
						for _, v := range vers {
							if core.Unwrap(pr[0]) == v || pr[0] == v {
								return true
							}
						}
					}
					return false
				})
				core.Calls(f, func(ci ssa.CallInstruction) {
					cf := core.StaticCalleeFn(ci)
					if cf == nil || !core.InModule(cf) || (len(core.CallsTo(cf, lebEncode32)) == 0 && len(core.CallsTo(cf, lebDecode32)) == 0) {
						return
					}
					w := core.InstrGuarded(ci, byVersion, nil)
					r.Check(w == nil && len(vers) > 0, "R2.version-sets", core.FuncName(f)+" frames-by-version "+shortID(core.CalleeID(ci)), p.Pos(ci.Pos()), "the length-prefix codec is applied only under a comparison of the negotiated version with a constant", "the length-prefix codec is applied without regard to the negotiated version (e.g. tried on every payload and kept when it happens to parse): between peers whose common version has no prefix, content that starts like a prefix of its own length is silently cut: "+p.PathString(w))
				})
			}
		}
	}

	// ---- R1c the list the node negotiates with IS the list it advertises: the field is filled
	// with what the local record's version entry holds (or the default the record is given when it
	// has none), not with a part or a rearrangement of it - peers compute from the advertised set
	{
		nInit := 0
		for _, w := range p.FieldWrites("PortalProtocol", "currentVersions") {
			nInit++
			bad := ""
			for _, leaf := range listLeaves(w.Val) {
				switch x := leaf.(type) {
				case *ssa.UnOp:
					if x.Op == token.MUL {
						if _, isG := x.X.(*ssa.Global); isG {
							continue
						}
						if a, isA := x.X.(*ssa.Alloc); isA {
							okCell := true
							for _, rf := range *a.Referrers() {
								if st, isSt := rf.(*ssa.Store); isSt && st.Addr == ssa.Value(a) {
									if core.IsEmptySlice(st.Val) {
										continue
									}
									for _, l2 := range listLeaves(st.Val) {
										u2, isU := l2.(*ssa.UnOp)
										if _, isC := l2.(*ssa.Const); isC {
											continue
										}
										if isU && u2.Op == token.MUL {
											if _, isG := u2.X.(*ssa.Global); isG {
												continue
											}
										}
										if core.IsEmptySlice(l2) {
											continue
										}
										okCell = false
									}
								}
							}
							if okCell {
								continue
							}
						}
					}
				case *ssa.Const:
					continue
				}
				bad = "derived value at " + p.Pos(w.Store.Pos())
			}
			// a re-slice / append anywhere between the record and the field
			core.Derives(w.Val, func(v ssa.Value) bool {
				switch y := v.(type) {
				case *ssa.Slice:
					if !core.IsEmptySlice(y) {
						bad = "re-sliced at " + p.Pos(y.Pos())
					}
				case *ssa.Call:
					if id := core.CalleeID(y); id == "builtin.append" || strings.HasPrefix(id, "slices.") || strings.HasPrefix(id, "sort.") {
						bad = id + " at " + p.Pos(y.Pos())
					}
				}
				return false
			}, core.DeriveOpts{})
			r.Check(bad == "", "R1.local-versions-immutable", core.FuncName(w.Fn)+" uses-advertised-list", p.Pos(w.Store.Pos()), "the local version list is the record's entry (or the default) as it is", "the list the node negotiates with is not the list its record advertises ("+bad+"): peers compute the common version from the advertised set and the two ends can disagree")
		}
		if nInit == 0 {
			r.Fail("R1.local-versions-immutable", "local version list", "-", "anchor-unresolved: no write to PortalProtocol.currentVersions")
		}
	}
	// ---- R1b the local version list is immutable after construction
	{
		isLocal := func(v ssa.Value) bool { _, f, ok := core.LoadedField(v); return ok && f == "currentVersions" }
		nuse := 0
		for _, fn := range p.ModuleFuncs() {
			if fn.Pkg != p.SSAPkg("portalwire") && (fn.Parent() == nil || fn.Parent().Pkg != p.SSAPkg("portalwire")) {
				continue
			}
			// element stores
			for _, b := range fn.Blocks {
				for _, in := range b.Instrs {
					if st, ok := in.(*ssa.Store); ok {
						if ia, ok := st.Addr.(*ssa.IndexAddr); ok && sliceOfLocal(ia.X, isLocal) {
							r.Fail("R1.local-versions-immutable", core.FuncName(fn)+" element-store", p.Pos(st.Pos()), "an element of the local version list is overwritten")
						}
					}
				}
			}
			core.Calls(fn, func(ci ssa.CallInstruction) {
				for ai, a := range ci.Common().Args {
					if !core.Derives(a, isLocal, core.DeriveOpts{}) {
						continue
					}
					if _, isSlice := a.Type().Underlying().(*types.Slice); !isSlice {
						continue
					}
					nuse++
					key := fmt.Sprintf("%s passes-local-versions-to %s", core.FuncName(fn), shortID(core.CalleeID(ci)))
					id := core.CalleeID(ci)
					mut := strings.HasPrefix(id, "sort.") || strings.HasPrefix(id, "slices.Sort") || id == "slices.Reverse" || id == "builtin.copy" && ai == 0 || id == "builtin.clear"
					if cf := core.StaticCalleeFn(ci); cf != nil && core.InModule(cf) && ai < len(cf.Params) {
						pa := cf.Params[ai]
						isP := func(v ssa.Value) bool { return v == ssa.Value(pa) }
						for _, b := range cf.Blocks {
							for _, in := range b.Instrs {
								switch x := in.(type) {
								case *ssa.Store:
									if ia, ok := x.Addr.(*ssa.IndexAddr); ok && core.Derives(ia.X, isP, core.DeriveOpts{}) {
										mut = true
									}
								case ssa.CallInstruction:
									id2 := core.CalleeID(x)
									if strings.HasPrefix(id2, "sort.") || strings.HasPrefix(id2, "slices.Sort") || id2 == "slices.Reverse" {
										for _, a2 := range x.Common().Args {
											if core.Derives(a2, isP, core.DeriveOpts{}) {
												mut = true
											}
										}
									}
								}
							}
						}
					}
					r.Check(!mut, "R1.local-versions-immutable", key, p.Pos(ci.Pos()), "the callee only reads the local version list", "the local version list is reordered/overwritten in place by this call: its first element (the base version used for peers that advertise none) changes after the first negotiation")
				}
			})
		}
		r.Count("local_version_list_uses", nuse)
	}

	// ---- R3 the helper itself
	name := core.FuncName(N)
	var hcv *ssa.Call // highest-common-version computation: module call with two slice args returning (uint8, error)
	core.Calls(N, func(ci ssa.CallInstruction) {
		f := core.StaticCalleeFn(ci)
		if f == nil || !core.InModule(f) {
			return
		}
		rs := f.Signature.Results()
		if rs.Len() == 2 && core.ErrResultIndex(f.Signature) == 1 && f.Signature.Params().Len() == 2 {
			hcv, _ = ci.(*ssa.Call)
		}
	})
	if hcv == nil {
		r.Fail("R3.helper", name+" computation", p.Pos(N.Pos()), "the highest-common-version computation is not found in the helper")
		return
	}
	// structure of the highest-common-version function: a running maximum over ALL common values
	checkHighestCommon(c, "R3.helper", core.StaticCalleeFn(hcv))

	// operands: local versions field and the loaded peer versions
	a0 := core.Derives(hcv.Call.Args[0], func(v ssa.Value) bool { _, f, ok := core.LoadedField(v); return ok && f == "currentVersions" }, core.DeriveOpts{})
	var loaded ssa.Value
	for _, ci := range core.CallsTo(N, enodeLoad) {
		loaded = core.Unwrap(ci.Common().Args[1])
	}
	a1 := loaded != nil && core.Derives(hcv.Call.Args[1], func(v ssa.Value) bool { return v == loaded }, core.DeriveOpts{})
	r.Check(a0 && a1, "R3.helper", name+" operands", p.Pos(hcv.Pos()), "computed from (local versions, versions loaded from the peer record)", "the common version is not computed from the local set and the peer's loaded set")
	// error returned: success exits after the computation pass err == nil
	g := core.ErrNilGate("hcv", func(c2 *ssa.Call) bool { return c2 == hcv })
	w := core.AllSuccessPass(N, g, hcv.Block())
	r.Check(w == nil, "R3.helper", name+" error-returned", p.Pos(hcv.Pos()), "no common version yields an error", "the helper can succeed although no common version exists: "+p.PathString(w))
	// returned value is the computed one
	okRet := false
	for _, ret := range core.Returns(N) {
		if core.ResultOf(core.ResolveSpill(ret.Results[0]), hcv, 0) {
			okRet = true
		}
	}
	r.Check(okRet, "R3.helper", name+" returns-computed", p.Pos(hcv.Pos()), "returns the computed version", "the computed version is not what is returned")
	// absent key => first local version
	okAbsent := false
	for _, ret := range core.Returns(N) {
		v := core.ResolveSpill(ret.Results[0])
		isFirst := core.Derives(v, func(x ssa.Value) bool {
			ia, ok := x.(*ssa.IndexAddr)
			if !ok {
				return false
			}
			k, isC := core.ConstInt(ia.Index)
			return isC && k == 0 && core.Derives(ia.X, func(y ssa.Value) bool { _, f, ok := core.LoadedField(y); return ok && f == "currentVersions" }, core.DeriveOpts{})
		}, core.DeriveOpts{})
		if !isFirst {
			continue
		}
		notFound := core.AnyFact(func(f core.Fact) bool {
			if f.Op != token.ILLEGAL || !f.Truth {
				return false
			}
			cc, ok := f.V.(*ssa.Call)
			return ok && strings.HasSuffix(core.CalleeID(cc), "enr.IsNotFound")
		})
		if core.InstrGuarded(ret, notFound, nil) == nil {
			okAbsent = true
		}
	}
	r.Check(okAbsent, "R3.helper", name+" absent-key", p.Pos(N.Pos()), "an absent version key yields the first local version", "an absent version key does not yield the first-listed local version")
	// cache writes only on error-free paths
	nset := 0
	core.Calls(N, func(ci ssa.CallInstruction) {
		cc := ci.Common()
		if !cc.IsInvoke() || cc.Method.Name() != "Set" {
			return
		}
		if _, f, ok := core.LoadedField(cc.Value); !ok || f != "versionsCache" {
			return
		}
		nset++
		val := cc.Args[1]
		if core.ResultOf(val, hcv, 0) {
			w := core.InstrGuarded(ci, g.Edge, nil)
			r.Check(w == nil, "R3.cache-on-error", name+" cache-set-after highest-common-version", p.Pos(ci.Pos()),
				"the computed version is cached only when the computation succeeded", "the version cache is written before the error is examined: 'no common version' caches 0 and the next call returns version 0 with a nil error (witness: local {0}, peer {3}, asked twice)")
		} else {
			r.Pass("R3.cache-on-error", name+" cache-set default", p.Pos(ci.Pos()), "caches the default version (absent key)")
		}
	})
	r.Check(nset >= 1, "R3.helper", name+" caches", p.Pos(N.Pos()), fmt.Sprintf("%d cache writes", nset), "the helper no longer caches")
	errorsExamined(c, "R4.errors-examined", "version negotiation", []string{"portalwire"}, ".getOrStoreHighestVersion", "portalwire.findBiggestSameNumber", ".parseOfferResp", ".filterContentKeys", ".encodeUtpContent", ".decodeUtpContent", ".handleOffer", ".processOffer")
}

// highestCommonFn finds the (local versions, peer versions) -> (uint8, error) function the
// negotiation helper calls.
func highestCommonFn(p *core.Prog) *ssa.Function {
	N := negotiationHelper(p)
	if N == nil {
		return nil
	}
	var out *ssa.Function
	core.Calls(N, func(ci ssa.CallInstruction) {
		f := core.StaticCalleeFn(ci)
		if f == nil || !core.InModule(f) {
			return
		}
		rs := f.Signature.Results()
		if rs.Len() == 2 && core.ErrResultIndex(f.Signature) == 1 && f.Signature.Params().Len() == 2 {
			out = f
		}
	})
	return out
}

// checkHighestCommon: the function must select the LARGEST common value (symmetric in its
// arguments), considering every element.
func checkHighestCommon(c *Ctx, rule string, hf *ssa.Function) {
	p, r := c.P, c.R
	if hf == nil {
		r.Fail(rule, "highest-common-version function", "-", "anchor-unresolved")
		return
	}

	hname := core.FuncName(hf)
	// (1) some loop-carried value is replaced only under  element > carried
	okMax := false
	for _, b := range hf.Blocks {
		for _, in := range b.Instrs {
			ph, ok := in.(*ssa.Phi)
			if !ok || !core.InLoop(b) {
				continue
			}
			if bt, ok := ph.Type().Underlying().(*types.Basic); !ok || bt.Info()&types.IsInteger == 0 {
				continue
			}
			// the carried value is what the function returns (possibly converted)
			returned := false
			for _, ret := range core.Returns(hf) {
				if len(ret.Results) > 0 && core.Derives(ret.Results[0], func(v ssa.Value) bool { return v == ssa.Value(ph) }, core.DeriveOpts{}) {
					returned = true
				}
			}
			if !returned {
				continue
			}
			// builtin form: carried = max(carried, element)
			for _, e := range ph.Edges {
				mc, ok := core.Unwrap(e).(*ssa.Call)
				if !ok || core.CalleeID(mc) != "builtin.max" || len(mc.Call.Args) != 2 {
					continue
				}
				a0, a1 := mc.Call.Args[0], mc.Call.Args[1]
				carried := map[ssa.Value]bool{ph: true}
				if (core.FlowsFrom(a0, carried) && !core.FlowsFrom(a1, carried)) || (core.FlowsFrom(a1, carried) && !core.FlowsFrom(a0, carried)) {
					okMax = true
				}
			}
			for _, b2 := range hf.Blocks {
				for i := range b2.Succs {
					for _, f := range core.EdgeFacts(b2, i) {
						if core.CmpFact(f, func(op token.Token, x, y ssa.Value) bool {
							return op == token.GTR && core.FlowsFrom(y, map[ssa.Value]bool{ph: true}) && !core.FlowsFrom(x, map[ssa.Value]bool{ph: true})
						}) {
							okMax = true
						}
					}
				}
			}
		}
	}
	r.Check(okMax, rule, hname+" running-maximum", p.Pos(hf.Pos()), "the result is a running maximum: replaced only by a larger common value", "the common version returned is not selected as the LARGEST common value (e.g. the first match in list order): the two ends of a transfer, which call it with the lists swapped, can settle on different versions")
	// (2) success is decided only after the loops: no success return from inside a loop
	okAll := true
	for _, ret := range core.Returns(hf) {
		if core.InLoop(ret.Block()) && core.MayBeNilErr(ret.Results[len(ret.Results)-1], nil, ret.Block(), nil) {
			okAll = false
		}
	}
	r.Check(okAll, rule, hname+" considers-every-element", p.Pos(hf.Pos()), "no success exit from inside a loop: every element is considered", "the function can return a version before having looked at every element of the lists")
	// (3) every version number 0..255 can be told apart: a version used as a shift count (a bit
	// set in a machine word) is lost from the word's width on - the shift yields 0, so such a
	// version is never found to be common
	nShift, bad := 0, ""
	for _, b := range hf.Blocks {
		for _, in := range b.Instrs {
			bo, ok := in.(*ssa.BinOp)
			if !ok || (bo.Op != token.SHL && bo.Op != token.SHR) {
				continue
			}
			if _, isC := core.ConstInt(bo.Y); isC {
				continue
			}
			bt, ok := bo.Type().Underlying().(*types.Basic)
			if !ok {
				continue
			}
			width := float64(8 * types.SizesFor("gc", "amd64").Sizeof(bt))
			nShift++
			rg := p.RangeOf(bo.Y, b)
			if !rg.HasHi || rg.Hi >= width {
				bad = fmt.Sprintf("%s: shift of a %d-bit word by a count that is not known to be below %d", p.Pos(bo.Pos()), int(width), int(width))
			}
		}
	}
	r.Check(bad == "", rule, hname+" every-version-representable", p.Pos(hf.Pos()), fmt.Sprintf("%d variable shift(s), none by a count that can reach the word's width", nShift), "version numbers are kept in a bit set that cannot hold all of 0..255 ("+bad+"): a version at or above the word's width is dropped silently, two nodes that share only such versions find nothing in common and a higher common version loses to a lower one")
}

// staleRecordSource follows a peer record back through phis, parameters (to every call site, up
// to 4 levels) and captured variables; it reports a source that is a lookup in the routing table.
func staleRecordSource(p *core.Prog, v ssa.Value, in *ssa.Function, depth int, seen map[ssa.Value]bool) string {
	v = core.Unwrap(v)
	if v == nil || seen[v] || depth > 4 {
		return ""
	}
	seen[v] = true
	switch x := v.(type) {
	case *ssa.Phi:
		for _, e := range x.Edges {
			if bad := staleRecordSource(p, e, in, depth, seen); bad != "" {
				return bad
			}
		}
	case *ssa.Call:
		if f := core.StaticCalleeFn(x); f != nil && f.Signature.Recv() != nil && core.TypeName(f.Signature.Recv().Type()) == "Table" {
			return core.FuncName(f) + " at " + p.Pos(x.Pos())
		}
	case *ssa.UnOp:
		if x.Op == token.MUL {
			// the record inside a table entry
			if t, f, ok := core.LoadedField(x); ok && t == "tableNode" && f == "Node" {
				return "tableNode.Node at " + p.Pos(x.Pos())
			}
			if a, ok := x.X.(*ssa.Alloc); ok {
				for _, rf := range *a.Referrers() {
					if st, ok := rf.(*ssa.Store); ok && st.Addr == ssa.Value(a) {
						if bad := staleRecordSource(p, st.Val, in, depth, seen); bad != "" {
							return bad
						}
					}
				}
			}
			if fv, ok := x.X.(*ssa.FreeVar); ok && in.Parent() != nil {
				for i, f2 := range in.FreeVars {
					if f2 != fv {
						continue
					}
					for _, b := range in.Parent().Blocks {
						for _, i2 := range b.Instrs {
							if mc, ok := i2.(*ssa.MakeClosure); ok && mc.Fn == ssa.Value(in) && i < len(mc.Bindings) {
								if al, ok := mc.Bindings[i].(*ssa.Alloc); ok {
									for _, rf := range *al.Referrers() {
										if st, ok := rf.(*ssa.Store); ok && st.Addr == ssa.Value(al) {
											if bad := staleRecordSource(p, st.Val, in.Parent(), depth, seen); bad != "" {
												return bad
											}
										}
									}
								}
							}
						}
					}
				}
			}
		}
	case *ssa.Parameter:
		idx := -1
		for j, q := range in.Params {
			if q == x {
				idx = j
			}
		}
		if idx < 0 {
			return ""
		}
		for cf, css := range p.CallersOfFn(in) {
			for _, s2 := range css {
				if idx < len(s2.Common().Args) {
					if bad := staleRecordSource(p, s2.Common().Args[idx], cf, depth+1, seen); bad != "" {
						return bad
					}
				}
			}
		}
	}
	return ""
}

// sliceOfLocal: v is the local list itself or a re-slice / type change of it (not a scratch
// array - the argument array of a log call - into which the list was merely put).
func sliceOfLocal(v ssa.Value, isLocal func(ssa.Value) bool) bool {
	for i := 0; i < 6; i++ {
		if isLocal(v) {
			return true
		}
		switch x := v.(type) {
		case *ssa.Slice:
			v = x.X
		case *ssa.ChangeType:
			v = x.X
		case *ssa.Phi:
			for _, e := range x.Edges {
				if sliceOfLocal(e, isLocal) {
					return true
				}
			}
			return false
		default:
			return false
		}
	}
	return false
}
