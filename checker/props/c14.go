package props

import (
	"fmt"
	"go/types"
	"os"
	"sort"
	"strings"

	"golang.org/x/tools/go/ssa"

	"verifchk/core"
)

func init() { Registry["C14"] = c14 }

type sszType struct {
	nt            *types.Named
	name          string
	unm, mar, siz *ssa.Function
}

func fastsszTypes(p *core.Prog) []sszType {
	var out []sszType
	for _, pk := range p.Pkgs {
		sc := pk.Types.Scope()
		for _, n := range sc.Names() {
			tn, ok := sc.Lookup(n).(*types.TypeName)
			if !ok {
				continue
			}
			nt, ok := tn.Type().(*types.Named)
			if !ok {
				continue
			}
			if _, isStruct := nt.Underlying().(*types.Struct); !isStruct {
				continue
			}
			u, m, s := methodOf(p, nt, "UnmarshalSSZ"), methodOf(p, nt, "MarshalSSZTo"), methodOf(p, nt, "SizeSSZ")
			if u == nil || m == nil || u.Blocks == nil || m.Blocks == nil {
				continue
			}
			rel := strings.TrimPrefix(strings.TrimPrefix(pk.PkgPath, core.ModPath), "/")
			out = append(out, sszType{nt, rel + "." + n, u, m, s})
		}
	}
	sort.Slice(out, func(i, j int) bool { return out[i].name < out[j].name })
	return out
}

// declared limits named in the statement: type.field -> (outer, inner)
var declaredLimits = map[string][2]int64{
	"portalwire.Offer.ContentKeys":                 {64, 2048},
	"portalwire.FindContent.ContentKey":            {2048, 0},
	"portalwire.Nodes.Enrs":                        {32, 2048},
	"portalwire.Enrs.Enrs":                         {32, 2048},
	"portalwire.FindNodes.Distances":               {256, 2},
	"portalwire.Ping.Payload":                      {1100, 0},
	"portalwire.Pong.Payload":                      {1100, 0},
	"portalwire.ConnectionId.Id":                   {2, 0},
	"portalwire.Accept.ConnectionId":               {2, 0},
	"portalwire.AcceptV1.ConnectionId":             {2, 0},
	"portalwire.Accept.ContentKeys":                {64, 0},
	"portalwire.AcceptV1.ContentKeys":              {64, 0},
	"portalwire.Content.Content":                   {2048, 0},
	"types/history.OfferEphemeralHeader.Header":    {2048, 0},
	"types/history.EphemeralHeaderPayload.Payload": {256, 2048},
}

func c14(c *Ctx) {
	p, r := c.P, c.R
	r.Technique = "schema engine: the SSZ layout of every fastssz-style struct is computed from field types and ssz tags and compared with the constants extracted (over go/ssa) from its decoder, encoder and size method; ordered field-list agreement of every ztyp codec's Deserialize / Serialize / ByteLength / FixedLength; totality and consistency of fork-digest tables"
	r.Explanation = "Decides agreement of struct tags, encoder, decoder and size code with one computed schema and with the limits the statement declares: (R1) for every fastssz-style type the decoder's minimum/exact size, its offset reads (window, > size check, first offset == fixed-part size (an equality: a lower bound alone is rejected), monotone successors), its fixed windows and every limit constant (byte-list maxima, list maxima, element sizes, bit-list limit) equal the computed layout; the encoder's container offset and limits equal it (bit lists: the encoder may be looser by fastssz design); the size method starts from the fixed part; a bare list type (no container offset) must accept the 0-byte encoding of the empty list; (R2) the limits declared in the statement are the ones in the tags; (R3) for every ztyp codec the ordered list of fields handed to Deserialize, Serialize and ByteLength (and FixedLength where present) is the struct's field list, each once, in declaration order, and identical across the methods (HashTreeRoot lists are compared as an observation); (R4) each fork-tagged container's Deserialize and Serialize dispatch over the same fork cases with the same concrete types; (R5) Nibbles path prefix; (R6) no codec error is lost; (R7) the bytes an encoder returns do not alias storage it reuses for its next call (sync.Pool objects, package-level buffers). Not decided: equality of values/bytes after a round trip; canonicality inside fastssz/ztyp helpers (fastssz UnmarshalDynamic accepts 00000000 as an empty list - dependency behaviour)."
	r.Assumptions = []string{"fastssz helper semantics (ReadOffset, DecodeDynamicLength, DivideInt2, ValidateBitlist, UnmarshalDynamic)", "ztyp codec.Container/FixedLenContainer/ContainerLength semantics"}
	r.Floor("R1.decoder", 25)
	r.Floor("R1.encoder", 25)
	r.Floor("R1.size", 20)
	r.Floor("R2.declared-limits", 13)
	r.Floor("R3.ztyp-field-lists", 25)
	r.Floor("R4.fork-tables", 4)
	r.Floor("R5.path-prefix", 3)
	r.Floor("R6.error-not-lost", 1)

	debug := os.Getenv("VERIF_C14_DEBUG") != ""
	tys := fastsszTypes(p)
	r.Count("fastssz_style_types", len(tys))
	for _, t := range tys {
		st := t.nt.Underlying().(*types.Struct)
		lay := core.ComputeLayout(st)
		pos := p.Pos(t.unm.Pos())
		if !lay.OK {
			r.Note("R1.decoder", t.name+" schema", pos, "layout not computed: "+lay.Why)
			continue
		}
		dec := core.CensusDecoder(t.unm)
		enc := core.CensusEncoder(t.mar)
		byteMax, dynLen, divide, bitlist, _ := lay.ExpectedLimits()
		N := lay.FixedPart
		bare := lay.NVar > 0 && enc.ContainerOffset < 0 && !dec.HasOffset
		if debug {
			fmt.Fprintf(os.Stderr, "%s N=%d nvar=%d bare=%v\n  dec=%+v\n  enc=%+v\n  exp byteMax=%v dyn=%v div=%v bit=%v\n", t.name, N, lay.NVar, bare, dec, enc, byteMax, dynLen, divide, bitlist)
		}
		// ---- decoder: size
		switch {
		case bare:
			if len(lay.Fields) != 1 {
				r.Fail("R1.decoder", t.name+" bare-shape", pos, "a type without a container offset must have exactly one field")
				continue
			}
			f := lay.Fields[0]
			if f.Kind == "listbytes" || f.Kind == "listfixed" || f.Kind == "bytes" {
				ok := len(dec.SizeLss) == 0 && len(dec.SizeNeq) == 0
				r.Check(ok, "R1.decoder", t.name+" min-size", pos, "a bare list accepts the 0-byte encoding of the empty list", fmt.Sprintf("the decoder demands at least %v bytes although the encoder emits 0 bytes for the empty list: the empty value does not round-trip", dec.SizeLss))
			}
		case lay.NVar > 0:
			ok := len(dec.SizeLss) == 1 && dec.SizeLss[0] == N && len(dec.SizeNeq) == 0
			r.Check(ok, "R1.decoder", t.name+" min-size", pos, fmt.Sprintf("size < %d rejected", N), fmt.Sprintf("decoder minimum size check is %v/%v, the fixed part is %d bytes", dec.SizeLss, dec.SizeNeq, N))
		default:
			ok := len(dec.SizeNeq) == 1 && dec.SizeNeq[0] == N
			r.Check(ok, "R1.decoder", t.name+" exact-size", pos, fmt.Sprintf("size != %d rejected", N), fmt.Sprintf("decoder exact size check is %v, the type is %d bytes", dec.SizeNeq, N))
		}
		// ---- decoder: offsets
		if !bare {
			var wantWin, wantFixed [][2]int64
			at := int64(0)
			for _, f := range lay.Fields {
				if f.Kind == "fixed" {
					wantFixed = append(wantFixed, [2]int64{at, at + f.Fixed})
					at += f.Fixed
				} else {
					wantWin = append(wantWin, [2]int64{at, at + 4})
					at += 4
				}
			}
			okOff := len(dec.Offsets) == len(wantWin)
			detail := ""
			if okOff {
				for i, o := range dec.Offsets {
					if o.Lo != wantWin[i][0] || o.Hi != wantWin[i][1] {
						okOff = false
						detail = fmt.Sprintf("offset %d read from [%d:%d], expected [%d:%d]", i, o.Lo, o.Hi, wantWin[i][0], wantWin[i][1])
					}
					if !o.GtSize {
						okOff = false
						detail = fmt.Sprintf("offset %d is not checked against the input size", i)
					}
					if i == 0 && o.FirstConst != N {
						okOff = false
						detail = fmt.Sprintf("first offset compared with %d, the fixed part is %d bytes (non-canonical encodings accepted)", o.FirstConst, N)
					}
					if i == 0 && o.FirstConst == N && o.FirstLoose {
						// the form older generators emitted: an offset beyond the fixed part decodes,
						// the bytes between are dropped and the value re-encodes to other bytes
						okOff = false
						detail = fmt.Sprintf("first offset only required to be >= %d, not == %d (a frame with filler after the fixed part decodes and re-encodes differently)", N, N)
					}
					if i > 0 && !o.Monotone {
						okOff = false
						detail = fmt.Sprintf("offset %d is not checked to be >= the previous offset", i)
					}
				}
			} else {
				detail = fmt.Sprintf("%d offsets read, %d variable fields", len(dec.Offsets), len(wantWin))
			}
			if lay.NVar > 0 {
				r.Check(okOff, "R1.decoder", t.name+" offsets", pos, fmt.Sprintf("%d offset(s): windows, size check, first == %d, monotone", len(wantWin), N), "offset handling disagrees with the layout: "+detail)
			}
			// fixed windows: every fixed field's window appears (vectors of vectors are read element-wise: accept windows inside)
			okWin := true
			miss := ""
			for _, w := range wantFixed {
				found := false
				for _, dw := range dec.Windows {
					if dw[0] == w[0] && dw[1] == w[1] {
						found = true
					}
				}
				if !found {
					okWin = false
					miss = fmt.Sprintf("[%d:%d]", w[0], w[1])
				}
			}
			for _, dw := range dec.Windows {
				if dw[1] > N {
					okWin = false
					miss = fmt.Sprintf("window [%d:%d] beyond the fixed part", dw[0], dw[1])
				}
			}
			if len(wantFixed) > 0 {
				r.Check(okWin, "R1.decoder", t.name+" fixed-windows", pos, fmt.Sprintf("%d fixed field window(s) as computed", len(wantFixed)), "fixed field windows disagree with the layout: missing/invalid "+miss)
			}
		}
		// ---- decoder: limits
		// a list of single-byte elements may be bounded either as a byte list (len > M) or by DivideInt2(len, 1, M)
		decByteMax, decDivide := append([]int64{}, dec.ByteMax...), [][2]int64{}
		for _, d := range dec.Divide {
			if d[0] == 1 {
				decByteMax = append(decByteMax, d[1])
			} else {
				decDivide = append(decDivide, d)
			}
		}
		dec.ByteMax, dec.Divide = decByteMax, decDivide
		okLim := core.SameMultiset(dec.ByteMax, byteMax) && core.SameMultiset(dec.DynLen, dynLen) && core.SameMultiset(dec.Bitlist, bitlist) && len(dec.Divide) == len(divide)
		if okLim {
			for _, d := range divide {
				f := false
				for _, x := range dec.Divide {
					if x == d {
						f = true
					}
				}
				if !f {
					okLim = false
				}
			}
		}
		if lay.NVar > 0 {
			r.Check(okLim, "R1.decoder", t.name+" limits", pos, fmt.Sprintf("limits enforced: bytes %v lists %v elements %v bits %v", byteMax, dynLen, divide, bitlist),
				fmt.Sprintf("decoder enforces bytes %v lists %v elements %v bits %v, the tags declare bytes %v lists %v elements %v bits %v", dec.ByteMax, dec.DynLen, dec.Divide, dec.Bitlist, byteMax, dynLen, divide, bitlist))
		}
		// ---- encoder
		epos := p.Pos(t.mar.Pos())
		if lay.NVar > 0 && !bare {
			r.Check(enc.ContainerOffset == N, "R1.encoder", t.name+" container-offset", epos, fmt.Sprintf("first offset written = %d", N), fmt.Sprintf("the encoder writes first offset %d, the fixed part is %d bytes (the decoder rejects/misreads it)", enc.ContainerOffset, N))
		}
		{
			var want []int64
			want = append(want, byteMax...)
			want = append(want, dynLen...)
			for _, d := range divide {
				want = append(want, d[1])
			}
			// bit lists: fastssz compares the byte length with the bit limit (looser by design)
			got := append([]int64{}, enc.LenGtr...)
			for _, b := range bitlist {
				// remove one occurrence of b if present
				for i, g := range got {
					if g == b {
						got = append(got[:i], got[i+1:]...)
						break
					}
				}
			}
			if lay.NVar > 0 {
				r.Check(core.SameMultiset(got, want), "R1.encoder", t.name+" limits", epos, fmt.Sprintf("limits enforced %v", want), fmt.Sprintf("encoder enforces %v, the tags declare %v (an over-limit value must fail to encode or be rejected by the decoder; a stricter encoder rejects in-limit values)", enc.LenGtr, want))
			} else {
				r.Pass("R1.encoder", t.name+" fixed-only", epos, "no variable field")
			}
		}
		// ---- size
		if t.siz != nil && t.siz.Blocks != nil {
			ks := core.SizeConstants(t.siz)
			want := N
			if bare {
				want = 0
			}
			has := false
			for _, k := range ks {
				if k == want {
					has = true
				}
			}
			// a bare list's size must not start from a phantom constant
			if bare {
				bad := false
				for _, k := range ks {
					if k != 0 && k != 4 && k != 1 {
						bad = true
					}
				}
				base := baseConst(t.siz)
				r.Check(!bad && (base == 0 || base == -1), "R1.size", t.name+" base", p.Pos(t.siz.Pos()), "size of a bare list starts at 0", fmt.Sprintf("SizeSSZ starts from %d although the encoding has no fixed part", base))
			} else {
				r.Check(has, "R1.size", t.name+" base", p.Pos(t.siz.Pos()), fmt.Sprintf("size starts from the fixed part %d", N), fmt.Sprintf("SizeSSZ uses constants %v, the fixed part is %d", ks, N))
			}
		}
		// ---- R2 declared limits
		for _, f := range lay.Fields {
			key := t.name + "." + f.Name
			want, ok := declaredLimits[key]
			if !ok {
				continue
			}
			got := [2]int64{f.Max, f.ElemMax}
			switch f.Kind {
			case "fixed":
				got = [2]int64{f.Fixed, 0}
			case "listfixed":
				got = [2]int64{f.Max, f.ElemSize}
			}
			r.Check(got == want, "R2.declared-limits", key, pos, fmt.Sprintf("limit %v", got), fmt.Sprintf("tags declare %v, the protocol limit is %v", got, want))
		}
	}
	// every declared limit must have been found
	{
		seen := map[string]bool{}
		for _, o := range r.Obs {
			if strings.HasSuffix(o.Rule, "R2.declared-limits") {
				seen[o.Construct] = true
			}
		}
		var ks []string
		for k := range declaredLimits {
			ks = append(ks, k)
		}
		sort.Strings(ks)
		for _, k := range ks {
			if !seen[k] {
				r.Fail("R2.declared-limits", k, "-", "the field carrying this declared protocol limit was not found")
			}
		}
	}

	c14ztyp(c)
	c14Nibbles(c)
	// R6: no error of a decoding / encoding step is lost inside a codec (a shadowed err, a dropped
	// check): the limits and offset checks of the helpers only count if their verdict is returned
	{
		var roots []*ssa.Function
		pkgSet := map[string]bool{}
		for _, fn := range p.ModuleFuncs() {
			if fn.Signature.Recv() == nil || fn.Parent() != nil {
				continue
			}
			switch fn.Name() {
			case "UnmarshalSSZ", "MarshalSSZTo", "MarshalSSZ", "Deserialize", "Serialize":
				roots = append(roots, fn)
				if fn.Pkg != nil {
					pkgSet[strings.TrimPrefix(strings.TrimPrefix(fn.Pkg.Pkg.Path(), core.ModPath), "/")] = true
				}
			}
		}
		var pkgs []string
		for k := range pkgSet {
			pkgs = append(pkgs, k)
		}
		sort.Strings(pkgs)
		lostErrorRule(c, "R6.error-not-lost", "codec methods", roots, pkgs)
		// R7: an encoding belongs to its caller: the bytes an encoder returns must not live in
		// storage the encoder keeps for its next call (a pooled or package-level buffer) - the next
		// encode overwrites "the encoding of A" and it then decodes to B
		nEnc := 0
		for _, fn := range roots {
			if fn.Name() != "MarshalSSZ" && fn.Name() != "MarshalSSZTo" {
				continue
			}
			if fn.Signature.Results().Len() == 0 {
				continue
			}
			nEnc++
			shared := ""
			for _, ret := range core.Returns(fn) {
				v := core.ResolveSpill(ret.Results[0])
				core.Derives(v, func(x ssa.Value) bool {
					switch y := x.(type) {
					case *ssa.Call:
						if id := core.CalleeID(y); id == "sync.(*Pool).Get" {
							shared = "sync.Pool.Get at " + p.Pos(y.Pos())
						}
					case *ssa.Global:
						if y.Pkg != nil && strings.HasPrefix(y.Pkg.Pkg.Path(), core.ModPath) {
							if _, isSl := y.Type().(*types.Pointer).Elem().Underlying().(*types.Slice); isSl {
								shared = "package variable " + y.Name()
							}
							if strings.HasSuffix(y.Type().String(), "bytes.Buffer") {
								shared = "package variable " + y.Name()
							}
						}
					}
					return false
				}, core.DeriveOpts{ThroughCalls: true})
			}
			if shared != "" {
				r.Fail("R7.encoding-owned", core.FuncName(fn), p.Pos(fn.Pos()), "the bytes returned alias storage the encoder reuses ("+shared+"): an encoding still in use changes when another value is encoded, and decoding it no longer yields the value it was made from")
			}
		}
		r.Check(nEnc >= 10, "R7.encoding-owned", "encoders inspected", "-", fmt.Sprintf("%d encoders return bytes that do not alias pooled or package-level storage", nEnc), fmt.Sprintf("only %d encoders found", nEnc))
	}
}

// baseConst: the constant a SizeSSZ accumulator starts from (phi initial / first store), -1 if none.
func baseConst(fn *ssa.Function) int64 {
	for _, b := range fn.Blocks {
		for _, in := range b.Instrs {
			if ph, ok := in.(*ssa.Phi); ok {
				for i, e := range ph.Edges {
					if k, isC := core.ConstInt(e); isC && ph.Block().Preds[i].Index < ph.Block().Index {
						return k
					}
				}
			}
		}
	}
	for _, ret := range core.Returns(fn) {
		if k, isC := core.ConstInt(ret.Results[0]); isC {
			return k
		}
	}
	return -1
}

// fieldListOfCall: the receiver fields handed (by address) to a variadic container helper, in order.
func fieldListOfCall(call ssa.CallInstruction, recv *ssa.Parameter) ([]string, bool) {
	args := call.Common().Args
	if len(args) == 0 {
		return nil, false
	}
	el := core.VariadicElems(args[len(args)-1])
	if len(el) == 0 {
		return nil, false
	}
	// VariadicElems returns stores in referrer order, which is index order for go/ssa
	var out []string
	for _, e := range el {
		name := ""
		core.Derives(e, func(v ssa.Value) bool {
			if name != "" {
				return false
			}
			if _, f, base, ok := core.FieldRef(v); ok {
				if base == ssa.Value(recv) || core.SameValue(base, recv) {
					name = f
				}
			}
			return false
		}, core.DeriveOpts{ThroughCalls: true})
		if name == "" {
			return nil, false
		}
		out = append(out, name)
	}
	return out, true
}

func c14ztyp(c *Ctx) {
	p, r := c.P, c.R
	helper := func(id string) string {
		switch {
		case strings.HasSuffix(id, "codec.(*DecodingReader).Container"), strings.HasSuffix(id, "codec.(*DecodingReader).FixedLenContainer"):
			return "Deserialize"
		case strings.HasSuffix(id, "codec.(*EncodingWriter).Container"), strings.HasSuffix(id, "codec.(*EncodingWriter).FixedLenContainer"):
			return "Serialize"
		case strings.HasSuffix(id, "codec.ContainerLength"):
			return "ByteLength"
		case strings.HasSuffix(id, "tree.(HashFn).HashTreeRoot"):
			return "HashTreeRoot"
		}
		return ""
	}
	type lists map[string][]string
	byType := map[string]lists{}
	posOf := map[string]string{}
	structOf := map[string]*types.Struct{}
	for _, fn := range p.ModuleFuncs() {
		if fn.Signature.Recv() == nil || len(fn.Params) == 0 {
			continue
		}
		rt := fn.Signature.Recv().Type()
		tn := core.TypeName(rt)
		if tn == "" {
			continue
		}
		var nt *types.Named
		if pt, ok := rt.(*types.Pointer); ok {
			nt, _ = pt.Elem().(*types.Named)
		} else {
			nt, _ = rt.(*types.Named)
		}
		if nt == nil {
			continue
		}
		st, ok := nt.Underlying().(*types.Struct)
		if !ok {
			continue
		}
		core.Calls(fn, func(ci ssa.CallInstruction) {
			kind := helper(core.CalleeID(ci))
			if kind == "" {
				return
			}
			key := strings.TrimPrefix(strings.TrimPrefix(nt.Obj().Pkg().Path(), core.ModPath), "/") + "." + tn
			fl, ok := fieldListOfCall(ci, fn.Params[0])
			if byType[key] == nil {
				byType[key] = lists{}
			}
			if !ok {
				byType[key][kind+"!"] = nil
				return
			}
			byType[key][kind] = fl
			posOf[key] = p.Pos(fn.Pos())
			structOf[key] = st
		})
	}
	var keys []string
	for k := range byType {
		keys = append(keys, k)
	}
	sort.Strings(keys)
	for _, k := range keys {
		ls := byType[k]
		st := structOf[k]
		if st == nil {
			r.Note("R3.ztyp-field-lists", k, "-", "container helper operands are not plain receiver fields (not compared)")
			continue
		}
		var decl []string
		for i := 0; i < st.NumFields(); i++ {
			decl = append(decl, st.Field(i).Name())
		}
		for _, m := range []string{"Deserialize", "Serialize", "ByteLength"} {
			if _, bad := ls[m+"!"]; bad {
				r.Fail("R3.ztyp-field-lists", k+" "+m, posOf[k], "an operand of the container helper is not a field of the receiver")
				continue
			}
			fl, ok := ls[m]
			if !ok {
				continue
			}
			r.Check(fmt.Sprint(fl) == fmt.Sprint(decl), "R3.ztyp-field-lists", k+" "+m, posOf[k], fmt.Sprintf("fields %v in declaration order", fl), fmt.Sprintf("%s lists %v, the struct declares %v: a field is lost, duplicated or reordered in the round trip", m, fl, decl))
		}
		if fl, ok := ls["HashTreeRoot"]; ok && fmt.Sprint(fl) != fmt.Sprint(decl) {
			r.Note("R3.ztyp-field-lists", k+" HashTreeRoot", posOf[k], fmt.Sprintf("hashes %v, declared %v (hashing is not part of the round-trip statement)", fl, decl))
		}
	}
	r.Count("ztyp_container_types", len(keys))

	// ---- R4 fork tables
	forkPkg := map[string]string{"Bellatrix": "altair", "Capella": "capella", "Deneb": "deneb", "Electra": "electra"}
	nForked := 0
	for _, fn := range p.ModuleFuncs() {
		if fn.Name() != "Deserialize" || fn.Signature.Recv() == nil || !strings.HasPrefix(core.TypeName(fn.Signature.Recv().Type()), "Forked") {
			continue
		}
		name := core.FuncName(fn)
		cases := map[string]string{}
		for _, b := range fn.Blocks {
			for i := range b.Succs {
				for _, f := range core.EdgeFacts(b, i) {
					if f.Op.String() != "==" {
						continue
					}
					for _, v := range []ssa.Value{f.X, f.Y} {
						if u, ok := v.(*ssa.UnOp); ok {
							if g, ok := u.X.(*ssa.Global); ok {
								// the type allocated in the successor
								for _, in := range b.Succs[i].Instrs {
									if al, ok := in.(*ssa.Alloc); ok && al.Heap {
										if pt, ok := al.Type().(*types.Pointer); ok {
											if nt, ok := pt.Elem().(*types.Named); ok && nt.Obj().Pkg() != nil {
												cases[g.Name()] = nt.Obj().Pkg().Name() + "." + nt.Obj().Name()
											}
										}
									}
								}
							}
						}
					}
				}
			}
		}
		if len(cases) == 0 {
			continue
		}
		nForked++
		ok := true
		detail := ""
		// a fork decodes into its own container or - where the container did not change - an earlier fork's;
		// never into a later fork's, and the sequence is monotone
		order := []string{"Bellatrix", "Capella", "Deneb", "Electra"}
		rank := map[string]int{"altair": 0, "capella": 1, "deneb": 2, "electra": 3}
		last := -1
		for fi, fk := range order {
			got, has := cases[fk]
			if !has {
				// a table may legitimately start at a later fork (summaries exist from Capella on)
				continue
			}
			pk := got[:strings.Index(got, ".")]
			rk, known := rank[pk]
			if !known || rk > fi || rk < last {
				ok = false
				detail = fmt.Sprintf("fork %s decodes into %s (expected the %s container or an unchanged earlier one, monotone over forks)", fk, got, forkPkg[fk])
			}
			if known {
				last = rk
			}
		}
		// all cases decode the same kind of object
		kinds := map[string]bool{}
		for _, t := range cases {
			kinds[t[strings.Index(t, ".")+1:]] = true
		}
		if len(kinds) != 1 {
			ok = false
			detail = fmt.Sprintf("the fork cases decode different kinds of object: %v", cases)
		}
		// default: error
		hasDefault := false
		for _, ret := range core.Returns(fn) {
			ev := core.ResolveSpill(ret.Results[len(ret.Results)-1])
			if cc, isCall := ev.(*ssa.Call); isCall && (core.CalleeID(cc) == "errors.New" || core.CalleeID(cc) == "fmt.Errorf") {
				hasDefault = true
			}
		}
		if !hasDefault {
			ok = false
			detail = "unknown fork digests are not rejected"
		}
		r.Check(ok && len(cases) >= 2, "R4.fork-tables", name, p.Pos(fn.Pos()), fmt.Sprintf("fork table %v with an unknown-digest error", cases), "fork table is inconsistent: "+detail)
	}
	r.Count("forked_containers", nForked)
}
