package props

import (
	"fmt"
	"go/token"
	"go/types"
	"strings"

	"golang.org/x/tools/go/ssa"

	"verifchk/core"
)

func init() { Registry["C16"] = c16 }

const (
	semTryAcquire = "golang.org/x/sync/semaphore.(*Weighted).TryAcquire"
	semAcquire    = "golang.org/x/sync/semaphore.(*Weighted).Acquire"
	semRelease    = "golang.org/x/sync/semaphore.(*Weighted).Release"
)

func isPermitType(t types.Type) bool {
	return core.QualTypeName(t) == core.ModPath+"/portalwire.Permit"
}

var permitSpec = core.ResourceSpec{
	IsRelease: func(c ssa.CallInstruction) (ssa.Value, bool) {
		cc := c.Common()
		if cc.IsInvoke() {
			if cc.Method.Name() == "Release" && isPermitType(cc.Value.Type()) {
				return cc.Value, true
			}
			return nil, false
		}
		id := core.CalleeID(c)
		if id == core.ModPath+"/portalwire.(*ReleasePermit).Release" || id == core.ModPath+"/portalwire.(*NoPermit).Release" {
			return cc.Args[0], true
		}
		return nil, false
	},
}

func c16(c *Ctx) {
	p, r := c.P, c.R
	r.Technique = "typestate (path search over go/ssa with defer/closure/flag/channel-handoff modelling) for every permit from acquisition to every exit, with per-function ownership summaries"
	r.Explanation = "Decides that every transfer slot (Permit) obtained from the uTP controller is released or handed off on every control-flow exit: (R1) acquisition sites are the call sites of the functions wrapping semaphore.TryAcquire; (R2) from each acquisition, and in every function that takes ownership of a permit (parameter, captured variable, queue element), every path to every exit passes a Release, a deferred Release (including the flag-guarded deferred closure, evaluated with the flag's constant-propagated value per exit), a hand-off to a function/goroutine that itself discharges it, or a successful channel send of the carrier (the non-blocking select's default edge does not count); receivers of that channel are then obligated; (R3) the release action runs only under a successful compare-and-swap, semaphore.Release is called only from the actions built next to the matching TryAcquire with the same weight; (R4) the no-op permit is constructed only by the acquisition wrappers and the operator RPC entry points; (R5) every uTP call that waits for the peer (accept, dial, read-to-EOF, write) is given a context made by context.WithTimeout/WithDeadline, so a holder reaches its release when the peer stays silent; (R6) the fields that hold the semaphores and their holder are assigned only while their owner is being built (the limiter is never replaced while permits are out) and the semaphore holder is created only where the shared uTP transport service is built (one limiter per socket, not per sub-network). An acquisition wrapper answers 'no' only on the failed edge of its TryAcquire. Not decided: peak concurrency as a number; behaviour of uTP timeouts; slots held by requests still queued at shutdown (observation)."
	r.Assumptions = []string{"golang.org/x/sync/semaphore is correct", "goroutines started with a permit run to one of their exits once their uTP waits time out (R5 checks that every wait has a deadline)", "panics are not exits"}
	r.Floor("R1.acquire-site", 4)
	r.Floor("R2.discharge", 4)
	r.Floor("R3.release-once", 3)
	r.Floor("R4.no-permit", 3)
	r.Floor("R5.bounded-wait", 6)

	// ---- R1: acquisition wrappers and their call sites
	var wrappers []*ssa.Function
	for _, fn := range p.ModuleFuncs() {
		if len(core.CallsTo(fn, semTryAcquire, semAcquire)) == 0 {
			continue
		}
		res := fn.Signature.Results()
		if res.Len() == 2 && isPermitType(res.At(0).Type()) {
			wrappers = append(wrappers, fn)
		} else {
			r.Fail("R1.acquire-site", core.FuncName(fn)+" wrapper-shape", p.Pos(fn.Pos()), "a transfer slot is acquired outside a (Permit, bool) wrapper: the obligation cannot be tracked")
		}
	}
	// wrappers of wrappers: (Permit, bool) functions that return another wrapper's results unchanged
	for changed := true; changed; {
		changed = false
		for _, fn := range p.ModuleFuncs() {
			if containsFn(wrappers, fn) {
				continue
			}
			res := fn.Signature.Results()
			if res.Len() != 2 || !isPermitType(res.At(0).Type()) {
				continue
			}
			all := true
			n := 0
			for _, ret := range core.Returns(fn) {
				n++
				ex, ok := ret.Results[0].(*ssa.Extract)
				if !ok {
					all = false
					break
				}
				call, ok := ex.Tuple.(*ssa.Call)
				if !ok || !containsFn(wrappers, core.StaticCalleeFn(call)) {
					all = false
					break
				}
				ex1, ok := ret.Results[1].(*ssa.Extract)
				if !ok || ex1.Tuple != ex.Tuple || ex1.Index != 1 || ex.Index != 0 {
					all = false
				}
			}
			if all && n > 0 {
				wrappers = append(wrappers, fn)
				changed = true
			}
		}
	}
	// a slot is refused only by the semaphore: the wrapper says "no" only on the path where its
	// TryAcquire failed. A refusal decided by anything else (a cached "full" flag, a counter kept
	// beside the semaphore) can outlive the condition it copies, and then slots that were all
	// given back are not available
	for _, w := range wrappers {
		acq := core.CallsTo(w, semTryAcquire)
		if len(acq) == 0 {
			continue
		}
		failed := core.AnyFact(func(f core.Fact) bool {
			if f.Op != token.ILLEGAL || f.Truth {
				return false
			}
			cc, ok := core.Unwrap(f.V).(*ssa.Call)
			return ok && core.CalleeID(cc) == semTryAcquire
		})
		for i, ret := range core.Returns(w) {
			if len(ret.Results) != 2 {
				continue
			}
			okv := core.ResolveSpill(ret.Results[1])
			if c, isC := okv.(*ssa.Const); isC && c.Value != nil && c.Value.String() == "true" {
				continue
			}
			if cc, isCall := core.Unwrap(okv).(*ssa.Call); isCall && core.CalleeID(cc) == semTryAcquire {
				continue // returns the semaphore's own answer
			}
			wp := core.InstrGuarded(ret, failed, nil)
			r.Check(wp == nil, "R1.acquire-site", fmt.Sprintf("%s refusal #%d only-by-semaphore", core.FuncName(w), i+1), p.Pos(ret.Pos()), "a slot is refused only where TryAcquire failed", "a slot can be refused without the semaphore having been asked (the refusal is decided by state kept beside the semaphore, which can be stale when every slot has been given back): "+p.PathString(wp))
		}
	}
	ts := core.NewTypeState(p, permitSpec)
	type site struct {
		fn   *ssa.Function
		call *ssa.Call
	}
	var sites []site
	for _, w := range wrappers {
		callers := p.CallersOfFn(w)
		for _, fn := range core.SortedFuncs(callers) {
			if containsFn(wrappers, fn) {
				continue // a forwarding wrapper: its caller holds the obligation
			}
			for _, ci := range callers[fn] {
				call, ok := ci.(*ssa.Call)
				if !ok {
					r.Fail("R1.acquire-site", core.FuncName(fn)+"→"+core.FuncName(w), p.Pos(ci.Pos()), "slot acquired in a go/defer statement: result lost")
					continue
				}
				sites = append(sites, site{fn, call})
			}
		}
	}
	for i, s := range sites {
		var permit, okv ssa.Value
		if refs := s.call.Referrers(); refs != nil {
			for _, rf := range *refs {
				if ex, ok := rf.(*ssa.Extract); ok {
					if ex.Index == 0 {
						permit = ex
					} else {
						okv = ex
					}
				}
			}
		}
		key := fmt.Sprintf("%s acquires via %s #%d", core.FuncName(s.fn), core.FuncName(core.StaticCalleeFn(s.call)), i+1)
		if permit == nil || okv == nil {
			r.Fail("R1.acquire-site", key, p.Pos(s.call.Pos()), "the permit or the ok result of the acquisition is discarded")
			continue
		}
		r.Pass("R1.acquire-site", key, p.Pos(s.call.Pos()), "permit and ok result are both bound")
		ts.CheckFrom(s.fn, permit, s.call, okv, "permit acquired in "+core.FuncName(s.fn))
	}
	// receivers of hand-off channels
	for chKey := range ts.Handoffs {
		parts := strings.SplitN(chKey, ".", 2)
		nrecv := 0
		for _, fn := range p.ModuleFuncs() {
			for _, b := range fn.Blocks {
				for _, in := range b.Instrs {
					var recvVals []ssa.Value
					switch x := in.(type) {
					case *ssa.UnOp:
						if x.Op == token.ARROW && core.IsLoadOfField(x.X, parts[0], parts[1]) {
							recvVals = append(recvVals, x)
						}
					case *ssa.Select:
						for si, st := range x.States {
							if st.Dir == types.RecvOnly && core.IsLoadOfField(st.Chan, parts[0], parts[1]) {
								// the received value is extract #(2+k)
								if refs := x.Referrers(); refs != nil {
									k := 0
									for j := 0; j < si; j++ {
										if x.States[j].Dir == types.RecvOnly {
											k++
										}
									}
									for _, rf := range *refs {
										if ex, ok := rf.(*ssa.Extract); ok && ex.Index == 2+k {
											recvVals = append(recvVals, ex)
										}
									}
								}
							}
						}
					}
					for _, rv := range recvVals {
						nrecv++
						// loads of a Permit-typed field of the received element
						found := false
						for _, b2 := range fn.Blocks {
							for _, in2 := range b2.Instrs {
								u, ok := in2.(*ssa.UnOp)
								if !ok || u.Op != token.MUL || !isPermitType(u.Type()) {
									continue
								}
								fa, ok := u.X.(*ssa.FieldAddr)
								if !ok || !core.Derives(fa.X, func(v ssa.Value) bool { return v == rv }, core.DeriveOpts{}) {
									continue
								}
								found = true
								ts.CheckFrom(fn, u, u, nil, "permit received from "+chKey+" in "+core.FuncName(fn))
							}
						}
						r.Check(found, "R2.discharge", core.FuncName(fn)+" receives "+chKey, p.Pos(in.Pos()),
							"the receiver takes the permit out of the queue element", "a queue element carrying a permit is received but its permit is never used (leak)")
					}
				}
			}
		}
		r.Check(nrecv > 0, "R2.discharge", "receivers of "+chKey, "-", fmt.Sprintf("%d receive site(s)", nrecv), "permits are handed to a channel nobody receives from")
	}
	ts.SortLeaks()
	seenLeak := map[string]int{}
	for _, l := range ts.Leaks {
		k := fmt.Sprintf("%s exit-after %s", core.FuncName(l.Fn), l.Last)
		seenLeak[k]++
		if seenLeak[k] > 1 {
			k = fmt.Sprintf("%s #%d", k, seenLeak[k])
		}
		r.Fail("R2.discharge", k, p.Pos(core.InstrPos(l.Exit.Instrs[len(l.Exit.Instrs)-1])),
			"a transfer slot can reach this exit without Release or hand-off ("+l.Start+"): "+p.PathString(l.Path))
	}
	for _, e := range ts.Early {
		r.Fail("R2.release-while-in-use", core.FuncName(e.Fn), p.Pos(core.InstrPos(e.At)), "the slot is released by this function although it was handed to a goroutine that is still transferring with it: the limit on simultaneous transfers is not enforced")
	}
	if len(ts.Early) == 0 {
		r.Pass("R2.release-while-in-use", "hand-offs", "-", "no function releases a slot after handing it to a goroutine")
	}
	// every function that was analysed as an owner and has no leak is a discharged obligation
	leaky := map[*ssa.Function]bool{}
	for _, l := range ts.Leaks {
		leaky[l.Fn] = true
	}
	for _, fn := range core.SortedFuncs(ts.Visited) {
		if !leaky[fn] {
			r.Pass("R2.discharge", core.FuncName(fn), p.Pos(fn.Pos()), "every exit reachable with the permit held passes a release / deferred release / hand-off")
		}
	}
	r.Count("functions_in_permit_flow", len(ts.Visited))

	// ---- R3: release exactly once; semaphore.Release only paired with the acquisition.
	// Two designs are recognised: (A) the permit stores an action closure made by the acquisition
	// wrapper, Release runs it under a successful CompareAndSwap; (B) the permit stores the
	// semaphore itself, Release gives the weight back under CompareAndSwap / Swap(true)==false.
	relFn := p.Func("portalwire", "ReleasePermit", "Release")
	onceGate := func(fs []core.Fact) bool {
		for _, f := range fs {
			if f.Op != token.ILLEGAL {
				continue
			}
			cc, ok := f.V.(*ssa.Call)
			if !ok {
				continue
			}
			id := core.CalleeID(cc)
			if !strings.HasPrefix(id, "sync/atomic.") {
				continue
			}
			op := atomicOpName(id)
			if op == "CompareAndSwap" && f.Truth && len(cc.Call.Args) == 3 {
				if o, n, ok := flagPair(cc.Call.Args[1], cc.Call.Args[2]); ok && !o && n {
					return true
				}
			}
			if op == "Swap" && !f.Truth && len(cc.Call.Args) == 2 {
				if n, okN := core.ConstBool(cc.Call.Args[1]); okN && n {
					return true
				}
			}
		}
		return false
	}
	semField := "" // design B: the permit field holding the semaphore
	if relFn == nil {
		r.Fail("R3.release-once", "ReleasePermit.Release", "-", "anchor-unresolved: releasing permit type not found")
	} else {
		n := 0
		for _, b := range relFn.Blocks {
			for _, in := range b.Instrs {
				call, ok := in.(*ssa.Call)
				if !ok || call.Call.IsInvoke() {
					continue
				}
				if _, isB := call.Call.Value.(*ssa.Builtin); isB {
					continue
				}
				isAction := core.StaticCalleeFn(call) == nil
				isDirect := core.CalleeID(call) == semRelease
				if !isAction && !isDirect {
					continue
				}
				n++
				if isDirect {
					if t, f, ok := core.LoadedField(call.Call.Args[0]); ok && t == "ReleasePermit" {
						semField = f
					}
				}
				w := core.InstrGuarded(call, onceGate, nil)
				r.Check(w == nil, "R3.release-once", "ReleasePermit.Release action-under-CAS", p.Pos(call.Pos()),
					"the slot is given back only after the released flag was atomically switched from false to true", "the slot can be given back more than once (no successful atomic false->true switch on the path): "+p.PathString(w))
			}
		}
		if n == 0 {
			r.Fail("R3.release-once", "ReleasePermit.Release action", p.Pos(relFn.Pos()), "Release neither invokes a stored action nor gives the slot back")
		}
	}
	// the released flag is a one-way latch: nothing re-arms it (a permit object that becomes live
	// again is shared by two acquisitions: the late Release of the first frees the slot of the second)
	{
		nlatch := 0
		for _, fn := range p.ModuleFuncs() {
			core.Calls(fn, func(ci ssa.CallInstruction) {
				id := core.CalleeID(ci)
				if !strings.HasPrefix(id, "sync/atomic.") || len(ci.Common().Args) == 0 {
					return
				}
				t, f, _, ok := core.FieldRef(ci.Common().Args[0])
				if !ok || t != "ReleasePermit" || f != "released" {
					return
				}
				nlatch++
				a := ci.Common().Args
				okOp := false
				switch atomicOpName(id) {
				case "Load":
					okOp = true
				case "CompareAndSwap":
					o, n, okP := flagPair(a[1], a[2])
					okOp = okP && !o && n
				case "Swap", "Store":
					_, n, okP := flagPair(nil, a[1])
					okOp = okP && n
				}
				r.Check(okOp, "R3.release-once", fmt.Sprintf("%s released-latch #%d", core.FuncName(fn), nlatch), p.Pos(ci.Pos()),
					"the released flag only ever goes from false to true", "the released flag of a permit is re-armed (set back to false): a permit object that is handed out again while an earlier holder still has a reference lets that holder's late Release free a slot it does not own")
			})
		}
		// and Release does not hand its own object to anything (a pool, a list) that could give it out again
		if relFn != nil {
			recv := relFn.Params[0]
			leaks := false
			core.Calls(relFn, func(ci ssa.CallInstruction) {
				for i, a := range ci.Common().Args {
					if core.Derives(a, func(v ssa.Value) bool { return v == ssa.Value(recv) }, core.DeriveOpts{}) {
						// passing &p.released / p.limit (fields) to atomic / semaphore methods is fine: only the object itself counts
						if mi, ok := a.(*ssa.MakeInterface); ok && mi.X == ssa.Value(recv) {
							leaks = true
						}
						if a == ssa.Value(recv) && !(i == 0 && ci.Common().IsInvoke()) {
							if f := core.StaticCalleeFn(ci); f == nil || !core.InModule(f) {
								leaks = true
							}
						}
					}
				}
			})
			r.Check(!leaks, "R3.release-once", "ReleasePermit.Release keeps-its-object", p.Pos(relFn.Pos()), "Release does not hand the permit object to anything that could give it out again", "Release publishes its own object (e.g. puts it into a pool) while other holders may still call Release on it")
		}
	}
	for _, fn := range p.ModuleFuncs() {
		for _, ci := range core.CallsTo(fn, semRelease) {
			key := core.FuncName(fn) + " semaphore.Release"
			if fn == relFn && semField != "" {
				// design B: every construction of the permit stores the semaphore its wrapper acquired from
				rw, _ := core.ConstInt(ci.Common().Args[1])
				nb := 0
				okAll := true
				for _, w := range p.FieldWrites("ReleasePermit", semField) {
					nb++
					okW := false
					for _, a := range core.CallsTo(w.Fn, semTryAcquire, semAcquire) {
						aw, _ := core.ConstInt(a.Common().Args[len(a.Common().Args)-1])
						pa, pv := core.AccessPath(a.Common().Args[0]), core.AccessPath(w.Val)
						if pa != "" && pa == pv && !strings.HasPrefix(pa, "V:") && !strings.HasPrefix(pa, "A:") && aw == rw && aw > 0 {
							// and the permit is built only after the acquisition succeeded
							g := core.BoolCallGate("acquired", true, func(c2 *ssa.Call) bool { return c2 == a.(*ssa.Call) })
							if core.InstrGuarded(w.Store, g.Edge, nil) == nil {
								okW = true
							}
						}
					}
					if !okW {
						okAll = false
					}
					if !w.Init {
						okW = false // the permit object is not a fresh one (recycled / shared): two acquisitions can hold the same object
					}
					r.Check(okW, "R3.release-once", core.FuncName(w.Fn)+" permit-holds-acquired-semaphore", p.Pos(w.Store.Pos()), "the permit holds the semaphore this wrapper took the same weight from, and is built only after the acquisition succeeded", "a permit can give a slot back to a semaphore it was not taken from, with another weight, or without having been taken")
				}
				if nb == 0 {
					r.Fail("R3.release-once", key, p.Pos(ci.Pos()), "no construction of the permit sets the semaphore it gives back to")
				}
				_ = okAll
				continue
			}
			par := fn.Parent()
			okPlace := par != nil && containsFn(wrappers, par)
			if !okPlace {
				r.Fail("R3.release-once", key, p.Pos(ci.Pos()), "semaphore.Release is called outside the action closure of an acquisition wrapper (a slot could be given back without having been taken)")
				continue
			}
			// same semaphore field and same weight as the TryAcquire in the parent
			acq := core.CallsTo(par, semTryAcquire, semAcquire)
			okPair := false
			for _, a := range acq {
				aw, _ := core.ConstInt(a.Common().Args[len(a.Common().Args)-1])
				rw, _ := core.ConstInt(ci.Common().Args[1])
				_, af, okA := core.LoadedField(a.Common().Args[0])
				_, rf, okR := core.LoadedField(ci.Common().Args[0])
				if okA && okR && af == rf && aw == rw && aw > 0 {
					okPair = true
				}
				// the same variable (e.g. a local holding the semaphore, captured by the action)
				if pa, pr := core.AccessPath(a.Common().Args[0]), core.AccessPath(ci.Common().Args[0]); pa != "" && pa == pr && !strings.HasPrefix(pa, "V:") && !strings.HasPrefix(pa, "A:") && aw == rw && aw > 0 {
					okPair = true
				}
			}
			r.Check(okPair, "R3.release-once", key, p.Pos(ci.Pos()), "gives back the same weight to the same semaphore its wrapper acquired from", "the release action gives back a different weight or a different semaphore than was acquired")
		}
	}

	// ---- R5: a holder reaches its release: every uTP call that waits for the peer (accept, dial,
	// read to EOF, write) is given a context with a deadline. utp-go's accept has no timeout of
	// its own; with the protocol's long-lived context a peer that never connects keeps the
	// goroutine - and the slot its deferred Release would give back - for as long as the node runs.
	{
		waits := []string{"(*UtpTransportService).AcceptWithCid", "(*UtpTransportService).DialWithCid", "utp-go.(*UtpStream).ReadToEOF", "utp-go.(*UtpStream).Write"}
		n := 0
		for _, fn := range p.ModuleFuncs() {
			if fn.Signature.Recv() != nil && core.TypeName(fn.Signature.Recv().Type()) == "UtpTransportService" {
				continue // the wrappers pass their caller's context on
			}
			perFn := 0
			core.Calls(fn, func(ci ssa.CallInstruction) {
				id := core.CalleeID(ci)
				isWait := false
				for _, w := range waits {
					if strings.HasSuffix(id, w) {
						isWait = true
					}
				}
				if !isWait || len(ci.Common().Args) < 2 {
					return
				}
				n++
				perFn++
				ctx := ci.Common().Args[1]
				bounded := map[ssa.Value]bool{}
				for _, f2 := range append([]*ssa.Function{fn}, parentsOf(fn)...) {
					core.Calls(f2, func(c2 ssa.CallInstruction) {
						if id2 := core.CalleeID(c2); id2 == "context.WithTimeout" || id2 == "context.WithDeadline" {
							if call, ok := c2.(*ssa.Call); ok {
								for _, rf := range *call.Referrers() {
									if ex, ok := rf.(*ssa.Extract); ok && ex.Index == 0 {
										bounded[ex] = true
									}
								}
							}
						}
					})
				}
				ok := core.FlowsFrom(ctx, bounded) && !flowsFromUnbounded(ctx, bounded)
				short := id[strings.LastIndex(id, ".")+1:]
				r.Check(ok, "R5.bounded-wait", fmt.Sprintf("%s %s #%d", core.FuncName(fn), short, perFn), p.Pos(ci.Pos()), "waits for the peer under a context with a deadline", "this wait for the peer has no deadline of its own (the context is not one made by context.WithTimeout/WithDeadline): a peer that stays silent keeps the goroutine, and the transfer slot it holds, until the node stops")
			})
		}
		r.Count("utp_waits", n)
	}

	// ---- R6: the limiter lives as long as the service: the fields that hold the semaphores (and
	// the object holding them) are set when their owner is built and never again. A limiter
	// swapped in later starts out fully free while permits of the old one are still out.
	{
		pk := p.Pkg("portalwire")
		isSem := func(t types.Type) bool {
			pt, ok := t.(*types.Pointer)
			return ok && strings.HasSuffix(pt.Elem().String(), "semaphore.Weighted")
		}
		holdsSem := func(t types.Type) bool {
			pt, ok := t.(*types.Pointer)
			if !ok {
				return false
			}
			st, ok := pt.Elem().Underlying().(*types.Struct)
			if !ok {
				return false
			}
			for i := 0; i < st.NumFields(); i++ {
				if isSem(st.Field(i).Type()) {
					return true
				}
			}
			return false
		}
		nF := 0
		if pk != nil {
			sc := pk.Types.Scope()
			for _, name := range sc.Names() {
				tn, ok := sc.Lookup(name).(*types.TypeName)
				if !ok {
					continue
				}
				st, ok := tn.Type().Underlying().(*types.Struct)
				if !ok {
					continue
				}
				for i := 0; i < st.NumFields(); i++ {
					f := st.Field(i)
					if !isSem(f.Type()) && !holdsSem(f.Type()) {
						continue
					}
					nF++
					bad := ""
					for _, w := range p.FieldWrites(name, f.Name()) {
						if !w.Init {
							bad = core.FuncName(w.Fn) + " at " + p.Pos(w.Store.Pos())
						}
					}
					r.Check(bad == "", "R6.limiter-fixed", name+"."+f.Name(), "-", "assigned only while its owner is being built", "the limiter is replaced after construction ("+bad+"): the new one starts fully free while permits taken from the old one are still out and will be released into the orphan, so more transfers than the limit run at once")
				}
			}
		}
		// one limiter per uTP socket: the limit is a number for the whole node, and all
		// sub-networks share one transport service. A limiter per sub-network lets k networks run
		// k times the limit over the one socket.
		{
			nNew := 0
			for _, fn := range p.ModuleFuncs() {
				if len(core.CallsTo(fn, "golang.org/x/sync/semaphore.NewWeighted")) == 0 {
					continue
				}
				for cf, css := range p.CallersOfFn(fn) {
					for _, cs := range css {
						nNew++
						ownsSocket := false
						for _, b := range cf.Blocks {
							for _, in := range b.Instrs {
								if al, isAl := in.(*ssa.Alloc); isAl {
									if pt, isP := al.Type().(*types.Pointer); isP && core.TypeName(pt.Elem()) == "UtpTransportService" {
										ownsSocket = true
									}
								}
							}
						}
						r.Check(ownsSocket, "R6.limiter-fixed", core.FuncName(cf)+" limiter-per-socket", p.Pos(cs.Pos()), "the limiter is created where the shared uTP transport service is built", "a limiter is created outside the constructor of the shared uTP transport service (e.g. one per sub-network): the configured limit then bounds each of them separately and the node as a whole runs a multiple of it over one socket")
					}
				}
			}
			r.Check(nNew >= 1, "R6.limiter-fixed", "limiter constructions", "-", fmt.Sprintf("%d construction site(s) inspected", nNew), "no construction of the semaphore holder found")
		}
		r.Check(nF >= 2, "R6.limiter-fixed", "limiter fields", "-", fmt.Sprintf("%d fields holding a semaphore (or its holder) inspected", nF), fmt.Sprintf("only %d limiter fields found", nF))
	}

	// ---- R4: who may construct the no-op permit
	for _, fn := range p.ModuleFuncs() {
		for _, b := range fn.Blocks {
			for _, in := range b.Instrs {
				al, ok := in.(*ssa.Alloc)
				if !ok {
					continue
				}
				pt, ok := al.Type().(*types.Pointer)
				if !ok || core.QualTypeName(pt.Elem()) != core.ModPath+"/portalwire.NoPermit" {
					continue
				}
				root := fn
				for root.Parent() != nil {
					root = root.Parent()
				}
				allowed := containsFn(wrappers, root)
				if !allowed && root.Signature.Recv() != nil && core.TypeName(root.Signature.Recv().Type()) == "PortalProtocolAPI" {
					allowed = true
				}
				if allowed && containsFn(wrappers, root) {
					// in a wrapper the no-op permit may only be returned together with ok=false
					good := true
					for _, ret := range core.Returns(root) {
						if core.Unwrap(ret.Results[0]) == ssa.Value(al) {
							if bv, isC := core.ConstBool(ret.Results[1]); !isC || bv {
								good = false
							}
						}
					}
					allowed = good
				}
				r.Check(allowed, "R4.no-permit", core.FuncName(fn)+" constructs NoPermit", p.Pos(al.Pos()),
					"no-op permit constructed by an acquisition wrapper (with ok=false) or an operator RPC entry point", "a no-op permit is constructed on a metered path: the transfer runs without holding a slot")
			}
		}
	}
	errorsExamined(c, "R7.errors-examined", "transfer slots", []string{"portalwire"}, ".handleOffer", ".processOffer", ".offer", ".offerWorker", ".GossipAndReturnPeers", "(*portalwire.utpController).", "(*portalwire.ReleasePermit).")
}

func containsFn(fs []*ssa.Function, f *ssa.Function) bool {
	for _, x := range fs {
		if x == f {
			return true
		}
	}
	return false
}

func parentsOf(fn *ssa.Function) []*ssa.Function {
	var out []*ssa.Function
	for f := fn.Parent(); f != nil; f = f.Parent() {
		out = append(out, f)
	}
	return out
}

// flowsFromUnbounded: some value that can reach v (through phis / cells) is a context that is not
// one of the bounded ones: a parameter, a field, context.Background().
func flowsFromUnbounded(v ssa.Value, bounded map[ssa.Value]bool) bool {
	seen := map[ssa.Value]bool{}
	var rec func(v ssa.Value) bool
	rec = func(v ssa.Value) bool {
		if v == nil || seen[v] || bounded[v] {
			return false
		}
		seen[v] = true
		switch x := v.(type) {
		case *ssa.Phi:
			for _, e := range x.Edges {
				if rec(e) {
					return true
				}
			}
			return false
		case *ssa.UnOp:
			if a, ok := x.X.(*ssa.Alloc); ok {
				for _, rf := range *a.Referrers() {
					if st, ok := rf.(*ssa.Store); ok && st.Addr == ssa.Value(a) && rec(st.Val) {
						return true
					}
				}
				return false
			}
			if _, ok := x.X.(*ssa.FreeVar); ok {
				return false // resolved by FlowsFrom's same-block rule or rejected there
			}
			return true
		case *ssa.Const:
			return false
		case *ssa.ChangeInterface:
			return rec(x.X)
		case *ssa.MakeInterface:
			return rec(x.X)
		}
		return true
	}
	return rec(v)
}

// atomicOpName: the operation of a sync/atomic call, whatever the flavour: the method of a typed
// atomic ((*Bool).CompareAndSwap, (*Int32).Load) or the function on a plain integer
// (CompareAndSwapInt32, LoadUint32).
func atomicOpName(id string) string {
	op := id[strings.LastIndex(id, ".")+1:]
	for _, sfx := range []string{"Int32", "Int64", "Uint32", "Uint64", "Uintptr", "Pointer"} {
		op = strings.TrimSuffix(op, sfx)
	}
	return op
}

// flagPair reads (old, new) of a flag operation given as booleans or as the integers 0 / 1.
func flagPair(o, n ssa.Value) (bool, bool, bool) {
	rd := func(v ssa.Value) (bool, bool) {
		if v == nil {
			return false, true
		}
		if b, ok := core.ConstBool(v); ok {
			return b, true
		}
		if k, ok := core.ConstInt(v); ok && (k == 0 || k == 1) {
			return k == 1, true
		}
		return false, false
	}
	ob, ok1 := rd(o)
	nb, ok2 := rd(n)
	return ob, nb, ok1 && ok2
}
