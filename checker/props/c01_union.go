package props

import (
	"fmt"
	"go/token"
	"go/types"
	"sort"
	"strings"

	"golang.org/x/tools/go/ssa"

	"verifchk/core"
)

// c01TaggedUnion arms the invariant behind the triaged type assertions on OfferRequest.Request:
// "Kind and the concrete request type are set together at construction". Writers: every
// construction of the struct (stores to the tag and payload fields of one fresh object) gives a
// pair (constant tag, dynamic payload type). Readers: every unchecked assertion payload.(A) must
// be unreachable for every written tag whose payload type differs from A, given the comparisons
// of the tag on the path (switch / if on the tag field).
func c01TaggedUnion(c *Ctx, typeName, tagField, payloadField string) {
	p, r := c.P, c.R
	qual := func(pk *types.Package) string { return pk.Name() }
	// ---- writers
	type writer struct {
		tag int64
		typ types.Type
		pos token.Pos
		fn  *ssa.Function
	}
	var writers []writer
	for _, fn := range p.ModuleFuncs() {
		tagOf := map[ssa.Value]*ssa.Store{}
		payOf := map[ssa.Value]*ssa.Store{}
		for _, b := range fn.Blocks {
			for _, in := range b.Instrs {
				st, ok := in.(*ssa.Store)
				if !ok {
					continue
				}
				t, f, base, ok := core.FieldRef(st.Addr)
				if !ok || t != typeName {
					continue
				}
				switch f {
				case tagField:
					tagOf[base] = st
				case payloadField:
					payOf[base] = st
				}
			}
		}
		bases := map[ssa.Value]bool{}
		for b := range tagOf {
			bases[b] = true
		}
		for b := range payOf {
			bases[b] = true
		}
		for base := range bases {
			key := fmt.Sprintf("%s constructs %s", core.FuncName(fn), typeName)
			ps := payOf[base]
			if ps == nil {
				// a tag rewritten on an existing object: the pair can be torn apart
				r.Fail("R7.tagged-union", key+" tag-only-write", p.Pos(tagOf[base].Pos()), "the tag is written without the payload: tag and payload type can disagree")
				continue
			}
			var tag int64
			if ts := tagOf[base]; ts != nil {
				k, isC := core.ConstInt(ts.Val)
				if !isC {
					r.Fail("R7.tagged-union", key+" non-constant-tag", p.Pos(ts.Pos()), "the tag stored is not a constant: the tag/payload pairing cannot be decided")
					continue
				}
				tag = k
			} else if _, fresh := base.(*ssa.Alloc); !fresh {
				r.Fail("R7.tagged-union", key+" payload-only-write", p.Pos(ps.Pos()), "the payload of an existing object is replaced without its tag")
				continue
			}
			mi, ok := ps.Val.(*ssa.MakeInterface)
			if !ok {
				if core.IsNilConst(ps.Val) {
					continue
				}
				r.Fail("R7.tagged-union", key+" opaque-payload", p.Pos(ps.Pos()), "the payload stored is an interface value of unknown dynamic type")
				continue
			}
			writers = append(writers, writer{tag, mi.X.Type(), ps.Pos(), fn})
		}
	}
	sort.Slice(writers, func(i, j int) bool { return writers[i].pos < writers[j].pos })
	byTag := map[int64]types.Type{}
	for _, w := range writers {
		key := fmt.Sprintf("%s writes tag %d with %s", core.FuncName(w.fn), w.tag, types.TypeString(w.typ, qual))
		if prev, ok := byTag[w.tag]; ok && !types.Identical(prev, w.typ) {
			r.Fail("R7.tagged-union", key, p.Pos(w.pos), fmt.Sprintf("tag %d is also written with payload type %s", w.tag, types.TypeString(prev, qual)))
			continue
		}
		byTag[w.tag] = w.typ
		r.Pass("R7.tagged-union", key, p.Pos(w.pos), "constant tag paired with one payload type")
	}
	// ---- readers
	isTagLoad := func(v ssa.Value) bool { return core.IsLoadOfField(v, typeName, tagField) }
	var tags []int64
	for t := range byTag {
		tags = append(tags, t)
	}
	sort.Slice(tags, func(i, j int) bool { return tags[i] < tags[j] })
	nread := 0
	for _, fn := range p.ModuleFuncs() {
		for _, b := range fn.Blocks {
			for _, in := range b.Instrs {
				ta, ok := in.(*ssa.TypeAssert)
				if !ok || ta.CommaOk || !core.IsLoadOfField(ta.X, typeName, payloadField) {
					continue
				}
				nread++
				key := fmt.Sprintf("%s asserts %s", core.FuncName(fn), types.TypeString(ta.AssertedType, qual))
				bad := ""
				for _, tag := range tags {
					if types.Identical(byTag[tag], ta.AssertedType) {
						continue
					}
					tag := tag
					// edges incompatible with "tag field == tag" are removed
					incompatible := func(fs []core.Fact) bool {
						for _, f := range fs {
							var cst ssa.Value
							switch {
							case f.Op == token.ILLEGAL:
								continue
							case isTagLoad(f.X):
								cst = f.Y
							case isTagLoad(f.Y):
								cst = f.X
							default:
								continue
							}
							k, isC := core.ConstInt(cst)
							if !isC {
								continue
							}
							if (f.Op == token.EQL && k != tag) || (f.Op == token.NEQ && k == tag) {
								return true
							}
						}
						return false
					}
					tb := ta.Block()
					if tb == fn.Blocks[0] {
						bad = fmt.Sprintf("tag %d (payload %s) reaches it unconditionally", tag, types.TypeString(byTag[tag], qual))
						break
					}
					w := core.CutReach(core.CutSpec{Fn: fn,
						Cut:    func(b *ssa.BasicBlock, i int) bool { return incompatible(core.EdgeFacts(b, i)) },
						Target: func(prev, b *ssa.BasicBlock) bool { return b == tb }})
					if w != nil {
						bad = fmt.Sprintf("an object written with tag %d carries a %s but reaches this assertion: %s", tag, types.TypeString(byTag[tag], qual), p.PathString(w))
						break
					}
				}
				r.Check(bad == "", "R7.tagged-union", key, p.Pos(core.InstrPos(ta)), "reachable only for tags written with this payload type", bad)
			}
		}
	}
	r.Count("tagged_union_writers", len(writers))
	r.Count("tagged_union_assertions", nread)
}

// c01LockPairing: on peer-reachable code, every mutex acquired by a function is released on
// every exit of that function (deferred, or explicitly on each path). A leaked (read) lock does
// not crash the node, it wedges it: the next writer blocks forever, and with a writer pending
// every later reader does too - handler goroutines pile up and the content loop stops.
func c01LockPairing(c *Ctx, reach map[*ssa.Function]bool) {
	p, r := c.P, c.R
	acquire := map[string]string{
		"sync.(*Mutex).Lock":    "sync.(*Mutex).Unlock",
		"sync.(*RWMutex).Lock":  "sync.(*RWMutex).Unlock",
		"sync.(*RWMutex).RLock": "sync.(*RWMutex).RUnlock",
	}
	var fns []*ssa.Function
	for f := range reach {
		fns = append(fns, f)
	}
	sort.Slice(fns, func(i, j int) bool { return fns[i].String() < fns[j].String() })
	n := 0
	for _, fn := range fns {
		perFn := 0
		for _, b := range fn.Blocks {
			for _, in := range b.Instrs {
				call, ok := in.(*ssa.Call)
				if !ok {
					continue
				}
				rel, isAcq := acquire[core.CalleeID(call)]
				if !isAcq || len(call.Call.Args) != 1 {
					continue
				}
				mu := core.AccessPath(call.Call.Args[0])
				n++
				perFn++
				isRel := func(i2 ssa.Instruction) bool {
					ci, ok := i2.(ssa.CallInstruction)
					if !ok || core.CalleeID(ci) != rel || len(ci.Common().Args) != 1 {
						return false
					}
					return core.AccessPath(ci.Common().Args[0]) == mu
				}
				// a deferred release registered on every path from the acquisition to an exit counts
				// (MustPassAfter treats `defer X.Unlock()` like any other instruction on the path)
				w := core.MustPassAfter(call, isRel)
				key := fmt.Sprintf("%s %s #%d", core.FuncName(fn), strings.TrimPrefix(strings.TrimPrefix(core.CalleeID(call), "sync.(*"), ""), perFn)
				r.Check(w == nil, "R5.lock-pairing", key, p.Pos(call.Pos()), "released (or its release deferred) on every path to an exit", "this lock can still be held when the function returns: the next writer blocks forever and, with a writer pending, every later reader as well (handlers and the content loop wedge): "+p.PathString(w))
			}
		}
	}
	r.Count("lock_acquisitions_on_peer_reachable_code", n)
}
