package props

import (
	"fmt"
	"go/token"
	"go/types"
	"sort"
	"strings"

	"golang.org/x/tools/go/ssa"

	"verifchk/core"
)

func init() { Registry["C04"] = c04 }

func c04(c *Ctx) {
	p, r := c.P, c.R
	r.Technique = "ownership/escape analysis of pebble-owned buffers over go/ssa; sibling agreement of key derivation between Get and Put; must-pass-through (cut) check that every mutation follows the radius test"
	r.Explanation = "Decides the buffer-ownership, key-derivation and refused-put-is-a-no-op clauses: (R1) in every function of the module that obtains a buffer from pebble (DB.Get, Iterator.Key/Value) no alias of that buffer is returned, stored into a field/global or sent on a channel - what leaves must be a fresh copy (make+copy, append to empty, bytes/slices.Clone); (R2) in the radius store Get reads and Put writes under the result of the same key-derivation function applied to the content id parameter and the node id field, and Put writes the content parameter itself; (R3) every mutation in Put (usage counter, batch writes, commit) is reached only through the true edge of the radius test; (R4) the prune loop deletes only keys that compared unequal to the reserved size key; (R5) the hybrid history store dispatches Get and Put on the same predicate to the same backend; R6 Get returns only bytes read from the database under the derived key. Not decided: byte equality over put/get histories, aliasing of ids of unusual length, pebble's own correctness, reopen behaviour (C17)."
	r.Assumptions = []string{"pebble: the slice returned by DB.Get / Iterator.Key / Iterator.Value is valid only until closer.Close() / the next iterator move (documented contract)", "builtin copy/append, bytes.Clone, slices.Clone produce independent memory"}
	r.Floor("R1.buffer-escape", 8)
	r.Floor("R2.key-agreement", 3)
	r.Floor("R3.refused-put-noop", 3)
	r.Floor("R2.get-reads-db", 3)
	r.Floor("R3.accepted-put-writes", 2)
	r.Floor("R4.reserved-key", 4)
	r.Floor("R5.routing", 2)

	// ---- R1: every pebble buffer source in the module
	nsrc := 0
	for _, fn := range p.ModuleFuncs() {
		srcs := dbBufferSources(fn)
		perFn := map[string]int{}
		for _, src := range srcs {
			nsrc++
			al := aliasesOf(src)
			kind := "DB.Get"
			if call, ok := src.(*ssa.Call); ok {
				kind = shortID(core.CalleeID(call))
			}
			perFn[kind]++
			key := fmt.Sprintf("%s %s #%d", core.FuncName(fn), kind, perFn[kind])
			var escapes []string
			for _, b := range fn.Blocks {
				for _, in := range b.Instrs {
					switch x := in.(type) {
					case *ssa.Return:
						for _, res := range x.Results {
							if al[res] {
								escapes = append(escapes, "returned @"+p.Pos(core.InstrPos(x)))
							}
						}
					case *ssa.Store:
						if al[x.Val] {
							if !localAddr(x.Addr) {
								escapes = append(escapes, "stored outside the function's locals @"+p.Pos(x.Pos()))
							}
						}
					case *ssa.Send:
						if al[x.X] {
							escapes = append(escapes, "sent on a channel @"+p.Pos(x.Pos()))
						}
					case *ssa.MapUpdate:
						if al[x.Value] || al[x.Key] {
							escapes = append(escapes, "stored in a map @"+p.Pos(x.Pos()))
						}
					case *ssa.Call:
						// append(list-of-slices, buf) keeps the alias
						if core.CalleeID(x) == "builtin.append" {
							for _, e := range core.VariadicElems(x.Call.Args[1]) {
								if al[e] {
									escapes = append(escapes, "appended as an element @"+p.Pos(x.Pos()))
								}
							}
						}
					}
				}
			}
			if len(escapes) > 0 {
				r.Fail("R1.buffer-escape", key, p.Pos(core.InstrPos(src.(ssa.Instruction))), "a buffer owned by the database leaves the function without being copied (valid only until its closer is closed / the iterator moves): "+escapes[0])
			} else {
				r.Pass("R1.buffer-escape", key, p.Pos(core.InstrPos(src.(ssa.Instruction))), "no alias of the database buffer is returned, stored or sent")
			}
		}
	}
	r.Count("pebble_buffer_sources", nsrc)

	m, why := newStoreModel(c)
	if m == nil {
		r.Fail("R2.key-agreement", "radius-store", "-", why)
		return
	}
	// ---- R2
	contentId := m.put.Params[2]
	content := m.put.Params[3]
	keyOK := func(fn *ssa.Function, v ssa.Value, idParam *ssa.Parameter) bool {
		call, ok := core.Unwrap(v).(*ssa.Call) // seen through conversions to and from a named key type
		if !ok || core.StaticCalleeFn(call) != m.keyFn || len(call.Call.Args) < 2 {
			return false
		}
		a0 := call.Call.Args[0] == ssa.Value(idParam)
		a1 := core.Derives(call.Call.Args[1], func(x ssa.Value) bool { return m.isField(x, m.idFld) }, core.DeriveOpts{})
		return a0 && a1
	}
	for _, ci := range core.CallsTo(m.get, pebbleGet) {
		r.Check(keyOK(m.get, ci.Common().Args[1], m.get.Params[2]), "R2.key-agreement", core.FuncName(m.get)+" read-key", p.Pos(ci.Pos()),
			"reads under key("+m.get.Params[2].Name()+", node id)", "Get does not read under the key derived from the content id and the node id")
	}
	nItemSet := 0
	for _, ci := range core.CallsTo(m.put, batchSet) {
		args := ci.Common().Args // recv, key, value, opts
		if isSizeKey(args[1]) {
			continue
		}
		nItemSet++
		r.Check(keyOK(m.put, args[1], contentId), "R2.key-agreement", core.FuncName(m.put)+" write-key", p.Pos(ci.Pos()),
			"writes under the same key derivation as Get", "Put writes the item under a key that is not the one Get reads (different derivation or operands)")
		r.Check(args[2] == ssa.Value(content), "R2.key-agreement", core.FuncName(m.put)+" write-value", p.Pos(ci.Pos()),
			"the value written is the content parameter itself", "Put writes something other than the content it was given")
	}
	if nItemSet != 1 {
		r.Fail("R2.key-agreement", core.FuncName(m.put)+" item-writes", p.Pos(m.put.Pos()), fmt.Sprintf("expected exactly one item write in Put, found %d", nItemSet))
	}
	// R6: what Get returns
	for _, ret := range core.Returns(m.get) {
		v := core.ResolveSpill(ret.Results[0])
		if core.IsNilConst(v) {
			continue
		}
		srcs := dbBufferSources(m.get)
		isSrc := func(x ssa.Value) bool {
			for _, s := range srcs {
				if aliasesOf(s)[x] {
					return true
				}
			}
			return false
		}
		ok := copiedFrom(v, isSrc) || isSrc(v)
		r.Check(ok, "R2.key-agreement", core.FuncName(m.get)+" returns-db-bytes", p.Pos(core.InstrPos(ret)),
			"a non-nil result is (a copy of) what the database returned for the derived key", "Get can return bytes that do not come from the database read")
	}

	// ---- R7: Get consults the database for every id: every exit passes the database read (no
	// short-cut that answers from the radius or another condition)
	{
		reads := core.CallsTo(m.get, pebbleGet)
		if len(reads) != 1 {
			r.Fail("R2.get-reads-db", core.FuncName(m.get), p.Pos(m.get.Pos()), fmt.Sprintf("expected one database read in Get, found %d", len(reads)))
		} else {
			for i, ret := range core.Returns(m.get) {
				w := core.MustPassBefore(ret, func(in ssa.Instruction) bool { return in == reads[0].(ssa.Instruction) })
				r.Check(w == nil, "R2.get-reads-db", fmt.Sprintf("%s exit #%d", core.FuncName(m.get), i+1), p.Pos(core.InstrPos(ret)),
					"this exit is reached only after the database was read", "Get can answer without reading the database (an accepted, un-pruned item can be reported as not found): "+p.PathString(w))
			}
			// not-found is reported only on the database's own not-found
			for _, ret := range core.Returns(m.get) {
				ev := core.ResolveSpill(ret.Results[1])
				u, ok := ev.(*ssa.UnOp)
				if !ok {
					continue
				}
				g, ok := u.X.(*ssa.Global)
				if !ok || g.Name() != "ErrContentNotFound" {
					continue
				}
				nf := core.AnyFact(func(f core.Fact) bool {
					if f.Op != token.ILLEGAL || !f.Truth {
						return false
					}
					cc, ok := f.V.(*ssa.Call)
					return ok && core.CalleeID(cc) == "errors.Is" && core.Derives(cc.Call.Args[0], func(v ssa.Value) bool {
						ex, ok := v.(*ssa.Extract)
						return ok && ex.Tuple == reads[0].Value()
					}, core.DeriveOpts{})
				})
				w := core.InstrGuarded(ret, nf, nil)
				r.Check(w == nil, "R2.get-reads-db", core.FuncName(m.get)+" not-found-only-from-db", p.Pos(core.InstrPos(ret)), "ErrContentNotFound only when the database read returned its not-found error", "Get can report not-found for an id the database holds: "+p.PathString(w))
			}
		}
	}

	// ---- R3: mutations in Put only after the radius test succeeded
	var radiusCall *ssa.Call
	core.Calls(m.put, func(ci ssa.CallInstruction) {
		if c2, ok := ci.(*ssa.Call); ok && ((!m.inlineTest && core.StaticCalleeFn(ci) == m.inRadius) || (m.inlineTest && m.radiusCmpCall(c2))) {
			radiusCall = c2
		}
	})
	if radiusCall == nil {
		r.Fail("R3.refused-put-noop", core.FuncName(m.put), p.Pos(m.put.Pos()), "Put no longer calls the radius test")
	} else {
		gate := core.Gate{Name: "inRadius", Edge: m.radiusGate(true)}
		nm := 0
		core.Calls(m.put, func(ci ssa.CallInstruction) {
			id := core.CalleeID(ci)
			isMut := id == batchSet || id == batchCommit || id == batchDelete || id == pebbleDBSet || id == pebbleDBDelete ||
				(len(ci.Common().Args) > 0 && m.isField(ci.Common().Args[0], m.sizeFld) && (id == atomicU64+"Add" || id == atomicU64+"Store")) ||
				core.StaticCalleeFn(ci) == m.prune
			if !isMut {
				return
			}
			nm++
			w := core.InstrGuarded(ci, gate.Edge, nil)
			r.Check(w == nil, "R3.refused-put-noop", fmt.Sprintf("%s %s #%d", core.FuncName(m.put), shortID(id), nm), p.Pos(ci.Pos()),
				"reached only through the true edge of the radius test", "a refused put can change the store: this mutation is reachable without the radius test having succeeded: "+p.PathString(w))
		})
		// arguments of the radius test: the same derived key
		testArg := radiusCall.Call.Args[len(radiusCall.Call.Args)-1]
		if m.inlineTest {
			// the comparison's non-radius operand is a number decoded from the key: find the decode
			testArg = nil
			for _, a := range radiusCall.Call.Args {
				core.Calls(m.put, func(ci ssa.CallInstruction) {
					id := core.CalleeID(ci)
					if strings.HasPrefix(id, u256Pfx) && (u256BE[strings.TrimPrefix(id, u256Pfx)] || u256LE[strings.TrimPrefix(id, u256Pfx)]) && len(ci.Common().Args) == 2 {
						if core.SameValue(core.Unwrap(ci.Common().Args[0]), core.Unwrap(a)) || ci.Value() != nil && core.SameValue(ci.Value(), core.Unwrap(a)) {
							testArg = ci.Common().Args[1]
						}
					}
				})
			}
		}
		okArg := testArg != nil && keyOK(m.put, testArg, contentId)
		r.Check(okArg, "R3.refused-put-noop", core.FuncName(m.put)+" radius-test-operand", p.Pos(radiusCall.Pos()), "the radius test is applied to the key that is written", "the radius test is applied to something other than the key that is written")
	}

	// ---- R3b: an accepted put really writes: every success exit of Put passes the item write and a successful commit
	{
		var itemSet ssa.CallInstruction
		for _, ci := range core.CallsTo(m.put, batchSet) {
			if !isSizeKey(ci.Common().Args[1]) {
				itemSet = ci
			}
		}
		commits := core.CallsTo(m.put, batchCommit)
		if itemSet == nil || len(commits) == 0 {
			r.Fail("R3.accepted-put-writes", core.FuncName(m.put), p.Pos(m.put.Pos()), "Put has no item write / commit")
		} else {
			commit := func(c2 *ssa.Call) bool {
				for _, cm := range commits {
					if ssa.Instruction(c2) == ssa.Instruction(cm.(*ssa.Call)) {
						return true
					}
				}
				return false
			}
			g := core.ErrNilGate("commit", commit)
			w := core.AllSuccessPass(m.put, g, nil)
			r.Check(w == nil, "R3.accepted-put-writes", core.FuncName(m.put)+" success-implies-commit", p.Pos(m.put.Pos()),
				"every nil return passed a successful batch commit", "Put can report success without having committed anything (an accepted put that is silently dropped): "+p.PathString(w))
			for _, cm := range commits {
				w2 := core.MustPassBefore(cm, func(in ssa.Instruction) bool { return in == ssa.Instruction(itemSet) })
				r.Check(w2 == nil, "R3.accepted-put-writes", core.FuncName(m.put)+" commit-includes-item", p.Pos(cm.Pos()),
					"the commit is reached only after the item was added to the batch", "the batch can be committed without the item: "+p.PathString(w2))
			}
		}
	}

	// ---- R4b: the only keys the store ever writes are item keys (the derived key Put was given /
	// keys met while iterating) and the one reserved size key, which lies at distance 0 = the node's
	// own id (the id the property exempts). Any other fixed key is a record living inside the
	// content keyspace: Get of the id that maps to it returns bytes nobody put under that id.
	{
		nw := 0
		for _, fn := range p.ModuleFuncs() {
			if fn.Pkg == nil || fn.Pkg != m.ctor.Pkg {
				if fn.Parent() == nil || fn.Parent().Pkg != m.ctor.Pkg {
					continue
				}
			}
			core.Calls(fn, func(ci ssa.CallInstruction) {
				id := core.CalleeID(ci)
				if id != batchSet && id != pebbleDBSet {
					return
				}
				key := ci.Common().Args[1]
				nw++
				okKey := isSizeKey(key) || isIterKey(key)
				if !okKey {
					if call, ok := core.Unwrap(key).(*ssa.Call); ok && core.StaticCalleeFn(call) == m.keyFn {
						okKey = true
					}
				}
				if !okKey {
					// a key handed in by a caller that derived it
					if pa, ok := core.Unwrap(key).(*ssa.Parameter); ok && pa.Parent() == fn && fn != m.put {
						okKey = true
					}
				}
				r.Check(okKey, "R4.reserved-key", fmt.Sprintf("%s writes-key #%d", core.FuncName(fn), nw), p.Pos(ci.Pos()),
					"written under a derived item key or the reserved size key", "the store writes a record under a fixed key that is neither an item key nor the size record: it sits inside the content keyspace, and Get of the content id that maps to it returns bytes that were never put under that id")
			})
		}
	}
	// ---- R4 reserved key
	for i, ci := range core.CallsTo(m.prune, batchDelete) {
		notReserved := core.AnyFact(func(f core.Fact) bool {
			if f.Op != token.ILLEGAL || f.Truth {
				return false
			}
			call, ok := f.V.(*ssa.Call)
			if !ok || core.CalleeID(call) != "bytes.Equal" {
				return false
			}
			a, b := core.Unwrap(call.Call.Args[0]), core.Unwrap(call.Call.Args[1])
			return (isSizeKey(a) && isIterKey(b)) || (isSizeKey(b) && isIterKey(a))
		})
		w := core.InstrGuarded(ci, notReserved, nil)
		r.Check(w == nil, "R4.reserved-key", fmt.Sprintf("%s delete #%d", core.FuncName(m.prune), i+1), p.Pos(ci.Pos()),
			"delete only after the key compared unequal to the reserved size key", "pruning can delete the reserved size record: "+p.PathString(w))
	}

	// ---- R5 routing agreement of hybrid stores: Get and Put branch on the same predicate to the same backend field
	for _, nt := range contentStores(p) {
		g, pu := methodOf(p, nt, "Get"), methodOf(p, nt, "Put")
		if g == nil || pu == nil {
			continue
		}
		gr, okg := routing(g)
		pr, okp := routing(pu)
		if !okg && !okp {
			continue
		}
		name := core.FuncName(g)
		if okg != okp {
			r.Fail("R5.routing", name+" vs Put", p.Pos(g.Pos()), "only one of Get/Put routes between backends")
			continue
		}
		r.Check(gr.pred == pr.pred, "R5.routing", name+" predicate", p.Pos(g.Pos()), "Get and Put dispatch on the same predicate "+gr.pred, "Get dispatches on "+gr.pred+" but Put on "+pr.pred)
		r.Check(gr.thenField == pr.thenField && gr.elseField == pr.elseField && gr.thenField != gr.elseField, "R5.routing", name+" backends", p.Pos(g.Pos()),
			fmt.Sprintf("true→%s false→%s in both", gr.thenField, gr.elseField), fmt.Sprintf("Get routes true→%s/false→%s but Put true→%s/false→%s", gr.thenField, gr.elseField, pr.thenField, pr.elseField))
	}
	errorsExamined(c, "R5.errors-examined", "content store", []string{"storage/pebble"}, "(*storage/pebble.ContentStorage).", "storage/pebble.NewStorage")
	keyFnLeavesArgumentsAlone(c, m, "R2.key-agreement")
}

type route struct{ pred, thenField, elseField string }

// routing recognises a dispatch between two backend fields: every block that calls a method on a
// backend field is described by the (canonically rendered) branch conditions that dominate it.
// `if pred(key) { return s.a.M(..) } else { return s.b.M(..) }` and the same test written out
// (`len(key) > 0 && T(key[0]) == K`) in Get and in Put give equal descriptions.
func routing(fn *ssa.Function) (route, bool) {
	if len(fn.Blocks) == 0 {
		return route{}, false
	}
	type hit struct {
		field string
		cond  string
	}
	var hits []hit
	for _, b := range fn.Blocks {
		for _, in := range b.Instrs {
			c, ok := in.(*ssa.Call)
			if !ok {
				continue
			}
			var recv ssa.Value
			if c.Call.IsInvoke() {
				recv = c.Call.Value
			} else if core.StaticCalleeFn(c) != nil && len(c.Call.Args) > 0 {
				recv = c.Call.Args[0]
			}
			if recv == nil {
				continue
			}
			_, f, ok := core.LoadedField(recv)
			if !ok {
				// the backend chosen first and called once: recv = phi(backend A, backend B), the
				// shape a "pick the backend" helper leaves when it is written out. Each incoming
				// edge is one route, under the facts that hold on that edge
				if ph, isPhi := core.Unwrap(recv).(*ssa.Phi); isPhi && len(ph.Edges) == 2 && c.Call.IsInvoke() && (c.Call.Method.Name() == "Get" || c.Call.Method.Name() == "Put") {
					var hs []hit
					for ei, e := range ph.Edges {
						ev := core.Unwrap(e)
						_, ef, okE := core.LoadedField(ev)
						if !okE {
							break
						}
						if base, isP := fieldBase(ev).(*ssa.Parameter); !isP || base != fn.Params[0] {
							break
						}
						pred := ph.Block().Preds[ei]
						var fs []string
						for _, fc := range core.DomFacts(pred) {
							fs = append(fs, canonFact(fn, fc))
						}
						for si, sb := range pred.Succs {
							if sb == ph.Block() {
								for _, fc := range core.EdgeFacts(pred, si) {
									fs = append(fs, canonFact(fn, fc))
								}
							}
						}
						sort.Strings(fs)
						hs = append(hs, hit{ef, strings.Join(fs, " & ")})
					}
					if len(hs) == 2 {
						hits = append(hits, hs...)
					}
				}
				continue
			}
			if base, isP := fieldBase(recv).(*ssa.Parameter); !isP || base != fn.Params[0] {
				continue
			}
			// a backend is itself a store: its type has Get and Put
			ms := types.NewMethodSet(recv.Type())
			hasGet, hasPut := false, false
			for i := 0; i < ms.Len(); i++ {
				switch ms.At(i).Obj().Name() {
				case "Get":
					hasGet = true
				case "Put":
					hasPut = true
				}
			}
			if !hasGet || !hasPut {
				continue
			}
			var fs []string
			for _, fc := range core.DomFacts(b) {
				fs = append(fs, canonFact(fn, fc))
			}
			sort.Strings(fs)
			hits = append(hits, hit{f, strings.Join(fs, " & ")})
		}
	}
	if len(hits) != 2 || hits[0].field == hits[1].field {
		return route{}, false
	}
	// order: the branch with the positive (shorter / non-negated) description first is arbitrary;
	// render the pair sorted by field name so that Get and Put compare equal
	if hits[0].field > hits[1].field {
		hits[0], hits[1] = hits[1], hits[0]
	}
	return route{pred: hits[0].field + " iff [" + hits[0].cond + "], " + hits[1].field + " iff [" + hits[1].cond + "]", thenField: hits[0].field, elseField: hits[1].field}, true
}

func fieldBase(v ssa.Value) ssa.Value {
	if u, ok := v.(*ssa.UnOp); ok {
		v = u.X
	}
	if _, _, base, ok := core.FieldRef(v); ok {
		return base
	}
	return nil
}

// canonFact renders a fact with parameters named by index, so that two sibling functions
// testing the same thing about their own parameters give the same text.
func canonFact(fn *ssa.Function, f core.Fact) string {
	if f.Op == token.ILLEGAL {
		if f.Truth {
			return canonVal(fn, f.V, 0)
		}
		return "!" + canonVal(fn, f.V, 0)
	}
	return canonVal(fn, f.X, 0) + " " + f.Op.String() + " " + canonVal(fn, f.Y, 0)
}

func canonVal(fn *ssa.Function, v ssa.Value, d int) string {
	if v == nil || d > 8 {
		return "?"
	}
	switch x := v.(type) {
	case *ssa.Parameter:
		for i, pa := range fn.Params {
			if pa == x {
				return fmt.Sprintf("P%d", i)
			}
		}
	case *ssa.Const:
		if x.Value == nil {
			return "nil"
		}
		return x.Value.String()
	case *ssa.Global:
		return x.Name()
	case *ssa.UnOp:
		if x.Op == token.MUL {
			return "*" + canonVal(fn, x.X, d+1)
		}
		return x.Op.String() + canonVal(fn, x.X, d+1)
	case *ssa.IndexAddr:
		return canonVal(fn, x.X, d+1) + "[" + canonVal(fn, x.Index, d+1) + "]"
	case *ssa.Index:
		return canonVal(fn, x.X, d+1) + "[" + canonVal(fn, x.Index, d+1) + "]"
	case *ssa.FieldAddr:
		_, f, _, _ := core.FieldRef(x)
		return canonVal(fn, x.X, d+1) + "." + f
	case *ssa.Convert:
		return canonVal(fn, x.X, d+1)
	case *ssa.ChangeType:
		return canonVal(fn, x.X, d+1)
	case *ssa.BinOp:
		return "(" + canonVal(fn, x.X, d+1) + x.Op.String() + canonVal(fn, x.Y, d+1) + ")"
	case *ssa.Call:
		id := core.CalleeID(x)
		var as []string
		for _, a := range x.Call.Args {
			as = append(as, canonVal(fn, a, d+1))
		}
		return id + "(" + strings.Join(as, ",") + ")"
	}
	return fmt.Sprintf("%T", v)
}

func isSizeKey(v ssa.Value) bool {
	return core.Derives(v, func(x ssa.Value) bool {
		g, ok := x.(*ssa.Global)
		return ok && g.Name() == "SizeKey"
	}, core.DeriveOpts{})
}

func isIterKey(v ssa.Value) bool {
	c, ok := v.(*ssa.Call)
	return ok && core.CalleeID(c) == iterKey
}

// localAddr: the address is (an element/field of) a cell allocated in this function that is
// used as a scratch value (variadic argument arrays, local variables).
func localAddr(a ssa.Value) bool {
	for i := 0; i < 4; i++ {
		switch x := a.(type) {
		case *ssa.Alloc:
			return true
		case *ssa.IndexAddr:
			a = x.X
		case *ssa.FieldAddr:
			a = x.X
		default:
			return false
		}
	}
	return false
}
